(* LineReader: the line reader of dnsdata/parser.go  parse()  that every compiler
   (CDB, RocksDB builder, RocksDB batches) gets its lines from:
     scanner := bufio.NewScanner(r); scanner.Split(bufio.ScanLines)
     for scanner.Scan() {
         line := bytes.TrimLeft(scanner.Bytes(), " ")
         if len(line) < 2 || bytes.HasPrefix(line, []byte("#")) { continue }
         ... the line goes to a worker, which calls the codec on it
   bufio.ScanLines: tokens end at '\n' (10), ONE trailing '\r' (13) of a token is
   dropped, a last token without newline is delivered if it is not empty.
   Only leading BLANKS (32) are removed: a TAB or any other white space in front,
   and every trailing byte, reaches the codec.
   The scanner's token limit: bufio.NewScanner without a Buffer call keeps
   bufio.MaxScanTokenSize = 64 * 1024 (a constant of the Go standard library, trusted
   base; parser.go does not set it).  Scan grows its buffer up to that size; when the
   buffer is full and ScanLines has found no newline in it, Scan stops with
   bufio.ErrTooLong.  A line is therefore accepted iff its bytes (a trailing CR
   included, the newline not) number at most 65535, also the last line without
   newline (a full buffer is an error before the end of the file is seen): reader_overflow.
   After the loop parse() returns scanner.Err(), so the compilation fails: E_READER.
   (Which of E_CONV / E_READER is reported when an earlier line is also rejected by the
   codec is not distinguished: the reader error is reported.)
   Not modelled: an error of the io.Reader itself (same path: scanner.Err()).
   No proofs here. *)
From DnsV Require Export Model.Compile.
Open Scope N_scope.

(* dropCR on a token held in reverse *)
Definition drop_cr_rev (cur : bytes) : bytes :=
  match cur with 13 :: c => rev c | _ => rev cur end.

(* cur: the bytes of the current token, last byte first *)
Fixpoint scan_lines_from (data cur : bytes) : list bytes :=
  match data with
  | [] => match cur with [] => [] | _ => [drop_cr_rev cur] end
  | b :: r => if b =? 10 then drop_cr_rev cur :: scan_lines_from r [] else scan_lines_from r (b :: cur)
  end.
Definition scan_lines (data : bytes) : list bytes := scan_lines_from data [].

(* bytes.TrimLeft(line, " ") *)
Fixpoint trim_left_blanks (l : bytes) : bytes :=
  match l with c :: t => if c =? 32 then trim_left_blanks t else l | [] => [] end.

(* !(len(line) < 2 || HasPrefix(line, "#")) *)
Definition line_kept (l : bytes) : bool :=
  match l with
  | c :: _ :: _ => negb (c =? 35)
  | _ => false
  end.

(* bufio.MaxScanTokenSize *)
Definition max_scan_token_size : N := 65536.
Definition E_READER : N := 23.      (* scanner.Err(): bufio.ErrTooLong *)

(* n: bytes of the current token seen so far; true when a token reaches the buffer size
   without a newline *)
Fixpoint reader_overflow (data : bytes) (n : N) : bool :=
  match data with
  | [] => false
  | b :: r => if b =? 10 then reader_overflow r 0
              else if n + 1 =? max_scan_token_size then true
              else reader_overflow r (n + 1)
  end.
Definition reader_fails (data : bytes) : bool := reader_overflow data 0.

(* the lines handed to the codec, in file order (when the reader does not fail) *)
Definition read_file (data : bytes) : list bytes :=
  filter line_kept (map trim_left_blanks (scan_lines data)).

(* ---------------------------------------------------------------- the compilers on the bytes of a data file *)

Section OnFiles.
  Variable conv : bytes -> result (list kv).      (* Codec.ConvertLn on a line as read_file delivers it *)
  Variable accum : list bytes -> list kv.
  Variable feature : list kv.
  Variable sort : list kv -> list kv.

  Definition file_records (data : bytes) : list kv := records bytes conv accum feature (read_file data).
  Definition compile_file_builder (min_size : N) (nb : nat) (data : bytes) (stream : list kv) : result store :=
    if reader_fails data then Err E_READER
    else compile_builder bytes conv sort min_size nb (read_file data) stream.
  Definition compile_file_batches (data : bytes) (order : list (list kv)) : result store :=
    if reader_fails data then Err E_READER
    else compile_batches bytes conv sort (read_file data) order.
  Definition compile_file_cdb (data : bytes) (stream : list kv) : result (list kv) :=
    if reader_fails data then Err E_READER
    else compile_cdb bytes conv (read_file data) stream.
End OnFiles.
