(* LineReader: the line reader of dnsdata/parser.go  parse()  that every compiler
   (CDB, RocksDB builder, RocksDB batches) gets its lines from:
     scanner := bufio.NewScanner(r); scanner.Split(bufio.ScanLines)
     for scanner.Scan() {
         line := bytes.TrimLeft(scanner.Bytes(), " ")
         if len(line) < 2 || bytes.HasPrefix(line, []byte("#")) { continue }
         ... the line goes to a worker, which calls the codec on it
   bufio.ScanLines: tokens end at '\n' (10), ONE trailing '\r' (13) of a token is
   dropped, a last token without newline is delivered if it is not empty.
   Only leading BLANKS (32) are removed: a TAB or any other white space in front,
   and every trailing byte, reaches the codec.
   Not modelled: the scanner's token limit (a line longer than 64 KiB ends the
   scan with bufio.ErrTooLong, the compilation then fails).  No proofs here. *)
From DnsV Require Export Model.Compile.
Open Scope N_scope.

(* dropCR on a token held in reverse *)
Definition drop_cr_rev (cur : bytes) : bytes :=
  match cur with 13 :: c => rev c | _ => rev cur end.

(* cur: the bytes of the current token, last byte first *)
Fixpoint scan_lines_from (data cur : bytes) : list bytes :=
  match data with
  | [] => match cur with [] => [] | _ => [drop_cr_rev cur] end
  | b :: r => if b =? 10 then drop_cr_rev cur :: scan_lines_from r [] else scan_lines_from r (b :: cur)
  end.
Definition scan_lines (data : bytes) : list bytes := scan_lines_from data [].

(* bytes.TrimLeft(line, " ") *)
Fixpoint trim_left_blanks (l : bytes) : bytes :=
  match l with c :: t => if c =? 32 then trim_left_blanks t else l | [] => [] end.

(* !(len(line) < 2 || HasPrefix(line, "#")) *)
Definition line_kept (l : bytes) : bool :=
  match l with
  | c :: _ :: _ => negb (c =? 35)
  | _ => false
  end.

(* the lines handed to the codec, in file order *)
Definition read_file (data : bytes) : list bytes :=
  filter line_kept (map trim_left_blanks (scan_lines data)).

(* ---------------------------------------------------------------- the compilers on the bytes of a data file *)

Section OnFiles.
  Variable conv : bytes -> result (list kv).      (* Codec.ConvertLn on a line as read_file delivers it *)
  Variable accum : list bytes -> list kv.
  Variable feature : list kv.
  Variable sort : list kv -> list kv.

  Definition file_records (data : bytes) : list kv := records bytes conv accum feature (read_file data).
  Definition compile_file_builder (min_size : N) (nb : nat) (data : bytes) (stream : list kv) : result store :=
    compile_builder bytes conv sort min_size nb (read_file data) stream.
  Definition compile_file_batches (data : bytes) (order : list (list kv)) : result store :=
    compile_batches bytes conv sort (read_file data) order.
  Definition compile_file_cdb (data : bytes) (stream : list kv) : result (list kv) :=
    compile_cdb bytes conv (read_file data) stream.
End OnFiles.
