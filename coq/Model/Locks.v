(* Model/Locks: who runs what, and the lockset condition over the generated table
   Gen/Access.v.  Hand-written and short; no proofs here (Proofs/Locks.v).

   ROLES.  A role is a kind of goroutine of the serving process.
     Init          runs before the servers are started and before any reload signal can be
                   produced: constructors called from fbserver.NewServer / main, FBDNSDB.Load,
                   FBDNSDB.ValidateDbKey (only call site: cmd/dnsrocks before srv.Start).
                   Init happens-before everything and overlaps nothing, not even itself.
                   ASSUMPTION (not enforced by the code): NewFBDNSDB starts the consumer of
                   ReloadChan and the PeriodicDBReload ticker before Load is called; we assume
                   Load returns before the first tick (ReloadInterval is in seconds).
     QueryWorker   one per in-flight query (ServeDNS...), any number n: overlaps itself.
     Reloader      the goroutine ranging over ReloadChan (NewFBDNSDB.func1) running
                   FBDNSDB.Reload / db.DB.Reload.
     ReloadHelper  the goroutine started by db.DB.Reload (func1) running dbi.Reload (open a new
                   backend or RDB.CatchWithPrimary); after a reload timeout it is still running
                   while the next Reload starts another one: overlaps itself and Reloader.
     StatsReporter fbserver DumpBackendStats / LogMapAge tickers and the metrics exporter
                   (ReportBackendStats, Stats.Get).
     Watcher       WatchDBAndReload, WatchControlDirAndReload, PeriodicDBReload goroutines.
     Shutdown      FBDNSDB.Close (called once).
     WindowCleaner the cleaner goroutine of one sliding window.
     Offline       compiler / updater tools (RDB.Add, Del, ExecuteBatch, NewRDB ...): not part of
                   the serving process; overlaps only itself.
     AnyGo         default for an access to a PACKAGE-LEVEL variable by a function outside
                   role_map: any goroutine after package initialisation; overlaps everything
                   but Init.  Package initialisation (<pkg>.init) has role Init.
     Unknown       a function that is MISSING from role_map.  It overlaps everything (also
                   Init) and C14_roles_total fails, so new code cannot slip through.
   A function may run in several roles (db.NewReader is called by query workers, by the
   reloader through ValidateDbKey and by the map-age reporter).

   FRESH accesses (a_fresh, computed by gotab): the object was allocated in the same function
   (composite literal, new(T)) and is published later, or a captured local is accessed before
   the go statement.  They are ordered before every other access to that object by the
   publication itself; they never count as concurrent.  Fields that are immutable after
   construction need no list here: all their writes are fresh or Init, which the table shows.

   EXCEPTIONS (lock-free by design, each named and justified; kept minimal):
     rdb.Context.*   the per-request lookup cache.  A Context is created by
                     rdbdriver.NewContext inside db.NewReader for ONE DataReader, the reader is
                     used by the goroutine that acquired it and dropped in Close; cdbdriver
                     hands its contexts out through a sync.Pool (one owner at a time).  The
                     object is goroutine-confined, so accesses from different workers are to
                     different objects.  (IsV2KeySyntaxUsed creates its own.)
   Nothing else is excepted; in particular IteratorPool.enabled and FBDNSDB.dbConfig.Path are
   NOT (see finding_class). *)
From Coq Require Import List String NArith Bool.
From DnsV Require Import Model.AccessTypes.
Import ListNotations.
Open Scope string_scope.
Open Scope list_scope.

Inductive role := Init | QueryWorker | Reloader | ReloadHelper | StatsReporter | Watcher
                | Shutdown | WindowCleaner | Offline | AnyGo | Unknown.

(* reader methods: query workers, the reloader (DB.ValidateDbKey) and the map-age reporter *)
Definition R_READER := [QueryWorker; Reloader; StatsReporter].
(* backend lookups reached through a reader; also at start-up (IsV2KeySyntaxUsed in openRDB) *)
Definition R_LOOKUP := [QueryWorker; Reloader; StatsReporter; ReloadHelper].
(* closing a backend: whoever drops the last reference *)
Definition R_CLOSE := [QueryWorker; Reloader; StatsReporter; ReloadHelper; Shutdown].
(* opening a backend *)
Definition R_OPEN := [Init; ReloadHelper].
Definition R_EVERY := [QueryWorker; Reloader; ReloadHelper; StatsReporter; Watcher; Shutdown; WindowCleaner].

Definition role_map : list (string * list role) := [
  (* dnsserver *)
  ("dnsserver.NewFBDNSDBBasic", [Init]);
  ("dnsserver.NewFBDNSDB", [Init]);
  ("dnsserver.NewFBDNSDB.func1", [Reloader]);
  ("dnsserver.FBDNSDB.Load", [Init]);
  ("dnsserver.FBDNSDB.ValidateDbKey", [Init]);
  ("dnsserver.FBDNSDB.Name", [Init; QueryWorker]);
  ("dnsserver.FBDNSDB.ServeDNS", [QueryWorker]);
  ("dnsserver.FBDNSDB.ServeDNSWithRCODE", [QueryWorker]);
  ("dnsserver.FBDNSDB.QuerySingle", [QueryWorker]);
  ("dnsserver.FBDNSDB.writeAndLog", [QueryWorker]);
  ("dnsserver.FBDNSDB.AcquireReader", [QueryWorker; StatsReporter]);
  ("dnsserver.FBDNSDB.Reload", [Reloader]);
  ("dnsserver.FBDNSDB.cleanupSignalFile", [Reloader]);
  ("dnsserver.FBDNSDB.ReportBackendStats", [StatsReporter]);
  ("dnsserver.FBDNSDB.Close", [Shutdown]);
  ("dnsserver.FBDNSDB.PeriodicDBReload", [Watcher]);
  ("dnsserver.FBDNSDB.WatchDBAndReload", [Watcher]);
  ("dnsserver.FBDNSDB.watchDBAndReload", [Watcher]);
  ("dnsserver.FBDNSDB.WatchControlDirAndReload", [Watcher]);
  ("dnsserver.FBDNSDB.watchControlDirAndReload", [Watcher]);
  ("fbserver.Server.ReloadDB", [Watcher]);            (* SIGHUP goroutine: sends on ReloadChan *)
  (* db *)
  ("db.Open", [Init]);
  ("db.NewReader", R_READER ++ [Init]);
  ("db.NewRand", [Init]);
  ("db.lockedSource.Int63", [QueryWorker]);
  ("db.lockedSource.Seed", [Init]);
  ("db.DB.Destroy", [Reloader; Shutdown]);
  ("db.DB.Reload", [Reloader]);
  ("db.DB.Reload.func1", [ReloadHelper]);
  ("db.DB.ValidateDbKey", [Reloader; Init]);
  ("db.DB.validateDbKeyOrDestroy", [Reloader]);
  ("db.DB.GetStats", [StatsReporter]);
  ("db.DataReader.Close", R_READER ++ [Init]);
  ("db.DataReader.Data", R_READER);
  ("db.DataReader.EcsLocation", R_READER);
  ("db.DataReader.Find", R_READER);
  ("db.DataReader.FindAnswer", R_READER);
  ("db.DataReader.FindLocation", R_READER);
  ("db.DataReader.ForEach", R_READER ++ [Init]);
  ("db.DataReader.ForEachResourceRecord", R_READER);
  ("db.DataReader.IsAuthoritative", R_READER);
  ("db.DataReader.ResolverLocation", R_READER);
  ("db.DataReader.findLocation", R_READER);
  ("db.sortedDataReader.FindAnswer", R_READER);
  ("db.sortedDataReader.ForEachResourceRecord", R_READER);
  ("db.sortedDataReader.IsAuthoritative", R_READER);
  ("db.sortedDataReader.TryForEach", R_READER);
  ("db.sortedDataReader.find", R_READER);
  ("db.openCDB", R_OPEN);
  ("db.cdbdriver.Close", R_CLOSE);
  ("db.cdbdriver.ClosestKeyFinder", R_READER ++ [Init]);
  ("db.cdbdriver.Find", R_LOOKUP);
  ("db.cdbdriver.FindMap", R_LOOKUP);
  ("db.cdbdriver.FindNext", R_LOOKUP ++ [Init]);
  ("db.cdbdriver.FindStart", R_LOOKUP ++ [Init]);
  ("db.cdbdriver.ForEach", R_LOOKUP ++ [Init]);
  ("db.cdbdriver.FreeContext", R_READER ++ [Init]);
  ("db.cdbdriver.GetLocationByMap", R_LOOKUP);
  ("db.cdbdriver.GetStats", [StatsReporter]);
  ("db.cdbdriver.NewContext", R_READER ++ [Init]);
  ("db.cdbdriver.Reload", [ReloadHelper]);
  ("db.openRDB", R_OPEN);
  ("db.rdbdriver.Close", R_CLOSE);
  ("db.rdbdriver.ClosestKeyFinder", R_READER ++ [Init]);
  ("db.rdbdriver.Find", R_LOOKUP);
  ("db.rdbdriver.FindClosestKey", R_LOOKUP);
  ("db.rdbdriver.FindMap", R_LOOKUP);
  ("db.rdbdriver.ForEach", R_LOOKUP ++ [Init]);
  ("db.rdbdriver.FreeContext", R_READER ++ [Init]);
  ("db.rdbdriver.GetLocationByMap", R_LOOKUP);
  ("db.rdbdriver.GetStats", [StatsReporter]);
  ("db.rdbdriver.NewContext", R_READER ++ [Init]);
  ("db.rdbdriver.Reload", [ReloadHelper]);
  ("db.rdbdriver.findClosest", R_LOOKUP);
  ("db.rdbdriver.findMapInSortedData", R_LOOKUP);
  (* dnsdata/rdb *)
  ("rdb.NewReader", R_OPEN);
  ("rdb.newIteratorPool", R_OPEN ++ [Offline]);
  ("rdb.NewContext", R_LOOKUP ++ [Init]);
  ("rdb.Context.Reset", R_READER ++ [Init]);
  ("rdb.Context.update", R_LOOKUP ++ [Init]);
  ("rdb.IteratorPool.get", R_LOOKUP ++ [Init]);
  ("rdb.IteratorPool.put", R_LOOKUP ++ [Init]);
  ("rdb.IteratorPool.disable", R_CLOSE);
  ("rdb.IteratorPool.enable", R_OPEN ++ [Offline]);
  ("rdb.RDB.CatchWithPrimary", [ReloadHelper]);
  ("rdb.RDB.Close", R_CLOSE ++ [Offline]);
  ("rdb.RDB.Find", R_LOOKUP ++ [Init]);
  ("rdb.RDB.FindClosest", R_LOOKUP ++ [Init]);
  ("rdb.RDB.FindFirst", R_LOOKUP ++ [Init]);
  ("rdb.RDB.ForEach", R_LOOKUP ++ [Init]);
  ("rdb.RDB.get", R_LOOKUP ++ [Init]);
  ("rdb.RDB.IsV2KeySyntaxUsed", R_OPEN);
  ("rdb.RDB.GetMemStats", [StatsReporter]);
  ("rdb.NewRDB", [Offline]);
  ("rdb.NewUpdater", [Offline]);
  ("rdb.RDB.Add", [Offline]);
  ("rdb.RDB.Del", [Offline]);
  ("rdb.RDB.ExecuteBatch", [Offline]);
  ("rdb.RDB.CreateBatch", [Offline]);
  ("rdb.RDB.ApplyDiff", [Offline]);
  ("rdb.compileBatches", [Offline]);
  (* package initialisation (declarations of package-level variables and func init) of every
     scanned package: happens before main *)
  ("dnsserver.init", [Init]); ("db.init", [Init]); ("rdb.init", [Init]); ("metrics.init", [Init]);
  ("logger.init", [Init]); ("fbserver.init", [Init]); ("whoami.init", [Init]); ("dnsdata.init", [Init]);
  ("svcb.init", [Init]); ("stats.init", [Init]);
  (* metrics *)
  ("metrics.NewStats", [Init]);
  ("metrics.Stats.IncrementCounter", R_EVERY ++ [Init]);
  ("metrics.Stats.IncrementCounterBy", R_EVERY ++ [Init]);
  ("metrics.Stats.ResetCounter", R_EVERY ++ [Init]);
  ("metrics.Stats.ResetCounterTo", R_EVERY ++ [Init]);
  ("metrics.Stats.AddSample", [QueryWorker]);
  ("metrics.Stats.Get", [StatsReporter]);
  ("metrics.newWindow", [QueryWorker]);
  ("metrics.slidingWindow.Add", [QueryWorker]);
  ("metrics.slidingWindow.Samples", [StatsReporter]);
  ("metrics.slidingWindow.cleaner", [WindowCleaner]);
  ("metrics.slidingWindow.dropExpired", [WindowCleaner; StatsReporter])
].

Fixpoint lookup_roles (m : list (string * list role)) (f : string) : list role :=
  match m with
  | [] => [Unknown]
  | (g, rs) :: t => if String.eqb f g then rs else lookup_roles t f
  end.
Definition roles_of (f : string) : list role := lookup_roles role_map f.

(* Package-level variables are read by many small helper functions.  For an access to a
   package-level variable (a_global) by a function that is not in role_map the role is AnyGo:
   any goroutine of the process at any time after package initialisation - it overlaps
   everything (itself included) except Init.  So a write to a package-level variable outside
   init() needs a common package-level mutex with EVERY read of it, wherever the read is.
   For fields of the tracked types a missing function stays Unknown (and fails
   C14_roles_total). *)
Fixpoint in_role_map (m : list (string * list role)) (f : string) : bool :=
  match m with
  | [] => false
  | (g, _) :: t => if String.eqb f g then true else in_role_map t f
  end.
Definition roles_of_access (a : access) : list role :=
  if a_global a then (if in_role_map role_map (a_func a) then roles_of (a_func a) else [AnyGo])
  else roles_of (a_func a).

Definition is_unknown (r : role) : bool := match r with Unknown => true | _ => false end.
Definition has_role (f : string) : bool :=
  negb (existsb is_unknown (roles_of f)) && negb (match roles_of f with [] => true | _ => false end).

(* which roles can be active at the same time *)
Definition overlap (r1 r2 : role) : bool :=
  match r1, r2 with
  | Unknown, _ | _, Unknown => true
  | Init, _ | _, Init => false
  | AnyGo, _ | _, AnyGo => true
  | Offline, Offline => true
  | Offline, _ | _, Offline => false
  | Shutdown, Shutdown => false
  | _, _ => true
  end.

Definition same_loc (a b : access) : bool :=
  String.eqb (a_owner a) (a_owner b) && String.eqb (a_field a) (a_field b).

Definition conflicting (a b : access) : bool := same_loc a b && (is_write a || is_write b).

(* a captured local exists once per invocation of its function: only the function body and
   the goroutines it starts (different a_func) can touch the same instance *)
Definition concurrent_roles (a b : access) : bool :=
  negb (a_fresh a) && negb (a_fresh b) &&
  (if a_local a then negb (String.eqb (a_func a) (a_func b)) else true) &&
  existsb (fun r1 => existsb (overlap r1) (roles_of_access b)) (roles_of_access a).

(* the standard lockset condition: both hold the same mutex, and not both in shared mode *)
Definition common_lock (a b : access) : bool :=
  existsb (fun l1 => existsb (fun l2 => String.eqb (fst l1) (fst l2) && (is_excl (snd l1) || is_excl (snd l2)))
                             (a_locks b)) (a_locks a).

(* a closes / sends on a channel unconditionally after its access, b has received from that
   channel on every path before its access (or the other way round) *)
Definition ordered_by_channel (a b : access) : bool :=
  existsb (fun ch => mem_str ch (a_recv b)) (a_signal a) ||
  existsb (fun ch => mem_str ch (a_recv a)) (a_signal b).

Definition confined_types : list string := ["rdb.Context"].
Definition listed_exception (a b : access) : bool :=
  mem_str (a_owner a) confined_types && mem_str (a_owner b) confined_types.

(* [if] rather than [||]: evaluation by vm_compute is call-by-value *)
Definition pair_ok (a b : access) : bool :=
  if conflicting a b then
    if concurrent_roles a b then
      if common_lock a b then true else
      if ordered_by_channel a b then true else listed_exception a b
    else true
  else true.

(* the known unsynchronised pairs of the unchanged tree (known_findings.json):
   F11  IteratorPool.enabled: read in get() without pool.l, written by disable()/enable()
        under pool.l;
   F29  FBDNSDB.dbConfig.Path: read by the watcher goroutine (WatchDBAndReload /
        watchDBAndReload) without reloadMu, written by Reload under reloadMu.Lock.
   The class names the field AND the unlocked reader AND the writer, so that any other
   unsynchronised access to the same field (say, a lock dropped from disable) is outside. *)
Definition fc_dir (r w : access) : bool :=
  negb (is_write r) && is_write w &&
  ( (String.eqb (a_owner r) "rdb.IteratorPool" && String.eqb (a_field r) "enabled" &&
     String.eqb (a_func r) "rdb.IteratorPool.get" &&
     mem_str (a_func w) ["rdb.IteratorPool.disable"; "rdb.IteratorPool.enable"])
  || (String.eqb (a_owner r) "dnsserver.FBDNSDB" && String.eqb (a_field r) "dbConfig.Path" &&
      mem_str (a_func r) ["dnsserver.FBDNSDB.watchDBAndReload"; "dnsserver.FBDNSDB.WatchDBAndReload"] &&
      String.eqb (a_func w) "dnsserver.FBDNSDB.Reload") ).
Definition finding_class (a b : access) : bool := same_loc a b && (fc_dir a b || fc_dir b a).

(* checkers over a table *)
Definition table_ok (t : list access) : bool :=
  forallb (fun a => forallb (fun b => if pair_ok a b then true else finding_class a b) t) t.
Definition table_ok_strict (t : list access) : bool :=
  forallb (fun a => forallb (fun b => pair_ok a b) t) t.
Definition bad_pairs (t : list access) : list (access * access) :=
  filter (fun p => if pair_ok (fst p) (snd p) then false else negb (finding_class (fst p) (snd p))) (list_prod t t).
Definition flagged_pairs (t : list access) : list (access * access) :=
  filter (fun p => negb (pair_ok (fst p) (snd p))) (list_prod t t).

Definition roles_total (fs : list string) (t : list access) : bool :=
  forallb has_role fs && forallb (fun a => if a_global a then true else has_role (a_func a)) t.

(* a caller of a "caller must hold" method holds every required lock, exclusively if required *)
Definition call_ok (c : callsite) : bool :=
  forallb (fun rq => existsb (fun h => String.eqb (fst h) (fst rq) && (is_excl (snd h) || negb (is_excl (snd rq))))
                             (c_locks c)) (c_required c).
