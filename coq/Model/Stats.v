(* Model/Stats: executable model of the window export of Stats.Get and of
   AddSample in metrics/stats.go, NO proofs inside.

   Get, per window:  samples := val.Samples(); sort.Slice(samples, <)
     if len(samples) > 0 { min = samples[0]; max = samples[len-1];
                           sum := int64(0); for .. { sum += numb }; avg = sum / int64(len) }
     else { min = max = avg = 0 }
   int64 addition wraps (two's complement), int64 division truncates towards
   zero (Z.quot). *)
From DnsV Require Import Base.Bytes Model.SWindow.
Open Scope Z_scope.

(* sort.Slice on int64 with < : the result is THE sorted arrangement (elements
   that compare equal are equal), modelled by insertion sort *)
Fixpoint insert (x : Z) (l : list Z) : list Z :=
  match l with
  | [] => [x]
  | y :: l' => if x <=? y then x :: l else y :: insert x l'
  end.
Definition sort (l : list Z) : list Z := fold_right insert [] l.

Definition two63 : Z := 9223372036854775808.
Definition two64 : Z := 18446744073709551616.
(* value of an int64 after an arithmetic result z *)
Definition wrap64 (z : Z) : Z := (z + two63) mod two64 - two63.

(* var sum int64; for _, numb := range samples { sum += numb } *)
Definition sum64 (l : list Z) : Z := fold_left (fun acc x => wrap64 (acc + x)) l 0.

Record export := mkE { e_min : Z; e_max : Z; e_avg : Z }.

Definition get_window (vals : list Z) : export :=
  let s := sort vals in
  match s with
  | [] => mkE 0 0 0
  | x :: _ => mkE x (last s 0) (Z.quot (sum64 s) (Z.of_nat (length s)))
  end.

Definition export_triple (e : export) : Z * Z * Z := (e_min e, e_max e, e_avg e).

(* one key of stats.windows: absent until the first AddSample *)
Definition wstate := option window.

(* AddSample(key, v): look the window up, create it (and its cleaner) if absent, Add *)
Definition stats_add (L now v : Z) (st : wstate) : wstate :=
  match st with
  | None => Some (add L now v [])
  | Some w => Some (add L now v w)
  end.

Definition stats_tick (now : Z) (st : wstate) : wstate :=
  match st with None => None | Some w => Some (tick now w) end.

(* Get(): the keys key.min/.max/.avg exist iff the window exists *)
Definition stats_get (now : Z) (st : wstate) : wstate * option export :=
  match st with
  | None => (None, None)
  | Some w => let (w', vals) := samples now w in (Some w', Some (get_window vals))
  end.

Definition sstep (L : Z) (st : wstate) (e : wevent) : wstate :=
  match e with
  | WAdd t v => stats_add L t v st
  | WTick t => stats_tick t st
  | WRead t => fst (stats_get t st)
  end.
Definition sexec (L : Z) (h : list wevent) : wstate := fold_left (sstep L) h None.
Definition get_after (L : Z) (h : list wevent) (t : Z) : option export := snd (stats_get t (sexec L h)).
