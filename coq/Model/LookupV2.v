(* LookupV2: the closest-key reader (db/answer_sorted.go, sortedDataReader in db/db.go)
   over v2 keys  "\000o" ++ reversed packed name ++ loc2, with the per-request context
   cache of dnsdata/rdb/rdb.go (FindClosest and get share one map; update writes the
   search key and, when different, the found key) as explicit state.
   No proofs in this file.

   Go aliasing that is modelled: the key buffer of [find] is truncated and overwritten
   in place (kept here as the full-capacity buffer plus the current length).
   Arithmetic in Go type byte (reverseZoneNameToBuffer, getLengthWithoutLastLabel) wraps
   mod 256; findCommonLongestPrefix and the pre-iteration check use int. *)
From DnsV Require Import Base.Bytes Model.Store Model.LookupV1.
Open Scope N_scope.

Definition marker : bytes := [0; 111].           (* dnsdata.ResourceRecordsKeyMarker "\000o" *)

(* ---------------------------------------------------------------- buffers *)
Definition upd (l : bytes) (i v : N) : res bytes :=
  if i <? nlen l then Val (firstn (N.to_nat i) l ++ v :: skipn (N.to_nat (i + 1)) l) else Panic.
(* copy(dst[i:], src) *)
Definition copy_at (dst : bytes) (i : N) (src : bytes) : res bytes :=
  if i <=? nlen dst then
    let n := N.min (nlen dst - i) (nlen src) in
    Val (firstn (N.to_nat i) dst ++ firstn (N.to_nat n) src ++ skipn (N.to_nat (i + n)) dst)
  else Panic.
Definition zeros (n : nat) : bytes := repeat 0 n.

(* reverseZoneNameToBuffer; i is a Go byte *)
Fixpoint rev_loop (fuel : nat) (q : bytes) (i : N) (dest : bytes) : res bytes :=
  match fuel with
  | O => OutOfFuel
  | S f =>
      q0 <- idx q 0 ;;
      if q0 =? 0 then Val dest else
      let i1 := b8 (i + 256 - q0) in
      lab <- slice q 1 (b8 (q0 + 1)) ;;
      d1 <- copy_at dest i1 lab ;;
      let i2 := b8 (i1 + 255) in
      d2 <- upd d1 i2 q0 ;;
      q' <- slice_from q (b8 (q0 + 1)) ;;
      rev_loop f q' i2 d2
  end.
Definition rev_into (q dest : bytes) : res bytes :=
  let i := b8 (nlen q + 255) in
  d0 <- upd dest i 0 ;;
  rev_loop (S (length q)) q i d0.
Definition reverse_zone_name (q : bytes) : res bytes := rev_into q (zeros (length q)).

(* getLengthWithoutLastLabel *)
Fixpoint glwll_loop (fuel : nat) (qn : bytes) (lim i last : N) : res N :=
  match fuel with
  | O => OutOfFuel
  | S f =>
      if i <? lim then
        x <- idx qn i ;;
        glwll_loop f qn lim (b8 (i + b8 (x + 1))) i
      else Val (last + 1)
  end.
Definition get_length_without_last_label (qn : bytes) (qlen : N) : res N :=
  glwll_loop 300 qn (b8 (b8 qlen + 255)) 0 0.

(* findCommonLongestPrefix *)
Fixpoint fclp_inner (cnt : nat) (s1 s2 : bytes) (j : N) : res bool :=
  match cnt with
  | O => Val true
  | S c =>
      a <- idx s1 j ;;
      b <- idx s2 j ;;
      if a =? b then fclp_inner c s1 s2 (j + 1) else Val false
  end.
Fixpoint fclp_loop (fuel : nat) (s1 s2 : bytes) (i : N) : res N :=
  match fuel with
  | O => OutOfFuel
  | S f =>
      if (i <? nlen s1) && (i <? nlen s2) then
        a <- idx s1 i ;;
        b <- idx s2 i ;;
        if negb (a =? b) then Val i else
        m <- fclp_inner (N.to_nat a) s1 s2 (i + 1) ;;
        if m then fclp_loop f s1 s2 (i + a + 1) else Val i
      else Val i
  end.
Definition find_common_longest_prefix (s1 s2 : bytes) : res N := fclp_loop (S (length s1)) s1 s2 0.

(* ---------------------------------------------------------------- context cache *)
Definition centry := (bytes * list row)%type.           (* found key, data *)
Definition ctx := list (bytes * centry).
Fixpoint ctx_find (c : ctx) (k : bytes) : option centry :=
  match c with
  | [] => None
  | (k', e) :: t => if bytes_eqb k' k then Some e else ctx_find t k
  end.
Definition ctx_update (c : ctx) (search found : bytes) (data : list row) : ctx :=
  let c1 := (search, (found, data)) :: c in
  if bytes_eqb search found then c1 else (found, (found, data)) :: c1.

Section V2.
Variable st : store.

(* rdb.FindClosest *)
Definition find_closest (c : ctx) (key : bytes) : option centry * ctx :=
  match ctx_find c key with
  | Some e => (Some e, c)
  | None =>
      match seek_prev st key with
      | None => (None, c)
      | Some (k, v) => (Some (k, v), ctx_update c key k v)
      end
  end.

(* rdb.get (after 6c5e0a8: a cached entry answers only if its found key is the key) *)
Definition get_v2 (c : ctx) (key : bytes) : list row * ctx :=
  match ctx_find c key with
  | Some (fk, d) => if bytes_eqb fk key then (d, c) else (get st key, c)
  | None => let d := get st key in (d, ctx_update c key key d)
  end.

(* rdb.ForEach *)
Definition for_each_v2 {S} (c : ctx) (key : bytes) (f : cb S) (s : S) : S * bool * ctx :=
  let '(rows, c1) := get_v2 c key in
  let '(s', stt) := iter_rows f rows s in
  (s', for_each_err RDB2 stt, c1).

(* sortedDataReader.TryForEach *)
Definition try_for_each {S} (c : ctx) (key : bytes) (f : cb S) (s : S)
  : option bytes * S * bool * ctx :=
  let '(fk, c1) := find_closest c key in
  match fk with
  | Some (k, _) =>
      if bytes_eqb key k then
        let '(s', e, c2) := for_each_v2 c1 key f s in (Some k, s', e, c2)
      else (Some k, s, false, c1)
  | None => (None, s, false, c1)
  end.

(* sortedDataReader.ForEachResourceRecord *)
Definition for_each_rr_v2 {S} (c : ctx) (name loc : bytes) (f : cb S) (s : S) : res (S * bool * ctx) :=
  d <- rev_into name (zeros (length name + 2)) ;;
  let base := marker ++ firstn (length name) d in
  let '(s1, e1, c1) := if is_loc0 loc then (s, false, c) else for_each_v2 c (base ++ loc) f s in
  if e1 then Val (s1, true, c1) else Val (for_each_v2 c1 (base ++ loc0) f s1).

(* sortedDataReader.find *)
Section Find.
Variable P : Type.
Variable parse : cb P.
Variable pre : P -> bytes -> N -> res (P * bool).
Variable post : P -> P * bool.

Fixpoint find_loop (fuel : nat) (rev loc kbuf : bytes) (klen qlen : N) (p : P) (c : ctx) : res (P * ctx) :=
  match fuel with
  | O => OutOfFuel
  | S f =>
      '(p1, ok) <- pre p rev qlen ;;
      if negb ok then Val (p1, c) else
      let ls := 2 + qlen in
      if negb (ls - 1 <? klen) then Panic else
      kb1 <- upd kbuf (ls - 1) 0 ;;
      if negb (ls <=? klen) then Panic else
      kb2 <- copy_at (firstn (N.to_nat klen) kb1) ls loc ;;
      let kb2 := kb2 ++ skipn (N.to_nat klen) kb1 in
      if negb (ls + 2 <=? nlen kb2) then Panic else
      let klen1 := ls + 2 in
      let key := firstn (N.to_nat klen1) kb2 in
      let '(k, p2, e, c1) := try_for_each c key parse p1 in
      if e then Val (p2, c1) else
      let same_name := match k with
                       | Some kk => (nlen key =? nlen kk) &&
                                    bytes_eqb (firstn (N.to_nat (klen1 - 2)) key) (firstn (N.to_nat (klen1 - 2)) kk)
                       | None => false
                       end in
      '(k, kb3, p3, e, c2) <-
         (if negb (is_loc0 loc) && same_name then
            kb3 <- copy_at (firstn (N.to_nat klen1) kb2) ls loc0 ;;
            let kb3 := kb3 ++ skipn (N.to_nat klen1) kb2 in
            let '(k', p3, e', c2) := try_for_each c1 (firstn (N.to_nat klen1) kb3) parse p2 in
            Val (k', kb3, p3, e', c2)
          else Val (k, kb2, p2, false, c1)) ;;
      if e then Val (p3, c2) else
      let '(p4, go) := post p3 in
      if negb go then Val (p4, c2) else
      match k with
      | None => Val (p4, c2)                       (* reached border of data *)
      | Some kk =>
          if negb (is_prefix marker kk) then Val (p4, c2) else
          if qlen =? 1 then Val (p4, c2) else      (* reached root zone *)
          if nlen kk <? 2 then Panic else
          fl <- slice kk 2 (nlen kk - 2) ;;
          if qlen =? 0 then Panic else
          a <- slice_to rev (qlen - 1) ;;
          if nlen fl =? 0 then Panic else
          bb <- slice_to fl (nlen fl - 1) ;;
          qlen' <- (if bytes_eqb a bb then get_length_without_last_label rev qlen
                    else (n <- find_common_longest_prefix rev fl ;; Val (n + 1))) ;;
          find_loop f rev loc kb3 klen1 qlen' p4 c2
      end
  end.

Definition find (q loc : bytes) (p : P) (c : ctx) : res (P * ctx) :=
  rev <- reverse_zone_name q ;;
  let kbuf := marker ++ rev ++ [0; 0] in
  find_loop (length q + 2) rev loc kbuf (nlen kbuf) (nlen rev) p c.
End Find.

(* sortedDataReader.IsAuthoritative: err is never set *)
Definition auth2_state := (bool * bool * N)%type.
Definition is_authoritative_v2 (c : ctx) (q loc : bytes) : res (authres * ctx) :=
  let parse : cb auth2_state := fun s r =>
    let '(ns, auth, z) := s in
    let '((ns', auth'), stt) := auth_cb (ns, auth) r in ((ns', auth', z), stt) in
  let pre := fun (s : auth2_state) (_ : bytes) (qlen : N) =>
    let '(ns, auth, _) := s in Val ((ns, auth, qlen), true) in
  let post := fun (s : auth2_state) => let '(ns, _, _) := s in (s, negb ns) in
  '(s, c1) <- find auth2_state parse pre post q loc (false, false, 0) c ;;
  let '(ns, auth, z) := s in
  if nlen q <? z then Panic else
  zc <- slice_from q (nlen q - z) ;;
  Val (mkAuth ns auth zc false, c1).

(* sortedDataReader.FindAnswer *)
Definition fa2_state := (fa_state * bool * N)%type.    (* ..., wildcard, lastLength *)
Fixpoint pre_fa_loop (fuel : nat) (rev : bytes) (i last : N) : res bool :=
  match fuel with
  | O => OutOfFuel
  | S f =>
      if i <? last then
        if i =? 0 then Panic else
        ll <- idx rev (i - 1) ;;
        lab <- slice rev i (i + ll) ;;
        if negb (wildsafe lab) then Val false else pre_fa_loop f rev (i + ll + 1) last
      else Val true
  end.
Definition find_answer_v2 (c : ctx) (q ctrl qname : bytes) (qtype : N) (loc : bytes) (max : N)
  : res (list item * bool * ctx) :=
  let parse : cb fa2_state := fun s r =>
    let '(fs, wild, last) := s in
    let '(fs', stt) := fa_cb qname qtype wild fs r in ((fs', wild, last), stt) in
  let pre := fun (s : fa2_state) (rev : bytes) (len : N) =>
    let '(fs, wild, last) := s in
    if len <? nlen ctrl then Val (s, false) else
    ok <- pre_fa_loop (S (length rev)) rev len last ;;
    if ok then Val ((fs, wild, len), true) else Val (s, false) in
  let post := fun (s : fa2_state) =>
    let '(fs, wild, last) := s in
    if snd fs then (s, false) else ((fs, true, last), true) in
  '(s, c1) <- find fa2_state parse pre post q loc ((wrs_empty, [], false), false, nlen q) c ;;
  let '(fs, _, _) := s in
  let '(an, found) := fa_finish qname max fs in
  Val (an, found, c1).
End V2.
