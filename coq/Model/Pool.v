(* Model/Pool: interleaving model of the RocksDB iterator pool
   (dnsdata/rdb/rdb_iteratorPool.go), of RDB.CatchWithPrimary (rdb.go:261-278) and of the reload
   lock FBDNSDB.reloadMu (dnsserver/db.go:331-386) for n query workers and one reloader.
   Executable ([step] is a function); no proofs here (Proofs/Pool.v).

   Workers are identical, so the state keeps COUNTS of workers per program point (an exact
   abstraction of the list of worker program counters); n is the sum, any natural number.

   Worker (one FindClosest lookup after the other inside a query):
     idle --WStart--> acq     AcquireReader: reloadMu.RLock (only if the writer does not hold it)
     acq  --WAcquired--> ready     NewReader done, RUnlock
     ready --WReadEnabled--> wait | he    get(): reads pool.enabled WITHOUT pool.l;
                                   false: createIterator(), entry{free:true} (ephemeral, ce+1)
                                   true : goes on to block on <-pool.iterators
     wait --WRecv--> hp            <-pool.iterators (needs chan > 0)
     hp   --WPutPooled*--> ready | idle   put(): pool.iterators <- e (needs chan < cap)
     he   --WPutEph*--> ready | idle      put(): e.iterator.FreeIterator() (fe+1)
   Reloader (FBDNSDB.Reload holding reloadMu.Lock; the helper goroutine runs CatchWithPrimary;
   after ReloadTimeout Reload returns and unlocks while the helper continues: MuRelease is
   possible at any time):
     RIdle --MuAcquire--> RWantD          reloadMu.Lock (no reader inside AcquireReader)
     RWantD --RLockD--> RCheckD           disable(): pool.l.Lock
     RCheckD --RCheckD--> RCatch          if !enabled {return} (unlock)
             |         --> RDrain 15      enabled = false
     RDrain (S k) --RDrain--> RDrain k    e := <-pool.iterators; FreeIterator (dp+1)
     RDrain 0 --RDrainDone--> RCatch      unlock
     RCatch --RCatchOk--> RWantE          rdb.db.CatchWithPrimary() = nil
            --RCatchFail--> RIdle         error: CatchWithPrimary returns WITHOUT enable()
                                          (only if may_fail)
     RWantE --RLockE--> RCheckE           enable(): pool.l.Lock
     RCheckE --RCheckE--> RIdle | RFill 15    if enabled {return}
     RFill (S k) --RFill--> RFill k       createIterator (cp+1); pool.iterators <- entry
     RFill 0 --RFillDone--> RIdle         enabled = true; unlock
   Not modelled: a second helper goroutine overlapping the first after a timeout; RDB.Close
   (disable at the end of the life of the backend, when no reader is left); the iterators
   themselves (RocksDB).  NumberOfIterators = 15 = capacity of the channel. *)
From Coq Require Import List Arith Bool.
Import ListNotations.

Definition cap : nat := 15.

Inductive rpc := RIdle | RWantD | RCheckD | RDrain (k : nat) | RCatch | RWantE | RCheckE | RFill (k : nat).

Record st := mk {
  idle : nat; acq : nat; ready : nat; wait : nat; hp : nat; he : nat;   (* worker counts *)
  rmu : bool;          (* reloadMu held by the reloader (write mode) *)
  rl : rpc;
  enabled : bool;      (* pool.enabled *)
  chan : nat;          (* len(pool.iterators) *)
  plock : bool;        (* pool.l held *)
  cp : nat; dp : nat;  (* pooled iterators created / destroyed *)
  ce : nat; fe : nat   (* ephemeral iterators created / freed *)
}.

Inductive label :=
  | WStart | WAcquired | WReadEnabled | WRecv
  | WPutPooledAgain | WPutPooledDone | WPutEphAgain | WPutEphDone
  | MuAcquire | MuRelease
  | RLockD | RCheckDL | RDrainL | RDrainDone | RCatchOk | RCatchFail
  | RLockE | RCheckEL | RFillL | RFillDone.

(* state after NewReader: iteratorPool.enable() has run *)
Definition init (n : nat) : st :=
  mk n 0 0 0 0 0 false RIdle true cap false cap 0 0 0.

Definition step (may_fail : bool) (l : label) (s : st) : option st :=
  match l with
  | WStart =>
      match idle s with
      | S i => if rmu s then None else
               Some (mk i (S (acq s)) (ready s) (wait s) (hp s) (he s) (rmu s) (rl s) (enabled s) (chan s) (plock s) (cp s) (dp s) (ce s) (fe s))
      | 0 => None end
  | WAcquired =>
      match acq s with
      | S a => Some (mk (idle s) a (S (ready s)) (wait s) (hp s) (he s) (rmu s) (rl s) (enabled s) (chan s) (plock s) (cp s) (dp s) (ce s) (fe s))
      | 0 => None end
  | WReadEnabled =>
      match ready s with
      | S r => if enabled s
               then Some (mk (idle s) (acq s) r (S (wait s)) (hp s) (he s) (rmu s) (rl s) (enabled s) (chan s) (plock s) (cp s) (dp s) (ce s) (fe s))
               else Some (mk (idle s) (acq s) r (wait s) (hp s) (S (he s)) (rmu s) (rl s) (enabled s) (chan s) (plock s) (cp s) (dp s) (S (ce s)) (fe s))
      | 0 => None end
  | WRecv =>
      match wait s, chan s with
      | S w, S c => Some (mk (idle s) (acq s) (ready s) w (S (hp s)) (he s) (rmu s) (rl s) (enabled s) c (plock s) (cp s) (dp s) (ce s) (fe s))
      | _, _ => None end
  | WPutPooledAgain =>
      match hp s with
      | S h => if chan s <? cap
               then Some (mk (idle s) (acq s) (S (ready s)) (wait s) h (he s) (rmu s) (rl s) (enabled s) (S (chan s)) (plock s) (cp s) (dp s) (ce s) (fe s))
               else None
      | 0 => None end
  | WPutPooledDone =>
      match hp s with
      | S h => if chan s <? cap
               then Some (mk (S (idle s)) (acq s) (ready s) (wait s) h (he s) (rmu s) (rl s) (enabled s) (S (chan s)) (plock s) (cp s) (dp s) (ce s) (fe s))
               else None
      | 0 => None end
  | WPutEphAgain =>
      match he s with
      | S h => Some (mk (idle s) (acq s) (S (ready s)) (wait s) (hp s) h (rmu s) (rl s) (enabled s) (chan s) (plock s) (cp s) (dp s) (ce s) (S (fe s)))
      | 0 => None end
  | WPutEphDone =>
      match he s with
      | S h => Some (mk (S (idle s)) (acq s) (ready s) (wait s) (hp s) h (rmu s) (rl s) (enabled s) (chan s) (plock s) (cp s) (dp s) (ce s) (S (fe s)))
      | 0 => None end
  | MuAcquire =>
      match rl s, rmu s, acq s with
      | RIdle, false, 0 => Some (mk (idle s) (acq s) (ready s) (wait s) (hp s) (he s) true RWantD (enabled s) (chan s) (plock s) (cp s) (dp s) (ce s) (fe s))
      | _, _, _ => None end
  | MuRelease =>
      if rmu s then Some (mk (idle s) (acq s) (ready s) (wait s) (hp s) (he s) false (rl s) (enabled s) (chan s) (plock s) (cp s) (dp s) (ce s) (fe s))
      else None
  | RLockD =>
      match rl s, plock s with
      | RWantD, false => Some (mk (idle s) (acq s) (ready s) (wait s) (hp s) (he s) (rmu s) RCheckD (enabled s) (chan s) true (cp s) (dp s) (ce s) (fe s))
      | _, _ => None end
  | RCheckDL =>
      match rl s with
      | RCheckD => if enabled s
                   then Some (mk (idle s) (acq s) (ready s) (wait s) (hp s) (he s) (rmu s) (RDrain cap) false (chan s) true (cp s) (dp s) (ce s) (fe s))
                   else Some (mk (idle s) (acq s) (ready s) (wait s) (hp s) (he s) (rmu s) RCatch (enabled s) (chan s) false (cp s) (dp s) (ce s) (fe s))
      | _ => None end
  | RDrainL =>
      match rl s, chan s with
      | RDrain (S k), S c => Some (mk (idle s) (acq s) (ready s) (wait s) (hp s) (he s) (rmu s) (RDrain k) (enabled s) c (plock s) (cp s) (S (dp s)) (ce s) (fe s))
      | _, _ => None end
  | RDrainDone =>
      match rl s with
      | RDrain 0 => Some (mk (idle s) (acq s) (ready s) (wait s) (hp s) (he s) (rmu s) RCatch (enabled s) (chan s) false (cp s) (dp s) (ce s) (fe s))
      | _ => None end
  | RCatchOk =>
      match rl s with
      | RCatch => Some (mk (idle s) (acq s) (ready s) (wait s) (hp s) (he s) (rmu s) RWantE (enabled s) (chan s) (plock s) (cp s) (dp s) (ce s) (fe s))
      | _ => None end
  | RCatchFail =>
      match rl s with
      | RCatch => if may_fail
                  then Some (mk (idle s) (acq s) (ready s) (wait s) (hp s) (he s) (rmu s) RIdle (enabled s) (chan s) (plock s) (cp s) (dp s) (ce s) (fe s))
                  else None
      | _ => None end
  | RLockE =>
      match rl s, plock s with
      | RWantE, false => Some (mk (idle s) (acq s) (ready s) (wait s) (hp s) (he s) (rmu s) RCheckE (enabled s) (chan s) true (cp s) (dp s) (ce s) (fe s))
      | _, _ => None end
  | RCheckEL =>
      match rl s with
      | RCheckE => if enabled s
                   then Some (mk (idle s) (acq s) (ready s) (wait s) (hp s) (he s) (rmu s) RIdle (enabled s) (chan s) false (cp s) (dp s) (ce s) (fe s))
                   else Some (mk (idle s) (acq s) (ready s) (wait s) (hp s) (he s) (rmu s) (RFill cap) (enabled s) (chan s) true (cp s) (dp s) (ce s) (fe s))
      | _ => None end
  | RFillL =>
      match rl s with
      | RFill (S k) => if chan s <? cap
                       then Some (mk (idle s) (acq s) (ready s) (wait s) (hp s) (he s) (rmu s) (RFill k) (enabled s) (S (chan s)) (plock s) (S (cp s)) (dp s) (ce s) (fe s))
                       else None
      | _ => None end
  | RFillDone =>
      match rl s with
      | RFill 0 => Some (mk (idle s) (acq s) (ready s) (wait s) (hp s) (he s) (rmu s) RIdle true (chan s) false (cp s) (dp s) (ce s) (fe s))
      | _ => None end
  end.

Fixpoint run (may_fail : bool) (ls : list label) (s : st) : option st :=
  match ls with
  | [] => Some s
  | l :: t => match step may_fail l s with Some s' => run may_fail t s' | None => None end
  end.

Definition reachable (may_fail : bool) (n : nat) (s : st) : Prop :=
  exists ls, run may_fail ls (init n) = Some s.

(* starting a new query / a new reload is a choice of the environment; every other label is a
   step of an operation that is already in progress *)
Definition progress_label (l : label) : bool :=
  match l with WStart | MuAcquire => false | _ => true end.

Definition all_labels : list label :=
  [WStart; WAcquired; WReadEnabled; WRecv; WPutPooledAgain; WPutPooledDone; WPutEphAgain; WPutEphDone;
   MuAcquire; MuRelease; RLockD; RCheckDL; RDrainL; RDrainDone; RCatchOk; RCatchFail;
   RLockE; RCheckEL; RFillL; RFillDone].

(* nothing in progress *)
Definition final (s : st) : Prop :=
  acq s = 0 /\ ready s = 0 /\ wait s = 0 /\ hp s = 0 /\ he s = 0 /\ rl s = RIdle /\ rmu s = false.

(* the pool has been drained by disable() and not yet refilled *)
Definition drained (s : st) : Prop :=
  match rl s with
  | RCatch | RWantE => True
  | RDrain 0 => True
  | _ => False
  end.
