(* Batch: rdb.go  Add, Del, Batch.Add/Del, sort, getAffectedKeys, integrate,
   ExecuteBatch, Find, ForEach  over an abstract RocksDB  store : bytes -> option bytes.

   What is trusted below this interface (RocksDB, cgo-rocksdb): Get returns nil
   exactly for an absent key, GetMulti returns an empty slice for an absent key,
   Put / Delete / WriteBatch do what their names say and a WriteBatch is atomic.

   Batch.Add / Batch.Del are the only constructors of keyValues and always build
   a one-element  values  list, so a pair is (key, value); integrate's
   appendValues(.., values) appends that one value and  values[0]  is it.
   kvList.Sort is sort.Slice (not stable): it enters as the parameter  sort ; the
   proofs assume only that it returns a permutation sorted by bytes.Compare.
   aOffset / dOffset of getAffectedKeys and integrate are represented by the
   suffixes  addedPairs[aOffset:]  and  deletedPairs[dOffset:]  (aOffset++ = tail,
   aOffset < len = suffix not empty, aOffset != len(addedPairs) = suffix not empty).
   dbValues[i] walks in step with uniqueKeys, so both are one list of pairs.
   No proofs here. *)
From DnsV Require Export Model.MultiValue.
From DnsV Require Export Spec.MapOfLists.   (* only for the type op of operation histories *)
Open Scope N_scope.

Notation kv := (bytes * bytes)%type (only parsing).
Definition store := bytes -> option bytes.

Definition empty_store : store := fun _ => None.
Definition put (s : store) (k v : bytes) : store :=
  fun k' => if bytes_eqb k' k then Some v else s k'.
Definition delete (s : store) (k : bytes) : store :=
  fun k' => if bytes_eqb k' k then None else s k'.
(* Get gives nil for an absent key; appending to nil and to an empty slice is the same *)
Definition get_or_nil (s : store) (k : bytes) : bytes :=
  match s k with Some d => d | None => [] end.

(* func (rdb *RDB) Add(key, value []byte) error *)
Definition add (s : store) (k v : bytes) : store :=
  put s k (append_values (get_or_nil s k) [v]).

(* func (rdb *RDB) Del(key, value []byte) error *)
Definition del (s : store) (k v : bytes) : result store :=
  match s k with
  | None => Err E_NXKEY
  | Some data =>
      match del_value data v with
      | Err e => Err e
      | Ok new_data =>
          if nlen new_data =? 0 then Ok (delete s k) else Ok (put s k new_data)
      end
  end.

(* Find / ForEach with a fresh Context (rdb.get reads the store) *)
Definition rdb_find (s : store) (k : bytes) : result bytes := find_data (get_or_nil s k).
Definition rdb_for_each (s : store) (k : bytes) : list bytes * N := for_each_data (get_or_nil s k).

(* xInRange && lastKey != nil && bytes.Equal(lastKey, pairs[xOffset].key) *)
Definition dup_head (l : list kv) (last : option bytes) : bool :=
  match l, last with
  | (k, _) :: _, Some lk => bytes_eqb lk k
  | _, _ => false
  end.

(* getAffectedKeys after batch.sort(): the merge loop.  a, d = remaining sorted
   pairs, last = lastKey (None = nil).  The keys are returned in push order. *)
Fixpoint affected_loop (fuel : nat) (a d : list kv) (last : option bytes) : option (list bytes) :=
  match fuel with
  | O => None
  | S f =>
      if dup_head a last then affected_loop f (tl a) d last               (* skip duplicate in addedPairs *)
      else
        if dup_head d last then affected_loop f a (tl d) last             (* skip duplicate in deletedPairs *)
        else
          match a, d with
          | (ka, _) :: a', (kd, _) :: d' =>
              if bltb ka kd
              then option_map (cons ka) (affected_loop f a' d (Some ka))   (* pushAdded *)
              else option_map (cons kd) (affected_loop f a d' (Some kd))   (* pushDeleted *)
          | (ka, _) :: a', [] => option_map (cons ka) (affected_loop f a' d (Some ka))
          | [], (kd, _) :: d' => option_map (cons kd) (affected_loop f a d' (Some kd))
          | [], [] => Some []
          end
  end.

(* every round consumes one pair *)
Definition affected_keys (a d : list kv) : option (list bytes) :=
  affected_loop (S (length a + length d)) a d None.

(* integrate, inner loop 1: for ; aOffset < len && Equal(addedPairs[aOffset].key, key); aOffset++ *)
Fixpoint consume_adds (a : list kv) (key val : bytes) : list kv * bytes :=
  match a with
  | (k, v) :: a' => if bytes_eqb k key then consume_adds a' key (append_values val [v]) else (a, val)
  | [] => ([], val)
  end.

(* integrate, inner loop 2: the same over deletedPairs with delValue; an error returns at once *)
Fixpoint consume_dels (d : list kv) (key val : bytes) : result (list kv * bytes) :=
  match d with
  | (k, v) :: d' =>
      if bytes_eqb k key then
        match del_value val v with
        | Err e => Err e
        | Ok val' => consume_dels d' key val'
        end
      else Ok (d, val)
  | [] => Ok ([], val)
  end.

(* integrate, outer loop over uniqueKeys / dbValues; returns the new dbValues and both suffixes *)
Fixpoint integrate_loop (kvs : list (bytes * bytes)) (a d : list kv)
  : result (list (bytes * bytes) * list kv * list kv) :=
  match kvs with
  | [] => Ok ([], a, d)
  | (key, val) :: rest =>
      let '(a1, val1) := consume_adds a key val in
      match consume_dels d key val1 with
      | Err e => Err e
      | Ok (d1, val2) =>
          match integrate_loop rest a1 d1 with
          | Err e => Err e
          | Ok (out, a2, d2) => Ok ((key, val2) :: out, a2, d2)
          end
      end
  end.

(* func (batch *Batch) integrate(uniqueKeys, dbValues) error *)
Definition integrate (kvs : list (bytes * bytes)) (a d : list kv) : result (list (bytes * bytes)) :=
  match integrate_loop kvs a d with
  | Err e => Err e
  | Ok (out, a2, d2) =>
      match a2, d2 with
      | [], [] => Ok out
      | _, _ => Err E_OTHER        (* Internal error: batch integration is incorrect *)
      end
  end.

(* the rocksdb WriteBatch built from uniqueKeys / dbValues, applied atomically *)
Definition write_batch (s : store) (kvs : list (bytes * bytes)) : store :=
  fold_left (fun s' '(k, v) => if nlen v =? 0 then delete s' k else put s' k v) kvs s.

Section WithSort.
  Variable sort : list kv -> list kv.

  (* func (rdb *RDB) ExecuteBatch(batch *Batch) error; adds / dels = addedPairs / deletedPairs
     in the order of the Batch.Add / Batch.Del calls.  On Err nothing was written. *)
  Definition execute_batch (s : store) (adds dels : list kv) : result store :=
    match adds, dels with
    | [], [] => Ok s                                     (* batch.IsEmpty() *)
    | _, _ =>
        let a := sort adds in
        let d := sort dels in
        match affected_keys a d with
        | None => Err E_FUEL
        | Some keys =>
            let db_values := map (fun k => (k, get_or_nil s k)) keys in   (* GetMulti *)
            match integrate db_values a d with
            | Err e => Err e
            | Ok vals => Ok (write_batch s vals)
            end
        end
    end.

  (* one operation: new store and error class (0 = nil); on error the store is as before.
     Backup + Restore into another directory is the identity below this interface (trusted). *)
  Definition model_step (s : store) (o : op) : store * N :=
    match o with
    | OAdd k v => (add s k v, 0)
    | ODel k v => match del s k v with Ok s' => (s', 0) | Err e => (s, e) end
    | OBatch adds dels => match execute_batch s adds dels with Ok s' => (s', 0) | Err e => (s, e) end
    | OBackupRestore => (s, 0)
    | OReopen => (s, 0)       (* Close + open: durability is RocksDB's, the identity here (trusted) *)
    | OBackup | ORestore _ => (s, 0)   (* handled by model_bstep, which never gets here *)
    end.

  (* rdb.Backup into one backup directory / rdb.Restore of the latest backup into a fresh
     directory: the backup engine (C++) is trusted to snapshot the closed store and to restore
     the latest snapshot; state = (store, latest snapshot).  Restore with no backup: an error. *)
  Definition model_bstep (st : store * option store) (o : op) : (store * option store) * N :=
    let '(s, b) := st in
    match o with
    | OBackup => ((s, Some s), 0)
    | ORestore cont =>
        match b with
        | Some bs => ((if cont then bs else s, b), 0)
        | None => ((s, b), E_OTHER)
        end
    | _ => let '(s', e) := model_step s o in ((s', b), e)
    end.

  Fixpoint model_brun (st : store * option store) (ops : list op) : (store * option store) * list N :=
    match ops with
    | [] => (st, [])
    | o :: r => let '(st1, e) := model_bstep st o in let '(st2, es) := model_brun st1 r in (st2, e :: es)
    end.

  Fixpoint model_run (s : store) (ops : list op) : store * list N :=
    match ops with
    | [] => (s, [])
    | o :: r => let '(s1, e) := model_step s o in let '(s2, es) := model_run s1 r in (s2, e :: es)
    end.
End WithSort.

(* a stable sort by key (insertion sort), one admissible instance of sort,
   used by Run/C15.v to evaluate the model *)
Fixpoint kv_insert (x : kv) (l : list kv) : list kv :=
  match l with
  | [] => [x]
  | y :: l' => if bltb (fst y) (fst x) then y :: kv_insert x l' else x :: l
  end.
Definition kv_isort (l : list kv) : list kv := fold_right kv_insert [] l.
