(* Svcb: dnsdata/svcb (svcb.go, marshallers.go, unmarshallers.go) written after the Go
   source statement by statement: ParamList.FromText / ToWire / ToText and the seven
   value marshallers / unmarshallers, plus the RDATA layout of the B / H record
   (dnsdata/data.go Rsvcb.MarshalMap).
   Library behaviour that is not modelled enters through the record [oracles]:
   net.ParseIP, net.IP.String, base64.StdEncoding.Decode / Encode.  strconv.ParseUint
   (base 10, 16 bits), strconv.FormatUint, bytes.Split/SplitN/Trim/Contains,
   sort.SliceStable and net.IP.To4 are modelled directly.
   Accepted grammar (remark): FromText stops at the FIRST EMPTY segment of the ';' split,
   so a trailing ';' is harmless and everything after ';;' (or after a leading ';') is
   silently ignored - this is taken as the grammar, see Spec/SvcbWire.v declared_raw.
   No proofs here: this file must keep evaluating when a proof breaks. *)
From DnsV Require Export Base.Bytes Base.Text.
Open Scope N_scope.

Record oracles := mkO {
  parse_ip : bytes -> option bytes;   (* net.ParseIP(string(s)): nil or the 16-byte form *)
  print_ip : bytes -> bytes;          (* net.IP(s).String() of a 4- or 16-byte slice *)
  b64_dec : bytes -> option bytes;    (* base64.StdEncoding.Decode: error or the decoded bytes *)
  b64_enc : bytes -> bytes            (* base64.StdEncoding.Encode *)
}.

(* error enumeration of this model (the harness maps Go error values to the same numbers) *)
Definition E_NOEQ : N := 1.        (* error parsing SVCB/HTTPS parameter (no '=') *)
Definition E_UNKNOWN : N := 2.     (* unknown SVCB/HTTPS parameter *)
Definition E_EMPTY : N := 3.       (* value for k cannot be empty *)
Definition E_MAND_INVALID : N := 4.
Definition E_MAND_SELF : N := 5.
Definition E_MAND_DUP : N := 6.
Definition E_NDA : N := 7.         (* no-default-alpn with a value *)
Definition E_PORT_SYNTAX : N := 8.
Definition E_PORT_RANGE : N := 9.
Definition E_IP4_INVALID : N := 10.
Definition E_IP4_NOT4 : N := 11.
Definition E_B64 : N := 12.
Definition E_IP6_NOCOLON : N := 13.
Definition E_IP6_PARSE : N := 14.
Definition E_DUPKEY : N := 15.     (* keys have to be unique *)
Definition E_MISSING : N := 16.    (* k is mandatory but missing in parameter list *)
Definition E_ALPN_LEN : N := 17.   (* alpn id must be 1 to 255 bytes long *)
Definition E_TOOLONG : N := 18.    (* value for k is longer than 65535 bytes *)
Definition E_PANIC : N := 90.      (* Go run-time panic (index out of range, nil function) *)
Definition E_OOR : N := 91.        (* slice expression beyond len: panic or bytes beyond len, depending on cap *)
Definition E_FUEL : N := 92.       (* model ran out of fuel (never with the fuel supplied below) *)

Definition param := (N * bytes)%type.   (* keynum, value in wire form *)

Definition n_mandatory : bytes := [109;97;110;100;97;116;111;114;121].
Definition n_alpn : bytes := [97;108;112;110].
Definition n_nda : bytes := [110;111;45;100;101;102;97;117;108;116;45;97;108;112;110].
Definition n_port : bytes := [112;111;114;116].
Definition n_ipv4hint : bytes := [105;112;118;52;104;105;110;116].
Definition n_echconfig : bytes := [101;99;104;99;111;110;102;105;103].
Definition n_ipv6hint : bytes := [105;112;118;54;104;105;110;116].

(* strToParamNum *)
Definition key_of_name (s : bytes) : option N :=
  if bytes_eqb s n_mandatory then Some 0
  else if bytes_eqb s n_alpn then Some 1
  else if bytes_eqb s n_nda then Some 2
  else if bytes_eqb s n_port then Some 3
  else if bytes_eqb s n_ipv4hint then Some 4
  else if bytes_eqb s n_echconfig then Some 5
  else if bytes_eqb s n_ipv6hint then Some 6
  else None.

(* paramNumToStr; a missing map entry is the empty string *)
Definition name_of_key (k : N) : bytes :=
  match k with
  | 0 => n_mandatory | 1 => n_alpn | 2 => n_nda | 3 => n_port
  | 4 => n_ipv4hint | 5 => n_echconfig | 6 => n_ipv6hint | _ => []
  end.

Fixpoint map_res {A B} (f : A -> result B) (l : list A) : result (list B) :=
  match l with
  | [] => Ok []
  | x :: t => rbind (f x) (fun y => rbind (map_res f t) (fun r => Ok (y :: r)))
  end.

(* ---------------------------------------------------------------- marshallers *)

(* strToParamNum[string(v)] with the zero value for a missing entry (sort key) *)
Definition mand_num (v : bytes) : N := match key_of_name v with Some k => k | None => 0 end.

Fixpoint mand_loop (seen : list N) (vals : list bytes) : result bytes :=
  match vals with
  | [] => Ok []
  | v :: t =>
    match key_of_name v with
    | None => Err E_MAND_INVALID
    | Some k =>
      if k =? 0 then Err E_MAND_SELF
      else if existsb (N.eqb k) seen then Err E_MAND_DUP
      else rbind (mand_loop (k :: seen) t) (fun r => Ok (u16be k ++ r))
    end
  end.

Definition mandatory_marshaller (input : bytes) : result bytes :=
  mand_loop [] (sort_by mand_num (split_on 124 input)).

(* as repaired by 7157b2c: every id must be 1 to 255 bytes long *)
Fixpoint alpn_loop (ids : list bytes) : result bytes :=
  match ids with
  | [] => Ok []
  | a :: t =>
    if (nlen a =? 0) || (255 <? nlen a) then Err E_ALPN_LEN
    else rbind (alpn_loop t) (fun r => Ok ((nlen a mod 256) :: a ++ r))
  end.
Definition alpn_marshaller (input : bytes) : result bytes := alpn_loop (split_on 124 input).

Definition nodefaultalpn_marshaller (input : bytes) : result bytes :=
  match input with [] => Ok [] | _ :: _ => Err E_NDA end.

(* strconv.ParseUint(s, 10, 16): the first offending character decides *)
Fixpoint parse_u16 (n : N) (s : bytes) : result N :=
  match s with
  | [] => Ok n
  | c :: t =>
    if is_digit c then
      let n1 := n * 10 + (c - 48) in
      if 65535 <? n1 then Err E_PORT_RANGE else parse_u16 n1 t
    else Err E_PORT_SYNTAX
  end.
Definition port_marshaller (input : bytes) : result bytes :=
  match input with
  | [] => Err E_PORT_SYNTAX
  | _ :: _ => rbind (parse_u16 0 input) (fun n => Ok (u16be n))
  end.

Section WithOracles.
Variable orc : oracles.

Fixpoint ip4_loop (toks : list bytes) : result bytes :=
  match toks with
  | [] => Ok []
  | t :: r =>
    match parse_ip orc t with
    | None => Err E_IP4_INVALID
    | Some a =>
      match ip_to4 a with
      | None => Err E_IP4_NOT4
      | Some b => rbind (ip4_loop r) (fun x => Ok (b ++ x))
      end
    end
  end.
Definition ipv4hint_marshaller (input : bytes) : result bytes := ip4_loop (split_on 124 input).

Definition ech_marshaller (input : bytes) : result bytes :=
  match b64_dec orc input with None => Err E_B64 | Some x => Ok x end.

Fixpoint ip6_loop (toks : list bytes) : result bytes :=
  match toks with
  | [] => Ok []
  | t :: r =>
    if negb (has_byte 58 t) then Err E_IP6_NOCOLON
    else match parse_ip orc t with
         | None => Err E_IP6_PARSE
         | Some a => rbind (ip6_loop r) (fun x => Ok (a ++ x))
         end
  end.
Definition ipv6hint_marshaller (input : bytes) : result bytes := ip6_loop (split_on 124 input).

Definition marshal (k : N) (input : bytes) : result bytes :=
  match k with
  | 0 => mandatory_marshaller input
  | 1 => alpn_marshaller input
  | 2 => nodefaultalpn_marshaller input
  | 3 => port_marshaller input
  | 4 => ipv4hint_marshaller input
  | 5 => ech_marshaller input
  | 6 => ipv6hint_marshaller input
  | _ => Err E_PANIC
  end.

(* param.fromText *)
Definition param_from_text (text : bytes) : result param :=
  match cut_at 61 text with
  | None => Err E_NOEQ
  | Some (k, v) =>
    match key_of_name k with
    | None => Err E_UNKNOWN
    | Some kn =>
      if negb (kn =? 2) && (match v with [] => true | _ => false end) then Err E_EMPTY
      else rbind (marshal kn (trim_byte 34 v))
             (fun d => if 65535 <? nlen d then Err E_TOOLONG else Ok (kn, d))   (* e9382c2 *)
    end
  end.

Definition has_key (k : N) (l : list param) : bool := existsb (fun p => fst p =? k) l.
Definition find_key (k : N) (l : list param) : option bytes :=
  match find (fun p => fst p =? k) l with Some p => Some (snd p) | None => None end.

(* the parsing loop of ParamList.FromText (receiver list empty at the start);
   acc is the list built so far, in order *)
Fixpoint ft_loop (segs : list bytes) (acc : list param) : result (list param) :=
  match segs with
  | [] => Ok acc
  | s :: r =>
    match s with
    | [] => Ok acc                     (* len(text[idx]) > 0 fails: the loop ends here *)
    | _ :: _ =>
      match param_from_text s with
      | Err e => Err e
      | Ok p => if has_key (fst p) acc then Err E_DUPKEY else ft_loop r (acc ++ [p])
      end
    end
  end.

(* 2-byte / 4-byte / 16-byte chunks as the Go loops slice them: input[off:off+n] *)
Fixpoint chunks (n : nat) (fuel : nat) (s : bytes) : result (list bytes) :=
  match s with
  | [] => Ok []
  | _ :: _ =>
    match fuel with
    | O => Err E_FUEL
    | S f =>
      let c := firstn n s in
      if (length c <? n)%nat then Err E_OOR
      else rbind (chunks n f (skipn n s)) (fun r => Ok (c :: r))
    end
  end.

Definition mand_check (l : list param) : result unit :=
  match find_key 0 l with
  | None => Ok tt
  | Some v =>
    rbind (chunks 2 (length v) v)
      (fun cs => if forallb (fun c => has_key (be16 c) l) cs then Ok tt else Err E_MISSING)
  end.

Definition from_text (raw : bytes) : result (list param) :=
  rbind (ft_loop (split_on 59 raw) [])
    (fun l => rbind (mand_check l) (fun _ => Ok (sort_by (@fst N bytes) l))).

(* ---------------------------------------------------------------- ToWire *)
(* uint16(len(p.value)) wraps: u16be reduces modulo 2^16 *)
Definition param_to_wire (p : param) : bytes := u16be (fst p) ++ u16be (nlen (snd p)) ++ snd p.
Definition to_wire (l : list param) : bytes := flat_map param_to_wire l.

(* ---------------------------------------------------------------- unmarshallers / ToText *)
Definition unm_mandatory (v : bytes) : result bytes :=
  rbind (chunks 2 (length v) v) (fun cs => Ok (join 124 (map (fun c => name_of_key (be16 c)) cs))).

Fixpoint alpn_ids (fuel : nat) (s : bytes) : result (list bytes) :=
  match s with
  | [] => Ok []
  | l :: t =>
    match fuel with
    | O => Err E_FUEL
    | S f =>
      let c := firstn (N.to_nat l) t in
      if nlen c <? l then Err E_OOR
      else rbind (alpn_ids f (skipn (N.to_nat l) t)) (fun r => Ok (c :: r))
    end
  end.
Definition unm_alpn (v : bytes) : result bytes :=
  rbind (alpn_ids (length v) v) (fun ids => Ok (join 124 ids)).

(* strconv.FormatUint(n, 10) for n < 2^16 *)
Fixpoint dec_digits (fuel : nat) (n : N) (acc : bytes) : bytes :=
  match fuel with
  | O => acc
  | S f => let acc' := (48 + n mod 10) :: acc in if n <? 10 then acc' else dec_digits f (n / 10) acc'
  end.
Definition fmt_u16 (n : N) : bytes := dec_digits 5 n [].

Definition unm_port (v : bytes) : result bytes :=
  match v with a :: b :: _ => Ok (fmt_u16 (a * 256 + b)) | _ => Err E_PANIC end.

Definition unm_hint (n : nat) (v : bytes) : result bytes :=
  rbind (chunks n (length v) v) (fun cs => Ok (join 124 (map (print_ip orc) cs))).

Definition unmarshal (k : N) (v : bytes) : result bytes :=
  match k with
  | 0 => unm_mandatory v
  | 1 => unm_alpn v
  | 2 => Ok []
  | 3 => unm_port v
  | 4 => unm_hint 4 v
  | 5 => Ok (b64_enc orc v)
  | 6 => unm_hint 16 v
  | _ => Err E_PANIC              (* nil function value *)
  end.

Definition param_to_text (p : param) : result bytes :=
  rbind (unmarshal (fst p) (snd p)) (fun s => Ok (name_of_key (fst p) ++ 61 :: 34 :: s ++ [34])).

Definition to_text (l : list param) : result bytes :=
  rbind (map_res param_to_text l) (fun ts => Ok (join 59 ts)).

End WithOracles.

(* ---------------------------------------------------------------- record layout *)
(* putdom: labels of a dotted name, empty labels skipped, length byte truncated to 8 bits
   (s[:n] with n = byte(len(s))) *)
Definition putdom (name : bytes) : bytes :=
  flat_map (fun s => let n := nlen s mod 256 in
                     if n =? 0 then [] else n :: firstn (N.to_nat n) s) (split_on 46 name) ++ [0].

(* value of the row written by Rsvcb.MarshalMap for a record without location:
   type2 '=' ttl4 ttd8 priority2 target params *)
Definition svcb_row (wtype ttl prio : N) (wild : bool) (target : bytes) (l : list param) : bytes :=
  u16be wtype ++ [if wild then 42 else 61] ++ u32be ttl ++ [0;0;0;0;0;0;0;0]
  ++ u16be prio ++ putdom target ++ to_wire l.
