(* Model/ComposeMore: thin adapters between separately modelled slices, WITHOUT changing any of them.
   Definitions only; lemmas are in Proofs/LinkWrsServe.v (C11 x C01), Proofs/LinkCdbBytes.v
   (C16 x C01) and Proofs/LinkCountersServe.v (C19 x C01).

   1. Model/Wrs.v (the weighted sample: Wrs.Add / record over an abstract key order) under
      Model/Serve.v (an A / AAAA answer is an [IPick owner ty cls cands n] item: the candidates in
      reader order and the number served; no draw).  [realise] runs the Wrs model on every IPick of a
      response under a KEY ASSIGNMENT and returns the concrete response (sections of plain records).
      Which projection is used where the types do not line up:
      * a key assignment is a draw for every candidate of every pick, [draws]: section (0 answer,
        1 authority, 2 additional), position of the pick in its section, index of the candidate in
        the pick -> the Uint32 draw; the key is [keyof draw weight] for an abstract
        [keyof : N -> N -> K] (math.Pow(float64(u) * float64(1.0/MaxUint32), 1/float64(w))), exactly
        as in C11's theorems (Proofs/Wrs.v, Section Draws).
      * the payload of a Wrs item (Go: TTL and address bytes) is the candidate TOGETHER WITH ITS INDEX
        in the pick, so that two declared records with equal TTL, weight and address stay two
        candidates ([payload]).
      * MaxAnswers: the query's max answer for the answer section, 1 for the additional section
        (db/utils.go: Wrs{MaxAnswers: 1}); the number [n] carried by the IPick is NOT used - that the
        realisation has exactly n records is a theorem (outside the F18 corner draws).
      * one Wrs per pick: Model/Serve keeps the A and the AAAA candidates in two lists (w4, w6) and
        Wrs.Add touches only the slots of the record's own family, so feeding the candidates of one
        family alone gives that family's slots.
      * rand.Shuffle in Wrs.record is not modelled in Model/Wrs.v either: the realised records of a
        pick come in slot order.

   2. Model/Cdb.v (byte-level CDB reader) under Model/Serve.v (label-by-label reader over
      Model/Store.store = list of (key, rows) with the concrete [get]).  [serve_fn] is Model/Serve's
      handler over the v1 reader with the store interface replaced by a FUNCTION key -> rows (same
      text as LookupV1's Section V1 / Serve.reader_v1 with [get st] replaced by [g]);
      [cdb_get H data] is that function for a file image: FindStart / FindNext until EOF of the
      byte-level reader [bfind_all] (an error of the model's reader - never on a written image -
      reads as no rows).  [store_of_image] is the Model/Store.store obtained by reading every listed
      key back from the image.

   3. Model/Counters.v (counter increments / logger calls of ServeDNSWithRCODE as a function of an
      abstract description [qclass] of what happened) beside Model/Serve.v (what is replied).
      [run_class] computes the description from the SAME reader calls Model/Serve.serve_with makes;
      the fields Model/Serve does not model are parameters ([side]: DO bit, location mask, write
      error); the cache is off (Model/Serve is the handler without cache: Model/Compose.v puts the
      cache on top); AcquireReader and PackDomainName succeed (Model/Serve starts after them: its
      query holds the packed name).  [resp_class] is the response class of a Serve outcome. *)
From DnsV Require Import Base.Bytes Model.Store Model.LookupV1 Model.LookupV2 Model.Serve.
From DnsV Require Model.Wrs Model.Cdb Model.Counters.
Open Scope N_scope.

(* ================================================================== 1. Wrs under Serve *)

(* a response with the picks drawn: plain records in every section *)
Record cresponse := mkCResp {
  c_id : N;
  c_question : option (bytes * N * N);
  c_rcode : N;
  c_aa : bool;
  c_an : list rr;
  c_ns : list rr;
  c_ex : list rr;
  c_opt : option (option ecsval)
}.

(* section -> position of the pick in the section -> index of the candidate -> Uint32 draw *)
Definition draws := N -> nat -> nat -> N.
Definition sec_an : N := 0.
Definition sec_ns : N := 1.
Definition sec_ex : N := 2.

Definition payload := (nat * cand)%type.
Fixpoint index_from {X} (i : nat) (l : list X) : list (nat * X) :=
  match l with [] => [] | x :: t => (i, x) :: index_from (S i) t end.

Definition cand_ttl (c : cand) : N := fst (fst c).
Definition cand_weight (c : cand) : N := snd (fst c).
Definition cand_addr (c : cand) : bytes := snd c.

Section Realise.
Variable K : Type.
Variable klt : K -> K -> bool.
Variable kpos : K -> bool.
Variable keyof : N -> N -> K.        (* draw, weight -> key *)

(* the rows handed to Wrs.Add for one pick, in reader order; d: the draws of this pick *)
Definition pick_rows (d : nat -> N) (ty : N) (cands : list cand) : list (Model.Wrs.row K payload) :=
  map (fun p => Model.Wrs.mkRow ty (keyof (d (fst p)) (cand_weight (snd p))) p) (index_from 0 cands).

(* Wrs.ARecord / AAAARecord after all Adds *)
Definition realise_pick (max : Z) (d : nat -> N) (owner : bytes) (ty cls : N) (cands : list cand) : list rr :=
  map (fun p : payload => mkRR owner ty cls (cand_ttl (snd p)) (cand_addr (snd p)))
      (Model.Wrs.recs_or_nil kpos (Model.Wrs.feed klt max (pick_rows d ty cands)) ty).

Definition realise_item (max : Z) (d : nat -> N) (i : item) : list rr :=
  match i with
  | IRR r => [r]
  | IPick owner ty cls cands _ => realise_pick max d owner ty cls cands
  end.

(* a section, its first item at position i *)
Fixpoint realise_from (max : Z) (ds : nat -> nat -> N) (i : nat) (l : list item) : list rr :=
  match l with
  | [] => []
  | it :: t => realise_item max (ds i) it ++ realise_from max ds (S i) t
  end.

Definition realise (dr : draws) (max : N) (x : response) : cresponse :=
  mkCResp (rs_id x) (rs_question x) (rs_rcode x) (rs_aa x)
          (realise_from (Z.of_N max) (dr sec_an) 0 (rs_an x))
          (realise_from (Z.of_N max) (dr sec_ns) 0 (rs_ns x))
          (realise_from 1 (dr sec_ex) 0 (rs_ex x))
          (rs_opt x).
End Realise.

(* (owner, type) of an item / of a record *)
Definition item_key (i : item) : bytes * N :=
  match i with IRR r => (rr_owner r, rr_type r) | IPick o ty _ _ _ => (o, ty) end.
Definition rr_key (r : rr) : bytes * N := (rr_owner r, rr_type r).

(* a key instance for evaluation: the key is the draw itself (all weights alike), 0 when Go's key is 0.0 *)
Definition draw_key (u w : N) : N := if Model.Wrs.dk_pos (u, w) then u else 0.
