(* Model/ComposeMore: thin adapters between separately modelled slices, WITHOUT changing any of them.
   Definitions only; lemmas are in Proofs/LinkWrsServe.v (C11 x C01), Proofs/LinkCdbBytes.v
   (C16 x C01) and Proofs/LinkCountersServe.v (C19 x C01).

   1. Model/Wrs.v (the weighted sample: Wrs.Add / record over an abstract key order) under
      Model/Serve.v (an A / AAAA answer is an [IPick owner ty cls cands n] item: the candidates in
      reader order and the number served; no draw).  [realise] runs the Wrs model on every IPick of a
      response under a KEY ASSIGNMENT and returns the concrete response (sections of plain records).
      Which projection is used where the types do not line up:
      * a key assignment is a draw for every candidate of every pick, [draws]: section (0 answer,
        1 authority, 2 additional), position of the pick in its section, index of the candidate in
        the pick -> the Uint32 draw; the key is [keyof draw weight] for an abstract
        [keyof : N -> N -> K] (math.Pow(float64(u) * float64(1.0/MaxUint32), 1/float64(w))), exactly
        as in C11's theorems (Proofs/Wrs.v, Section Draws).
      * the payload of a Wrs item (Go: TTL and address bytes) is the candidate TOGETHER WITH ITS INDEX
        in the pick, so that two declared records with equal TTL, weight and address stay two
        candidates ([payload]).
      * MaxAnswers: the query's max answer for the answer section, 1 for the additional section
        (db/utils.go: Wrs{MaxAnswers: 1}); the number [n] carried by the IPick is NOT used - that the
        realisation has exactly n records is a theorem (outside the F18 corner draws).
      * one Wrs per pick: Model/Serve keeps the A and the AAAA candidates in two lists (w4, w6) and
        Wrs.Add touches only the slots of the record's own family, so feeding the candidates of one
        family alone gives that family's slots.
      * rand.Shuffle in Wrs.record is not modelled in Model/Wrs.v either: the realised records of a
        pick come in slot order.

   2. Model/Cdb.v (byte-level CDB reader) under Model/Serve.v (label-by-label reader over
      Model/Store.store = list of (key, rows) with the concrete [get]).  [serve_fn] is Model/Serve's
      handler over the v1 reader with the store interface replaced by a FUNCTION key -> rows (same
      text as LookupV1's Section V1 / Serve.reader_v1 with [get st] replaced by [g]);
      [cdb_get H data] is that function for a file image: FindStart / FindNext until EOF of the
      byte-level reader [bfind_all] (an error of the model's reader - never on a written image -
      reads as no rows).  [store_of_image] is the Model/Store.store obtained by reading every listed
      key back from the image.

   3. Model/Counters.v (counter increments / logger calls of ServeDNSWithRCODE as a function of an
      abstract description [qclass] of what happened) beside Model/Serve.v (what is replied).
      [run_class] computes the description from the SAME reader calls Model/Serve.serve_with makes;
      the fields Model/Serve does not model are parameters ([side]: DO bit, location mask, write
      error); the cache is off (Model/Serve is the handler without cache: Model/Compose.v puts the
      cache on top); AcquireReader and PackDomainName succeed (Model/Serve starts after them: its
      query holds the packed name).  [resp_class] is the response class of a Serve outcome. *)
From DnsV Require Import Base.Bytes Model.Store Model.LookupV1 Model.LookupV2 Model.Serve.
From DnsV Require Model.Wrs Model.Cdb Model.Counters.
Open Scope N_scope.

(* ================================================================== 1. Wrs under Serve *)

(* a response with the picks drawn: plain records in every section *)
Record cresponse := mkCResp {
  c_id : N;
  c_question : option (bytes * N * N);
  c_rcode : N;
  c_aa : bool;
  c_an : list rr;
  c_ns : list rr;
  c_ex : list rr;
  c_opt : option (option ecsval)
}.

(* section -> position of the pick in the section -> index of the candidate -> Uint32 draw *)
Definition draws := N -> nat -> nat -> N.
Definition sec_an : N := 0.
Definition sec_ns : N := 1.
Definition sec_ex : N := 2.

Definition payload := (nat * cand)%type.
Fixpoint index_from {X} (i : nat) (l : list X) : list (nat * X) :=
  match l with [] => [] | x :: t => (i, x) :: index_from (S i) t end.

Definition cand_ttl (c : cand) : N := fst (fst c).
Definition cand_weight (c : cand) : N := snd (fst c).
Definition cand_addr (c : cand) : bytes := snd c.

Section Realise.
Variable K : Type.
Variable klt : K -> K -> bool.
Variable kpos : K -> bool.
Variable keyof : N -> N -> K.        (* draw, weight -> key *)

(* the rows handed to Wrs.Add for one pick, in reader order; d: the draws of this pick *)
Definition pick_rows (d : nat -> N) (ty : N) (cands : list cand) : list (Model.Wrs.row K payload) :=
  map (fun p => Model.Wrs.mkRow ty (keyof (d (fst p)) (cand_weight (snd p))) p) (index_from 0 cands).

(* Wrs.ARecord / AAAARecord after all Adds *)
Definition realise_pick (max : Z) (d : nat -> N) (owner : bytes) (ty cls : N) (cands : list cand) : list rr :=
  map (fun p : payload => mkRR owner ty cls (cand_ttl (snd p)) (cand_addr (snd p)))
      (Model.Wrs.recs_or_nil kpos (Model.Wrs.feed klt max (pick_rows d ty cands)) ty).

Definition realise_item (max : Z) (d : nat -> N) (i : item) : list rr :=
  match i with
  | IRR r => [r]
  | IPick owner ty cls cands _ => realise_pick max d owner ty cls cands
  end.

(* a section, its first item at position i *)
Fixpoint realise_from (max : Z) (ds : nat -> nat -> N) (i : nat) (l : list item) : list rr :=
  match l with
  | [] => []
  | it :: t => realise_item max (ds i) it ++ realise_from max ds (S i) t
  end.

Definition realise (dr : draws) (max : N) (x : response) : cresponse :=
  mkCResp (rs_id x) (rs_question x) (rs_rcode x) (rs_aa x)
          (realise_from (Z.of_N max) (dr sec_an) 0 (rs_an x))
          (realise_from (Z.of_N max) (dr sec_ns) 0 (rs_ns x))
          (realise_from 1 (dr sec_ex) 0 (rs_ex x))
          (rs_opt x).
End Realise.

(* (owner, type) of an item / of a record *)
Definition item_key (i : item) : bytes * N :=
  match i with IRR r => (rr_owner r, rr_type r) | IPick o ty _ _ _ => (o, ty) end.
Definition rr_key (r : rr) : bytes * N := (rr_owner r, rr_type r).

(* a key instance for evaluation: the key is the draw itself (all weights alike), 0 when Go's key is 0.0 *)
Definition draw_key (u w : N) : N := if Model.Wrs.dk_pos (u, w) then u else 0.

(* ================================================================== 2. the byte-level CDB reader under Serve *)

(* LookupV1's Section V1 and Serve.reader_v1 with the store interface [get st] replaced by a function *)
Section Fn.
Variable b : backend.
Variable g : bytes -> list row.      (* key -> the rows FindStart / FindNext yield, in order *)

Definition for_each_fn {S} (key : bytes) (f : cb S) (s : S) : S * bool :=
  let '(s', stt) := iter_rows f (g key) s in (s', for_each_err b stt).

Definition for_each_rr_fn {S} (name loc : bytes) (f : cb S) (s : S) : S * bool :=
  let '(s1, e1) := if is_loc0 loc then (s, false) else for_each_fn (loc ++ name) f s in
  if e1 then (s1, true) else for_each_fn (loc0 ++ name) f s1.

Fixpoint is_auth_fn (fuel : nat) (zc loc : bytes) (ns auth : bool) : res authres :=
  match fuel with
  | O => OutOfFuel
  | S f =>
      let '((ns1, auth1), e1) :=
        if is_loc0 loc then ((ns, auth), false) else for_each_fn (loc ++ zc) auth_cb (ns, auth) in
      if e1 then Val (mkAuth false false zc true) else
      let '((ns2, auth2), e2) :=
        if auth1 && ns1 then ((ns1, auth1), false) else for_each_fn (loc0 ++ zc) auth_cb (ns1, auth1) in
      if e2 then Val (mkAuth false false zc true) else
      if ns2 then Val (mkAuth ns2 auth2 zc false) else
      z0 <- idx zc 0 ;;
      if z0 =? 0 then Val (mkAuth ns2 auth2 zc false) else
      zc' <- slice_from zc (b8 (1 + z0)) ;;
      is_auth_fn f zc' loc ns2 auth2
  end.
Definition is_authoritative_fn (q loc : bytes) : res authres :=
  is_auth_fn (S (length q)) q loc false false.

Fixpoint find_ans_fn (fuel : nat) (q ctrl qname : bytes) (qtype : N) (loc : bytes) (wild : bool)
         (s : fa_state) : res fa_state :=
  match fuel with
  | O => OutOfFuel
  | S f =>
      let s1 := if is_loc0 loc then s else fst (for_each_fn (loc ++ q) (fa_cb qname qtype wild) s) in
      let s2 := fst (for_each_fn (loc0 ++ q) (fa_cb qname qtype wild) s1) in
      if snd s2 then Val s2 else
      if bytes_eqb q ctrl then Val s2 else
      q0 <- idx q 0 ;;
      if q0 =? 0 then Val s2 else
      lab <- slice q 1 (b8 (q0 + 1)) ;;
      if negb (wildsafe lab) then Val s2 else
      q' <- slice_from q (b8 (q0 + 1)) ;;
      find_ans_fn f q' ctrl qname qtype loc true s2
  end.
Definition find_answer_fn (q ctrl qname : bytes) (qtype : N) (loc : bytes) (max : N)
  : res (list item * bool) :=
  s <- find_ans_fn (S (length q)) q ctrl qname qtype loc false (wrs_empty, [], false) ;;
  Val (fa_finish qname max s).

Definition reader_fn : reader unit :=
  mkReader unit
    (fun c q loc => a <- is_authoritative_fn q loc ;; Val (a, c))
    (fun c q ctrl qname qtype loc max =>
       '(an, found) <- find_answer_fn q ctrl qname qtype loc max ;; Val (an, found, c))
    (fun S c name loc f s => let '(s', e) := for_each_rr_fn name loc f s in Val (s', e, c)).
End Fn.

(* ServeDNSWithRCODE over the label-by-label reader of a driver given as a function (b: CDB or RDB1 -
   which ForEach error convention applies) *)
Definition serve_fn (b : backend) (g : bytes -> list row) (q : query) (locr : locres) (ecs : option ecsval) (max : N)
  : outcome :=
  serve_with unit (reader_fn b g) tt q locr ecs max.

(* the CDB driver's ForEach on a file image: FindStart, then FindNext until EOF, of the byte-level
   reader of Model/Cdb.v (cdb.go read by read) *)
Definition cdb_get (H : bytes -> N) (data : bytes) (key : bytes) : list row :=
  match Model.Cdb.bfind_all H data key with Ok vs => vs | Err _ => [] end.

(* the Model/Store.store obtained by reading every listed key back from the image, each key once *)
Fixpoint dedup_keys (seen ks : list bytes) : list bytes :=
  match ks with
  | [] => []
  | k :: t => if existsb (bytes_eqb k) seen then dedup_keys seen t else k :: dedup_keys (k :: seen) t
  end.
Definition store_of_image (H : bytes -> N) (data : bytes) (keys : list bytes) : store :=
  map (fun k => (k, cdb_get H data k)) (dedup_keys [] keys).

(* ================================================================== 3. Counters beside Serve *)

(* what Model/Serve does not model of a query handling *)
Record side := mkSide {
  s_do : bool;           (* state.Do() *)
  s_mask : N;            (* loc.Mask of the Location FindLocation returned *)
  s_write_err : bool     (* WriteMsg returned an error *)
}.

Definition loc_class (sd : side) (locr : locres) : Model.Counters.loc_res :=
  match locr with
  | LocErr => Model.Counters.LocErr
  | LocNil => Model.Counters.LocNil
  | LocOk l => Model.Counters.LocOk (s_mask sd) (nth 0 l 0) (nth 1 l 0)
  end.

Definition edns_ok (q : query) : bool := match q_edns q with Some (Npos _) => false | _ => true end.

Section Class.
Variable C : Type.
Variable rd : reader C.

(* the description of what happened, from the reader calls Model/Serve.serve_with makes, in its order;
   [nsent] = len(resp.Answer) of the message given to WriteMsg.  Where a reader call panics or runs out
   of fuel the handler model has no outcome to describe (Model/Counters has no panic): the remaining
   fields are filled with defaults and the theorems exclude these runs. *)
Definition run_class (sd : side) (c0 : C) (q : query) (locr : locres) (max nsent : N) : Model.Counters.qclass :=
  let packed := lower_bytes (q_name q) in
  let mk := fun isauth_err ns auth ds_err ds_auth nfound found unpack_ok =>
    Model.Counters.mkQ true (s_do sd) (q_type q) (edns_ok q) true (loc_class sd locr) false Model.Counters.CMiss
                       isauth_err ns auth ds_err ds_auth nfound found unpack_ok nsent (s_write_err sd) in
  let dflt := mk false false false false false 0 false true in
  match locr with
  | LocOk loc =>
      match rd_auth C rd c0 packed loc with
      | Val (ar, c1) =>
          if a_err ar then mk true false false false false 0 false true else
          match serve_ds C rd q loc packed ar c1 with
          | Val None => mk false (a_ns ar) (a_auth ar) true false 0 false true
          | Val (Some (ar', c2)) =>
              match (if a_auth ar'
                     then '(an, found, c3) <- rd_answer C rd c2 packed (a_zc ar') (q_name q) (q_type q) loc max ;;
                          Val (item_count an, found)
                     else Val (0, false)) with
              | Val (nfound, found) =>
                  mk false (a_ns ar) (a_auth ar) false (a_auth ar') nfound found
                     (match parse_name (a_zc ar') with Some _ => true | None => false end)
              | _ => dflt
              end
          | _ => dflt
          end
      | _ => dflt
      end
  | _ => dflt
  end.

(* the class of the run that produced [serve_with]'s outcome *)
Definition serve_class (sd : side) (c0 : C) (q : query) (locr : locres) (ecs : option ecsval) (max : N)
  : Model.Counters.qclass :=
  run_class sd c0 q locr max
            (match serve_with C rd c0 q locr ecs max with OReply x => item_count (rs_an x) | _ => 0 end).
End Class.

(* the response class of a Serve outcome, as the list of writes the handler made: a reply with rcode
   SERVFAIL is dns.HandleFailed's bare message (Model/Serve composes no other SERVFAIL); any other reply
   is the composed response given to WriteMsg: rcode, AA, number of answer records - the number
   announced by the IPick items, which IS the number after the draw (C11_served_addresses_sound) *)
Definition resp_class (sd : side) (o : outcome) : option (list Model.Counters.wr) :=
  match o with
  | OReply x =>
      Some [if rs_rcode x =? 2 then Model.Counters.WrBare
            else Model.Counters.WrComposed (rs_rcode x) (rs_aa x) (item_count (rs_an x)) (negb (s_write_err sd))]
  | ONoReply => Some []
  | OPanic | OFuel => None
  end.

Definition class_of (sd : side) (b : backend) (st : store) (q : query) (locr : locres) (ecs : option ecsval) (max : N)
  : Model.Counters.qclass :=
  match b with
  | RDB2 => serve_class ctx (reader_v2 st) sd [] q locr ecs max
  | _ => serve_class unit (reader_v1 b st) sd tt q locr ecs max
  end.
