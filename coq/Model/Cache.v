(* Model/Cache: sequential semantics of the response cache wrapper of
   dnsserver/handler.go (lines 221-252: key, lru.Get, expiry, copy + SetReply + OPT;
   lines 345-356: lru.Add before the OPT is attached, weighted answers only with
   WRSTimeout > 0) and of the purge in dnsserver/db.go Reload, around an abstract
   response computation [serve_core].  Executable, NO proofs inside.

   serve_core receives, by construction of the handler, only: the database generation, the
   location id found for the requester, qtype, qclass, the lower-cased name (state.Name()),
   the name as asked (state.QName(): the owner names of the answer are written in this
   case) and the random draws of the weighted selection.  Everything request specific
   (message id, RD/CD bits, question as asked, OPT with the ECS option) is added outside by
   [finish], on the hit path (copy of the entry + SetReply + OPT) and on the miss path alike.

   The LRU (hashicorp/golang-lru, simplelru) is a list in recency order, most recent first:
   Get moves to the front, Add updates in place and moves to the front or pushes to the
   front and evicts the oldest entry beyond the capacity, Remove, Purge. *)
From DnsV Require Import Base.Bytes.
Open Scope N_scope.

(* what the answer depends on besides the generation: location id (two bytes, as a number
   < 65536), qtype, qclass, lower-cased name *)
Record key := mkKey { k_loc : N; k_qtype : N; k_qclass : N; k_name : bytes }.

(* the cache key is the STRING fmt.Sprintf("%.3d|%d|%d|%s", loc.LocID, qtype, qclass, name):
   the two location bytes print as "[aaa bbb]", then qtype and qclass in decimal, the fields
   separated by a vertical bar (124), then the name. *)
Fixpoint digits_fuel (fuel : nat) (n : N) (acc : bytes) : bytes :=
  match fuel with
  | O => acc
  | S f => let acc' := (48 + n mod 10) :: acc in
           if n / 10 =? 0 then acc' else digits_fuel f (n / 10) acc'
  end.
Definition digits (n : N) : bytes := digits_fuel 20 n [].       (* %d *)
Definition pad3 (n : N) : bytes :=                               (* %.3d *)
  let d := digits n in
  match length d with
  | 1%nat => 48 :: 48 :: d
  | 2%nat => 48 :: d
  | _ => d
  end.
Definition key_string (k : key) : bytes :=
  [91] ++ pad3 (k_loc k / 256) ++ [32] ++ pad3 (k_loc k mod 256) ++ [93] ++
  [124] ++ digits (k_qtype k) ++ [124] ++ digits (k_qclass k) ++ [124] ++ k_name k.

(* what the handler sees of a request *)
Record request := mkReq {
  q_from : N;            (* requester (address / ECS option): input of the location lookup *)
  q_asked : bytes;       (* name as asked, letter case preserved *)
  q_qtype : N;
  q_qclass : N;
  q_extra : N            (* id, RD/CD bits, EDNS presence / size / DO, ECS option: only [finish] looks at it *)
}.

Section Cache.
Variable content : Type.          (* a database generation *)
Variable body : Type.             (* rcode, AA, answer / authority / additional without OPT *)
Variable response : Type.         (* the message written *)

Variable lower : bytes -> bytes.                         (* strings.ToLower of the qname *)
Variable locate : content -> request -> N.               (* reader.FindLocation: LocID *)
Variable serve_core : content -> key -> bytes -> N -> body.   (* generation, key, name as asked, random draws *)
Variable weightedf : content -> key -> bool.             (* the answer for this key uses weighted selection *)
Variable refusedf : content -> key -> bool.              (* not authoritative, no delegation: REFUSED, never cached *)
Variable finish : body -> request -> N -> response.      (* SetReply + Rcode + OPT(ECS of this request / location) + SizeAndDo + Scrub *)
(* handler.go 178-181: a request with an unsupported EDNS version is answered at once (BADVERS,
   built by coredns edns.Version from the request alone), before the location lookup and the cache *)
Variable badvers : request -> bool.
Variable badvers_reply : request -> response.

Record entry := mkE { e_exp : N; e_body : body }.
Definition cache := list (bytes * entry).

Fixpoint lru_find (k : bytes) (c : cache) : option entry :=
  match c with
  | [] => None
  | (k', e) :: c' => if bytes_eqb k' k then Some e else lru_find k c'
  end.
Fixpoint lru_remove (k : bytes) (c : cache) : cache :=
  match c with
  | [] => []
  | (k', e) :: c' => if bytes_eqb k' k then c' else (k', e) :: lru_remove k c'
  end.
(* Get: the entry, and the cache with it moved to the front *)
Definition lru_get (k : bytes) (c : cache) : option (entry * cache) :=
  match lru_find k c with
  | Some e => Some (e, (k, e) :: lru_remove k c)
  | None => None
  end.
(* Add: replace or insert at the front; evict from the back beyond the capacity *)
Definition lru_add (cap : nat) (k : bytes) (e : entry) (c : cache) : cache :=
  firstn cap ((k, e) :: lru_remove k c).

Record cconfig := mkCC { cc_enabled : bool; cc_cap : nat; cc_wrs : N }.

Definition key_of (g : content) (r : request) : key :=
  mkKey (locate g r) (q_qtype r) (q_qclass r) (lower (q_asked r)).

Inductive outcome := OHit | OExpired | OMiss | OOff.

(* one query at time now (time.Now().Unix()) with random draws rnd *)
Definition serve (cfg : cconfig) (g : content) (c : cache) (now rnd : N) (r : request)
  : cache * response * outcome :=
  if badvers r then (c, badvers_reply r, OOff) else
  let k := key_of g r in
  let ks := key_string k in
  let compute (c0 : cache) (o : outcome) :=
    let b := serve_core g k (q_asked r) rnd in
    let c1 :=
      if negb (cc_enabled cfg) || refusedf g k then c0
      else if negb (weightedf g k) then lru_add (cc_cap cfg) ks (mkE (now + 1000) b) c0
      else if 0 <? cc_wrs cfg then lru_add (cc_cap cfg) ks (mkE (now + cc_wrs cfg) b) c0
      else c0 in
    (c1, finish b r (k_loc k), o) in
  if cc_enabled cfg then
    match lru_get ks c with
    | Some (e, c') =>
        if e_exp e <? now
        then compute (lru_remove ks c') OExpired         (* h.lru.Remove(cacheKey), then the miss path *)
        else (c', finish (e_body e) r (k_loc k), OHit)  (* copy of the entry, SetReply, OPT *)
    | None => compute c OMiss
    end
  else compute c OOff.

(* the same query on a handler without cache *)
Definition serve_plain (g : content) (rnd : N) (r : request) : response :=
  if badvers r then badvers_reply r else
  let k := key_of g r in finish (serve_core g k (q_asked r) rnd) r (k_loc k).

Inductive event :=
| EQuery (now rnd : N) (r : request)
| EReload (g : content)        (* Reload returned nil: new generation served, cache purged *)
| EReloadFailed.               (* Reload returned an error: nothing changes *)

Definition cstep (cfg : cconfig) (st : content * cache) (ev : event)
  : (content * cache) * option (response * outcome) :=
  let (g, c) := st in
  match ev with
  | EQuery now rnd r => let '(c', resp, o) := serve cfg g c now rnd r in ((g, c'), Some (resp, o))
  | EReload g' => ((g', []), None)     (* h.lru.Purge() (without cache there is no lru at all) *)
  | EReloadFailed => ((g, c), None)
  end.

Fixpoint crun (cfg : cconfig) (st : content * cache) (h : list event) : list (option (response * outcome)) :=
  match h with
  | [] => []
  | ev :: h' => let (st', o) := cstep cfg st ev in o :: crun cfg st' h'
  end.

Fixpoint prun (g : content) (h : list event) : list (option response) :=
  match h with
  | [] => []
  | EQuery _ rnd r :: h' => Some (serve_plain g rnd r) :: prun g h'
  | EReload g' :: h' => None :: prun g' h'
  | EReloadFailed :: h' => None :: prun g h'
  end.

(* the generation in force at each event, and whether the query's answer is weighted *)
Fixpoint gens (g : content) (h : list event) : list content :=
  match h with
  | [] => []
  | EReload g' :: h' => g :: gens g' h'
  | _ :: h' => g :: gens g h'
  end.
End Cache.

Arguments mkE {body} _ _.
Arguments e_exp {body} _.
Arguments e_body {body} _.
