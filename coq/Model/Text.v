(* Text: the text form of data-file records, after dnsdata/data.go (fields, the
   UnmarshalText / MarshalMap methods, getdom/getloc/getlmap, putdom, putrrhead,
   makedomainkey/makemapkey) and dnsdata/data_marshaltext.go (the MarshalText
   methods, putdomtext, putloctext), statement by statement.

   Modelled record types (all 17):  % Z . & + = @ S C ^ ' : M 8 ! B H
   B and H (SVCB/HTTPS, Rsvcb.UnmarshalText / MarshalText / MarshalMap) hand their last field,
   the parameter list, to Model/Svcb.v (ParamList.FromText / ToText / ToWire, property C18).

   Library behaviour that is not modelled enters through the record [toracles]:
   strconv.IsPrint on runes >= 0x80 (used by Bquote), net.ParseIP, net.IP.String,
   net.ParseCIDR, net.IPNet.String, base64.StdEncoding Decode / Encode (B/H echconfig).
   Modelled directly: strconv.ParseUint (base 10), fmt %d / %03o, bytes.Split /
   SplitN / Join / Contains / HasPrefix, toLowerASCII (since /repo c5bd440 keys are lower-cased
   A-Z only, no longer with the Unicode-aware bytes.ToLower), net.IP.To4 / To16,
   net.CIDRMask sizes, binary.Write big endian, uint8/uint16/uint32 wrap-around.

   Go slices are immutable values here; the aliasing in the real code (Bunquote
   returning its argument, f[i] pointing into the line) has no counterpart.
   No proofs in this file: it must keep evaluating when a proof breaks. *)
From DnsV Require Export Base.Bytes Model.Quote.
(* not imported: Model/Svcb.v and Base/Text.v reuse names of this file (marshal, putdom, split_on, ...) *)
From DnsV Require Model.Svcb Spec.SvcbWire.
Open Scope N_scope.

Record toracles := mkTO {
  o_isprint : N -> bool;                       (* strconv.IsPrint, runes >= 0x80 *)
  o_parse_ip : bytes -> option bytes;          (* net.ParseIP(string(s)): nil or the 16-byte form *)
  o_print_ip : bytes -> bytes;                 (* net.IP(a).String() of a 16-byte slice (B/H ipv4hint: also of a 4-byte slice) *)
  o_parse_cidr : bytes -> option (bytes * N * N);  (* net.ParseCIDR: (ipnet.IP (4 or 16 bytes), ones, bits) *)
  o_print_net : bytes -> N -> bytes;           (* (&net.IPNet{IP: a (16 bytes), Mask: CIDRMask(ones,128)}).String() *)
  o_b64_dec : bytes -> option bytes;           (* base64.StdEncoding.Decode: error or the decoded bytes *)
  o_b64_enc : bytes -> bytes                   (* base64.StdEncoding.Encode *)
}.

(* the library functions Model/Svcb.v asks for: the same net.ParseIP / net.IP.String, and base64 *)
Definition sorc (o : toracles) : Model.Svcb.oracles :=
  Model.Svcb.mkO (o_parse_ip o) (o_print_ip o) (o_b64_dec o) (o_b64_enc o).

(* error enumeration *)
Definition E_QUOTE : N := 1.       (* strconv.UnquoteChar error inside a location field *)
Definition E_FUEL : N := 2.        (* Bunquote model out of fuel (never with the fuel supplied) *)
Definition E_BADTYPE : N := 3.     (* ErrBadRType *)
Definition E_NET : N := 4.         (* unparsable network in a % line *)
Definition E_UNMODELLED : N := 8.  (* no longer produced (was: B / H line) *)
Definition E_PANIC : N := 9.       (* decodeRtype on an empty line: slice bounds out of range *)
Definition E_SVCB : N := 100.      (* E_SVCB + e: ParamList.FromText error e of Model/Svcb.v (B / H line) *)

(* ------------------------------------------------------------------ numbers *)
Definition is_digit (c : N) : bool := (48 <=? c) && (c <=? 57).

Fixpoint dec_val (s : bytes) (acc : N) : option N :=
  match s with
  | [] => Some acc
  | c :: t => if is_digit c then dec_val t (acc * 10 + (c - 48)) else None
  end.

(* strconv.ParseUint(s, 10, bits) with max = 2^bits - 1: syntax and range errors alike give None *)
Definition parse_uint (max : N) (s : bytes) : option N :=
  match s with
  | [] => None
  | _ => match dec_val s 0 with
         | Some v => if v <=? max then Some v else None
         | None => None
         end
  end.

(* getuint32 / getuint16 / getuint8: the target keeps its value on error *)
Definition getuint (max : N) (s : bytes) (dflt : N) : N :=
  match parse_uint max s with Some v => v | None => dflt end.

Definition max32 : N := 4294967295.
Definition max16 : N := 65535.
Definition max8 : N := 255.

(* fmt %d of an unsigned number; fuel = number of binary digits + 1 suffices *)
Fixpoint dec_digits (fuel : nat) (n : N) (acc : bytes) : bytes :=
  match fuel with
  | O => acc
  | S f => let acc' := (48 + n mod 10) :: acc in
           if n <? 10 then acc' else dec_digits f (n / 10) acc'
  end.
Definition print_dec (n : N) : bytes := dec_digits (S (N.to_nat (N.size n))) n [].

(* ------------------------------------------------------------------ fields *)
(* bytes.SplitN(s, [c], n): at most n pieces, the last one unsplit *)
Fixpoint splitn (n : nat) (c : N) (s cur : bytes) : list bytes :=
  match s with
  | [] => [rev cur]
  | x :: t => if (x =? c) && (1 <? n)%nat then rev cur :: splitn (pred n) c t []
              else splitn n c t (x :: cur)
  end.

(* detectSep + SplitN 15; the padding with nil slices is nth's default below *)
Definition fields (l : bytes) : list bytes :=
  let b := tl l in
  let sep := match first_sep b with Some c => c | None => 44 end in
  splitn 15 sep b [].
Definition fld (f : list bytes) (i : nat) : bytes := nth i f [].

(* ------------------------------------------------------------------ unquoting helpers *)
(* x, _ = quote.Bunquote(b): on error Bunquote returns its argument *)
Definition unq (b : bytes) : bytes := match bunquote b with Ok x => x | Err _ => b end.

Definition is_wild (d : bytes) : bool :=      (* HasPrefix "*." *)
  match d with a :: b :: _ => (a =? 42) && (b =? 46) | _ => false end.

Definition getdom (b : bytes) : bytes * bool :=
  let d := unq b in if is_wild d then (skipn 2 d, true) else (d, false).

(* Loc is nil (here []) or exactly two bytes *)
Definition getloc (b : bytes) : result bytes :=
  match bunquote b with
  | Err e => Err e
  | Ok q => if (length q =? 2)%nat then Ok q else Ok []
  end.

Definition getlmap (b : bytes) : bytes := let q := unq b in [nth 0 q 0; nth 1 q 0].

(* x.ns.dom / x.mx.dom / x.srv.dom *)
Definition expand (x mid dom : bytes) : bytes :=
  if contains 46 x then x else x ++ 46 :: mid ++ 46 :: dom.

Definition s_ns : bytes := [110; 115].
Definition s_mx : bytes := [109; 120].
Definition s_srv : bytes := [115; 114; 118].
Definition s_hostmaster : bytes := [104; 111; 115; 116; 109; 97; 115; 116; 101; 114].

(* ------------------------------------------------------------------ wire names, keys, heads *)
(* n := byte(len(s)); if n > 0 { write n; write s[:n] } *)
Definition put_label (s : bytes) : bytes :=
  let n := nlen s mod 256 in if n =? 0 then [] else n :: firstn (N.to_nat n) s.
(* putreverseddom writes the whole of s, not s[:n] *)
Definition put_label_rev (s : bytes) : bytes :=
  let n := nlen s mod 256 in if n =? 0 then [] else n :: s.

Definition putdom (a : bytes) : bytes := flat_map put_label (split_on 46 a []) ++ [0].
Definition putrevdom (a : bytes) : bytes := flat_map put_label_rev (rev (split_on 46 a [])) ++ [0].

Definition putloc (lo : bytes) : bytes := if (length lo =? 2)%nat then lo else [0; 0].

Definition ascii_lower (c : N) : N := if (65 <=? c) && (c <=? 90) then c + 32 else c.

(* toLowerASCII: A-Z only *)
Definition to_lower (d : bytes) : bytes := map ascii_lower d.

Definition domainkey (v2 : bool) (dom lo : bytes) : bytes :=
  let d := to_lower dom in
  if v2 then [0; 111] ++ putrevdom d ++ putloc lo else putloc lo ++ putdom d.

Definition mapkey (v2 : bool) (marker : N) (dom : bytes) : bytes :=
  let '(d, suffix) := if is_wild dom then (skipn 2 dom, 42) else (dom, 61) in
  let d := to_lower d in
  [0; marker] ++ (if v2 then putrevdom d else putdom d) ++ [suffix].

Definition zeros8 : bytes := [0;0;0;0;0;0;0;0].

Definition rrhead (t ttl : N) (lo : bytes) (wild : bool) : bytes :=
  u16be t ++
  (if negb (length lo =? 2)%nat || ((nth 0 lo 0 =? 0) && (nth 1 lo 0 =? 0))
   then [if wild then 42 else 61]
   else (if wild then 43 else 62) :: lo) ++
  u32be ttl ++ zeros8.

(* ------------------------------------------------------------------ addresses *)
Definition v4pre : bytes := [0;0;0;0;0;0;0;0;0;0;255;255].
(* net.IP.To4() != nil for a 16-byte address (false for nil) *)
Definition is4 (a : bytes) : bool := (length a =? 16)%nat && is_prefix v4pre a.
(* net.IP.To16 of what ParseCIDR returns *)
Definition to16 (a : bytes) : bytes := if (length a =? 4)%nat then v4pre ++ a else a.

Definition ip_text (o : toracles) (ip : option bytes) : bytes :=
  match ip with None => [] | Some a => o_print_ip o a end.   (* net.IP.MarshalText *)

Definition s_inaddr : bytes := [46;105;110;45;97;100;100;114;46;97;114;112;97].   (* .in-addr.arpa *)
Definition s_ip6arpa : bytes := [105;112;54;46;97;114;112;97].                    (* ip6.arpa *)
Definition hexlow (n : N) : N := if n <? 10 then 48 + n else 87 + n.

Definition reverseaddr (ip : option bytes) : bytes :=
  match ip with
  | None => s_ip6arpa
  | Some a =>
    if is4 a then
      print_dec (nth 15 a 0) ++ 46 :: print_dec (nth 14 a 0) ++ 46 :: print_dec (nth 13 a 0) ++ 46 ::
      print_dec (nth 12 a 0) ++ s_inaddr
    else flat_map (fun v => [hexlow (v mod 16); 46; hexlow ((v / 16) mod 16); 46]) (rev a) ++ s_ip6arpa
  end.

(* ------------------------------------------------------------------ text helpers *)
Fixpoint joinb (c : N) (l : list bytes) : bytes :=
  match l with
  | [] => []
  | x :: t => match t with [] => x | _ :: _ => x ++ c :: joinb c t end
  end.

Definition nonempty (s : bytes) : bool := match s with [] => false | _ => true end.
(* n := byte(len(s)); if n > 0 { keep s[:n] } *)
Definition trunc_label (s : bytes) : bytes := firstn (N.to_nat (nlen s mod 256)) s.

Definition putdomtext (o : toracles) (a : bytes) : bytes :=
  if bytes_eqb a [46] then [46]      (* len(a) == 1 && a[0] == '.' *)
  else joinb 46 (filter nonempty (map trunc_label (split_on 46 (bquote (o_isprint o) a) []))).

Definition oct3 (b : N) : bytes := [92; 48 + (b / 64) mod 8; 48 + (b / 8) mod 8; 48 + b mod 8].  (* \%03o *)
Definition loctext (lo : bytes) : bytes := flat_map oct3 lo.
Definition quoted (o : toracles) (b : bytes) : bytes := bquote (o_isprint o) b.
Definition wildtext (o : toracles) (wild : bool) (dom : bytes) : bytes :=
  (if wild then [42; 46] else []) ++ putdomtext o dom.

(* ------------------------------------------------------------------ records *)
Inductive record :=
| RNet (lo ip : bytes) (ones : N) (lmap : bytes)                         (* %  ip: 16 bytes, ones of 128 *)
| RSoa (dom ns adm : bytes) (ser ref ret exp min ttl : N) (lo : bytes)   (* Z *)
| RDot (dom : bytes) (ip : option bytes) (ns : bytes) (ttl : N) (lo : bytes) (ser : N)  (* .  ser = Codec.Serial *)
| RNs (dom : bytes) (ip : option bytes) (ns : bytes) (ttl : N) (lo : bytes)             (* & *)
| RAddr (dom : bytes) (wild : bool) (ip : option bytes) (ttl : N) (lo : bytes) (weight : N)  (* + *)
| RPaddr (dom : bytes) (wild : bool) (ip : option bytes) (ttl : N) (lo : bytes)         (* = *)
| RMx (dom : bytes) (ip : option bytes) (mx : bytes) (dist ttl : N) (lo : bytes)        (* @ *)
| RSrv (dom : bytes) (ip : option bytes) (srv : bytes) (port pri weight ttl : N) (lo : bytes)  (* S *)
| RCname (dom : bytes) (wild : bool) (cname : bytes) (ttl : N) (lo : bytes)             (* C *)
| RPtr (dom host : bytes) (ttl : N) (lo : bytes)                                        (* ^ *)
| RTxt (dom : bytes) (wild : bool) (txt : bytes) (ttl : N) (lo : bytes)                 (* ' *)
| RAux (dom : bytes) (rtype : N) (rdata : bytes) (ttl : N) (lo : bytes)                 (* : *)
| RIpmap (dom lmap : bytes)                                                             (* M *)
| RCsmap (dom lmap : bytes)                                                             (* 8 *)
| RRangePoint (lmap ip : bytes) (masklen : N) (null : bool) (locid : bytes)             (* !  ip: 16 bytes; locid: 2 bytes *)
| RSvcb (https : bool) (dom : bytes) (wild : bool) (tgt : bytes) (ttl : N) (lo : bytes) (prio : N)
        (params : list Model.Svcb.param).                                               (* B (https = false), H *)

Definition LongTTL : N := 86400.
Definition ShortTTL : N := 2560.
Definition LinkTTL : N := 259200.

(* parseipnet + To16 + widening of the mask to 128 bits *)
Definition parse_net (o : toracles) (s : bytes) : result (bytes * N) :=
  match o_parse_cidr o s with
  | Some (ip, ones, bits) => Ok (to16 ip, if bits <? 128 then ones + (128 - bits) else ones)
  | None =>
    match o_parse_ip o s with
    | None => match s with [] => Ok (v4pre ++ [0;0;0;0], 96) | _ => Err E_NET end
    | Some ip => Ok (ip, 128)      (* /32 of 32 widened, or /128 *)
    end
  end.

(* r.params.FromText(f[5]) on the empty list of a fresh record.  A Go run-time panic of the
   parameter code is the panic outcome of this model; any other error is a DecodeLn error *)
Definition svcb_params (o : toracles) (s : bytes) : result (list Model.Svcb.param) :=
  match Model.Svcb.from_text (sorc o) s with
  | Ok l => Ok l
  | Err e => if (e =? Model.Svcb.E_PANIC) || (e =? Model.Svcb.E_OOR) then Err E_PANIC else Err (E_SVCB + e)
  end.

Definition parse_line (o : toracles) (serial : N) (l : bytes) : result record :=
  match l with
  | [] => Err E_PANIC
  | t :: _ =>
    let f := fields l in
    if t =? 37 then (* % *)
      rbind (getloc (fld f 0)) (fun lo =>
      rbind (parse_net o (fld f 1)) (fun n =>
      Ok (RNet lo (fst n) (snd n) (getlmap (fld f 2)))))
    else if t =? 90 then (* Z *)
      let dom := unq (fld f 0) in let ns := unq (fld f 1) in let adm := unq (fld f 2) in
      let ser := getuint max32 (fld f 3) serial in
      let ref := getuint max32 (fld f 4) 16384 in
      let ret := getuint max32 (fld f 5) 2048 in
      let exp := getuint max32 (fld f 6) 1048576 in
      let min := getuint max32 (fld f 7) 2560 in
      let ttl := getuint max32 (fld f 8) ShortTTL in
      rbind (getloc (fld f 10)) (fun lo => Ok (RSoa dom ns adm ser ref ret exp min ttl lo))
    else if (t =? 46) || (t =? 38) then (* . and & : Rns.UnmarshalText *)
      let dom := unq (fld f 0) in
      let ns := expand (unq (fld f 2)) s_ns dom in
      let ttl := getuint max32 (fld f 3) LinkTTL in
      rbind (getloc (fld f 5)) (fun lo =>
      let ip := o_parse_ip o (fld f 1) in
      Ok (if t =? 46 then RDot dom ip ns ttl lo serial else RNs dom ip ns ttl lo))
    else if t =? 43 then (* + *)
      let '(dom, wild) := getdom (fld f 0) in
      let ip := o_parse_ip o (fld f 1) in
      let ttl := getuint max32 (fld f 2) LongTTL in
      let weight := getuint max32 (fld f 5) 1 in
      rbind (getloc (fld f 4)) (fun lo => Ok (RAddr dom wild ip ttl lo weight))
    else if t =? 61 then (* = *)
      let '(dom, wild) := getdom (fld f 0) in
      let ip := o_parse_ip o (fld f 1) in
      let ttl := getuint max32 (fld f 2) LongTTL in
      rbind (getloc (fld f 4)) (fun lo => Ok (RPaddr dom wild ip ttl lo))
    else if t =? 64 then (* @ *)
      let dom := unq (fld f 0) in
      let mx := expand (unq (fld f 2)) s_mx dom in
      let dist := getuint max32 (fld f 3) 0 in
      let ttl := getuint max32 (fld f 4) LongTTL in
      rbind (getloc (fld f 6)) (fun lo => Ok (RMx dom (o_parse_ip o (fld f 1)) mx dist ttl lo))
    else if t =? 83 then (* S *)
      let dom := unq (fld f 0) in
      let srv := expand (unq (fld f 2)) s_srv dom in
      let port := getuint max16 (fld f 3) 0 in
      let pri := getuint max16 (fld f 4) 0 in
      let weight := getuint max16 (fld f 5) 0 in
      let ttl := getuint max32 (fld f 6) LongTTL in
      rbind (getloc (fld f 8)) (fun lo => Ok (RSrv dom (o_parse_ip o (fld f 1)) srv port pri weight ttl lo))
    else if t =? 67 then (* C *)
      let '(dom, wild) := getdom (fld f 0) in
      let cname := unq (fld f 1) in
      let ttl := getuint max32 (fld f 2) LongTTL in
      rbind (getloc (fld f 4)) (fun lo => Ok (RCname dom wild cname ttl lo))
    else if t =? 94 then (* ^ *)
      let dom := unq (fld f 0) in
      let host := unq (fld f 1) in
      let ttl := getuint max32 (fld f 2) LongTTL in
      rbind (getloc (fld f 4)) (fun lo => Ok (RPtr dom host ttl lo))
    else if t =? 39 then (* ' *)
      let '(dom, wild) := getdom (fld f 0) in
      let txt := unq (fld f 1) in
      let ttl := getuint max32 (fld f 2) LongTTL in
      rbind (getloc (fld f 4)) (fun lo => Ok (RTxt dom wild txt ttl lo))
    else if t =? 58 then (* : *)
      let dom := unq (fld f 0) in
      let rtype := getuint max32 (fld f 1) 0 mod 65536 in     (* WireType(uint32) *)
      let rdata := unq (fld f 2) in
      let ttl := getuint max32 (fld f 3) LongTTL in
      rbind (getloc (fld f 5)) (fun lo => Ok (RAux dom rtype rdata ttl lo))
    else if t =? 77 then Ok (RIpmap (unq (fld f 0)) (getlmap (fld f 1)))   (* M *)
    else if t =? 56 then Ok (RCsmap (unq (fld f 0)) (getlmap (fld f 1)))   (* 8 *)
    else if t =? 33 then (* ! *)
      let lmap := getlmap (fld f 0) in
      let ipo := o_parse_ip o (fld f 1) in
      let ip := match ipo with Some a => a | None => repeat 0 16 end in     (* FromNetIP(nil) is all zero *)
      let ml := getuint max8 (fld f 2) 0 in
      rbind (getloc (fld f 3)) (fun lo =>
      let null := negb (length lo =? 2)%nat in
      let locid := if null then [0; 0] else lo in
      let v4 := match ipo with Some a => is4 a | None => false end in
      let ml := if negb null && v4 then (ml + 96) mod 256 else ml in
      Ok (RRangePoint lmap ip ml null locid))
    else if (t =? 66) || (t =? 72) then (* B and H : Rsvcb.UnmarshalText; ttl and priority start at 0 *)
      let '(dom, wild) := getdom (fld f 0) in
      let tgt := fst (getdom (fld f 1)) in               (* r.tgtname, _ = getdom(f[1]): a leading "*." is dropped *)
      let ttl := getuint max32 (fld f 2) 0 in
      rbind (getloc (fld f 3)) (fun lo =>
      let prio := getuint max16 (fld f 4) 0 in
      rbind (svcb_params o (fld f 5)) (fun ps => Ok (RSvcb (t =? 72) dom wild tgt ttl lo prio ps)))
    else Err E_BADTYPE
  end.

(* ------------------------------------------------------------------ MarshalText *)
Definition SEPC : N := 44.
Definition line_of (t : N) (fs : list bytes) : bytes := t :: joinb SEPC fs.

(* r.params.ToText(buf); ToText returns nothing: where the parameter code would panic (never on a
   list FromText produced, Proofs/Svcb.v) this total function writes nothing - [marshal_r] below
   reports the panic *)
Definition params_text (o : toracles) (ps : list Model.Svcb.param) : bytes :=
  match Model.Svcb.to_text (sorc o) ps with Ok s => s | Err _ => [] end.

Definition marshal (o : toracles) (r : record) : bytes :=
  let d := print_dec in
  match r with
  | RNet lo ip ones lmap => line_of 37 [loctext lo; o_print_net o ip ones; loctext lmap]
  | RSoa dom ns adm ser ref ret exp min ttl lo =>
      line_of 90 [putdomtext o dom; putdomtext o ns; putdomtext o adm;
                  (if ser =? 0 then [] else d ser); d ref; d ret; d exp; d min; d ttl; []; loctext lo]
  | RDot dom ip ns ttl lo _ => line_of 46 [putdomtext o dom; ip_text o ip; putdomtext o ns; d ttl; []; loctext lo]
  | RNs dom ip ns ttl lo => line_of 38 [putdomtext o dom; ip_text o ip; putdomtext o ns; d ttl; []; loctext lo]
  | RAddr dom wild ip ttl lo weight => line_of 43 [wildtext o wild dom; ip_text o ip; d ttl; []; loctext lo; d weight]
  | RPaddr dom wild ip ttl lo => line_of 61 [wildtext o wild dom; ip_text o ip; d ttl; []; loctext lo]
  | RMx dom ip mx dist ttl lo => line_of 64 [putdomtext o dom; ip_text o ip; putdomtext o mx; d dist; d ttl; []; loctext lo]
  | RSrv dom ip srv port pri weight ttl lo =>
      line_of 83 [putdomtext o dom; ip_text o ip; putdomtext o srv; d port; d pri; d weight; d ttl; []; loctext lo]
  | RCname dom wild cname ttl lo => line_of 67 [wildtext o wild dom; putdomtext o cname; d ttl; []; loctext lo]
  | RPtr dom host ttl lo => line_of 94 [putdomtext o dom; putdomtext o host; d ttl; []; loctext lo]
  | RTxt dom wild txt ttl lo => line_of 39 [wildtext o wild dom; quoted o txt; d ttl; []; loctext lo]
  | RAux dom rtype rdata ttl lo => line_of 58 [putdomtext o dom; d rtype; quoted o rdata; d ttl; []; loctext lo]
  | RIpmap dom lmap => line_of 77 [putdomtext o dom; loctext lmap]
  | RCsmap dom lmap => line_of 56 [putdomtext o dom; loctext lmap]
  | RRangePoint lmap ip ml null locid =>
      line_of 33 ([loctext lmap; o_print_ip o ip] ++
                  (if null then []
                   else [d (if is4 ip then (ml + 160) mod 256 else ml); loctext locid]))   (* uint8: mlen -= 96 *)
  | RSvcb h dom wild tgt ttl lo prio ps =>      (* "*." for a wildcard owner since /repo 8a29d44 *)
      line_of (if h then 72 else 66) [wildtext o wild dom; putdomtext o tgt; d ttl; loctext lo; d prio; params_text o ps]
  end.

(* MarshalText with its panic outcome (only B/H can panic, inside ParamList.ToText) *)
Definition marshal_r (o : toracles) (r : record) : result bytes :=
  match r with
  | RSvcb _ _ _ _ _ _ _ ps =>
    match Model.Svcb.to_text (sorc o) ps with Ok _ => Ok (marshal o r) | Err _ => Err E_PANIC end
  | _ => Ok (marshal o r)
  end.

(* ------------------------------------------------------------------ MarshalMap *)
Definition kv := (bytes * bytes)%type.

Definition T_A : N := 1.    Definition T_NS : N := 2.   Definition T_CNAME : N := 5.
Definition T_SOA : N := 6.  Definition T_PTR : N := 12. Definition T_MX : N := 15.
Definition T_TXT : N := 16. Definition T_AAAA : N := 28. Definition T_SRV : N := 33.
Definition T_SVCB : N := 64. Definition T_HTTPS : N := 65.

Definition addr_kv (v2 : bool) (dom : bytes) (wild : bool) (ip : option bytes) (ttl : N) (lo : bytes) (weight : N) : list kv :=
  match ip with
  | None => []
  | Some a =>
    if is4 a then [(domainkey v2 dom lo, rrhead T_A ttl lo wild ++ u32be weight ++ skipn 12 a)]
    else [(domainkey v2 dom lo, rrhead T_AAAA ttl lo wild ++ u32be weight ++ a)]
  end.

Definition ns_kv (v2 : bool) (dom ns : bytes) (ttl : N) (lo : bytes) : list kv :=
  [(domainkey v2 dom lo, rrhead T_NS ttl lo false ++ putdom ns)].

Definition soa_kv (v2 : bool) (dom ns adm : bytes) (ser ref ret exp min ttl : N) (lo : bytes) : list kv :=
  [(domainkey v2 dom lo, rrhead T_SOA ttl lo false ++ putdom ns ++ putdom adm ++
     u32be ser ++ u32be ref ++ u32be ret ++ u32be exp ++ u32be min)].

(* TXT: chunks of at most 127 bytes, each preceded by its length *)
Fixpoint txt_chunks (s : bytes) (k : nat) (cur : bytes) : bytes :=
  match s with
  | [] => match cur with [] => [] | _ => N.of_nat k :: rev cur end
  | x :: t => if (k =? 127)%nat then 127 :: rev cur ++ txt_chunks t 1 [x]
              else txt_chunks t (S k) (x :: cur)
  end.

(* the Features / NoRnetOutput settings of the codec are arguments *)
Definition convert (v2 : bool) (nornet : bool) (r : record) : list kv :=
  match r with
  | RNet lo ip ones lmap =>
    if nornet then [] else
    let nbytes := N.to_nat (ones / 8) in
    (if is4 ip && (96 <=? ones) && (ones mod 8 =? 0)
     then [([0; 37] ++ lmap ++ firstn (nbytes - 12) (skipn 12 ip), putloc lo)] else []) ++
    [([0; 37] ++ lmap ++ ip ++ [ones mod 256], putloc lo)]
  | RSoa dom ns adm ser ref ret exp min ttl lo => soa_kv v2 dom ns adm ser ref ret exp min ttl lo
  | RDot dom ip ns ttl lo ser =>
    soa_kv v2 dom ns (s_hostmaster ++ 46 :: dom) ser 16384 2048 1048576 2560 (if ttl =? 0 then 0 else ShortTTL) lo ++
    ns_kv v2 dom ns ttl lo ++ addr_kv v2 ns false ip ttl lo 1
  | RNs dom ip ns ttl lo => ns_kv v2 dom ns ttl lo ++ addr_kv v2 ns false ip ttl lo 1
  | RAddr dom wild ip ttl lo weight => addr_kv v2 dom wild ip ttl lo weight
  | RPaddr dom wild ip ttl lo =>
    addr_kv v2 dom wild ip ttl lo 1 ++
    [(domainkey v2 (reverseaddr ip) lo,
      rrhead T_PTR ttl lo false ++ putdom (if wild then 42 :: 46 :: dom else dom))]
  | RMx dom ip mx dist ttl lo =>
    [(domainkey v2 dom lo, rrhead T_MX ttl lo false ++ u16be dist ++ putdom mx)] ++
    addr_kv v2 mx false ip ttl lo 1
  | RSrv dom ip srv port pri weight ttl lo =>
    [(domainkey v2 dom lo, rrhead T_SRV ttl lo false ++ u16be pri ++ u16be weight ++ u16be port ++ putdom srv)] ++
    addr_kv v2 srv false ip ttl lo 1
  | RCname dom wild cname ttl lo => [(domainkey v2 dom lo, rrhead T_CNAME ttl lo wild ++ putdom cname)]
  | RPtr dom host ttl lo => [(domainkey v2 dom lo, rrhead T_PTR ttl lo false ++ putdom host)]
  | RTxt dom wild txt ttl lo => [(domainkey v2 dom lo, rrhead T_TXT ttl lo wild ++ txt_chunks txt 0 [])]
  | RAux dom rtype rdata ttl lo => [(domainkey v2 dom lo, rrhead rtype ttl lo false ++ rdata)]
  | RIpmap dom lmap => [(mapkey v2 77 dom, lmap)]
  | RCsmap dom lmap => [(mapkey v2 56 dom, lmap)]
  | RRangePoint lmap ip ml null locid =>
    [([0; 0; 0; 33] ++ lmap ++ ip ++ [if null then 0 else ml], if null then [] else locid)]
  | RSvcb h dom wild tgt ttl lo prio ps =>      (* rrhead, priority, target name, SvcParams *)
    [(domainkey v2 dom lo, rrhead (if h then T_HTTPS else T_SVCB) ttl lo wild ++
       u16be prio ++ putdom tgt ++ Model.Svcb.to_wire ps)]
  end.

(* ------------------------------------------------------------------ guards (decidable) *)
(* the name as it is read back from its own text form *)
Definition normname (o : toracles) (d : bytes) : bytes := unq (putdomtext o d).

(* every byte is a byte; no label of the quoted form is 256 bytes or longer (putdomtext
   would cut it to its length mod 256; labels of at most 63 bytes never get there) *)
Definition wf_nameb (o : toracles) (d : bytes) : bool :=
  wf_bytesb d && forallb (fun s => (length s <? 256)%nat) (split_on 46 (bquote (o_isprint o) d) []).

Definition wf_locb (lo : bytes) : bool := wf_bytesb lo && ((length lo =? 0)%nat || (length lo =? 2)%nat).
Definition wf_lmapb (m : bytes) : bool := wf_bytesb m && (length m =? 2)%nat.
Definition wf_ipb (ip : option bytes) : bool :=
  match ip with None => true | Some a => wf_bytesb a && (length a =? 16)%nat end.
Definition u32b (n : N) : bool := n <=? max32.
Definition u16b (n : N) : bool := n <=? max16.

(* an owner that is printed with an optional "*." in front: without the flag its text must not
   begin with "*." (only a name with an empty first label, like ".*.x", gets there) *)
Definition wild_okb (o : toracles) (wild : bool) (d : bytes) : bool :=
  wild || negb (is_wild (normname o d)).

Definition wf_recordb (o : toracles) (r : record) : bool :=
  match r with
  | RNet lo ip ones lmap =>
    wf_locb lo && wf_lmapb lmap && wf_bytesb ip && (length ip =? 16)%nat && (ones <=? 128) &&
    (* the library prints this network so that it parses back to it *)
    match parse_net o (o_print_net o ip ones) with
    | Ok (ip', ones') => bytes_eqb ip' ip && (ones' =? ones)
    | Err _ => false
    end &&
    negb (contains 44 (o_print_net o ip ones))
  | RSoa dom ns adm ser ref ret exp min ttl lo =>
    wf_nameb o dom && wf_nameb o ns && wf_nameb o adm && u32b ser && u32b ref && u32b ret && u32b exp &&
    u32b min && u32b ttl && wf_locb lo
  | RDot dom ip ns ttl lo ser => wf_nameb o dom && wf_ipb ip && wf_nameb o ns && u32b ttl && wf_locb lo && u32b ser
  | RNs dom ip ns ttl lo => wf_nameb o dom && wf_ipb ip && wf_nameb o ns && u32b ttl && wf_locb lo
  | RAddr dom wild ip ttl lo weight =>
    wf_nameb o dom && wild_okb o wild dom && wf_ipb ip && u32b ttl && wf_locb lo && u32b weight
  | RPaddr dom wild ip ttl lo => wf_nameb o dom && wild_okb o wild dom && wf_ipb ip && u32b ttl && wf_locb lo
  | RMx dom ip mx dist ttl lo => wf_nameb o dom && wf_ipb ip && wf_nameb o mx && u32b dist && u32b ttl && wf_locb lo
  | RSrv dom ip srv port pri weight ttl lo =>
    wf_nameb o dom && wf_ipb ip && wf_nameb o srv && u16b port && u16b pri && u16b weight && u32b ttl && wf_locb lo
  | RCname dom wild cname ttl lo => wf_nameb o dom && wild_okb o wild dom && wf_nameb o cname && u32b ttl && wf_locb lo
  | RPtr dom host ttl lo => wf_nameb o dom && wf_nameb o host && u32b ttl && wf_locb lo
  | RTxt dom wild txt ttl lo => wf_nameb o dom && wild_okb o wild dom && wf_bytesb txt && u32b ttl && wf_locb lo
  | RAux dom rtype rdata ttl lo => wf_nameb o dom && u16b rtype && wf_bytesb rdata && u32b ttl && wf_locb lo
  | RIpmap dom lmap => wf_nameb o dom && wild_okb o (is_wild dom) dom && wf_lmapb lmap
  | RCsmap dom lmap => wf_nameb o dom && wild_okb o (is_wild dom) dom && wf_lmapb lmap
  | RRangePoint lmap ip ml null locid =>
    wf_lmapb lmap && wf_bytesb ip && (length ip =? 16)%nat && (ml <? 256) && wf_lmapb locid
  | RSvcb h dom wild tgt ttl lo prio ps =>
    wf_nameb o dom && wild_okb o wild dom && wf_nameb o tgt &&
    (* the target is read back through getdom: its text must not begin with "*." *)
    wild_okb o false tgt &&
    u32b ttl && wf_locb lo && u16b prio &&
    (* the parameters print (no panic) and their text holds no ',': it is the last of six fields of a
       ','-separated line, and SplitN 15 would cut it (an alpn id with ',' can be entered through a
       ':'-separated line) *)
    match Model.Svcb.to_text (sorc o) ps with Ok s => negb (contains 44 s) | Err _ => false end
  end.

(* B/H: the parameter list is one that ParamList.FromText produces (the only way a record gets one);
   the one guard that is not decidable - true of every record parse_line returns *)
Definition svcb_accepted (o : toracles) (r : record) : Prop :=
  match r with
  | RSvcb _ _ _ _ _ _ _ ps => exists t, Model.Svcb.from_text (sorc o) t = Ok ps
  | _ => True
  end.

(* the 17 record type characters: % Z . & + = @ S C ^ ' : M 8 ! B H *)
Definition modelled_type (t : N) : bool :=
  existsb (N.eqb t) [37; 90; 46; 38; 43; 61; 64; 83; 67; 94; 39; 58; 77; 56; 33; 66; 72].

(* the shapes on which the unchanged code does not round-trip (known findings F8, F12, F26, F27).
   Shapes that are kept OUTSIDE wf_recordb by decision of the coordinator (they do not round-trip
   either, observed by the harness, not counted as findings):
   - names with an empty first label that continue with "*." (`+.*.example.com`, `M.*.example.com`):
     the text form drops the leading dot and the name is read back as a wildcard (wild_okb / f27_class);
   - `%ab,::ffff:0:0/90,m1`: a v4-mapped network shorter than /96 is printed by net.IPNet.String as
     0.0.0.0/0 (the per-record library round-trip premise inside wf_recordb (RNet) is false);
   - B/H: an alpn id containing ',' entered through a ':'-separated line is cut at the comma when the
     ','-separated text form is read back (wf_recordb (RSvcb): no ',' in the parameter text);
   - B/H: a target name that still begins with "*." after the one "*." that getdom drops
     (`Bx.example.com,*.*.svc.example.com`): it is printed as it is and loses another "*." when read back
     (wf_recordb (RSvcb): wild_okb o false tgt). *)
(* F12: an explicit SOA serial 0 is printed as the empty field *)
Definition f12_class (serial : N) (r : record) : bool :=
  match r with RSoa _ _ _ ser _ _ _ _ _ _ => (ser =? 0) && negb (serial =? 0) | _ => false end.
(* F26: a server name holding a '.' whose text form holds none (single label with a trailing dot) *)
Definition srv_lost (o : toracles) (x : bytes) : bool := negb (contains 46 (normname o x)).
Definition f26_class (o : toracles) (r : record) : bool :=
  match r with
  | RDot _ _ ns _ _ _ => srv_lost o ns
  | RNs _ _ ns _ _ => srv_lost o ns
  | RMx _ _ mx _ _ _ => srv_lost o mx
  | RSrv _ _ srv _ _ _ _ _ => srv_lost o srv
  | _ => false
  end.
(* F27: map owner "*." (root wildcard): the text form "*" is no wildcard *)
Definition f27_class (o : toracles) (r : record) : bool :=
  match r with
  | RIpmap dom _ => is_wild dom && negb (is_wild (normname o dom))
  | RCsmap dom _ => is_wild dom && negb (is_wild (normname o dom))
  | _ => false
  end.

(* F8: the parameters, read by the RFC 9460 decoder, declare an ipv6hint address inside ::ffff:0:0/96
   (net.IP.String prints it as a dotted quad, which the ipv6hint parser rejects) *)
Definition mapped16 (a : bytes) : bool :=
  match Base.Text.ip_to4 a with Some _ => true | None => false end.
Definition f8_params (ps : list Model.Svcb.param) : bool :=
  match Spec.SvcbWire.rfc_decode (Model.Svcb.to_wire ps) with
  | Some d => existsb (fun v => match v with Spec.SvcbWire.VIp6 a => existsb mapped16 a | _ => false end) d
  | None => false
  end.
Definition f8_class (r : record) : bool :=
  match r with RSvcb _ _ _ _ _ _ _ ps => f8_params ps | _ => false end.

Definition finding_class (o : toracles) (serial : N) (r : record) : bool :=
  f12_class serial r || f26_class o r || f27_class o r || f8_class r.

(* a '.' record carries the codec serial it was parsed under (the derived SOA uses it) *)
Definition dot_serial_okb (serial : N) (r : record) : bool :=
  match r with RDot _ _ _ _ _ ser => ser =? serial | _ => true end.

Definition wf_lineb (o : toracles) (serial : N) (l : bytes) : bool :=
  match parse_line o serial l with Ok r => wf_recordb o r && dot_serial_okb serial r | Err _ => false end.
