(* Model of the client-to-location lookup: db/location.go (ResolverLocation,
   EcsLocation, findLocation), db/rdbdriver.go (FindMap, findMapInSortedData,
   GetLocationByMap), db/cdbdriver.go (FindMap, GetLocationByMap),
   db/answer_sorted.go (reverseZoneName, findCommonLongestPrefix) and of the keys the
   compilers derive from M / 8 / % lines (dnsdata/data.go).  Executable, no proofs.

   A compiled database is a list of (key, stored value); RocksDB is read through
   [get] and [seek_prev] (SeekForPrev: greatest key <= the search key, bytewise
   order), CDB through [get] (first value stored under the key).  RocksDB stored
   values carry the multi-value header (4-byte little-endian length per chunk).
   Result codes: Err 1 = Go panic (index / slice bounds), Err 2 = error return,
   Err 3 = out of fuel (never for the fuel supplied, see Proofs/Location.v).
   Aliasing in the Go code: findMapInSortedData truncates and rewrites its key
   buffer in place - modelled as an explicit array [arr] with a current length. *)
From DnsV Require Import Base.Bytes Base.Ip Model.Rearranger.
Open Scope N_scope.

Definition kv := (bytes * bytes)%type.

Fixpoint get (db : list kv) (k : bytes) : option bytes :=
  match db with
  | [] => None
  | (k', v) :: db' => if bytes_eqb k' k then Some v else get db' k
  end.

Fixpoint seek_prev_aux (best : option kv) (db : list kv) (k : bytes) : option kv :=
  match db with
  | [] => best
  | (k', v) :: db' =>
      if bleb k' k then
        match best with
        | Some (kb, _) => if bltb kb k' then seek_prev_aux (Some (k', v)) db' k
                          else seek_prev_aux best db' k
        | None => seek_prev_aux (Some (k', v)) db' k
        end
      else seek_prev_aux best db' k
  end.
Definition seek_prev (db : list kv) (k : bytes) : option kv := seek_prev_aux None db k.

Definition blen (b : bytes) : N := N.of_nat (length b).
(* one chunk of a RocksDB multi-value *)
Definition mv1 (v : bytes) : bytes := u32le (blen v) ++ v.

(* ---------------------------------------------------------------- names *)

Fixpoint labels_of (fuel : nat) (q : bytes) : option (list bytes) :=
  match fuel with
  | O => None
  | S f =>
      match q with
      | [] => None
      | n :: r =>
          if n =? 0 then Some []
          else if (N.to_nat n <=? length r)%nat then
            match labels_of f (skipn (N.to_nat n) r) with
            | Some ls => Some (firstn (N.to_nat n) r :: ls)
            | None => None
            end
          else None
      end
  end.

Fixpoint pack_labels (ls : list bytes) : bytes :=
  match ls with
  | [] => [0]
  | l :: ls' => blen l :: l ++ pack_labels ls'
  end.

(* putreverseddom on the compile side, reverseZoneName on the query side (names of
   at most 255 bytes: the byte-typed index of the Go loop does not wrap) *)
Definition rev_name (q : bytes) : option bytes :=
  match labels_of (length q) q with
  | Some ls => Some (pack_labels (rev ls))
  | None => None
  end.

(* ---------------------------------------------------------------- data file *)

Record mapline := mkMapline { ml_kind : N; ml_name : bytes; ml_wild : bool; ml_id : mapid }.
Record netline := mkNetline { nl_map : mapid; nl_net : subnet }.
Record dfile := mkDfile { f_maps : list mapline; f_nets : list netline }.

Definition suffix_of (wild : bool) : N := if wild then 42 else 61.   (* '*' / '=' *)

(* makemapkey *)
Definition map_key (v2 : bool) (m : mapline) : option bytes :=
  if v2 then
    match rev_name (ml_name m) with
    | Some r => Some ([0; ml_kind m] ++ r ++ [suffix_of (ml_wild m)])
    | None => None
    end
  else Some ([0; ml_kind m] ++ ml_name m ++ [suffix_of (ml_wild m)]).

Definition features_key : bytes := [0; 111; 95; 102; 101; 97; 116; 117; 114; 101; 115].  (* \000o_features *)

Fixpoint map_kvs (v2 : bool) (hdr : bool) (ms : list mapline) : option (list kv) :=
  match ms with
  | [] => Some []
  | m :: ms' =>
      match map_key v2 m, map_kvs v2 hdr ms' with
      | Some k, Some r =>
          let v := mapid_bytes (ml_id m) in
          Some ((k, if hdr then mv1 v else v) :: r)
      | _, _ => None
      end
  end.

Fixpoint mem_id (x : N * N) (l : list (N * N)) : bool :=
  match l with [] => false | y :: l' => id_eqb x y || mem_id x l' end.
Fixpoint dedup_ids (l : list (N * N)) : list (N * N) :=
  match l with
  | [] => []
  | x :: l' => if mem_id x l' then dedup_ids l' else x :: dedup_ids l'
  end.
Definition nets_of (f : dfile) (m : mapid) : list subnet :=
  map nl_net (filter (fun n => id_eqb (nl_map n) m) (f_nets f)).

(* RocksDB keeps one record per key: the values added under the same key are
   concatenated (multi-value); the order of the chunks is not modelled *)
Fixpoint merge_dups (fuel : nat) (db : list kv) : list kv :=
  match fuel with
  | O => db
  | S f =>
      match db with
      | [] => []
      | (k, v) :: r =>
          let same := filter (fun e => bytes_eqb (fst e) k) r in
          let rest := filter (fun e => negb (bytes_eqb (fst e) k)) r in
          (k, v ++ concat (map snd same)) :: merge_dups f rest
      end
  end.

Section Compile.
  Variable sort : list point -> list point.

  Fixpoint rp_kvs_maps (f : dfile) (ids : list mapid) : result (list kv) :=
    match ids with
    | [] => Ok []
    | m :: ids' =>
        rbind (rearrange sort (nets_of f m)) (fun pts =>
        rbind (rp_kvs_maps f ids') (fun r =>
        Ok (map (fun p => (rp_key m p, mv1 (rp_value p))) pts ++ r)))
    end.

  (* the RocksDB database: features record, map records, range points of every map
     that has subnets (SubnetRanger); no prefix sets, no % records *)
  Definition rdb_db (v2 : bool) (f : dfile) : result (list kv) :=
    match map_kvs v2 true (f_maps f) with
    | None => Err 2
    | Some ms =>
        rbind (rp_kvs_maps f (dedup_ids (map nl_map (f_nets f)))) (fun rp =>
        let all := (features_key, mv1 [if v2 then 2 else 1; 0; 0; 0]) :: ms ++ rp in
        Ok (merge_dups (length all) all))
    end.
End Compile.

(* prefix-length sets (Accum.marshalPrefixSets): descending list of the lengths in use *)
Fixpoint desc_from (n : nat) : list N :=
  match n with O => [0] | S n' => N.of_nat n :: desc_from n' end.
Definition prefix_set (p : subnet -> bool) (f : dfile) : bytes :=
  filter (fun i => existsb (fun n => p (nl_net n) && (s_len (nl_net n) =? i)) (f_nets f)) (desc_from 128).

(* Rnet.MarshalMap: the full-length key (the legacy short IPv4 key is never read by the lookup) *)
Definition net_key (m : mapid) (a len : N) : bytes := [0; 37] ++ mapid_bytes m ++ ip16 a ++ [len].

Definition cdb_db (f : dfile) : option (list kv) :=
  match map_kvs false false (f_maps f) with
  | None => None
  | Some ms =>
      Some (map (fun n => (net_key (nl_map n) (s_addr (nl_net n)) (s_len (nl_net n)), loc_bytes (s_loc (nl_net n)))) (f_nets f)
            ++ ms
            ++ [([0; 47], prefix_set (fun _ => true) f);
                ([0; 52], prefix_set (fun s => is_v4 (s_addr s)) f);
                ([0; 54], prefix_set (fun s => negb (is_v4 (s_addr s))) f);
                (features_key, [1; 0; 0; 0])])
  end.

(* ---------------------------------------------------------------- FindMap *)

(* rdbdriver.FindMap (v1 keys): all candidate keys first, then FindFirst *)
Fixpoint map_keys (fuel : nat) (mtype d : bytes) (first : bool) : result (list bytes) :=
  match fuel with
  | O => Err 3
  | S f =>
      match d with
      | [] => Err 1
      | n :: r =>
          let k := mtype ++ d ++ [suffix_of (negb first)] in
          if n =? 0 then Ok [k]
          else if (N.to_nat n <=? length r)%nat then
            rbind (map_keys f mtype (skipn (N.to_nat n) r) false) (fun ks => Ok (k :: ks))
          else Err 1
      end
  end.

Fixpoint rdb_find_first (db : list kv) (keys : list bytes) : result (option bytes) :=
  match keys with
  | [] => Ok None
  | k :: ks =>
      match get db k with
      | None => rdb_find_first db ks
      | Some val =>
          if (length val =? 0)%nat then rdb_find_first db ks
          else match rd_u32le val with
               | None => Err 2
               | Some n => if blen val <? n + 4 then Err 2
                           else Ok (Some (firstn (N.to_nat n) (skipn 4 val)))
               end
      end
  end.

Definition v1_find_map (db : list kv) (mtype q : bytes) : result (option bytes) :=
  rbind (map_keys (S (length q)) mtype q true) (rdb_find_first db).

(* cdbdriver.FindMap: one exact get per candidate, stops at the first hit *)
Fixpoint cdb_find_map (fuel : nat) (db : list kv) (mtype d : bytes) (first : bool) : result (option bytes) :=
  match fuel with
  | O => Err 3
  | S f =>
      match get db (mtype ++ d ++ [suffix_of (negb first)]) with
      | Some v => Ok (Some v)
      | None =>
          match d with
          | [] => Err 1
          | n :: r =>
              if n =? 0 then Ok None
              else if (N.to_nat n <=? length r)%nat then cdb_find_map f db mtype (skipn (N.to_nat n) r) false
              else Err 1
          end
      end
  end.

(* findCommonLongestPrefix *)
Fixpoint cmp_range (s1 s2 : bytes) (j : nat) (n : nat) : result bool :=
  match n with
  | O => Ok true
  | S n' =>
      if (length s1 <=? j)%nat || (length s2 <=? j)%nat then Err 1
      else if nth j s1 0 =? nth j s2 0 then cmp_range s1 s2 (S j) n' else Ok false
  end.

Fixpoint fclp (fuel : nat) (s1 s2 : bytes) (i : nat) : result nat :=
  match fuel with
  | O => Err 3
  | S f =>
      if (i <? length s1)%nat && (i <? length s2)%nat then
        let n := nth i s1 0 in
        if negb (n =? nth i s2 0) then Ok i
        else match cmp_range s1 s2 (S i) (N.to_nat n) with
             | Err e => Err e
             | Ok true => fclp f s1 s2 (i + N.to_nat n + 1)
             | Ok false => Ok i
             end
      else Ok i
  end.
Definition common_prefix (s1 s2 : bytes) : result nat := fclp (S (length s1)) s1 s2 0.

Fixpoint set_nth {A} (i : nat) (x : A) (l : list A) : list A :=
  match l, i with
  | [], _ => []
  | _ :: l', O => x :: l'
  | y :: l', S i' => y :: set_nth i' x l'
  end.

(* getLengthWithoutLastLabel(qName, qLength): walks the labels while i < qLength-1
   and returns 1 + the offset of the last label reached (the Go index is a byte;
   names are at most 255 bytes long, so it does not wrap) *)
Fixpoint glwll (fuel : nat) (q : bytes) (bound i last : nat) : result nat :=
  match fuel with
  | O => Err 3
  | S f =>
      if (i <? bound)%nat then
        (if (length q <=? i)%nat then Err 1
         else glwll f q bound (i + N.to_nat (nth i q 0) + 1) i)
      else Ok (last + 1)%nat
  end.
Definition length_without_last_label (q : bytes) (qlen : nat) : result nat :=
  glwll (S (length q)) q (qlen - 1) 0 0.

(* findMapInSortedData: [arr] is the array behind k (its length is cap(k)), [klen]
   the current length of k, [suffix] the byte written at k[len(k)-1], [curlen] the
   length of the labels of the name being probed *)
Fixpoint v2_find_map_loop (fuel : nat) (db : list kv) (rz arr : bytes) (klen : nat) (suffix : N) (curlen : nat)
  : result (option bytes) :=
  match fuel with
  | O => Err 3
  | S f =>
      let arr1 := set_nth (klen - 1) suffix arr in
      let k := firstn klen arr1 in
      let fnd := seek_prev db k in
      let exact := match fnd with Some (fk, _) => bytes_eqb fk k | None => false end in
      match fnd with
      | Some (fk, fv) =>
          if exact then
            (if (length fv <? 4)%nat then Err 1 else Ok (Some (skipn 4 fv)))
          else if (curlen =? 0)%nat then Ok None
          else if (length fk <? 2)%nat || negb (bytes_eqb (firstn 2 fk) (firstn 2 k)) then Ok None
          else if (length fk <? 3)%nat then Err 1
          else
            let fl := firstn (length fk - 3) (skipn 2 fk) in
            match common_prefix rz fl with
            | Err e => Err e
            | Ok len0 =>
                let lenr := if (curlen <? len0)%nat
                            then rbind (length_without_last_label rz (curlen + 1)) (fun x => Ok (x - 1)%nat)
                            else Ok len0 in
                match lenr with
                | Err e => Err e
                | Ok len =>
                    if (klen <=? 2 + len)%nat then Err 1                 (* k[prefixLen+length] = 0 *)
                    else if (length arr <? 2 + len + 2)%nat then Err 1   (* k = k[:prefixLen+length+2] *)
                    else v2_find_map_loop f db rz (set_nth (2 + len) 0 arr1) (2 + len + 2) 42 len
                end
            end
      | None => Ok None
      end
  end.

Definition v2_find_map (db : list kv) (mtype q : bytes) : result (option bytes) :=
  match rev_name q with
  | None => Err 1
  | Some rz =>
      let arr := mtype ++ rz ++ [61] in
      v2_find_map_loop (length q + 2) db rz arr (length arr) 61 (length rz - 1)
  end.

(* ---------------------------------------------------------------- GetLocationByMap *)

(* net.IPNet handed to GetLocationByMap: IP (None = nil), mask width in bits, ones *)
Record client := mkClient { c_ip : option N; c_bits : N; c_ones : N }.

Definition c_isv4 (c : client) : bool := match c_ip c with Some a => is_v4 a | None => false end.
Definition c_addr (c : client) : N := match c_ip c with Some a => a | None => 0 end.
(* Mask.Size(): CIDRMask(ones, bits) is nil when ones > bits, then (0, 0) *)
Definition c_size (c : client) : N := if c_bits c <? c_ones c then 0 else c_ones c.
Definition c_maskbits (c : client) : N := if c_bits c <? c_ones c then 0 else c_bits c.
(* ipnet.IP.Mask(ipnet.Mask); None = nil *)
Definition c_masked (c : client) : option N :=
  match c_ip c with
  | None => None
  | Some a =>
      if c_bits c <? c_ones c then None
      else if c_bits c =? 32 then (if is_v4 a then Some (clean_mask a (96 + c_ones c)) else None)
      else Some (clean_mask a (c_ones c))
  end.

Definition rdb_get_location (db : list kv) (m : mapid) (c : client) : result (option bytes * N) :=
  let ip := match c_masked c with Some x => x | None => c_addr c end in
  let req := c_size c + (if c_isv4 c && (c_maskbits c =? 32) then 96 else 0) in
  let pre := rp_marker ++ mapid_bytes m in
  let full := pre ++ ip16 ip ++ [req mod 256] in
  match seek_prev db full with
  | None => Ok (None, 0)
  | Some (fk, fv) =>
      if (length fv =? 0)%nat then Ok (None, 0)
      else if negb (is_prefix pre fk) then Ok (None, 0)
      else if (length fv <? 4)%nat then Err 2
      else
        let v := skipn 4 fv in
        let mlen := last fk 0 in
        match v with
        | [_; _] => Ok (Some v, mlen)
        | [] => Ok (None, mlen)
        | _ => Err 2
        end
  end.

(* the loop over the prefix lengths; [lookup a len] is the exact get of the record of
   the subnet (a, len) of the map: get db (net_key m a len) *)
Fixpoint cdb_loop (lookup : N -> N -> option bytes) (isv4 : bool) (maxmask cur : N) (masks : bytes)
  : result (option bytes * N) :=
  match masks with
  | [] => Ok (None, 0)
  | mk :: rest =>
      if maxmask <? mk then cdb_loop lookup isv4 maxmask cur rest
      else if isv4 && (mk <? 96) then cdb_loop lookup isv4 maxmask cur rest
      else if 128 <? mk then Err 1
      else
        let cur' := clean_mask cur mk in
        match lookup cur' mk with
        | Some v => Ok (Some v, mk)
        | None => cdb_loop lookup isv4 maxmask cur' rest
        end
  end.

Definition cdb_maxmask (c : client) : N :=
  ((c_size c) mod 256 + (if c_isv4 c && (c_maskbits c =? 32) then 96 else 0)) mod 256.

Definition cdb_get_location (sep : bool) (db : list kv) (m : mapid) (c : client) : result (option bytes * N) :=
  let maxmask := cdb_maxmask c in
  let isv4 := c_isv4 c && (96 <=? maxmask) in
  let bk := if sep then (if isv4 then [0; 52] else [0; 54]) else [0; 47] in
  match get db bk with
  | None => Ok (None, 0)
  | Some masks => cdb_loop (fun a len => get db (net_key m a len)) isv4 maxmask (c_addr c) masks
  end.

(* ---------------------------------------------------------------- findLocation and callers *)

Record location := mkLocation { l_map : mapid; l_mask : N; l_loc : locid }.

Definition two_bytes (b : bytes) : N * N := (nth 0 b 0, nth 1 b 0).

Definition find_location (fm : result (option bytes)) (gl : mapid -> result (option bytes * N)) : result location :=
  rbind fm (fun mo =>
  let m := match mo with Some b => two_bytes b | None => (0, 0) end in
  rbind (gl m) (fun r =>
  match fst r with
  | Some b => Ok (mkLocation m (snd r) (two_bytes b))
  | None => Ok (mkLocation m 0 (0, 0))
  end)).

Inductive backend := BCdb (sep : bool) | BV1 | BV2.

Definition locate (b : backend) (db : list kv) (mtype q : bytes) (c : client) : result location :=
  match b with
  | BCdb sep => find_location (cdb_find_map (S (length q)) db mtype q true) (fun m => cdb_get_location sep db m c)
  | BV1 => find_location (v1_find_map db mtype q) (fun m => rdb_get_location db m c)
  | BV2 => find_location (v2_find_map db mtype q) (fun m => rdb_get_location db m c)
  end.

(* ResolverLocation: ip = None when the string does not parse *)
Definition resolver_client (ip : option N) : client :=
  match ip with
  | Some a => if is_v4 a then mkClient ip 32 32 else mkClient ip 128 128
  | None => mkClient None 128 128
  end.
Definition resolver_location (b : backend) (db : list kv) (q : bytes) (ip : option N) : result location :=
  locate b db [0; 77] q (resolver_client ip).

(* EcsLocation: returns the location (None = nil) and the new SourceScope *)
Definition ecs_client (fam src a : N) : client := mkClient (Some a) (if fam =? 2 then 128 else 32) src.
Definition ecs_scope (fam : N) (l : location) : option location * N :=
  if id_eqb (l_map l) (0, 0) then (None, 0)
  else if negb (id_eqb (l_loc l) (0, 0)) then
    (Some l, if fam =? 1 then (l_mask l + 256 - 96) mod 256 else l_mask l mod 256)
  else (None, if fam =? 2 then 48 else 24).
Definition ecs_location (b : backend) (db : list kv) (q : bytes) (fam src a : N) : result (option location * N) :=
  if negb ((fam =? 1) || (fam =? 2)) then Ok (None, 0) else
  rbind (locate b db [0; 56] q (ecs_client fam src a)) (fun l => Ok (ecs_scope fam l)).

(* ---------------------------------------------------------------- range points read by predecessor search *)

(* the order of range point keys within one map: (address, mask-length byte) *)
Definition pt_leb (ip1 m1 ip2 m2 : N) : bool := (ip1 <? ip2) || ((ip1 =? ip2) && (m1 <=? m2)).

Fixpoint pt_seek_aux (best : option point) (pts : list point) (a plen : N) : option point :=
  match pts with
  | [] => best
  | p :: pts' =>
      if pt_leb (p_ip p) (rp_mlen p) a plen then
        match best with
        | Some b => if pt_leb (p_ip p) (rp_mlen p) (p_ip b) (rp_mlen b) then pt_seek_aux best pts' a plen
                    else pt_seek_aux (Some p) pts' a plen
        | None => pt_seek_aux (Some p) pts' a plen
        end
      else pt_seek_aux best pts' a plen
  end.

(* location and matched length for the (masked) client address a with prefix length
   plen, read off the range points of one map: the point with the greatest
   (address, mask byte) <= (a, plen) *)
Definition pt_locate (pts : list point) (a plen : N) : option (locid * N) :=
  match pt_seek_aux None pts a plen with
  | Some p => if rl_null (p_loc p) then None else Some (rl_id (p_loc p), rl_mask (p_loc p))
  | None => None
  end.
