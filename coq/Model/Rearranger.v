(* Model of dnsdata/rearranger.go (AddLocation, Rearrange) and of the range point
   key/value layout (data.go: Rrangepoint.MarshalMap).  Executable, no proofs.

   Addresses are N < 2^128 (the 16-byte big-endian value; IPv4 is v6-mapped and its
   prefix lengths carry +96, as Rnet.UnmarshalText produces them).

   sort.Slice enters as the Section variable [sort]: Rearrange is modelled for every
   function that returns a permutation sorted w.r.t. the comparator [pless]
   (sort.Slice is not stable).  Go slices aliased by the code: Rearrange mutates the
   RangePoint objects it shares with r.points (point.location of End points); the
   model is a single call on fresh points. *)
From DnsV Require Import Base.Bytes Base.Ip.
Open Scope N_scope.

Inductive pkind := KStart | KEnd.
Definition pkind_eqb (a b : pkind) : bool :=
  match a, b with KStart, KStart => true | KEnd, KEnd => true | _, _ => false end.

(* rangeLocation *)
Record rloc := mkRloc { rl_mask : N; rl_null : bool; rl_id : locid }.
(* RangePoint *)
Record point := mkPoint { p_ip : N; p_loc : rloc; p_kind : pkind }.

(* Rearranger *)
Record rearranger := mkRR { rr_has4 : bool; rr_has6 : bool; rr_points : list point }.
Definition new_rearranger : rearranger := mkRR false false [].

(* ipCleanMask / ipFillUnmasked on a 128-bit mask of [len] ones *)
Definition clean_mask (a len : N) : N := (a / blk_size len) * blk_size len.
Definition fill_unmasked (a len : N) : N := clean_mask a len + (blk_size len - 1).

(* AddLocation (the location id is two bytes here; the error branch for other
   lengths is outside the model) *)
Definition add_location (r : rearranger) (s : subnet) : rearranger :=
  let len := s_len s in
  let l := mkRloc (len mod 256) false (s_loc s) in        (* uint8(maskLen) *)
  if (len =? 0) && (s_addr s =? first_v6) then
    (* ::/0 : start at :: and a pseudo start right after the IPv4 range *)
    mkRR (rr_has4 r) true
         (rr_points r ++ [mkPoint first_v6 l KStart; mkPoint after_v4 l KStart])
  else if (len =? 96) && (s_addr s =? first_v4) then
    (* 0.0.0.0/0 *)
    mkRR true (rr_has6 r)
         (rr_points r ++ [mkPoint first_v4 l KStart; mkPoint after_v4 l KEnd])
  else
    let start := clean_mask (s_addr s) len in
    let last := fill_unmasked (s_addr s) len in
    let endp := if last =? very_last then []
                else [mkPoint (last + 1) (mkRloc (len mod 256) true (0, 0)) KEnd] in
    mkRR (rr_has4 r) (rr_has6 r) (rr_points r ++ mkPoint start l KStart :: endp).

Definition add_locations (S : list subnet) : rearranger := fold_left add_location S new_rearranger.

Definition null_loc : rloc := mkRloc 0 true (0, 0).

(* the implicit null points appended by Rearrange *)
Definition implicit_points (r : rearranger) : list point :=
  (if rr_has4 r then [] else [mkPoint first_v4 null_loc KStart; mkPoint after_v4 null_loc KEnd]) ++
  (if rr_has6 r then [] else [mkPoint first_v6 null_loc KStart; mkPoint after_v4 null_loc KStart]).

(* the comparator handed to sort.Slice *)
Definition pless (a b : point) : bool :=
  if p_ip a <? p_ip b then true
  else if p_ip b <? p_ip a then false
  else match p_kind a, p_kind b with
       | KEnd, KStart => true
       | KStart, KEnd => false
       | KStart, KStart => rl_mask (p_loc a) <? rl_mask (p_loc b)
       | KEnd, KEnd => rl_mask (p_loc b) <? rl_mask (p_loc a)
       end.

(* location stack simulation; the stack is a list with the top first.  Go indexes
   locationStack[stackTop] after stackTop--: a pop needs two entries, else the
   index is -1 and the program panics. *)
Fixpoint sweep (st : list rloc) (l : list point) : result (list point) :=
  match l with
  | [] => Ok []
  | p :: l' =>
      match p_kind p with
      | KStart => rbind (sweep (p_loc p :: st) l') (fun r => Ok (p :: r))
      | KEnd =>
          match st with
          | _ :: ((t :: _) as st') =>
              rbind (sweep st' l') (fun r => Ok (mkPoint (p_ip p) t KEnd :: r))
          | _ => Err 1
          end
      end
  end.

(* squash: the output so far is kept reversed in [acc] (head = last element) *)
Fixpoint squash_go (acc : list point) (l : list point) : list point :=
  match l with
  | [] => rev acc
  | t :: l' =>
      match acc with
      | prev :: acc' =>
          if (p_ip prev =? p_ip t) && (rl_mask (p_loc t) <=? rl_mask (p_loc prev))
          then squash_go (t :: acc') l'
          else squash_go (t :: acc) l'
      | [] => squash_go [t] l'
      end
  end.
Definition squash (l : list point) : list point :=
  match l with [] => [] | p :: l' => squash_go [p] l' end.

Section Rearrange.
  Variable sort : list point -> list point.

  (* Rearrange: Err 1 = index-out-of-range panic of the stack *)
  Definition rearrange_rr (r : rearranger) : result (list point) :=
    match rr_points r with
    | [] => Ok []
    | _ => rbind (sweep [] (sort (rr_points r ++ implicit_points r))) (fun l => Ok (squash l))
    end.

  Definition rearrange (S : list subnet) : result (list point) := rearrange_rr (add_locations S).
End Rearrange.

(* a concrete sort that satisfies the specification of sort.Slice (insertion sort,
   used to evaluate the model; Proofs/Rearranger.v shows it meets the hypotheses) *)
Fixpoint pinsert (p : point) (l : list point) : list point :=
  match l with
  | [] => [p]
  | q :: l' => if pless q p then q :: pinsert p l' else p :: q :: l'
  end.
Fixpoint isort (l : list point) : list point :=
  match l with [] => [] | p :: l' => pinsert p (isort l') end.

(* range point key / value (Rrangepoint.MarshalMap) *)
Fixpoint be_bytes (n : nat) (a : N) : bytes :=
  match n with
  | O => []
  | S n' => be_bytes n' (a / 256) ++ [a mod 256]
  end.
Definition ip16 (a : N) : bytes := be_bytes 16 a.

Definition rp_marker : bytes := [0; 0; 0; 33].      (* \000\000\000! *)
Definition mapid_bytes (m : mapid) : bytes := [fst m; snd m].
Definition loc_bytes (l : locid) : bytes := [fst l; snd l].

Definition rp_mlen (p : point) : N := if rl_null (p_loc p) then 0 else rl_mask (p_loc p).
Definition rp_key (m : mapid) (p : point) : bytes :=
  rp_marker ++ mapid_bytes m ++ ip16 (p_ip p) ++ [rp_mlen p].
Definition rp_value (p : point) : bytes :=
  if rl_null (p_loc p) then [] else loc_bytes (rl_id (p_loc p)).
