(* Preproc: dnsdata/preproc.go (PreprocReader.Scan / Read, Codec.Preprocess as
   cmd/dnsrocks-preproc configures the codec: Ranger enabled, NoPrefixSets,
   NoRnetOutput) and the part of the RocksDB compiler that matters for the file
   level of C09 (dnsdata/parser.go parse + ParseStream, rdb_compiler.go initCodec):
   line filter, per-line conversion, accumulator records, feature record.

   The rearranger (dnsdata/rearranger.go, C03) is NOT modelled here: it enters as the
   function [rearrange] from the subnet records of the file (in file order) to the
   range-point records that SubnetRanger hands out (all maps, any order).  The bulk
   builder / batch writer below the list of key-value records is C07 / C15.

   A file is the list of its lines (bufio.ScanLines already applied: no newline inside a
   line, lines shorter than the 64 KiB token limit).
   No proofs in this file. *)
From DnsV Require Export Model.Text.
Open Scope N_scope.

Definition E_LOC : N := 5.   (* Rearranger.AddLocation: location must be exactly 2 bytes *)

(* isIgnored: empty line or comment *)
Definition is_ignored (l : bytes) : bool :=
  match l with [] => true | c :: _ => c =? 35 end.

(* Accum.update with the ranger enabled: a subnet without location is an error *)
Definition acc_update (r : record) : result (list record) :=
  match r with
  | RNet lo _ _ _ => if (length lo =? 2)%nat then Ok [r] else Err E_LOC
  | _ => Ok []
  end.

(* one step of Scan: what the line contributes to the output and to the accumulator *)
Definition pre_line (o : toracles) (pserial : N) (l : bytes) : result (list bytes * list record) :=
  if is_ignored l then Ok ([], [])
  else if nth 0 l 0 =? 37 then   (* % : decoded for the accumulator, not written (NoRnetOutput) *)
    rbind (parse_line o pserial l) (fun r => rbind (acc_update r) (fun nets => Ok ([], nets)))
  else if nth 0 l 0 =? 90 then   (* Z : normalised *)
    rbind (parse_line o pserial l) (fun r => Ok ([marshal o r], []))
  else Ok ([l], []).

(* Read/Scan over the input lines.  A decode error ends the run with that error: Read hands out
   what is buffered and reports p.Err() on the next call, or at once when nothing is buffered
   (since /repo befa5ab; before, an error striking on an empty buffer was lost as io.EOF and
   Preprocess returned nil with the output cut short).  The 512-byte buffering therefore has
   no effect on the result and is not modelled. *)
Fixpoint pre_go (o : toracles) (pserial : N) (f : list bytes) : result (list bytes * list record) :=
  match f with
  | [] => Ok ([], [])
  | l :: t =>
    rbind (pre_line o pserial l) (fun a =>
    rbind (pre_go o pserial t) (fun b => Ok (fst a ++ fst b, snd a ++ snd b)))
  end.

(* Codec.Preprocess: the lines written; the '!' lines follow the input lines *)
Definition preprocess (o : toracles) (rearrange : list record -> list record) (pserial : N) (f : list bytes)
  : result (list bytes) :=
  rbind (pre_go o pserial f) (fun a => Ok (fst a ++ map (marshal o) (rearrange (snd a)))).

(* ------------------------------------------------------------------ the compiler's view *)
(* parser.go parse: bytes.TrimLeft(line, " "); lines shorter than 2 bytes and comments are skipped *)
Fixpoint trim_spaces (l : bytes) : bytes :=
  match l with c :: t => if c =? 32 then trim_spaces t else l | [] => [] end.
Definition compile_skips (l : bytes) : bool :=
  (length l <? 2)%nat || (nth 0 l 0 =? 35).

(* Rfeatures.MarshalMap *)
Definition feature_kv (v2 : bool) : kv :=
  ([0; 111; 95; 102; 101; 97; 116; 117; 114; 101; 115], [if v2 then 2 else 1; 0; 0; 0]).

(* Codec.ConvertLn under initCodec (NoRnetOutput, ranger enabled) *)
Definition compile_line (o : toracles) (v2 : bool) (serial : N) (l : bytes) : result (list kv * list record) :=
  let l := trim_spaces l in
  if compile_skips l then Ok ([], [])
  else rbind (parse_line o serial l) (fun r =>
       rbind (acc_update r) (fun nets => Ok (convert v2 true r, nets))).

Fixpoint compile_go (o : toracles) (v2 : bool) (serial : N) (f : list bytes) : result (list kv * list record) :=
  match f with
  | [] => Ok ([], [])
  | l :: t =>
    rbind (compile_line o v2 serial l) (fun a =>
    rbind (compile_go o v2 serial t) (fun b => Ok (fst a ++ fst b, snd a ++ snd b)))
  end.

(* the records handed to the database writer (any order: parallel parser, C07) *)
Definition compile (o : toracles) (rearrange : list record -> list record) (v2 : bool) (serial : N) (f : list bytes)
  : result (list kv) :=
  rbind (compile_go o v2 serial f) (fun a =>
  Ok (fst a ++ flat_map (convert v2 true) (rearrange (snd a)) ++ [feature_kv v2])).

(* range point record from the accumulator's key and value (Rrangepoint.MarshalMap read backwards):
   key = 00 00 00 '!' lmap(2) ip(16) mlen, value = empty (no location) or the location *)
Definition rp_of_kv (e : kv) : option record :=
  let '(k, v) := e in
  if (length k =? 23)%nat && is_prefix [0; 0; 0; 33] k then
    let lmap := firstn 2 (skipn 4 k) in
    let ip := firstn 16 (skipn 6 k) in
    let ml := nth 22 k 0 in
    match v with
    | [] => Some (RRangePoint lmap ip 0 true [0; 0])
    | _ => Some (RRangePoint lmap ip ml false v)
    end
  else None.
