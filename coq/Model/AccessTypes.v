(* Model/AccessTypes: the record types of the generated table Gen/Access.v
   (written by harness/cmd/gotab from the Go sources) and small decidable helpers.
   No proofs here. *)
From Coq Require Import List String NArith Bool.
Import ListNotations.
Open Scope string_scope.

Inductive akind := Read | Write.
Inductive lmode := Shared | Exclusive.

(* one read or write of a field of a tracked struct type (a_owner = "pkg.Type"), or of a
   local variable of function a_owner that is captured by a goroutine started there *)
Record access := mkA {
  a_func : string;                    (* pkg.Type.method, pkg.func, or ....funcN for a go-closure *)
  a_file : string;                    (* path below dnsrocks/ *)
  a_line : N;
  a_owner : string;
  a_field : string;                   (* field path, e.g. dbConfig.Path for a value sub-struct *)
  a_kind : akind;
  a_locks : list (string * lmode);    (* mutexes OF THE SAME OBJECT held at the statement *)
  a_fresh : bool;                     (* object allocated in this function and not yet published,
                                         or captured local accessed before the go statement *)
  a_local : bool;                     (* a local variable of function a_owner captured by a go-closure
                                         (one instance per invocation of a_owner) *)
  a_global : bool;                    (* a package-level variable (a_owner = the package); its declaration
                                         is recorded as a write by <pkg>.init *)
  a_recv : list string;               (* channels received from on every path before the access *)
  a_signal : list string              (* channels closed / sent to unconditionally after it *)
}.

(* call site of a method documented "caller must hold <lock>" *)
Record callsite := mkC {
  c_func : string; c_file : string; c_line : N; c_callee : string;
  c_locks : list (string * lmode); c_required : list (string * lmode)
}.

Inductive chop := ChClose | ChRecv | ChSend.
Record chan_event := mkE { e_func : string; e_file : string; e_line : N; e_chan : string; e_op : chop }.

Definition is_write (a : access) : bool := match a_kind a with Write => true | Read => false end.
Definition is_excl (m : lmode) : bool := match m with Exclusive => true | Shared => false end.
Definition chop_eqb (x y : chop) : bool :=
  match x, y with ChClose, ChClose | ChRecv, ChRecv | ChSend, ChSend => true | _, _ => false end.

Definition mem_str (s : string) (l : list string) : bool := existsb (String.eqb s) l.
