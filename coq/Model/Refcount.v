(* Model/Refcount: executable model of the backend life cycle implemented by
   db/db.go (DB.refCount / DB.destroyable under DB.l, NewReader, Destroy, Reload
   with its goroutine + timeout + destroyNewDbi hand-shake, ValidateDbKey,
   validateDbKeyOrDestroy, DataReader.Close) and dnsserver/db.go
   (FBDNSDB.Reload, AcquireReader, Close).  NO proofs in this file.

   State
     served      id of the DB wrapper the server hands out   (FBDNSDB.dnsdb)
     nw, ws      the DB wrappers that own a backend: id < nw  (db.DB values)
                   each  { backend id ; refCount ; destroyable }
     nb, bks     the backends: id < nb, bks b = number of Close calls so far
                   (0 = open, n > 0 = closed, Close called n times)
     readers     the readers currently held: (reader slot, wrapper id)
     pending     reload goroutines that are still inside DBI.Reload after their
                   caller timed out (destroyNewDbi = true); the entry is the
                   wrapper f on which DB.Reload was called
     shut        FBDNSDB.Close has run
     log         every call on every backend, newest first

   refCount is a Go uint64.  The decrement wraps like the Go code; the increment
   is not wrapped (2^64 simultaneously held readers are not reachable), see
   TRUSTED_BASE of the property.

   Atomicity.  FBDNSDB.Reload and Close hold reloadMu exclusively, AcquireReader
   holds it shared, refCount/destroyable are only touched under DB.l, and the
   reload goroutine publishes or closes its candidate under the local mutex m.
   So every operation below is one atomic step, except a reload whose caller
   times out before the goroutine has finished: that one is two steps
   (ReloadTimeoutFirst, later LateComplete) with arbitrary operations between. *)
From DnsV Require Import Base.Bytes Spec.Handles.
Open Scope N_scope.

Record wrapper := mkW { w_bk : nat; w_ref : N; w_destroyable : bool }.

Record state := mkS {
  served : nat;
  nw : nat; ws : nat -> wrapper;
  nb : nat; bks : nat -> N;
  readers : list (nat * nat);
  pending : list nat;
  shut : bool;
  log : list event }.

Definition fupd {A} (f : nat -> A) (i : nat) (v : A) : nat -> A :=
  fun j => if Nat.eqb j i then v else f j.

(* what DBI.Reload(path) hands back (chosen by the environment: the files on
   disk, the driver):  a fresh backend (cdb always, rocksdb on a new path), the
   very same backend (rocksdb catch-up on the same path), or an error.  The
   boolean says whether the validation key will be found in it. *)
Inductive cand := CNew (haskey : bool) | CSame (haskey : bool) | CErr.

Inductive op :=
| Acquire (r : nat)             (* FBDNSDB.AcquireReader, the reader is kept in slot r *)
| Use (r : nat)                 (* a lookup through the reader in slot r (Reader.ForEach) *)
| Release (r : nat)             (* Reader.Close *)
| Reload (c : cand)             (* FBDNSDB.Reload, goroutine finishes first, main validates:
                                   CNew true = reload-new-ok, CSame true = reload-same-ok,
                                   CErr = reload-open-error, CNew/CSame false = validation failure *)
| ReloadTimeoutPub (c : cand)   (* goroutine publishes the candidate, then main takes the timeout branch *)
| ReloadTimeoutFirst            (* main times out first and sets destroyNewDbi; goroutine still running *)
| LateComplete (i : nat) (c : cand)  (* the i-th pending goroutine returns from DBI.Reload with c *)
| Shutdown                      (* FBDNSDB.Close *)
| Query (mid : list N).         (* one DNS query through ServeDNSWithRCODE: AcquireReader, the lookups
                                   (operation codes [mid], all on the backend it pinned), and the
                                   deferred Reader.Close - nothing of it outlives the step *)

(* ---- state plumbing *)
Definition set_log (l : list event) (s : state) : state :=
  mkS (served s) (nw s) (ws s) (nb s) (bks s) (readers s) (pending s) (shut s) l.
Definition set_bks (n : nat) (f : nat -> N) (s : state) : state :=
  mkS (served s) (nw s) (ws s) n f (readers s) (pending s) (shut s) (log s).
Definition set_ws (n : nat) (f : nat -> wrapper) (s : state) : state :=
  mkS (served s) n f (nb s) (bks s) (readers s) (pending s) (shut s) (log s).
Definition set_served (i : nat) (s : state) : state :=
  mkS i (nw s) (ws s) (nb s) (bks s) (readers s) (pending s) (shut s) (log s).
Definition set_readers (l : list (nat * nat)) (s : state) : state :=
  mkS (served s) (nw s) (ws s) (nb s) (bks s) l (pending s) (shut s) (log s).
Definition set_pending (l : list nat) (s : state) : state :=
  mkS (served s) (nw s) (ws s) (nb s) (bks s) (readers s) l (shut s) (log s).
Definition set_shut (b : bool) (s : state) : state :=
  mkS (served s) (nw s) (ws s) (nb s) (bks s) (readers s) (pending s) b (log s).

(* ---- backend level *)
(* any call on backend b other than Close *)
Definition touch (b : nat) (o : N) (s : state) : state := set_log ((b, o) :: log s) s.
(* DBI.Close *)
Definition bclose (b : nat) (s : state) : state :=
  set_log ((b, OpClose) :: log s) (set_bks (nb s) (fupd (bks s) b (bks s b + 1)) s).
(* a fresh backend is opened; its id is the next free one *)
Definition alloc (s : state) : nat * state :=
  (nb s, set_log ((nb s, OpOpen) :: log s) (set_bks (S (nb s)) (fupd (bks s) (nb s) 0) s)).

(* ---- db.DB level: functions of a wrapper VALUE, so that they serve both the
   wrappers stored in the state and the local newDB of DB.Reload *)
Definition w_set_ref (w : wrapper) (n : N) := mkW (w_bk w) n (w_destroyable w).
Definition dec64 (n : N) : N := if n =? 0 then 18446744073709551615 else n - 1.

(* NewReader: refCount++, dbi.NewContext(), dbi.ClosestKeyFinder() *)
Definition w_new_reader (w : wrapper) (s : state) : wrapper * state :=
  (w_set_ref w (w_ref w + 1), touch (w_bk w) OpFinder (touch (w_bk w) OpNewContext s)).

(* DataReader.ForEach *)
Definition w_foreach (w : wrapper) (s : state) : state := touch (w_bk w) OpForEach s.

(* DataReader.Close: FreeContext, refCount--, close when destroyable and zero *)
Definition w_reader_close (w : wrapper) (s : state) : wrapper * state :=
  let s1 := touch (w_bk w) OpFreeContext s in
  let w1 := w_set_ref w (dec64 (w_ref w)) in
  if w_destroyable w1 && (w_ref w1 =? 0) then (w1, bclose (w_bk w) s1) else (w1, s1).

(* DB.Destroy *)
Definition w_destroy (w : wrapper) (s : state) : wrapper * state :=
  let w1 := mkW (w_bk w) (w_ref w) true in
  if w_ref w1 =? 0 then (w1, bclose (w_bk w) s) else (w1, s).

(* DB.ValidateDbKey with a non-empty key: NewReader, ForEach, Close; the result is
   whether the key was found *)
Definition w_validate (w : wrapper) (haskey : bool) (s : state) : wrapper * state * bool :=
  let '(w1, s1) := w_new_reader w s in
  let s2 := w_foreach w1 s1 in
  let '(w3, s3) := w_reader_close w1 s2 in
  (w3, s3, haskey).

(* DB.validateDbKeyOrDestroy *)
Definition w_validate_or_destroy (w : wrapper) (haskey : bool) (s : state) : wrapper * state * bool :=
  let '(w1, s1, ok) := w_validate w haskey s in
  if ok then (w1, s1, true) else let '(w2, s2) := w_destroy w1 s1 in (w2, s2, false).

(* a whole query on wrapper w: NewReader, the lookups, DataReader.Close *)
Definition w_query (mid : list N) (w : wrapper) (s : state) : wrapper * state :=
  let '(w1, s1) := w_new_reader w s in
  let s2 := fold_left (fun s o => touch (w_bk w1) o s) mid s1 in
  w_reader_close w1 s2.

(* apply a wrapper function to the stored wrapper i *)
Definition on_wrapper (i : nat) (f : wrapper -> state -> wrapper * state) (s : state) : state :=
  let '(w', s') := f (ws s i) s in set_ws (nw s') (fupd (ws s') i w') s'.

Definition add_wrapper (w : wrapper) (s : state) : state :=
  set_ws (S (nw s)) (fupd (ws s) (nw s) w) s.

(* ---- readers *)
Fixpoint lookup (r : nat) (l : list (nat * nat)) : option nat :=
  match l with [] => None | (r', i) :: t => if Nat.eqb r' r then Some i else lookup r t end.
Fixpoint remove_r (r : nat) (l : list (nat * nat)) : list (nat * nat) :=
  match l with [] => [] | (r', i) :: t => if Nat.eqb r' r then t else (r', i) :: remove_r r t end.
Fixpoint remove_nth {A} (i : nat) (l : list A) : list A :=
  match l, i with [], _ => [] | _ :: t, O => t | x :: t, S i' => x :: remove_nth i' t end.

(* ---- the reload goroutine:  localDBI, err = f.dbi.Reload(path) *)
Definition cand_key (c : cand) : bool :=
  match c with CNew k => k | CSame k => k | CErr => false end.

Definition go_reload_begin (f : wrapper) (s : state) : state := touch (w_bk f) OpReload s.
(* the call returns: Some backend = localDBI, None = (nil, err) *)
Definition go_reload_end (f : wrapper) (c : cand) (s : state) : option nat * state :=
  match c with
  | CNew _ => let '(b, s1) := alloc s in (Some b, touch (w_bk f) OpReloadRet s1)
  | CSame _ => (Some (w_bk f), touch (w_bk f) OpReloadRet s)
  | CErr => (None, touch (w_bk f) OpReloadRet s)
  end.

(* DB.Reload, case <-c (goroutine done, newDBI published, no timeout), followed by
   the tail of FBDNSDB.Reload (h.dnsdb = newDB only when err == nil) *)
Definition reload_main (c : cand) (s : state) : state :=
  let f := ws s (served s) in
  let '(local, s1) := go_reload_end f c (go_reload_begin f s) in
  match local with
  | None => s1                                   (* err != nil: return f, err *)
  | Some b' =>
      let newDB := mkW b' 0 false in
      if Nat.eqb b' (w_bk f) then
        (* newDBI == f.dbi: ValidateDbKey only; whatever the result, f stays *)
        let '(_, s2, _) := w_validate newDB (cand_key c) s1 in s2
      else
        let '(w2, s2, ok) := w_validate_or_destroy newDB (cand_key c) s1 in
        let wid := nw s2 in
        let s3 := add_wrapper w2 s2 in
        if ok then set_served wid (on_wrapper (served s) w_destroy s3)   (* f.Destroy(); return newDB *)
        else s3                                                       (* return f, err *)
  end.

(* goroutine ran to completion (destroyNewDbi still false: newDBI = localDBI), then
   main takes the ctx.Done branch: closes newDBI unless nil or the served backend *)
Definition reload_timeout_pub (c : cand) (s : state) : state :=
  let f := ws s (served s) in
  let '(local, s1) := go_reload_end f c (go_reload_begin f s) in
  match local with
  | Some b' => if negb (Nat.eqb b' (w_bk f)) then bclose b' s1 else s1
  | None => s1
  end.

(* main takes the ctx.Done branch first: newDBI == nil, destroyNewDbi = true *)
Definition reload_timeout_first (s : state) : state :=
  let f := ws s (served s) in
  set_pending (pending s ++ [served s]) (go_reload_begin f s).

(* the goroutine of the i-th pending reload finishes: it closes localDBI when it is
   not nil, destroyNewDbi is set and it is not f.dbi *)
Definition late_complete (i : nat) (c : cand) (s : state) : state :=
  match nth_error (pending s) i with
  | None => s
  | Some p =>
      let f := ws s p in
      let '(local, s1) := go_reload_end f c s in
      let s2 := match local with
                | Some b' => if negb (Nat.eqb b' (w_bk f)) then bclose b' s1 else s1
                | None => s1
                end in
      set_pending (remove_nth i (pending s2)) s2
  end.

Definition step (o : op) (s : state) : state :=
  match o with
  | Acquire r =>
      let s1 := on_wrapper (served s) w_new_reader s in
      set_readers ((r, served s) :: readers s1) s1
  | Use r =>
      match lookup r (readers s) with
      | Some i => w_foreach (ws s i) s
      | None => s
      end
  | Release r =>
      match lookup r (readers s) with
      | Some i => let s1 := on_wrapper i w_reader_close s in
                  set_readers (remove_r r (readers s1)) s1
      | None => s
      end
  | Reload c => reload_main c s
  | ReloadTimeoutPub c => reload_timeout_pub c s
  | ReloadTimeoutFirst => reload_timeout_first s
  | LateComplete i c => late_complete i c s
  | Shutdown => set_shut true (on_wrapper (served s) w_destroy s)
  | Query mid => on_wrapper (served s) (w_query mid) s
  end.

(* error returned by the operation, as the harness classifies it:
   0 none, 1 open error, 2 validation key not found, 3 reload timeout *)
Definition op_result (o : op) : N :=
  match o with
  | Reload CErr => 1
  | Reload (CNew false) | Reload (CSame false) => 2
  | ReloadTimeoutPub _ | ReloadTimeoutFirst => 3
  | _ => 0
  end.

(* the server right after Load: wrapper 0 serves backend 0 *)
Definition init : state :=
  mkS 0 1 (fun _ => mkW 0 0 false) 1 (fun _ => 0) [] [] false [(0%nat, OpOpen)].

Definition run (ops : list op) (s : state) : state := fold_left (fun s o => step o s) ops s.

(* ---- well-formed histories (a decidable guard on the history; it looks only at
   the reader slots in use, the shutdown flag and the number of pending reloads)
   * a reader slot is acquired only when free, used/released only when held;
   * shutdown is terminal for acquisitions and reloads, and happens once
     (a second FBDNSDB.Close panics on close(h.done); AcquireReader/Reload after
     Close are outside the property's quantifier);
   * LateComplete names an existing pending reload; the lookups of a Query are neither Open
     nor Close calls;
   * in-flight guard: while a timed-out reload is still inside DBI.Reload, the
     served backend is neither replaced (reload-new-ok) nor shut down.  Without
     this guard the property is false, see C06_inflight_reload_refuted. *)
Definition held (r : nat) (s : state) : bool :=
  match lookup r (readers s) with Some _ => true | None => false end.
Definition no_pending (s : state) : bool := match pending s with [] => true | _ => false end.

Definition ok_op (s : state) (o : op) : bool :=
  match o with
  | Acquire r => negb (shut s) && negb (held r s)
  | Use r | Release r => held r s
  | Reload (CNew true) => negb (shut s) && no_pending s
  | Reload _ | ReloadTimeoutPub _ | ReloadTimeoutFirst => negb (shut s)
  | LateComplete i _ => Nat.ltb i (length (pending s))
  | Shutdown => negb (shut s) && no_pending s
  | Query mid => negb (shut s) && forallb (fun o => negb (is_close o) && negb (is_open o)) mid
  end.

Fixpoint wf_hist (s : state) (ops : list op) : bool :=
  match ops with
  | [] => true
  | o :: t => ok_op s o && wf_hist (step o s) t
  end.

(* the same guard without the in-flight clause (used to state the refutation) *)
Definition ok_op_weak (s : state) (o : op) : bool :=
  match o with
  | Reload (CNew true) => negb (shut s)
  | Shutdown => negb (shut s)
  | _ => ok_op s o
  end.
Fixpoint wf_hist_weak (s : state) (ops : list op) : bool :=
  match ops with
  | [] => true
  | o :: t => ok_op_weak s o && wf_hist_weak (step o s) t
  end.

(* ---- the snapshot of a state that Spec/Handles talks about *)
Definition pinned (s : state) : list nat := map (fun p => w_bk (ws s (snd p))) (readers s).
Definition snap (s : state) : snapshot :=
  mkSnap (log s) (if shut s then None else Some (w_bk (ws s (served s)))) (pinned s).
Definition quiescent (s : state) : Prop := readers s = [] /\ pending s = [].
