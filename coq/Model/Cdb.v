(* Model/Cdb: executable model of /repo/dnsrocks/go-cdb-mods (writer.go, make.go,
   cdb.go, dump.go).  No proofs in this file.

   The hash function is a parameter H : bytes -> N, the SAME for writer, Make and
   reader.  In the Go code the writer and Make use the streaming hasher cdbHash()
   (spooky.New(0,0), Write, Sum32) and the reader uses hashKey() (hash.go); that these
   two code paths compute the same function is not part of the model - it is established
   only by the differential run (before /repo commit 954ef0a they disagreed for keys of
   96..191 bytes).  The classic cdb hash is defined below as [cdb_hash] as one more
   instance.  Every theorem of Proofs/Cdb*.v holds for an arbitrary H.

   Two levels:
   - structured image ([image]: records with their file positions, 256 tables of
     (table position, slot list)) with [write], [find]/[find_all], [dump], [make];
   - flat byte image: [serialize], and the byte-level reader [bfind]/[bfind_all],
     [bdump], [bmake] which follow the Go code read by read (u32 little endian
     numbers, slice bounds, uint32 wrap-around).

   Go fixed-width arithmetic: [w32] marks every place where the Go code computes in
   uint32. *)
From DnsV Require Import Base.Bytes.
Open Scope N_scope.

Definition w32 (n : N) : N := n mod 4294967296.
Definition kv := (bytes * bytes)%type.
Definition slot := (N * N)%type.               (* (hash, record position); position 0 = empty *)
Definition empty_slot : slot := (0, 0).
Definition header_size : N := 2048.

(* uint32(len(b)) *)
Definition blen (b : bytes) : N := w32 (nlen b).

(* D. J. Bernstein's cdb hash: h = 5381; h = ((h << 5) + h) xor c  (mod 2^32) *)
Definition cdb_hash (k : bytes) : N :=
  fold_left (fun h c => N.lxor (w32 (w32 (h * 32) + h)) c) k 5381.

Definition slot_at (t : list slot) (p : N) : slot := nth (N.to_nat p) t empty_slot.

Fixpoint set_nth {A} (n : nat) (x : A) (l : list A) : list A :=
  match l, n with
  | [], _ => []
  | _ :: t, O => x :: t
  | a :: t, S n' => a :: set_nth n' x t
  end.

(* ------------------------------------------------------------------ records *)

(* writer.Put / Make: records are laid out from [pos] on; pos += 8 + klen + dlen in uint32 *)
Definition next_pos (pos : N) (p : kv) : N := w32 (pos + 8 + blen (fst p) + blen (snd p)).

Fixpoint recs_from (pos : N) (l : list kv) : list (N * kv) :=
  match l with
  | [] => []
  | p :: t => (pos, p) :: recs_from (next_pos pos p) t
  end.

Fixpoint end_from (pos : N) (l : list kv) : N :=
  match l with
  | [] => pos
  | p :: t => end_from (next_pos pos p) t
  end.

(* ------------------------------------------------------------------ tables *)

(* for hashSlotTable[slotPos].pos != 0 { slotPos++; if slotPos == len { slotPos = 0 } }
   The Go loop has no bound; [fuel] runs out only if the table has no free slot
   (result None = the real writer would spin forever). *)
Fixpoint probe (t : list slot) (p : N) (fuel : nat) : option N :=
  match fuel with
  | O => None
  | S f =>
      if snd (slot_at t p) =? 0 then Some p
      else let p' := w32 (p + 1) in
           probe t (if p' =? w32 (nlen t) then 0 else p') f
  end.

Fixpoint fill (t : list slot) (nslots : N) (es : list slot) : option (list slot) :=
  match es with
  | [] => Some t
  | e :: es' =>
      match probe t ((fst e / 256) mod nslots) (length t) with
      | None => None
      | Some p => fill (set_nth (N.to_nat p) e t) nslots es'
      end
  end.

(* nslots := uint32(len(slots) * 2); reset; insert every slot in insertion order *)
Definition build_table (es : list slot) : option (list slot) :=
  let nslots := w32 (2 * nlen es) in
  fill (repeat empty_slot (N.to_nat nslots)) nslots es.

Definition in_table (i : N) (e : slot) : bool := fst e mod 256 =? i.

(* for i := 0; i < 256; i++: empty table -> header (pos, 0); otherwise the table is
   written at pos, header (pos, nslots), pos += 8 * nslots *)
Fixpoint build_tables (ents : list slot) (ids : list N) (pos : N) : result (list (N * list slot)) :=
  match ids with
  | [] => Ok []
  | i :: ids' =>
      match filter (in_table i) ents with
      | [] => rbind (build_tables ents ids' pos) (fun r => Ok ((pos, []) :: r))
      | es =>
          match build_table es with
          | None => Err 1
          | Some t => rbind (build_tables ents ids' (w32 (pos + 8 * nlen t)))
                            (fun r => Ok ((pos, t) :: r))
          end
      end
  end.

Definition table_ids : list N := map N.of_nat (seq 0 256).

Record image := mkImage { irecs : list (N * kv); itabs : list (N * list slot) }.

Section WithHash.
Variable H : bytes -> N.

Definition entry_of (r : N * kv) : slot := (H (fst (snd r)), fst r).

(* NewWriter; Put ...; Close *)
Definition write (kvs : list kv) : result image :=
  let recs := recs_from header_size kvs in
  rbind (build_tables (map entry_of recs) table_ids (end_from header_size kvs))
        (fun tabs => Ok (mkImage recs tabs)).

(* ------------------------------------------------------------------ reader, structured level *)

(* Context: loop, khash, kpos (here: slot index inside the table), hpos (here: the
   table number), hslots.  dpos/dlen are replaced by the value returned. *)
Record ctx := mkCtx { c_loop : N; c_khash : N; c_kpos : N; c_tab : N; c_hslots : N }.
Definition ctx0 : ctx := mkCtx 0 0 0 0 0.

Inductive outcome := Found (v : bytes) | Eof | Panic.

Definition tab_at (img : image) (i : N) : list slot := snd (nth (N.to_nat i) (itabs img) (0, [])).

Fixpoint rec_at (recs : list (N * kv)) (pos : N) : option kv :=
  match recs with
  | [] => None
  | (p, x) :: t => if p =? pos then Some x else rec_at t pos
  end.

(* for context.loop < context.hslots { ... }: [rem] = hslots - loop, the number of
   iterations left (loop grows by one per iteration, hslots is constant). *)
Fixpoint find_loop (img : image) (key : bytes) (c : ctx) (rem : nat) : outcome * ctx :=
  match rem with
  | O => (Eof, c)
  | S r =>
      let '(h, pos) := slot_at (tab_at img (c_tab c)) (c_kpos c) in
      if pos =? 0 then (Eof, c)
      else
        let k1 := c_kpos c + 1 in
        let c' := mkCtx (c_loop c + 1) (c_khash c) (if k1 =? c_hslots c then 0 else k1) (c_tab c) (c_hslots c) in
        if h =? c_khash c then
          match rec_at (irecs img) pos with
          | None => (Panic, c')
          | Some (k', v) =>
              if (blen k' =? blen key) && bytes_eqb key k' then (Found v, c')
              else find_loop img key c' r
          end
        else find_loop img key c' r
  end.

Definition find (img : image) (key : bytes) (c : ctx) : outcome * ctx :=
  if c_loop c =? 0 then
    let h := H key in
    let i := h mod 256 in                       (* (h << 3) & 2047 = 8 * (h mod 256) *)
    let hslots := nlen (tab_at img i) in
    if hslots =? 0 then (Eof, mkCtx 0 (c_khash c) (c_kpos c) i 0)
    else
      let c1 := mkCtx 0 h ((h / 256) mod hslots) i hslots in
      find_loop img key c1 (N.to_nat hslots)
  else find_loop img key c (N.to_nat (c_hslots c - c_loop c)).

Definition find_start (c : ctx) : ctx := mkCtx 0 (c_khash c) (c_kpos c) (c_tab c) (c_hslots c).

(* FindStart, then FindNext until EOF.  Err 2 = panic, Err 9 = out of fuel. *)
Fixpoint next_all (img : image) (key : bytes) (c : ctx) (fuel : nat) : result (list bytes) :=
  match fuel with
  | O => Err 9
  | S f =>
      match find img key c with
      | (Found v, c') => rbind (next_all img key c' f) (fun l => Ok (v :: l))
      | (Eof, _) => Ok []
      | (Panic, _) => Err 2
      end
  end.

Definition find_all (img : image) (key : bytes) : result (list bytes) :=
  next_all img key (find_start ctx0) (S (length (irecs img))).

End WithHash.

(* ------------------------------------------------------------------ dump / make text *)

(* decimal digits, as fmt %d prints a uint32 *)
Fixpoint digits_fuel (fuel : nat) (n : N) (acc : bytes) : bytes :=
  match fuel with
  | O => acc
  | S f => let acc' := (48 + n mod 10) :: acc in
           if n / 10 =? 0 then acc' else digits_fuel f (n / 10) acc'
  end.
Definition digits (n : N) : bytes := digits_fuel (S (N.to_nat (N.log2 n))) n [].

Definition dump_rec (p : kv) : bytes :=
  [43] ++ digits (blen (fst p)) ++ [44] ++ digits (blen (snd p)) ++ [58] ++ fst p ++ [45; 62] ++ snd p ++ [10].

Fixpoint dump_text (l : list kv) : bytes :=
  match l with
  | [] => [10]
  | p :: t => dump_rec p ++ dump_text t
  end.

Definition dump (img : image) : bytes := dump_text (map snd (irecs img)).

(* bufio.Reader.ReadString(delim) *)
Fixpoint read_until (d : N) (s : bytes) : option (bytes * bytes) :=
  match s with
  | [] => None
  | c :: t => if c =? d then Some ([], t)
              else match read_until d t with Some (a, r) => Some (c :: a, r) | None => None end
  end.

(* strconv.ParseUint(s, 10, 32): non-empty, decimal digits only, value < 2^32 *)
Fixpoint horner (acc : N) (s : bytes) : option N :=
  match s with
  | [] => Some acc
  | c :: t => if (48 <=? c) && (c <=? 57) then horner (acc * 10 + (c - 48)) t else None
  end.
Definition parse_num (s : bytes) : option N :=
  match s with
  | [] => None
  | _ => match horner 0 s with
         | Some n => if n <? 4294967296 then Some n else None
         | None => None
         end
  end.

(* io.CopyN of n bytes *)
Definition take_n (n : N) (s : bytes) : option (bytes * bytes) :=
  if n <=? nlen s then Some (firstn (N.to_nat n) s, skipn (N.to_nat n) s) else None.

Definition eat (c : N) (s : bytes) : option bytes :=
  match s with x :: t => if x =? c then Some t else None | [] => None end.

Definition obind {A B} (o : option A) (f : A -> option B) : option B :=
  match o with Some a => f a | None => None end.

(* one record "+klen,dlen:key->data\n" after the '+' *)
Definition parse_rec (s : bytes) : option (kv * bytes) :=
  obind (read_until 44 s) (fun '(ks, s1) =>
  obind (parse_num ks) (fun klen =>
  obind (read_until 58 s1) (fun '(ds, s2) =>
  obind (parse_num ds) (fun dlen =>
  obind (take_n klen s2) (fun '(k, s3) =>
  obind (eat 45 s3) (fun s4 =>
  obind (eat 62 s4) (fun s5 =>
  obind (take_n dlen s5) (fun '(v, s6) =>
  obind (eat 10 s6) (fun s7 => Some ((k, v), s7)))))))))).

(* Make's record loop.  Err 3 = BadFormatError, Err 4 = any recovered panic (EOF,
   unexpected character, number syntax), Err 9 = out of fuel (never: one byte per step) *)
Fixpoint parse_recs (fuel : nat) (s : bytes) : result (list kv) :=
  match fuel with
  | O => Err 9
  | S f =>
      match s with
      | [] => Err 4
      | c :: s1 =>
          if c =? 10 then Ok []
          else if negb (c =? 43) then Err 3
          else match parse_rec s1 with
               | None => Err 4
               | Some (p, s') => rbind (parse_recs f s') (fun l => Ok (p :: l))
               end
      end
  end.

Definition parse_text (s : bytes) : result (list kv) := parse_recs (S (length s)) s.

Definition make (H : bytes -> N) (text : bytes) : result image :=
  rbind (parse_text text) (write H).

(* ------------------------------------------------------------------ flat byte image *)

Definition ser_header (tabs : list (N * list slot)) : bytes :=
  concat (map (fun x : N * list slot => u32le (fst x) ++ u32le (nlen (snd x))) tabs).
Definition ser_rec (r : N * kv) : bytes :=
  u32le (blen (fst (snd r))) ++ u32le (blen (snd (snd r))) ++ fst (snd r) ++ snd (snd r).
Definition ser_slot (s : slot) : bytes := u32le (fst s) ++ u32le (snd s).
Definition ser_table (x : N * list slot) : bytes := concat (map ser_slot (snd x)).

(* the file: header (written last, at offset 0), records from 2048 on, then the tables *)
Definition serialize (img : image) : bytes :=
  ser_header (itabs img) ++ concat (map ser_rec (irecs img)) ++ concat (map ser_table (itabs img)).

(* c.mmappedData[pos : pos+8] with pos+8 computed in uint32; None = slice bounds panic *)
Definition read_nums (data : bytes) (dl : N) (pos : N) : option (N * N) :=
  let e := w32 (pos + 8) in
  if (pos <=? e) && (e <=? dl) then
    match skipn (N.to_nat pos) data with
    | a0 :: a1 :: a2 :: a3 :: b0 :: b1 :: b2 :: b3 :: _ =>
        Some (((a3 * 256 + a2) * 256 + a1) * 256 + a0, ((b3 * 256 + b2) * 256 + b1) * 256 + b0)
    | _ => None
    end
  else None.

(* c.mmappedData[pos : pos+n] *)
Definition slice (data : bytes) (dl : N) (pos n : N) : option bytes :=
  let e := w32 (pos + n) in
  if (pos <=? e) && (e <=? dl) then Some (firstn (N.to_nat (e - pos)) (skipn (N.to_nat pos) data))
  else None.

Record bctx := mkB { b_loop : N; b_khash : N; b_kpos : N; b_hpos : N; b_hslots : N; b_dpos : N; b_dlen : N }.
Definition bctx0 : bctx := mkB 0 0 0 0 0 0 0.

Inductive boutcome := BFound | BEof | BPanic.

Section Bytes.
Variable H : bytes -> N.
Variable data : bytes.
Variable dl : N.      (* len(mmappedData) *)

Fixpoint bfind_loop (key : bytes) (c : bctx) (rem : nat) : boutcome * bctx :=
  match rem with
  | O => (BEof, c)
  | S r =>
      match read_nums data dl (b_kpos c) with
      | None => (BPanic, c)
      | Some (h, pos) =>
          if pos =? 0 then (BEof, c)
          else
            let k1 := w32 (b_kpos c + 8) in
            let k2 := if k1 =? w32 (b_hpos c + w32 (b_hslots c * 8)) then b_hpos c else k1 in
            let c' := mkB (w32 (b_loop c + 1)) (b_khash c) k2 (b_hpos c) (b_hslots c) (b_dpos c) (b_dlen c) in
            if h =? b_khash c then
              match read_nums data dl pos with
              | None => (BPanic, c')
              | Some (rklen, rdlen) =>
                  if rklen =? blen key then
                    match slice data dl (w32 (pos + 8)) (blen key) with
                    | None => (BPanic, c')
                    | Some kb =>
                        if bytes_eqb kb key then
                          (BFound, mkB (b_loop c') (b_khash c') (b_kpos c') (b_hpos c') (b_hslots c')
                                       (w32 (w32 (pos + 8) + blen key)) rdlen)
                        else bfind_loop key c' r
                    end
                  else bfind_loop key c' r
              end
            else bfind_loop key c' r
      end
  end.

Definition bfind (key : bytes) (c : bctx) : boutcome * bctx :=
  if b_loop c =? 0 then
    let h := H key in
    match read_nums data dl (N.land (w32 (h * 8)) 2047) with
    | None => (BPanic, c)
    | Some (hpos, hslots) =>
        let c0 := mkB 0 (b_khash c) (b_kpos c) hpos hslots (b_dpos c) (b_dlen c) in
        if hslots =? 0 then (BEof, c0)
        else
          let s := w32 (((h / 256) mod hslots) * 8) in
          let c1 := mkB 0 h (w32 (hpos + s)) hpos hslots (b_dpos c) (b_dlen c) in
          bfind_loop key c1 (N.to_nat hslots)
    end
  else bfind_loop key c (N.to_nat (b_hslots c - b_loop c)).

(* FindNext: find, then mmappedData[dpos : dpos+dlen] *)
Fixpoint bnext_all (key : bytes) (c : bctx) (fuel : nat) : result (list bytes) :=
  match fuel with
  | O => Err 9
  | S f =>
      match bfind key c with
      | (BFound, c') =>
          match slice data dl (b_dpos c') (b_dlen c') with
          | None => Err 2
          | Some v => rbind (bnext_all key c' f) (fun l => Ok (v :: l))
          end
      | (BEof, _) => Ok []
      | (BPanic, _) => Err 2
      end
  end.

End Bytes.

Definition bfind_all (H : bytes -> N) (data : bytes) (key : bytes) : result (list bytes) :=
  bnext_all H data (nlen data) key bctx0 (S (length data)).

(* Dump: eod = first number of the header; skip the header; records while pos < eod.
   The reader is a stream: [rest] is what has not been consumed.  Err 5 = read error
   (EOF / unexpected EOF), Err 9 = out of fuel. *)
Definition rd_num (s : bytes) : option (N * bytes) :=
  match s with
  | a :: b :: c :: d :: t => Some (((d * 256 + c) * 256 + b) * 256 + a, t)
  | _ => None
  end.

Fixpoint bdump_loop (rest : bytes) (pos eod : N) (fuel : nat) : result bytes :=
  match fuel with
  | O => Err 9
  | S f =>
      if pos <? eod then
        match rd_num rest with
        | None => Err 5
        | Some (klen, r1) =>
            match rd_num r1 with
            | None => Err 5
            | Some (dlen, r2) =>
                match take_n klen r2 with
                | None => Err 5
                | Some (k, r3) =>
                    match take_n dlen r3 with
                    | None => Err 5
                    | Some (v, r4) =>
                        rbind (bdump_loop r4 (w32 (pos + 8 + klen + dlen)) eod f)
                              (fun t => Ok ([43] ++ digits klen ++ [44] ++ digits dlen ++ [58] ++ k ++ [45; 62] ++ v ++ [10] ++ t))
                    end
                end
            end
        end
      else Ok [10]
  end.

Definition bdump (data : bytes) : result bytes :=
  match rd_num data with
  | None => Err 5
  | Some (eod, _) =>
      if nlen data <? header_size then Err 5
      else bdump_loop (skipn (N.to_nat header_size) data) header_size eod (S (length data))
  end.

Definition bmake (H : bytes -> N) (text : bytes) : result bytes :=
  rbind (make H text) (fun img => Ok (serialize img)).
