(* MultiValue: the multi-value codec of dnsdata/rdb, written after the Go source
   statement by statement.
     rdb_util.go : appendValues, delValue
     rdb.go      : ReadNextChunk, and the chunk loops of Find / ForEach
   A stored value is  <4 byte little endian length><chunk> ... repeated.

   Integers: Go int is 64 bit here, so int(uint32)+4 never wraps; uint32(len v)
   wraps mod 2^32 and that is what u32le computes (every digit is taken mod 256).
   Offsets i, l, chunkLen are N and are used exactly as in the Go text
   (i+4 > l, i+chunkLen > l, data[i+4 : i+chunkLen], copy(data[i:], data[i+chunkLen:]),
   data[:l-chunkLen]).  Slices become ntake / ndrop / slice on immutable lists;
   the in-place copy of delValue is modelled by go_copy (memmove semantics).
   Aliasing (delValue overwrites the caller's buffer) has no counterpart here: the
   callers (Del, integrate) use the buffer returned by Get / GetMulti only once.

   Error enum (shared with Model/Batch.v, Run/C15.v and the harness):
     1 ErrNXKey   2 ErrNXVal   3 io.ErrUnexpectedEOF   4 io.EOF
     5 any other error (fmt.Errorf: the internal error of integrate)
     7 model ran out of fuel   8 Go would panic (slice / index out of range)
   No proofs here: this file must keep evaluating when a proof breaks. *)
From DnsV Require Export Base.Bytes.
Open Scope N_scope.

Definition E_NXKEY : N := 1.
Definition E_NXVAL : N := 2.
Definition E_UEOF : N := 3.
Definition E_EOF : N := 4.
Definition E_OTHER : N := 5.
Definition E_FUEL : N := 7.
Definition E_PANIC : N := 8.

Definition ntake {A} (n : N) (l : list A) : list A := firstn (N.to_nat n) l.
Definition ndrop {A} (n : N) (l : list A) : list A := skipn (N.to_nat n) l.
(* data[lo:hi] for lo <= hi <= len data *)
Definition slice {A} (l : list A) (lo hi : N) : list A := ntake (hi - lo) (ndrop lo l).

(* func appendValues(data []byte, newVals [][]byte) []byte *)
Definition append_values (data : bytes) (new_vals : list bytes) : bytes :=
  fold_left (fun d v => (d ++ u32le (nlen v)) ++ v) new_vals data.

(* copy(data[dst:], data[src:]) : min(len data - dst, len data - src) bytes are moved *)
Definition go_copy (data : bytes) (dst src : N) : bytes :=
  let l := nlen data in
  let n := N.min (l - dst) (l - src) in
  ntake dst data ++ ntake n (ndrop src data) ++ ndrop (dst + n) data.

(* func delValue(data []byte, value []byte) ([]byte, error): the loop  for i < l  *)
Fixpoint del_value_loop (fuel : nat) (data value : bytes) (i : N) : result bytes :=
  match fuel with
  | O => Err E_FUEL
  | S f =>
      let l := nlen data in
      if i <? l then
        if l <? i + 4 then Err E_UEOF
        else match rd_u32le (ndrop i data) with
             | None => Err E_PANIC
             | Some n =>
                 let chunk_len := n + 4 in
                 if l <? i + chunk_len then Err E_UEOF
                 else
                   let v := slice data (i + 4) (i + chunk_len) in
                   if (nlen v =? nlen value) && bytes_eqb v value then
                     let data' := if i + chunk_len <? l then go_copy data i (i + chunk_len) else data in
                     Ok (ntake (l - chunk_len) data')
                   else del_value_loop f data value (i + chunk_len)
             end
      else Err E_NXVAL
  end.

(* every iteration advances i by at least 4, so length data + 1 rounds suffice *)
Definition del_value (data value : bytes) : result bytes :=
  del_value_loop (S (length data)) data value 0.

(* func ReadNextChunk(data []byte) (chunk, leftover []byte, err error) *)
Definition read_next_chunk (data : bytes) : result (bytes * bytes) :=
  let l := nlen data in
  if l =? 0 then Err E_EOF
  else if l <? 4 then Err E_UEOF
  else match rd_u32le data with
       | None => Err E_PANIC
       | Some n =>
           let chunk_len := n + 4 in
           if l <? chunk_len then Err E_UEOF
           else Ok (slice data 4 chunk_len, ndrop chunk_len data)
       end.

(* the loop of ForEach with f = collect: values read so far (in order) and the
   error that ended the loop; io.EOF ends it without error *)
Fixpoint for_each_loop (fuel : nat) (data : bytes) : list bytes * N :=
  match fuel with
  | O => ([], E_FUEL)
  | S f =>
      match read_next_chunk data with
      | Err e => ([], if e =? E_EOF then 0 else e)
      | Ok (v, rest) => let '(vs, e) := for_each_loop f rest in (v :: vs, e)
      end
  end.

(* values handed to the callback, and the error class returned (0 = nil) *)
Definition for_each_data (data : bytes) : list bytes * N :=
  for_each_loop (S (length data)) data.

(* Find on the stored bytes: first chunk, or the error of ReadNextChunk *)
Definition find_data (data : bytes) : result bytes :=
  match read_next_chunk data with
  | Ok (v, _) => Ok v
  | Err e => Err e
  end.
