(* Serve: FBDNSDB.ServeDNSWithRCODE (dnsserver/handler.go) without the LRU cache, over
   the v1 reader (CDB, RocksDB v1 keys) or the v2 reader (RocksDB v2 keys).
   No proofs in this file.

   Inputs that are oracles here (observed on the implementation by the harness):
   * the result of reader.FindLocation for this query and client (error / nil location /
     LocID) - location lookup is property C03's model;
   * the ECS option FindLocation returns (a pointer to the request's own option, with the
     scope it wrote), echoed in the reply's OPT.
   Not modelled: message size, truncation and compression (the harness uses a TCP remote
   address, so nothing is truncated), the DO bit and UDP size copied by SizeAndDo,
   opcode / RD / CD bits copied by SetReply, statistics and logging. *)
From DnsV Require Import Base.Bytes Model.Store Model.LookupV1 Model.LookupV2.
Open Scope N_scope.

Record query := mkQ {
  q_id : N;
  q_name : bytes;          (* question name on the wire as sent (valid, uncompressed, any case) *)
  q_type : N;
  q_class : N;
  q_edns : option N        (* EDNS version of the (last) OPT record, if any *)
}.

Inductive locres := LocErr | LocNil | LocOk (id : bytes).
Definition ecsval := bytes.

Record response := mkResp {
  rs_id : N;
  rs_question : option (bytes * N * N);
  rs_rcode : N;
  rs_aa : bool;
  rs_an : list item;
  rs_ns : list item;
  rs_ex : list item;
  rs_opt : option (option ecsval)      (* OPT present? with which ECS option *)
}.
Inductive outcome := OPanic | OFuel | ONoReply | OReply (r : response).

Record reader (C : Type) := mkReader {
  rd_auth : C -> bytes -> bytes -> res (authres * C);
  rd_answer : C -> bytes -> bytes -> bytes -> N -> bytes -> N -> res (list item * bool * C);
  rd_rr : forall S : Type, C -> bytes -> bytes -> cb S -> S -> res (S * bool * C)
}.

Definition reader_v1 (b : backend) (st : store) : reader unit :=
  mkReader unit
    (fun c q loc => a <- is_authoritative_v1 b st q loc ;; Val (a, c))
    (fun c q ctrl qname qtype loc max =>
       '(an, found) <- find_answer_v1 b st q ctrl qname qtype loc max ;; Val (an, found, c))
    (fun S c name loc f s => let '(s', e) := for_each_rr_v1 b st name loc f s in Val (s', e, c)).

Definition reader_v2 (st : store) : reader ctx :=
  mkReader ctx
    (fun c q loc => is_authoritative_v2 st c q loc)
    (fun c q ctrl qname qtype loc max => find_answer_v2 st c q ctrl qname qtype loc max)
    (fun S c name loc f s => for_each_rr_v2 st c name loc f s).

Definition item_count (l : list item) : N :=
  fold_right (fun i n => match i with IRR _ => 1 + n | IPick _ _ _ _ k => k + n end) 0 l.

(* the name AdditionalSectionForRecords looks up for a record: NS 2, MX 15, HTTPS 65 *)
Definition target_of (i : item) : option bytes :=
  match i with
  | IRR r =>
      if rr_type r =? 2 then option_map fst (parse_name (rr_rdata r))
      else if rr_type r =? 15 then option_map fst (parse_name (skipn 2 (rr_rdata r)))
      else if rr_type r =? 65 then Some (rr_owner r)
      else None
  | IPick _ _ _ _ _ => None
  end.

Section Serve.
Variable C : Type.
Variable rd : reader C.

(* db.AdditionalSectionForRecords: the packed target is lower-cased (A-Z only, in place, after
   5851055) before the key lookup - owner keys are lower-cased the same way by the compiler; the
   owner of the added records stays as written in the rdata; AAAA picks are appended before A picks *)
Fixpoint additional (recs : list item) (loc : bytes) (qclass : N) (m : msg) (c : C) : res (msg * C) :=
  match recs with
  | [] => Val (m, c)
  | it :: t =>
      match target_of it with
      | None => additional t loc qclass m c
      | Some name =>
          let want4 := negb (has_record m name 1) in
          let want6 := negb (has_record m name 28) in
          if want4 || want6 then
            '(w, _, c1) <- rd_rr C rd wrs c (lower_bytes name) loc (add_cb want4 want6) wrs_empty ;;
            let m' := mkMsg (m_an m) (m_ns m)
                            (m_ex m ++ wrs_items name qclass 1 28 (w6 w) ++ wrs_items name qclass 1 1 (w4 w)) in
            additional t loc qclass m' c1
          else additional t loc qclass m c
      end
  end.

Definition question_of (q : query) := Some (q_name q, q_type q, q_class q).
Definition opt_of (q : query) (ecs : option ecsval) : option (option ecsval) :=
  match q_edns q with Some _ => Some ecs | None => None end.
(* dns.HandleFailed: SERVFAIL written directly, no OPT *)
Definition servfail (q : query) : outcome :=
  OReply (mkResp (q_id q) (question_of q) 2 false [] [] [] None).

Definition lift {A} (r : res A) (k : A -> outcome) : outcome :=
  match r with Val a => k a | Panic => OPanic | OutOfFuel => OFuel end.

(* sections after the answer is known *)
Definition serve_sections (q : query) (ecs : option ecsval) (loc : bytes) (auth : bool) (zc : bytes)
           (an : list item) (rcode : N) (c3 : C) : outcome :=
  match parse_name zc with
  | None => servfail q
  | Some (zname, _) =>
      lift (if auth && (item_count an =? 0) then
              '(s, _, c4) <- rd_rr C rd (bool * list item)%type c3 zc loc (soa_cb zname) (false, []) ;;
              Val (snd s, c4)
            else if negb auth && negb (has_record (mkMsg an [] []) zname 2) then
              '(s, e, c4) <- rd_rr C rd (list item) c3 zc loc (ns_cb zname (q_class q)) [] ;;
              Val ((if e : bool then [] else s), c4)
            else Val ([], c3))
        (fun x => let '(nsec, c4) := x in
           let m0 := mkMsg an nsec [] in
           lift ('(m1, c5) <- additional (m_an m0) loc (q_class q) m0 c4 ;;
                 additional (m_ns m1) loc (q_class q) m1 c5)
             (fun y => let '(m2, _) := y in
                OReply (mkResp (q_id q) (question_of q) rcode auth (m_an m2) (m_ns m2) (m_ex m2) (opt_of q ecs))))
  end.

Definition serve_answer (q : query) (ecs : option ecsval) (loc : bytes) (max : N) (packed : bytes)
           (ar : authres) (c2 : C) : outcome :=
  let auth := a_auth ar in
  let zc := a_zc ar in
  lift (if auth then
          '(an, found, c3) <- rd_answer C rd c2 packed zc (q_name q) (q_type q) loc max ;;
          Val (an, (if (item_count an =? 0) && negb found then 3 else 0), c3)
        else Val ([], 0, c2))
    (fun x => let '(an, rcode, c3) := x in serve_sections q ecs loc auth zc an rcode c3).

(* DS below a delegation is re-evaluated at the parent; the root has no parent *)
Definition serve_ds (q : query) (loc packed : bytes) (ar : authres) (c1 : C) : res (option (authres * C)) :=
  if negb (a_auth ar) && (q_type q =? 43) then
    p0 <- idx packed 0 ;;
    if p0 =? 0 then Val (Some (ar, c1)) else
    rest <- slice_from packed (b8 (p0 + 1)) ;;
    '(ar2, c2) <- rd_auth C rd c1 rest loc ;;
    if a_err ar2 then Val None else Val (Some (mkAuth (a_ns ar) (a_auth ar2) (a_zc ar2) false, c2))
  else Val (Some (ar, c1)).

Definition serve_with (c0 : C) (q : query) (locr : locres) (ecs : option ecsval) (max : N) : outcome :=
  match q_edns q with
  | Some (Npos _) =>
      (* edns.Version: BADVERS 16, question section emptied, fresh OPT without options *)
      OReply (mkResp (q_id q) None 16 false [] [] [] (Some None))
  | _ =>
      let packed := lower_bytes (q_name q) in
      match locr with
      | LocErr | LocNil => ONoReply
      | LocOk loc =>
          lift (rd_auth C rd c0 packed loc)
            (fun x => let '(ar, c1) := x in
               if a_err ar then servfail q else
               if negb (a_ns ar) && negb (a_auth ar) then
                 OReply (mkResp (q_id q) (question_of q) 5 false [] [] [] (opt_of q ecs))
               else
                 lift (serve_ds q loc packed ar c1)
                   (fun r => match r with
                             | None => servfail q
                             | Some (ar', c2) => serve_answer q ecs loc max packed ar' c2
                             end))
      end
  end.
End Serve.

Definition serve (b : backend) (st : store) (q : query) (locr : locres) (ecs : option ecsval) (max : N) : outcome :=
  match b with
  | RDB2 => serve_with ctx (reader_v2 st) [] q locr ecs max
  | _ => serve_with unit (reader_v1 b st) tt q locr ecs max
  end.
