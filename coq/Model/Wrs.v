(* Model/Wrs: weighted random sample of address records
   (/repo/dnsrocks/db/wrs.go) and the two places that feed it
   (db/answer.go FindAnswer, db/utils.go AdditionalSectionForRecords).
   Executable model, no proofs here (Proofs/Wrs.v).

   Keys.  Go computes for every added record
       key = math.Pow(float64(Uint32()) * float64(1.0/MaxUint32), 1.0/float64(weight))
   a float64 in [0,1].  The selection logic only uses the ORDER of keys
   (v.Key < minKey, wrsItem.Key > items[0].Key) and the test key > 0.0, so the
   model is written over an abstract key type K with klt (Go <) and kpos
   (Go > 0.0); theorems hold for every strict order.  Two instances are used
   for evaluation: ranks (N, the harness reports the rank of each observed
   float64 key, rank 0 = the key is 0.0) and exact rationals (u/M)^(1/w)
   (dkey below, compared in N without rounding).

   Not modelled: rand.Shuffle in record() (the model returns the slots in slot
   order, the implementation a pseudo-random permutation of them: outputs are
   compared as sets); the shared locked generator. *)
From DnsV Require Import Base.Bytes.
Open Scope N_scope.

Definition TypeA : N := 1.
Definition TypeCNAME : N := 5.
Definition TypeAAAA : N := 28.
Definition TypeANY : N := 255.
Definition two32 : N := 4294967296.
Definition maxU32 : N := 4294967295.      (* math.MaxUint32 *)

Section Wrs.
  Variable K : Type.                   (* key *)
  Variable klt : K -> K -> bool.       (* Go: a < b on float64 *)
  Variable kpos : K -> bool.           (* Go: a > 0.0 *)
  Variable A : Type.                   (* payload of an item: TTL and address bytes *)

  Definition item := (K * A)%type.

  (* type Wrs struct { MaxAnswers int; V4 []WrsItem; V4Count uint32; V6 []WrsItem; V6Count uint32 } *)
  Record wrs := mkWrs { max_answers : Z; v4 : list item; v4count : N; v6 : list item; v6count : N }.

  Definition wrs_new (max : Z) : wrs := mkWrs max [] 0 [] 0.

  (* for i, v := range items { if v.Key < minKey { minKey = v.Key; idx = i } } *)
  Fixpoint scan_min (items : list item) (i : nat) (minKey : K) (idx : option nat) : option nat :=
    match items with
    | [] => idx
    | v :: t => if klt (fst v) minKey then scan_min t (S i) (fst v) (Some i)
                else scan_min t (S i) minKey idx
    end.

  (* items[idx] = x *)
  Fixpoint replace_nth (n : nat) (x : item) (l : list item) : list item :=
    match l, n with
    | [], _ => []
    | _ :: t, O => x :: t
    | h :: t, S n' => h :: replace_nth n' x t
    end.

  (* addRecord: append while fewer than MaxAnswers slots are used, else replace
     the first slot holding the strictly smallest key below the new key *)
  Definition add_record (max : Z) (items : list item) (it : item) : list item :=
    if (Z.of_nat (length items) <? max)%Z then items ++ [it]
    else match scan_min items 0 (fst it) None with
         | None => items
         | Some idx => replace_nth idx it items
         end.

  (* checkAndReplaceRecord (MaxAnswers == 1): keep the maximum, first one wins ties *)
  Definition check_and_replace (items : list item) (it : item) : list item :=
    match items with
    | [] => [it]
    | h :: t => if klt (fst h) (fst it) then it :: t else items
    end.

  Definition add_items (max : Z) (items : list item) (it : item) : list item :=
    if (max =? 1)%Z then check_and_replace items it else add_record max items it.

  Definition inc32 (c : N) : N := (c + 1) mod two32.      (* uint32 ++ *)

  (* func (w *Wrs) Add(rec ResourceRecord, data []byte) error; Err 1 = unsupported type *)
  Definition add (w : wrs) (qtype : N) (it : item) : result wrs :=
    if negb (qtype =? TypeA) && negb (qtype =? TypeAAAA) then Err 1
    else
      let w1 := if qtype =? TypeA
                then mkWrs (max_answers w) (add_items (max_answers w) (v4 w) it) (inc32 (v4count w)) (v6 w) (v6count w)
                else w in
      let w2 := if qtype =? TypeAAAA
                then mkWrs (max_answers w1) (v4 w1) (v4count w1) (add_items (max_answers w1) (v6 w1) it) (inc32 (v6count w1))
                else w1 in
      Ok w2.

  Definition live (items : list item) : list item := filter (fun it => kpos (fst it)) items.

  (* func (w *Wrs) record(name, class, qtype): items with Key > 0.0 (after a shuffle) *)
  Definition records (w : wrs) (qtype : N) : result (list item) :=
    if qtype =? TypeA then Ok (live (v4 w))
    else if qtype =? TypeAAAA then Ok (live (v6 w))
    else Err 1.

  Definition weighted (w : wrs) : bool := (1 <? v4count w) || (1 <? v6count w).

  (* ---- feeding: FindAnswer (db/answer.go) ----
     A row is what ExtractRRFromRow accepted at one search level (rows of the
     client's location first, then the untagged ones): its type, the key its
     draw produces (used for A/AAAA only) and its payload. *)
  Record row := mkRow { rq : N; rkey : K; rpay : A }.

  Record fstate := mkF { fw : wrs; fans : list A; ffound : bool }.

  Definition is_addr (q : N) : bool := (q =? TypeA) || (q =? TypeAAAA).

  (* if err := wrs.Add(rec, result); err != nil { log }: an error leaves the sample unchanged *)
  Definition add_row (w : wrs) (r : row) : wrs :=
    match add w (rq r) (rkey r, rpay r) with Ok w' => w' | Err _ => w end.

  (* parseResult *)
  Definition parse_result (qtype : N) (s : fstate) (r : row) : fstate :=
    if (rq r =? TypeCNAME) || (rq r =? qtype) || (qtype =? TypeANY) then
      if is_addr (rq r) then mkF (add_row (fw s) r) (fans s) true
      else mkF (fw s) (fans s ++ [rpay r]) true
    else mkF (fw s) (fans s) true.

  Definition recs_or_nil (w : wrs) (q : N) : list A :=
    match records w q with Ok l => map snd l | Err _ => [] end.

  (* one iteration of the for loop of FindAnswer for every search level (the
     exact name, then one wildcard level per removed label); the loop ends at
     the first level with recordFound (or when the levels are exhausted: zone
     apex, root or a label that is not wildcard safe) *)
  Fixpoint find_levels (qtype : N) (s : fstate) (levels : list (list row)) : fstate :=
    match levels with
    | [] => s
    | lv :: rest =>
        let s1 := fold_left (parse_result qtype) lv s in
        let s2 := mkF (fw s1) (fans s1 ++ recs_or_nil (fw s1) TypeA ++ recs_or_nil (fw s1) TypeAAAA) (ffound s1) in
        if ffound s2 then s2 else find_levels qtype s2 rest
    end.

  (* (answer payloads, weighted, recordFound) *)
  Definition find_answer (qtype : N) (max : Z) (levels : list (list row)) : list A * bool * bool :=
    let s := find_levels qtype (mkF (wrs_new max) [] false) levels in
    (fans s, weighted (fw s), ffound s).

  (* handler.go: if len(a.Answer) == 0 && !recordFound { Rcode = NXDOMAIN } *)
  Definition nxdomain (r : list A * bool * bool) : bool :=
    match r with (ans, _, found) => (length ans =? 0)%nat && negb found end.

  (* ---- feeding: AdditionalSectionForRecords (db/utils.go), one NS/MX target ----
     var wrs = Wrs{MaxAnswers: 1}; rows of the target visible to the client;
     want4/want6 = the section does not yet hold an A/AAAA of that name.
     Extra gets the AAAA record first, then the A record. *)
  Definition add_parse (want4 want6 : bool) (w : wrs) (r : row) : wrs :=
    if ((rq r =? TypeA) && want4) || ((rq r =? TypeAAAA) && want6) then add_row w r else w.

  Definition additional (want4 want6 : bool) (rows : list row) : list A * list A * bool :=
    if want4 || want6 then
      let w := fold_left (add_parse want4 want6) rows (wrs_new 1) in
      (recs_or_nil w TypeAAAA, recs_or_nil w TypeA, weighted w)
    else ([], [], false).

  (* HasRecord: some record of the message (answer, authority, additional) has
     this owner name and type.  msg lists (owner name, type) of the message. *)
  Definition has_record (msg : list (N * N)) (name q : N) : bool :=
    existsb (fun p => (fst p =? name) && (snd p =? q)) msg.

  (* AdditionalSectionForRecords over the NS/MX records of the answer and then
     of the authority section: targets in processing order (a target named by
     several records occurs several times) with the rows visible at the target;
     want4/want6 are recomputed from the message for every record, and what is
     appended to the additional section becomes part of the message.
     Result: the appended records (owner, type, payload), weighted, final message. *)
  Fixpoint additional_section (msg : list (N * N)) (targets : list (N * list row))
    : list (N * N * A) * bool * list (N * N) :=
    match targets with
    | [] => ([], false, msg)
    | (name, rows) :: t =>
        let want4 := negb (has_record msg name TypeA) in
        let want6 := negb (has_record msg name TypeAAAA) in
        match additional want4 want6 rows with
        | (r6, r4, wt) =>
            let e := map (fun a => (name, TypeAAAA, a)) r6 ++ map (fun a => (name, TypeA, a)) r4 in
            match additional_section (msg ++ map fst e) t with
            | (es, wt', m) => (e ++ es, wt || wt', m)
            end
        end
    end.

  (* every row handed to Wrs.Add, in order *)
  Definition feed (max : Z) (rows : list row) : wrs := fold_left add_row rows (wrs_new max).

  (* the items of one family among the rows, in order *)
  Definition fam_items (q : N) (rows : list row) : list item :=
    map (fun r => (rkey r, rpay r)) (filter (fun r => rq r =? q) rows).

  (* the per-family core used by the theorems: feeding one slot list *)
  Definition run (max : Z) (cs : list item) : list item := fold_left (add_items max) cs [].
End Wrs.

Arguments mkWrs {K A}.
Arguments max_answers {K A}.
Arguments v4 {K A}.
Arguments v6 {K A}.
Arguments v4count {K A}.
Arguments v6count {K A}.
Arguments wrs_new {K A}.
Arguments scan_min {K} klt {A}.
Arguments replace_nth {K A}.
Arguments add_record {K} klt {A}.
Arguments check_and_replace {K} klt {A}.
Arguments add_items {K} klt {A}.
Arguments add {K} klt {A}.
Arguments live {K} kpos {A}.
Arguments records {K} kpos {A}.
Arguments weighted {K A}.
Arguments mkRow {K A}.
Arguments rq {K A}.
Arguments rkey {K A}.
Arguments rpay {K A}.
Arguments mkF {K A}.
Arguments fw {K A}.
Arguments fans {K A}.
Arguments ffound {K A}.
Arguments add_row {K} klt {A}.
Arguments parse_result {K} klt {A}.
Arguments recs_or_nil {K} kpos {A}.
Arguments find_levels {K} klt kpos {A}.
Arguments find_answer {K} klt kpos {A}.
Arguments nxdomain {A}.
Arguments add_parse {K} klt {A}.
Arguments additional {K} klt kpos {A}.
Arguments has_record : simpl never.
Arguments additional_section {K} klt kpos {A}.
Arguments run {K} klt {A}.
Arguments feed {K} klt {A}.
Arguments fam_items {K A}.
Arguments is_addr : simpl never.

(* ---- key instances ---- *)

(* ranks: the order of the observed float64 keys; rank 0 <-> key == 0.0 *)
Definition rk_lt (a b : N) : bool := a <? b.
Definition rk_pos (a : N) : bool := 0 <? a.

(* exact keys: the draw u (Uint32, 0 <= u <= M = 2^32-1) and the weight w stand
   for the real number (u/M)^(1/w), with Go's conventions for the corners:
     w = 0: 1/w = +Inf, Pow(x, +Inf) = 0 for x < 1 and 1 for x = 1 (u = M:
            float64(M) * float64(1.0/M) is exactly 1.0, measured by the harness)
     u = 0: Pow(0, y) = 0 for every y > 0. *)
Definition dkey := (N * N)%type.

Definition dk_pos (k : dkey) : bool :=
  let (u, w) := k in if w =? 0 then u =? maxU32 else 0 <? u.

(* a weight-0 key is the constant 0 or 1: normalise it to weight 1 *)
Definition dk_norm (k : dkey) : dkey :=
  let (u, w) := k in if w =? 0 then (if u =? maxU32 then (maxU32, 1) else (0, 1)) else k.

(* (u1/M)^(1/w1) < (u2/M)^(1/w2)  <->  u1^w2 * M^w1 < u2^w1 * M^w2   (w1, w2 >= 1) *)
Definition dk_lt (a b : dkey) : bool :=
  let (u1, w1) := dk_norm a in
  let (u2, w2) := dk_norm b in
  if w1 =? w2 then u1 <? u2
  else u1 ^ w2 * maxU32 ^ w1 <? u2 ^ w1 * maxU32 ^ w2.
