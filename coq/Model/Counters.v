(* Model/Counters: the counter increments and logger calls of
   dnsserver.ServeDNSWithRCODE / writeAndLog (handler.go) as a function of an
   abstract description of what happened to the query, written after the Go
   statements in their order.  Also the counter map of metrics.Stats
   (IncrementCounter under vlock).  NO proofs inside. *)
From DnsV Require Import Base.Bytes.
Open Scope N_scope.

(* ---------- counter names *)
Inductive ckey :=
| KQueries            (* DNS_queries *)
| KReadError          (* DNS_db.read_error *)
| KDoBit              (* DNS_queries.edns0.do_bit *)
| KType (qtype : N)   (* DNS_query.<TYPE> *)
| KPackFail           (* DNS_error.pack_domain_fail *)
| KLocEcs | KLocEmpty | KLocDefault | KLocFallback | KLocResolver   (* DNS_location.* *)
| KCacheExpired | KCacheHit | KCacheMissed                          (* DNS_cache.* *)
| KErrIsAuth          (* DNS_error.is_authoritative *)
| KRespRefused        (* DNS_response.refused *)
| KRespNotAuth        (* DNS_response.not_authoritative *)
| KRespAuth           (* DNS_response.authoritative *)
| KNotAuthoritative   (* DNS_queries_notauthoritative *)
| KNxdomain           (* DNS_queries_nxdomain *)
| KRefused            (* DNS_queries_refused *)
| KBadvers            (* DNS_queries_badvers *)
| KNodata             (* DNS_queries_nodata *)
| KOther (id : N).    (* any other name (harness numbers them) *)

Definition key_eqb (a b : ckey) : bool :=
  match a, b with
  | KQueries, KQueries | KReadError, KReadError | KDoBit, KDoBit | KPackFail, KPackFail
  | KLocEcs, KLocEcs | KLocEmpty, KLocEmpty | KLocDefault, KLocDefault
  | KLocFallback, KLocFallback | KLocResolver, KLocResolver
  | KCacheExpired, KCacheExpired | KCacheHit, KCacheHit | KCacheMissed, KCacheMissed
  | KErrIsAuth, KErrIsAuth | KRespRefused, KRespRefused | KRespNotAuth, KRespNotAuth
  | KRespAuth, KRespAuth | KNotAuthoritative, KNotAuthoritative | KNxdomain, KNxdomain
  | KRefused, KRefused | KBadvers, KBadvers | KNodata, KNodata => true
  | KType x, KType y => x =? y
  | KOther x, KOther y => x =? y
  | _, _ => false
  end.

(* ---------- rcodes (miekg/dns) *)
Definition RcodeSuccess : N := 0.
Definition RcodeServerFailure : N := 2.
Definition RcodeNameError : N := 3.
Definition RcodeRefused : N := 5.
Definition RcodeBadVers : N := 16.
Definition TypeDS : N := 43.

(* ---------- what happened to one query (the response class) *)
Inductive loc_res :=
| LocErr                       (* FindLocation returned an error *)
| LocNil                       (* no error, nil location *)
| LocOk (mask id0 id1 : N).    (* loc.Mask, loc.LocID[0], loc.LocID[1] *)

Inductive cache_st :=
| CHit (rcode : N) (aa : bool)   (* unexpired entry: Rcode and Authoritative of the cached message *)
| CExpired
| CMiss.

Record qclass := mkQ {
  q_reader_ok : bool;      (* AcquireReader succeeded *)
  q_do : bool;             (* state.Do() *)
  q_qtype : N;             (* state.QType() *)
  q_edns_ok : bool;        (* edns.Version(r) returned no error *)
  q_pack_ok : bool;        (* dns.PackDomainName(state.Name()) succeeded *)
  q_loc : loc_res;
  q_cache_on : bool;       (* h.cacheConfig.Enabled *)
  q_cache : cache_st;      (* state of the LRU entry for this key *)
  q_isauth_err : bool;     (* first IsAuthoritative returned an error *)
  q_ns : bool;
  q_auth : bool;
  q_ds_err : bool;         (* second IsAuthoritative (DS at a delegation) returned an error *)
  q_ds_auth : bool;        (* its auth result *)
  q_nfound : N;            (* len(a.Answer) after FindAnswer *)
  q_record_found : bool;   (* recordFound *)
  q_unpack_ok : bool;      (* dns.UnpackDomainName(zoneCut) succeeded *)
  q_sent_answers : N;      (* len(resp.Answer) after SizeAndDo/Scrub, i.e. of the message given to WriteMsg *)
  q_write_err : bool       (* WriteMsg returned an error *)
}.

(* ---------- what the handler did *)
Inductive logcall :=
| LogSent         (* h.logger.Log(state, resp, ecs) with the message just written *)
| LogRequest      (* h.logger.Log(state, r, ecs) with the request *)
| LogFailedReq.   (* h.logger.LogFailed(state, r, ecs) *)

Inductive wr :=
| WrBare                                            (* dns.HandleFailed: bare SERVFAIL reply *)
| WrComposed (rcode : N) (aa : bool) (nans : N) (ok : bool).   (* WriteMsg of a composed response *)

Record outcome := mkO {
  o_incs : list ckey;      (* IncrementCounter calls in order *)
  o_logs : list logcall;
  o_writes : list wr;
  o_ret : N                (* returned rcode *)
}.

Definition out_app (a b : outcome) : outcome :=
  mkO (o_incs a ++ o_incs b) (o_logs a ++ o_logs b) (o_writes a ++ o_writes b) (o_ret b).
Definition incs (l : list ckey) : outcome := mkO l [] [] 0.

(* writeAndLog(state, resp, ecs) *)
Definition write_and_log (rcode : N) (aa : bool) (nans : N) (write_err : bool) : outcome :=
  (* rcode := resp.Rcode; SizeAndDo; Scrub; err := WriteMsg(resp) *)
  if write_err then mkO [] [] [WrComposed rcode aa nans false] RcodeServerFailure
  else
    mkO ((if negb aa then [KNotAuthoritative] else []) ++
         (if rcode =? RcodeNameError then [KNxdomain]
          else if rcode =? RcodeRefused then [KRefused]
          else if rcode =? RcodeBadVers then [KBadvers]
          else if (rcode =? RcodeSuccess) && (nans =? 0) then [KNodata]
          else []))
        [LogSent] [WrComposed rcode aa nans true] rcode.

Definition loc_counter (mask id0 id1 : N) : ckey :=
  if 0 <? mask then KLocEcs
  else if (id0 =? 0) && (id1 =? 0) then KLocEmpty
  else if (id0 =? 0) && (id1 =? 1) then KLocDefault
  else if (id0 =? 0) && (id1 =? 2) then KLocFallback
  else KLocResolver.

(* the part of ServeDNSWithRCODE after the cache lookup did not return *)
Definition serve_lookup (q : qclass) : outcome :=
  (* ns, auth, zoneCut, err := reader.IsAuthoritative(packedQName, loc) *)
  if q_isauth_err q then mkO [KErrIsAuth] [] [WrBare] RcodeServerFailure
  else if negb (q_ns q) && negb (q_auth q) then
    out_app (incs [KRespRefused]) (write_and_log RcodeRefused false (q_sent_answers q) (q_write_err q))
  else
    (* if !auth && qtype == DS: _, auth, zoneCut, err = IsAuthoritative(parent) *)
    let redo := negb (q_auth q) && (q_qtype q =? TypeDS) in
    if redo && q_ds_err q then mkO [KErrIsAuth] [] [WrBare] RcodeServerFailure
    else
      let auth := if redo then q_ds_auth q else q_auth q in
      let rcode := if auth && (q_nfound q =? 0) && negb (q_record_found q)
                   then RcodeNameError else RcodeSuccess in
      let c := if auth then KRespAuth else KRespNotAuth in
      if negb (q_unpack_ok q) then mkO [c] [LogRequest] [WrBare] RcodeServerFailure
      else out_app (incs [c]) (write_and_log rcode auth (q_sent_answers q) (q_write_err q)).

Definition serve (q : qclass) : outcome :=
  out_app (incs [KQueries])
  (if negb (q_reader_ok q) then mkO [KReadError] [] [] RcodeServerFailure
   else
   out_app (incs ((if q_do q then [KDoBit] else []) ++ [KType (q_qtype q)]))
   (if negb (q_edns_ok q) then
      (* a = edns.Version(r): SetReply, Rcode = BADVERS; AA is clear, no answers *)
      write_and_log RcodeBadVers false (q_sent_answers q) (q_write_err q)
    else if negb (q_pack_ok q) then mkO [KPackFail] [LogFailedReq] [WrBare] RcodeServerFailure
    else
    match q_loc q with
    | LocErr => mkO [] [LogFailedReq] [] RcodeServerFailure
    | LocNil => mkO [] [LogFailedReq] [] RcodeServerFailure
    | LocOk mask id0 id1 =>
      out_app (incs [loc_counter mask id0 id1])
      (if q_cache_on q then
         match q_cache q with
         | CExpired => out_app (incs [KCacheExpired]) (serve_lookup q)
         | CHit rc aa => out_app (incs [KCacheHit]) (write_and_log rc aa (q_sent_answers q) (q_write_err q))
         | CMiss => out_app (incs [KCacheMissed]) (serve_lookup q)
         end
       else serve_lookup q)
    end)).

(* ---------- metrics.Stats counters: map[string]int64 under vlock *)
Definition cmap := list (ckey * Z).

Fixpoint cget (k : ckey) (m : cmap) : Z :=
  match m with
  | [] => 0%Z
  | (k', v) :: m' => if key_eqb k k' then v else cget k m'
  end.

(* stats.values[key] += v  (the entry is created when absent) *)
Fixpoint cadd (k : ckey) (v : Z) (m : cmap) : cmap :=
  match m with
  | [] => [(k, v)]
  | (k', x) :: m' => if key_eqb k k' then (k', (x + v)%Z) :: m' else (k', x) :: cadd k v m'
  end.

(* operations of concurrent clients of one Stats object; each is atomic (vlock) *)
Inductive cop :=
| OpInc (k : ckey)            (* IncrementCounter(k) *)
| OpIncBy (k : ckey) (v : Z)  (* IncrementCounterBy(k, v) *)
| OpExport.                   (* Get(): snapshot of the map *)

Definition op_delta (k : ckey) (o : cop) : Z :=
  match o with
  | OpInc k' => if key_eqb k k' then 1%Z else 0%Z
  | OpIncBy k' v => if key_eqb k k' then v else 0%Z
  | OpExport => 0%Z
  end.

Definition cstep (m : cmap) (o : cop) : cmap :=
  match o with
  | OpInc k => cadd k 1 m
  | OpIncBy k v => cadd k v m
  | OpExport => m
  end.

(* runs a trace, collecting the snapshots taken by the exports *)
Fixpoint crun (m : cmap) (tr : list cop) : cmap * list cmap :=
  match tr with
  | [] => (m, [])
  | o :: tr' =>
      let m' := cstep m o in
      let (mf, snaps) := crun m' tr' in
      (mf, match o with OpExport => m :: snaps | _ => snaps end)
  end.

Fixpoint total (k : ckey) (tr : list cop) : Z :=
  match tr with [] => 0%Z | o :: tr' => (op_delta k o + total k tr')%Z end.

(* tr is an interleaving of the per-goroutine programs ths *)
Inductive interleaving : list (list cop) -> list cop -> Prop :=
| il_done : forall ths, Forall (fun p => p = []) ths -> interleaving ths []
| il_step : forall pre o p post tr,
    interleaving (pre ++ p :: post) tr ->
    interleaving (pre ++ (o :: p) :: post) (o :: tr).
