(* Accum: the CONCRETE accumulator of the data-file codec (dnsdata/data.go Accum.update,
   Accum.MarshalMap, marshalPrefixSets; dnsdata/subnetranger.go SubnetRanger.addSubnet /
   MarshalMap) as the two compilers configure it:

     cdb.CreateCDB                   new(Codec): NoPrefixSets = false, Ranger disabled, NoRnetOutput = false
                                     -> three prefix-set records  \000/  \0004  \0006 ; the % lines themselves
                                        emit their \000% records (Model/Text.convert with nornet = false)
     rdb_compiler.go initCodec       Ranger.Enable(), NoPrefixSets = true, NoRnetOutput = true
                                     -> for every map that has a subnet line, the range-point records
                                        \000\000\000! map ip16 mlen -> location of Rearranger.Rearrange

   The subnet lines are translated into the vocabulary of the C03 model (Model/Location.v netline,
   Base/Ip.v subnet): map id and location id as pairs of bytes, the 16-byte address as a number, the
   prefix length in 128-bit terms (what Rnet.UnmarshalText stores).  SubnetRanger keeps one Rearranger
   per map (Go map: iteration order unspecified, one goroutine per map) - here the maps are taken in
   the order of their last subnet line (dedup_ids); C07's streams are closed under permutation.
   sort.Slice stays abstract (parameter sort).

   What the real code does and this model does not: Accum.update fails (ErrInvalidLocation) for a
   subnet line whose location is not two bytes when the Ranger is enabled, and Rearrange panics on
   some subnet sets outside C03's wf_subnets - then the RocksDB compilation fails and there is no
   database; the theorems about this accumulator carry the corresponding guards.
   No proofs in this file. *)
From DnsV Require Import Base.Bytes Base.Ip Model.Text Model.Rearranger Model.Location.
Open Scope N_scope.

(* 16 bytes, big endian *)
Definition addr_of (ip : bytes) : N := fold_left (fun acc b => acc * 256 + b) ip 0.

(* the subnet lines of a file, in file order: Accum.update sees exactly the Rnet records *)
Definition netline_of (r : Text.record) : list netline :=
  match r with
  | RNet lo ip ones lmap => [mkNetline (two_bytes lmap) (mkSubnet (addr_of ip) ones (two_bytes lo))]
  | _ => []
  end.
Definition netlines (rs : list Text.record) : list netline := flat_map netline_of rs.
Definition net_dfile (rs : list Text.record) : dfile := mkDfile [] (netlines rs).

(* the declared subnets of map m, and the maps that have a Rearranger *)
Definition file_nets (rs : list Text.record) (m : mapid) : list subnet := nets_of (net_dfile rs) m.
Definition ranger_ids (rs : list Text.record) : list mapid := dedup_ids (map nl_map (netlines rs)).

(* Accum.marshalPrefixSets *)
Definition prefix_recs (F : dfile) : list kv :=
  [([0; 47], prefix_set (fun _ => true) F);
   ([0; 52], prefix_set (fun s => is_v4 (s_addr s)) F);
   ([0; 54], prefix_set (fun s => negb (is_v4 (s_addr s))) F)].

Section Ranger.
  Variable sort : list point -> list point.

  (* SubnetRanger.MarshalMap: Rrangepoint.MarshalMap of every point of every map; Err = Rearrange panicked *)
  Fixpoint range_recs (nets : mapid -> list subnet) (ids : list mapid) : result (list kv) :=
    match ids with
    | [] => Ok []
    | m :: ids' =>
        rbind (rearrange sort (nets m)) (fun pts =>
        rbind (range_recs nets ids') (fun r => Ok (map (fun p => (rp_key m p, rp_value p)) pts ++ r)))
    end.

  (* Accum.MarshalMap: vm := marshalPrefixSets(); vm = append(vm, Ranger.MarshalMap()...) *)
  Definition accum_of (noprefixsets ranger : bool) (rs : list Text.record) : result (list kv) :=
    rbind (if ranger then range_recs (file_nets rs) (ranger_ids rs) else Ok []) (fun rp =>
    Ok ((if noprefixsets then [] else prefix_recs (net_dfile rs)) ++ rp)).
End Ranger.

(* the parsed lines of a file (lines that do not parse contribute nothing; the compilers reject such a file) *)
Definition parsed_lines (o : toracles) (serial : N) (f : list bytes) : list Text.record :=
  flat_map (fun l => match parse_line o serial l with Ok r => [r] | Err _ => [] end) f.

(* the accumulator as C07's parameter [accum : list line -> list kv], for the two configurations *)
Definition accum_cdb (o : toracles) (serial : N) (f : list bytes) : list kv :=
  prefix_recs (net_dfile (parsed_lines o serial f)).
Definition accum_rdb (sort : list point -> list point) (o : toracles) (serial : N) (f : list bytes) : list kv :=
  match accum_of sort true true (parsed_lines o serial f) with Ok a => a | Err _ => [] end.
