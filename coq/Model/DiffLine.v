(* DiffLine: the decidable reading of one diff line, as the scanner loop of
   Model/Diff.v (collect) treats it: an empty line and a comment are skipped, a
   '+' (43) or '-' (45) line goes on iff the codec accepts its argument, anything
   else ends ApplyDiff with an error.  Used by Run/C08.v to evaluate the
   hypothesis of C08_failing_line_anywhere_is_noop on the offending line of a
   huge diff whose other lines are not part of the case.  No proofs here. *)
From DnsV Require Export Model.Diff.
Open Scope N_scope.

Definition line_okb (conv : bytes -> result (list kv)) (l : bytes) : bool :=
  match l with
  | [] => true
  | c :: arg =>
      (c =? 35) ||
      (((c =? 43) || (c =? 45)) && match conv arg with Ok _ => true | Err _ => false end)
  end.

(* the records a '-' line asks to delete ([] for any other line) *)
Definition line_dels (conv : bytes -> result (list kv)) (l : bytes) : list kv :=
  match l with
  | c :: arg => if c =? 45 then match conv arg with Ok x => x | Err _ => [] end else []
  | [] => []
  end.
