(* LookupV1: vocabulary shared by both readers (checked slicing, names, row decoding,
   callbacks with Go's recover semantics, weighted candidates, message items) and the
   label-by-label reader of db/answer.go, db/ns.go, db/utils.go, db/db.go over v1 keys
   (loc2 ++ packed name) - used by the CDB driver and by RocksDB with v1 keys.
   No proofs in this file.

   Faithfulness notes.
   * Every Go index / slice expression on the path is a checked accessor; [Panic] is a
     Go run-time panic.  A Go slice expression s[a:b] is legal up to cap(s); the model
     treats b > len(s) as a panic.  The two differ only on rows shorter than their own
     header, which no compiler output contains (wf_store in the theorems).
   * recover() sites: cdbdriver.ForEach and rdb.ForEach turn a panic inside the callback
     into a returned error (state changes made by the callback before the panic stay).
     cdbdriver.ForEach shadows err inside its loop: an error returned by the callback
     stops the iteration but is NOT returned; rdb.ForEach returns it.
   * rdata is carried as bytes.  dns.UnpackRRWithHeader followed by re-packing without
     compression is the identity on rdata that is valid for its type; rows whose rdata
     does not unpack for their type are outside the model (never generated; assumption
     [rdata valid] of the correspondence).  Names inside NS/MX rdata ARE parsed, because
     the additional-section lookup needs them.
   * Weighted selection (db/wrs.go) is not a draw here: an [IPick] item carries the
     candidate list and the number served, min(max, #weight>0) (property C11 owns the draw). *)
From DnsV Require Import Base.Bytes Model.Store.
Open Scope N_scope.

(* ---------------------------------------------------------------- results *)
Inductive res (A : Type) : Type := Val (a : A) | Panic | OutOfFuel.
Arguments Val {A} _.
Arguments Panic {A}.
Arguments OutOfFuel {A}.

Definition bind {A B} (r : res A) (f : A -> res B) : res B :=
  match r with Val a => f a | Panic => Panic | OutOfFuel => OutOfFuel end.
Notation "x <- c1 ;; c2" := (bind c1 (fun x => c2))
  (at level 61, c1 at next level, right associativity).
Notation "' pat <- c1 ;; c2" := (bind c1 (fun x => match x with pat => c2 end))
  (at level 61, pat pattern, c1 at next level, right associativity).

(* ---------------------------------------------------------------- Go slices *)
Definition b8 (n : N) : N := n mod 256.            (* arithmetic in Go type byte *)

Definition idx (l : bytes) (i : N) : res N :=
  match nth_error l (N.to_nat i) with Some x => Val x | None => Panic end.
(* l[a:] *)
Definition slice_from (l : bytes) (a : N) : res bytes :=
  if a <=? nlen l then Val (skipn (N.to_nat a) l) else Panic.
(* l[a:b] *)
Definition slice (l : bytes) (a b : N) : res bytes :=
  if (a <=? b) && (b <=? nlen l) then Val (firstn (N.to_nat (b - a)) (skipn (N.to_nat a) l)) else Panic.
(* l[:b] *)
Definition slice_to (l : bytes) (b : N) : res bytes := slice l 0 b.

(* ---------------------------------------------------------------- names *)
Definition lower (b : N) : N := if (65 <=? b) && (b <=? 90) then b + 32 else b.
Definition lower_bytes (l : bytes) : bytes := map lower l.

Definition wildsafe_char (c : N) : bool :=
  ((97 <=? c) && (c <=? 122)) || ((48 <=? c) && (c <=? 57)) || (c =? 45) || (c =? 95).
Definition wildsafe (l : bytes) : bool := forallb wildsafe_char l.

(* an uncompressed wire name at the head of l: (name including the final 0, rest).
   dns.UnpackDomainName: labels 1..63, at most 255 octets; pointers are not modelled *)
Fixpoint parse_name_fuel (fuel : nat) (l acc : bytes) : option (bytes * bytes) :=
  match fuel with
  | O => None
  | S f =>
      match l with
      | [] => None
      | c :: t =>
          if c =? 0 then Some (acc ++ [0], t)
          else if 64 <=? c then None
          else if nlen t <? c then None
          else parse_name_fuel f (skipn (N.to_nat c) t) (acc ++ c :: firstn (N.to_nat c) t)
      end
  end.
Definition parse_name (l : bytes) : option (bytes * bytes) :=
  match parse_name_fuel (S (length l)) l [] with
  | Some (n, r) => if nlen n <=? 255 then Some (n, r) else None
  | None => None
  end.
Definition valid_name (l : bytes) : bool :=
  match parse_name l with Some (_, []) => true | _ => false end.

(* ---------------------------------------------------------------- rows *)
Record rrhead := mkHead { h_type : N; h_ttl : N; h_weight : N; h_off : N }.

(* db.ExtractRRFromRow: type(2) ch [loc(2) if ch is '>' or '+'] ttl(4) ttd(8) [weight(4) for A/AAAA].
   None = wildcard mismatch.  42 '*'  43 '+'  61 '='  62 '>' *)
Definition extract_rr (row : bytes) (wild : bool) : res (option rrhead) :=
  t <- slice row 0 2 ;;
  ch <- idx row 2 ;;
  let ty := match t with [a; b] => a * 256 + b | _ => 0 end in
  if negb (Bool.eqb wild ((ch =? 42) || (ch =? 43))) then Val None
  else
    let dpos := if (ch =? 62) || (ch =? 43) then 5 else 3 in
    tt <- slice row dpos (dpos + 4) ;;
    let ttl := match rd_u32be tt with Some x => x | None => 0 end in
    let dpos := dpos + 12 in
    if (ty =? 1) || (ty =? 28) then
      w <- slice row dpos (dpos + 4) ;;
      Val (Some (mkHead ty ttl (match rd_u32be w with Some x => x | None => 0 end) (dpos + 4)))
    else Val (Some (mkHead ty ttl 0 dpos)).

(* ---------------------------------------------------------------- callbacks *)
Inductive cbstat := Cont | StopErr | Panicked.
Definition cb (S : Type) := S -> row -> S * cbstat.

Fixpoint iter_rows {S} (f : cb S) (rows : list row) (s : S) : S * cbstat :=
  match rows with
  | [] => (s, Cont)
  | r :: t => let '(s', st) := f s r in
              match st with Cont => iter_rows f t s' | _ => (s', st) end
  end.

Inductive backend := CDB | RDB1 | RDB2.

(* does ForEach return a non-nil error *)
Definition for_each_err (b : backend) (st : cbstat) : bool :=
  match st with
  | Cont => false
  | Panicked => true
  | StopErr => match b with CDB => false | _ => true end
  end.

(* ---------------------------------------------------------------- messages *)
Record rr := mkRR { rr_owner : bytes; rr_type : N; rr_class : N; rr_ttl : N; rr_rdata : bytes }.
Definition cand := (N * N * bytes)%type.           (* ttl, weight, address *)
Inductive item :=
| IRR (r : rr)
| IPick (owner : bytes) (ty cls : N) (cands : list cand) (n : N).  (* n > 0 of the candidates with weight > 0 *)

Record wrs := mkWrs { w4 : list cand; w6 : list cand }.
Definition wrs_empty := mkWrs [] [].

(* Wrs.Add: Addr = data[rec.Offset:] *)
Definition wrs_add (h : rrhead) (r : row) (w : wrs) : res wrs :=
  a <- slice_from r (h_off h) ;;
  if h_type h =? 1 then Val (mkWrs (w4 w ++ [(h_ttl h, h_weight h, a)]) (w6 w))
  else if h_type h =? 28 then Val (mkWrs (w4 w) (w6 w ++ [(h_ttl h, h_weight h, a)]))
  else Val w.

Definition npos (c : list cand) : N := nlen (filter (fun x => 0 <? snd (fst x)) c).
Definition npick (max : N) (c : list cand) : N := N.min max (npos c).
(* Wrs.ARecord / AAAARecord *)
Definition wrs_items (owner : bytes) (cls max ty : N) (c : list cand) : list item :=
  if npick max c =? 0 then [] else [IPick owner ty cls c (npick max c)].

Definition item_is (name : bytes) (ty : N) (i : item) : bool :=
  match i with
  | IRR r => (rr_type r =? ty) && bytes_eqb (rr_owner r) name
  | IPick o t _ _ _ => (t =? ty) && bytes_eqb o name
  end.

Record msg := mkMsg { m_an : list item; m_ns : list item; m_ex : list item }.
(* db.HasRecord: exact (case-sensitive) owner comparison over the three sections *)
Definition has_record (m : msg) (name : bytes) (ty : N) : bool :=
  existsb (item_is name ty) (m_an m) || existsb (item_is name ty) (m_ns m) || existsb (item_is name ty) (m_ex m).

Definition loc0 : bytes := [0; 0].
Definition is_loc0 (l : bytes) : bool := bytes_eqb l loc0.

(* ---------------------------------------------------------------- callbacks of the lookups *)
Definition auth_cb : cb (bool * bool) := fun s r =>
  let '(ns, auth) := s in
  match extract_rr r false with
  | Val None => (s, Cont)
  | Val (Some h) =>
      (if h_type h =? 6 then (ns, true) else if h_type h =? 2 then (true, auth) else s, Cont)
  | _ => (s, Panicked)
  end.

Record authres := mkAuth { a_ns : bool; a_auth : bool; a_zc : bytes; a_err : bool }.

Definition fa_state := (wrs * list item * bool)%type.   (* wrs, answer so far, recordFound *)
Definition fa_cb (qname : bytes) (qtype : N) (wild : bool) : cb fa_state := fun s r =>
  let '(w, an, found) := s in
  match extract_rr r wild with
  | Val None => (s, Cont)
  | Val (Some h) =>
      if (h_type h =? 5) || (h_type h =? qtype) || (qtype =? 255) then
        if (h_type h =? 1) || (h_type h =? 28) then
          match wrs_add h r w with
          | Val w' => ((w', an, true), Cont)
          | _ => ((w, an, true), Panicked)
          end
        else
          match slice_from r (h_off h) with
          | Val rd => ((w, an ++ [IRR (mkRR qname (h_type h) 1 (h_ttl h) rd)], true), Cont)
          | _ => ((w, an, true), Panicked)
          end
      else ((w, an, true), Cont)
  | _ => (s, Panicked)
  end.

Definition fa_finish (qname : bytes) (max : N) (s : fa_state) : list item * bool :=
  let '(w, an, found) := s in
  (an ++ wrs_items qname 1 max 1 (w4 w) ++ wrs_items qname 1 max 28 (w6 w), found).

Definition soa_cb (zname : bytes) : cb (bool * list item) := fun s r =>
  let '(soa, acc) := s in
  match extract_rr r false with
  | Val None => (s, Cont)
  | Val (Some h) =>
      if negb soa && (h_type h =? 6) then
        match slice_from r (h_off h) with
        | Val rd => ((true, acc ++ [IRR (mkRR zname 6 1 (h_ttl h) rd)]), Cont)
        | _ => ((true, acc), Panicked)
        end
      else (s, Cont)
  | _ => (s, Panicked)
  end.

(* db.GetNs: dns.UnpackDomainName(result, rec.Offset) - an offset at or past the end is an error, not a panic *)
Definition ns_cb (zname : bytes) (cls : N) : cb (list item) := fun acc r =>
  match extract_rr r false with
  | Val None => (acc, Cont)
  | Val (Some h) =>
      if h_type h =? 2 then
        match parse_name (skipn (N.to_nat (h_off h)) r) with
        | Some (nm, _) => (acc ++ [IRR (mkRR zname 2 cls (h_ttl h) nm)], Cont)
        | None => (acc, StopErr)
        end
      else (acc, Cont)
  | _ => (acc, Panicked)
  end.

Definition add_cb (want4 want6 : bool) : cb wrs := fun w r =>
  match extract_rr r false with
  | Val None => (w, Cont)
  | Val (Some h) =>
      if ((h_type h =? 1) && want4) || ((h_type h =? 28) && want6) then
        match wrs_add h r w with Val w' => (w', Cont) | _ => (w, Panicked) end
      else (w, Cont)
  | _ => (w, Panicked)
  end.

(* ---------------------------------------------------------------- the v1 reader *)
Section V1.
Variable b : backend.
Variable st : store.

Definition for_each_v1 {S} (key : bytes) (f : cb S) (s : S) : S * bool :=
  let '(s', stt) := iter_rows f (get st key) s in (s', for_each_err b stt).

(* DataReader.ForEachResourceRecord *)
Definition for_each_rr_v1 {S} (name loc : bytes) (f : cb S) (s : S) : S * bool :=
  let '(s1, e1) := if is_loc0 loc then (s, false) else for_each_v1 (loc ++ name) f s in
  if e1 then (s1, true) else for_each_v1 (loc0 ++ name) f s1.

(* DataReader.IsAuthoritative; ns/auth are NOT reset between labels *)
Fixpoint is_auth_v1 (fuel : nat) (zc loc : bytes) (ns auth : bool) : res authres :=
  match fuel with
  | O => OutOfFuel
  | S f =>
      let '((ns1, auth1), e1) :=
        if is_loc0 loc then ((ns, auth), false) else for_each_v1 (loc ++ zc) auth_cb (ns, auth) in
      if e1 then Val (mkAuth false false zc true) else
      let '((ns2, auth2), e2) :=
        if auth1 && ns1 then ((ns1, auth1), false) else for_each_v1 (loc0 ++ zc) auth_cb (ns1, auth1) in
      if e2 then Val (mkAuth false false zc true) else
      if ns2 then Val (mkAuth ns2 auth2 zc false) else
      z0 <- idx zc 0 ;;
      if z0 =? 0 then Val (mkAuth ns2 auth2 zc false) else
      zc' <- slice_from zc (b8 (1 + z0)) ;;
      is_auth_v1 f zc' loc ns2 auth2
  end.
Definition is_authoritative_v1 (q loc : bytes) : res authres :=
  is_auth_v1 (S (length q)) q loc false false.

(* DataReader.FindAnswer *)
Fixpoint find_ans_v1 (fuel : nat) (q ctrl qname : bytes) (qtype : N) (loc : bytes) (wild : bool)
         (s : fa_state) : res fa_state :=
  match fuel with
  | O => OutOfFuel
  | S f =>
      let s1 := if is_loc0 loc then s else fst (for_each_v1 (loc ++ q) (fa_cb qname qtype wild) s) in
      let s2 := fst (for_each_v1 (loc0 ++ q) (fa_cb qname qtype wild) s1) in
      if snd s2 then Val s2 else
      if bytes_eqb q ctrl then Val s2 else
      q0 <- idx q 0 ;;
      if q0 =? 0 then Val s2 else
      lab <- slice q 1 (b8 (q0 + 1)) ;;
      if negb (wildsafe lab) then Val s2 else
      q' <- slice_from q (b8 (q0 + 1)) ;;
      find_ans_v1 f q' ctrl qname qtype loc true s2
  end.
Definition find_answer_v1 (q ctrl qname : bytes) (qtype : N) (loc : bytes) (max : N)
  : res (list item * bool) :=
  s <- find_ans_v1 (S (length q)) q ctrl qname qtype loc false (wrs_empty, [], false) ;;
  Val (fa_finish qname max s).
End V1.
