(* Diff: dnsdata/rdb/applydiff.go  RDB.ApplyDiff (method)  with dbdiff/entry.go
   ParseBytes / Convert and  Batch.ApplyDiff (method), parametric in the codec like
   Model/Compile.v:  conv  is Codec.ConvertLn on the argument of a diff line (the line
   without its first byte), for the serial and the key layout of the database.

   The scanner loop: an empty line or a line starting with '#' is skipped; the first
   byte must be '+' (43) or '-' (45), else ErrBadOp; the rest is converted, a
   conversion error ends ApplyDiff; every record of a '+' line goes to Batch.Add,
   every record of a '-' line to Batch.Del; after the last line ONE ExecuteBatch.
   Nothing is written before ExecuteBatch, and ExecuteBatch writes nothing when it
   fails (Model/Batch.v), so a failing diff leaves the store as it was:
   apply_diff_effect.

   Not modelled: a '+' or '-' line without argument makes ConvertLn read text[:1] of a
   zero-length slice that still has capacity (the scanner's buffer), i.e. a byte that
   is not part of the line; conv is applied to the empty argument instead.

   Error enum: 20 conversion error (E_CONV), 22 ErrBadOp; the rest as Model/Batch.v. *)
From DnsV Require Export Model.Compile.
Open Scope N_scope.

Definition E_BADOP : N := 22.

Section Diff.
  Variable conv : bytes -> result (list kv).
  Variable sort : list kv -> list kv.

  (* the for scanner.Scan() loop: batch.addedPairs / batch.deletedPairs so far *)
  Fixpoint collect (lines : list bytes) (adds dels : list kv) : result (list kv * list kv) :=
    match lines with
    | [] => Ok (adds, dels)
    | [] :: r => collect r adds dels                                   (* len(line) < 1 *)
    | (c :: arg) :: r =>
        if c =? 35 then collect r adds dels                             (* comment *)
        else if c =? 43 then
          match conv arg with
          | Err _ => Err E_CONV
          | Ok recs => collect r (adds ++ recs) dels
          end
        else if c =? 45 then
          match conv arg with
          | Err _ => Err E_CONV
          | Ok recs => collect r adds (dels ++ recs)
          end
        else Err E_BADOP
    end.

  (* func (rdb *RDB) ApplyDiff(r io.Reader, serial uint32) error *)
  Definition apply_diff (db : store) (lines : list bytes) : result store :=
    match collect lines [] [] with
    | Err e => Err e
    | Ok (adds, dels) => execute_batch sort db adds dels
    end.

  (* the database afterwards and the error class (0 = nil) *)
  Definition apply_diff_effect (db : store) (lines : list bytes) : store * N :=
    match apply_diff db lines with
    | Ok db' => (db', 0)
    | Err e => (db, e)
    end.

  (* successive diffs; stops at the first failure *)
  Fixpoint apply_chain (db : store) (ds : list (list bytes)) : result store :=
    match ds with
    | [] => Ok db
    | d :: r => match apply_diff db d with Err e => Err e | Ok db' => apply_chain db' r end
    end.
End Diff.
