(* Store: a compiled database as the readers see it - a list of (key, rows).
   CDB: rows of a key in insertion order (FindStart/FindNext); RocksDB: the chunks
   of the multi-value stored under the key, in stored order.  [get] of an absent key
   is the empty list (CDB: immediate EOF; RocksDB: empty value, ReadNextChunk = EOF).
   [seek_prev] is RocksDB SeekForPrev: the greatest key <= probe in bytewise order.
   No proofs in this file.  Not modelled below this interface: RocksDB, the CDB mmap. *)
From DnsV Require Import Base.Bytes.
Open Scope N_scope.

Definition row := bytes.
Definition store := list (bytes * list row).

Fixpoint get (s : store) (k : bytes) : list row :=
  match s with
  | [] => []
  | (k', v) :: t => if bytes_eqb k' k then v else get t k
  end.

Fixpoint has_key (s : store) (k : bytes) : bool :=
  match s with
  | [] => false
  | (k', _) :: t => bytes_eqb k' k || has_key t k
  end.

(* does not rely on the list being sorted: keeps the greatest candidate seen *)
Fixpoint seek_prev_from (best : option (bytes * list row)) (s : store) (probe : bytes)
  : option (bytes * list row) :=
  match s with
  | [] => best
  | (k, v) :: t =>
      if bleb k probe then
        match best with
        | None => seek_prev_from (Some (k, v)) t probe
        | Some (bk, _) => if bltb bk k then seek_prev_from (Some (k, v)) t probe
                          else seek_prev_from best t probe
        end
      else seek_prev_from best t probe
  end.
Definition seek_prev (s : store) (probe : bytes) := seek_prev_from None s probe.

(* strictly ascending keys: what the harness hands over (and what RocksDB holds) *)
Fixpoint sorted_keys (s : store) : bool :=
  match s with
  | [] => true
  | (k, _) :: t => match t with [] => true | (k', _) :: _ => bltb k k' && sorted_keys t end
  end.
