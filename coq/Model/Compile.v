(* Compile: the three compilers of a data file, written after the Go sources and
   PARAMETRIC IN THE CODEC.
     dnsdata/parser.go          ParseStream / parse  (worker pool, accumulator and feature record last)
     dnsdata/rdb/rdb_compiler.go compileBuilder, compileBatches
     dnsdata/rdb/rdb_builder.go  sortDataset, createBuckets, saveBuckets, ingestFiles
     dnsdata/cdb/cdb.go          CreateCDBFromReader

   The codec enters as Section variables:
     conv    : line -> result (list kv)     Codec.ConvertLn on one line (a function of the line for a
                                             fixed serial and key layout)
     accum   : list line -> list kv         Codec.Acc.MarshalMap after the lines went through DecodeLn
                                             in the given order
     feature : list kv                      Codec.Features.MarshalMap
   A file is the list of lines the scanner of parse() hands to the workers (lines shorter than two
   bytes and comment lines are dropped there, before any of the modelled code).

   Schedules.  With n workers the per-line record lists reach the consumer whole (one channel send per
   line) but in any order, the accumulator sees the lines in any order and marshals its maps in any
   order: is_stream.  sort.Slice is any sorted permutation (parameter sort).  The batch goroutines
   take rdb.writeMutex in any order: the parameter  order  of run_batches.  BatchNumParallel only
   bounds how many batches wait and has no influence on the result (a value <= 0 means no bound).

   Below this model (trusted): RocksDB SstFileWriter / IngestExternalFile with key-disjoint files,
   WriteBatch, Get / GetMulti, the CDB writer (C16).

   Error enum, in addition to Model/MultiValue.v:
     20 a line was rejected by the codec    21 saveBuckets: bucket is empty
   No proofs here. *)
From DnsV Require Export Model.Batch.
From Coq Require Export Permutation.
Open Scope N_scope.

Definition E_CONV : N := 20.
Definition E_EMPTY_BUCKET : N := 21.

(* what a reader gets for key k: the values ForEach hands out *)
Definition vals (s : store) (k : bytes) : list bytes := fst (rdb_for_each s k).

(* ---------------------------------------------------------------- createBuckets *)

Definition key_at (keys : list bytes) (i : N) : option bytes := nth_error keys (N.to_nat i).

(* for ; bucketEnd < len(b.values); bucketEnd++ { if !Equal(key[bucketEnd], key[bucketEnd-1]) { break } } *)
Fixpoint scan_end (fuel : nat) (keys : list bytes) (len e : N) : result N :=
  match fuel with
  | O => Err E_FUEL
  | S f =>
      if e <? len then
        if e =? 0 then Err E_PANIC                       (* b.values[-1] *)
        else match key_at keys e, key_at keys (e - 1) with
             | Some a, Some b => if bytes_eqb a b then scan_end f keys len (e + 1) else Ok e
             | _, _ => Err E_PANIC
             end
      else Ok e
  end.

(* for i := 0; i < maxBucketNum; i++ : rem = maxBucketNum - i iterations are left *)
Fixpoint buckets_loop (rem : nat) (keys : list bytes) (len size start : N) : result (list (N * N)) :=
  match rem with
  | O => Ok []
  | S rem' =>
      let e_r := match rem' with
                 | O => Ok len                                                      (* i+1 == maxBucketNum *)
                 | S _ => scan_end (S (length keys)) keys len (N.min (start + size) len)
                 end in
      match e_r with
      | Err x => Err x
      | Ok e =>
          if e =? len then Ok [(start, e)]                                           (* break *)
          else match buckets_loop rem' keys len size e with
               | Err x => Err x
               | Ok bs => Ok ((start, e) :: bs)
               end
      end
  end.

(* func (b *Builder) createBuckets(minBucketSize, maxBucketNum int): offsets into the sorted array *)
Definition create_buckets (min_size : N) (nb : nat) (keys : list bytes) : result (list (N * N)) :=
  match nb with
  | O => Err E_PANIC                                                                (* integer divide by zero *)
  | _ => let len := nlen keys in
         buckets_loop nb keys len (N.max min_size (len / N.of_nat nb)) 0
  end.

(* ---------------------------------------------------------------- saveBuckets, ingestFiles *)

(* the loop over bucketItems after the first item: pk = prevKey, acc = accumulator *)
Fixpoint save_loop (items : list kv) (pk acc : bytes) : list (bytes * bytes) :=
  match items with
  | [] => [(pk, acc)]                                                               (* flush *)
  | (k, v) :: r =>
      if bytes_eqb k pk then save_loop r pk (append_values acc [v])
      else (pk, acc) :: save_loop r k (append_values [] [v])
  end.

Definition save_bucket (items : list kv) : result (list (bytes * bytes)) :=
  match items with
  | [] => Err E_EMPTY_BUCKET                                                        (* Assertion failed: bucket is empty *)
  | (k, v) :: r => Ok (save_loop r k (append_values [] [v]))
  end.

Fixpoint save_all (sorted : list kv) (bks : list (N * N)) : result (list (list (bytes * bytes))) :=
  match bks with
  | [] => Ok []
  | (s, e) :: r =>
      match save_bucket (slice sorted s e) with
      | Err x => Err x
      | Ok f => match save_all sorted r with Err x => Err x | Ok fs => Ok (f :: fs) end
      end
  end.

Definition put_all (s : store) (f : list (bytes * bytes)) : store :=
  fold_left (fun s' p => put s' (fst p) (snd p)) f s.
Definition ingest (s : store) (files : list (list (bytes * bytes))) : store := fold_left put_all files s.

Section WithSort.
  Variable sort : list kv -> list kv.

  (* func (b *Builder) Execute() on the scheduled records *)
  Definition build (min_size : N) (nb : nat) (stream : list kv) : result store :=
    let sorted := sort stream in
    match create_buckets min_size nb (map fst sorted) with
    | Err e => Err e
    | Ok bks =>
        match save_all sorted bks with
        | Err e => Err e
        | Ok files => Ok (ingest empty_store files)
        end
    end.

  (* the ExecuteBatch calls of compileBatches in the order they got the write mutex *)
  Fixpoint run_batches (s : store) (order : list (list kv)) : result store :=
    match order with
    | [] => Ok s
    | b :: r => match execute_batch sort s b [] with
                | Err e => Err e
                | Ok s' => run_batches s' r
                end
    end.
End WithSort.

(* the store function of compileBatches: counter == batchSize closes a batch *)
Fixpoint cut (bs : N) (l cur : list kv) (counter : N) : list (list kv) * list kv :=
  match l with
  | [] => ([], cur)
  | x :: r =>
      let cur' := cur ++ [x] in
      if counter + 1 =? bs then let '(full, last) := cut bs r [] 0 in (cur' :: full, last)
      else cut bs r cur' (counter + 1)
  end.

(* if batchSize <= 0 { batchSize = DefaultBatchSize } *)
Definition eff_bs (bs : Z) : N := if (bs <=? 0)%Z then 100000 else Z.to_N bs.

(* all batches of one compilation: the full ones and the final flush if it is not empty *)
Definition batches (bs : Z) (stream : list kv) : list (list kv) :=
  let '(full, last) := cut (eff_bs bs) stream [] 0 in
  match last with [] => full | _ => full ++ [last] end.

(* ---------------------------------------------------------------- the codec and the three compilers *)

Section Codec.
  Variable line : Type.
  Variable conv : line -> result (list kv).
  Variable accum : list line -> list kv.
  Variable feature : list kv.

  Definition accepts (l : line) : bool := match conv l with Ok _ => true | Err _ => false end.
  Definition accepted (f : list line) : bool := forallb accepts f.
  Definition recs_of (l : line) : list kv := match conv l with Ok x => x | Err _ => [] end.

  (* what the line-by-line codec emits for the file *)
  Definition records (f : list line) : list kv := flat_map recs_of f ++ accum f ++ feature.
  (* the property's right-hand side: key -> values *)
  Definition spec_compile (f : list line) : bytes -> list bytes := fun k => vals_of k (records f).

  (* a record stream ParseStream can deliver for f *)
  Definition is_stream (f : list line) (s : list kv) : Prop :=
    exists p1 p2 a, Permutation p1 f /\ Permutation p2 f /\ Permutation a (accum p1) /\
                    s = flat_map recs_of p2 ++ a ++ feature.

  Variable sort : list kv -> list kv.

  (* compileBuilder: a rejected line makes ParseStream, hence the compilation, fail *)
  Definition compile_builder (min_size : N) (nb : nat) (f : list line) (stream : list kv) : result store :=
    if accepted f then build sort min_size nb stream else Err E_CONV.

  (* compileBatches *)
  Definition compile_batches (f : list line) (order : list (list kv)) : result store :=
    if accepted f then run_batches sort empty_store order else Err E_CONV.

  (* CreateCDBFromReader: the Put sequence; the file read back gives, for a key, its values in
     this order (C16) *)
  Definition compile_cdb (f : list line) (stream : list kv) : result (list kv) :=
    if accepted f then Ok stream else Err E_CONV.
End Codec.
