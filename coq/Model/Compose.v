(* Model/Compose: the three separately modelled layers of the server put on top of each other,
   WITHOUT changing any of them:

     Model/Chain.v   front handlers of a listener, parametric in the database handler [serve]
     Model/Cache.v   the response cache of dnsserver/handler.go, parametric in [serve_core]
     Model/Serve.v   the database handler without cache, over a store

   Definitions only, each a thin wrapper (adapters between the vocabularies of the three models);
   lemmas about them are in Proofs/Compose.v and Proofs/ComposeChain.v.

   Which projection is used where the types do not line up:

   * Cache.request (q_from, q_asked, q_qtype, q_qclass, q_extra) versus Serve.query (q_id, q_name,
     q_type, q_class, q_edns) + the two oracles of Serve.serve (location found, ECS option to echo).
       q_asked            = q_name: the question name on the wire as asked (Cache.lower := lower_bytes)
       q_qtype, q_qclass  = q_type, q_class
       q_extra            = id + 65536 * (0 without OPT, 1 + EDNS version with OPT)  [extra_of];
                            read back by [req_id], [req_edns]: everything else of the request
                            (RD/CD, UDP size, DO) is not a field of Serve.query either
       q_from             stays abstract: the generation's location lookup [g_loc] reads the whole
                            request (FindLocation reads the packed name, the ECS option, the address)
     Location: Serve.serve takes [locres] (error / nil / two bytes), the cache key a number.
       [loc_num] maps LocOk [a; b] (bytes) to a * 256 + b < 65536 and every failure to 65536
       ([unlocated]); [loc_of_num] is its inverse on numbers < 65536.  The real handler returns
       without a reply BEFORE the cache when FindLocation fails; Cache.serve has no such branch, so
       [handle] adds it in front (and is Cache.serve itself on located requests).
     ECS: the option FindLocation returns (with the scope it wrote) depends on the generation, while
       Cache.finish does not see the generation.  The written response is therefore modelled as a
       FUNCTION of that option: Cache.response := option ecsval -> Serve.outcome.  Nothing is lost:
       Serve.serve uses its [ecs] argument only in the OPT of the reply.
   * Cache.body := Serve.outcome of the canonical request [canon] (id 0, OPT version 0, no ECS):
     the message as it is put into the LRU (handler.go caches before the OPT is attached; the id
     and the question are overwritten by SetReply on a hit).  [patch] = SetReply + OPT: id and question
     of this request, OPT iff the request has one (SERVFAIL from dns.HandleFailed never has).
     Proofs/Compose.serve_factor: Serve.serve = patch of the canonical outcome - the adapter lemma.
   * random draws: Serve.v has none (a weighted selection is an IPick item = candidates + number
     served; C11 owns the draw), so [core] ignores Cache's rnd.  max-answer is an explicit parameter
     of the wrappers (it comes from the listener, C20); in a history every query brings its own.
   * weighted (never cached unless WRSTimeout > 0): Wrs.WeightedAnswer = some family counted more
     than one candidate, in the answer or for some target of the additional section  [is_weighted].
     not cached at all: REFUSED and the SERVFAIL exits return before lru.Add  [uncached].
     Both are evaluated on the lower-cased name (the key holds nothing else).
   * Chain.msg / Chain.env versus Cache.request: [view] takes the first question (coredns
     request.Name/QType/QClass: root, 0, 0 without a question), the id and the last OPT's version
     from the message; the wire form of the presentation name (dns.PackDomainName), the requester
     identity, the ECS option returned by FindLocation and the rendering of a Serve.outcome as a
     Chain.outcome (drawing the picks, presentation names, header bits, writeAndLog) are miekg /
     C10 / C11 territory and enter through the record [bridge] - arbitrary functions, constrained
     only by named hypotheses in the theorems. *)
From DnsV Require Import Base.Bytes Model.Store Model.LookupV1 Model.LookupV2 Model.Serve.
From DnsV Require Model.Cache Model.Chain.
Open Scope N_scope.

(* ------------------------------------------------------------------ a generation *)
(* backend, database as key -> rows, and FindLocation on it (C03 owns its meaning) *)
Record gen := mkGen { g_backend : backend; g_store : store; g_loc : Cache.request -> locres }.

Definition unlocated : N := 65536.
Definition loc_num (l : locres) : N :=
  match l with
  | LocOk [a; b] => if (a <? 256) && (b <? 256) then a * 256 + b else unlocated
  | _ => unlocated
  end.
Definition loc_of_num (n : N) : bytes := [n / 256; n mod 256].
Definition locate (g : gen) (r : Cache.request) : N := loc_num (g_loc g r).

(* ------------------------------------------------------------------ request <-> query *)
Definition extra_of (id : N) (edns : option N) : N :=
  id mod 65536 + 65536 * match edns with None => 0 | Some v => v + 1 end.
Definition req_id (r : Cache.request) : N := Cache.q_extra r mod 65536.
Definition req_edns (r : Cache.request) : option N :=
  let e := Cache.q_extra r / 65536 in if e =? 0 then None else Some (e - 1).
Definition query_of (r : Cache.request) : query :=
  mkQ (req_id r) (Cache.q_asked r) (Cache.q_qtype r) (Cache.q_qclass r) (req_edns r).
Definition request_of (from : N) (q : query) : Cache.request :=
  Cache.mkReq from (q_name q) (q_type q) (q_class q) (extra_of (q_id q) (q_edns q)).

(* ------------------------------------------------------------------ the instance of Model/Cache *)
Definition body := outcome.
Definition wresponse := option ecsval -> outcome.

(* the request whose answer is put into the cache *)
Definition canon (a : bytes) (ty cl : N) : query := mkQ 0 a ty cl (Some 0).

(* Cache.serve_core: Serve.serve of the key's generation, location, type and class for the name as asked *)
Definition core (max : N) (g : gen) (k : Cache.key) (a : bytes) (_ : N) : body :=
  serve (g_backend g) (g_store g) (canon a (Cache.k_qtype k) (Cache.k_qclass k))
        (LocOk (loc_of_num (Cache.k_loc k))) None max.

(* SetReply (id, question of THIS request) and the OPT with the ECS option FindLocation returned *)
Definition patch (o : outcome) (q : query) (ecs : option ecsval) : outcome :=
  match o with
  | OReply x =>
      OReply (mkResp (q_id q) (question_of q) (rs_rcode x) (rs_aa x) (rs_an x) (rs_ns x) (rs_ex x)
                     (match rs_opt x with Some _ => opt_of q ecs | None => None end))
  | _ => o
  end.
Definition finish (b : body) (r : Cache.request) (_ : N) : wresponse := fun ecs => patch b (query_of r) ecs.

Definition badvers (r : Cache.request) : bool :=
  match req_edns r with Some (Npos _) => true | _ => false end.
Definition badvers_reply (r : Cache.request) : wresponse :=
  fun _ => OReply (mkResp (req_id r) None 16 false [] [] [] (Some None)).

Definition heavy (i : item) : bool :=
  match i with IPick _ _ _ c _ => 1 <? nlen c | IRR _ => false end.
Definition is_weighted (o : outcome) : bool :=
  match o with OReply x => existsb heavy (rs_an x ++ rs_ex x) | _ => false end.
Definition uncached (o : outcome) : bool :=
  match o with OReply x => (rs_rcode x =? 5) || (rs_rcode x =? 2) | _ => true end.
Definition weightedf (max : N) (g : gen) (k : Cache.key) : bool := is_weighted (core max g k (Cache.k_name k) 0).
Definition refusedf (max : N) (g : gen) (k : Cache.key) : bool := uncached (core max g k (Cache.k_name k) 0).

Definition hcache := Cache.cache body.

(* Model/Cache.serve and serve_plain over Model/Serve.serve *)
Definition cached_serve (max : N) (cfg : Cache.cconfig) (g : gen) (c : hcache) (now : N) (r : Cache.request)
  : hcache * wresponse * Cache.outcome :=
  Cache.serve gen body wresponse lower_bytes locate (core max) (weightedf max) (refusedf max)
              finish badvers badvers_reply cfg g c now 0 r.
Definition plain_serve (max : N) (g : gen) (r : Cache.request) : wresponse :=
  Cache.serve_plain gen body wresponse lower_bytes locate (core max) finish badvers badvers_reply g 0 r.

(* the whole database handler: FindLocation failing (error or nil location) ends the request without
   a reply after the EDNS version test and before the cache *)
Definition located (g : gen) (r : Cache.request) : bool := locate g r <? unlocated.
Definition handle (max : N) (cfg : Cache.cconfig) (g : gen) (c : hcache) (now : N) (r : Cache.request)
  : hcache * wresponse * Cache.outcome :=
  if negb (badvers r) && negb (located g r) then (c, fun _ => ONoReply, Cache.OOff)
  else cached_serve max cfg g c now r.

(* sequential histories of the whole handler (events of Model/Cache: queries, reloads, failed reloads).
   The max answer a query arrives with is its listener's (C20): in a history it is the third component of
   the query event - Cache's per-query "random draws", which Serve.v does not have.  The cache is shared
   by all listeners and its key does not hold the max answer.
   [htrace] lists for every query the generation in force, its max answer, the request, what is written,
   hit or miss *)
Definition hstate := (gen * hcache)%type.
Definition hstep (cfg : Cache.cconfig) (st : hstate) (ev : Cache.event gen) : hstate :=
  let (g, c) := st in
  match ev with
  | Cache.EQuery _ now mx r => let '(c', _, _) := handle mx cfg g c now r in (g, c')
  | Cache.EReload _ g' => (g', [])
  | Cache.EReloadFailed _ => (g, c)
  end.
Definition hfinal (cfg : Cache.cconfig) (st : hstate) (h : list (Cache.event gen)) : hstate :=
  fold_left (hstep cfg) h st.
Fixpoint htrace (cfg : Cache.cconfig) (st : hstate) (h : list (Cache.event gen))
  : list (gen * N * Cache.request * wresponse * Cache.outcome) :=
  match h with
  | [] => []
  | ev :: h' =>
      match ev with
      | Cache.EQuery _ now mx r =>
          let '(_, f, o) := handle mx cfg (fst st) (snd st) now r in [(fst st, mx, r, f, o)]
      | _ => []
      end ++ htrace cfg (hstep cfg st ev) h'
  end.

(* ------------------------------------------------------------------ modulo owner-name case *)
Definition rename (q : query) (a : bytes) : query := mkQ (q_id q) a (q_type q) (q_class q) (q_edns q).
Definition set_question (x : response) (qs : option (bytes * N * N)) : response :=
  mkResp (rs_id x) qs (rs_rcode x) (rs_aa x) (rs_an x) (rs_ns x) (rs_ex x) (rs_opt x).
Definition requestion (o : outcome) (qs : option (bytes * N * N)) : outcome :=
  match o with OReply x => OReply (set_question x qs) | _ => o end.

(* ------------------------------------------------------------------ under the front handlers (Model/Chain) *)
Record bridge := mkBridge {
  br_wire : bytes -> option bytes;                          (* dns.PackDomainName of the question name as asked *)
  br_from : Chain.env -> Chain.msg -> N;                    (* who asks: remote address and ECS option *)
  br_ecs : Chain.env -> Chain.msg -> gen -> option ecsval;  (* the ECS option FindLocation hands back *)
  br_render : Chain.env -> Chain.msg -> outcome -> Chain.outcome   (* picks drawn, message written by writeAndLog *)
}.

Definition opt_version (o : Chain.rr) : N := (Chain.rttl o / 65536) mod 256.
Definition msg_extra (r : Chain.msg) : N :=
  extra_of (Chain.hid (Chain.mh r)) (option_map opt_version (Chain.last_opt (Chain.mex r))).
(* request.Name / QType / QClass *)
Definition first_question (r : Chain.msg) : bytes * N * N :=
  match Chain.mq r with
  | q0 :: _ => (Chain.qname q0, Chain.qtype q0, Chain.qclass q0)
  | [] => ([46], 0, 0)
  end.
Definition view (br : bridge) (e : Chain.env) (r : Chain.msg) : option Cache.request :=
  let '(nm, ty, cl) := first_question r in
  match br_wire br nm with
  | Some w => Some (Cache.mkReq (br_from br e r) w ty cl (msg_extra r))
  | None => None
  end.

(* FBDNSDB.ServeDNS on the state (generation, cache) at time now: the [serve] of Model/Chain.
   A name that does not pack is answered by dns.HandleFailed (after the EDNS version test). *)
Definition db_serve (br : bridge) (ccfg : Cache.cconfig) (g : gen) (c : hcache) (now : N)
  : N -> Chain.env -> Chain.msg -> Chain.outcome :=
  fun mx e r =>
    match view br e r with
    | Some rq => let '(_, f, _) := handle mx ccfg g c now rq in br_render br e r (f (br_ecs br e r g))
    | None =>
        let rq := Cache.mkReq 0 [] 0 0 (msg_extra r) in
        if badvers rq then br_render br e r (badvers_reply rq None) else Chain.Reply (Chain.handle_failed r)
    end.

(* one listener of the whole server *)
Definition whole_server (ulen base : Chain.msg -> N) (rlen : list Chain.rr -> Chain.rr -> N) (optlen : Chain.rr -> N)
           (br : bridge) (ccfg : Cache.cconfig) (g : gen) (c : hcache) (now : N)
           (cfg : Chain.config) (e : Chain.env) (r : Chain.msg) : Chain.outcome :=
  Chain.server ulen base rlen optlen (db_serve br ccfg g c now) cfg e r.
