(* Model of the EDNS / client-subnet handling of one query:
     db/location.go        FindECS, FindLocation (EcsLocation, ResolverLocation and
                           findLocation are Model.Location.ecs_scope / ecs_client /
                           resolver_client / find_location, reused here)
     dnsserver/handler.go  ServeDNSWithRCODE: edns.Version (BADVERS reply built by
                           coredns), REFUSED reply, cache-hit reply, computed reply,
                           each with its OPT / ECS attachment; writeAndLog
     coredns request.SizeAndDo / supportedOptions as far as the OPT record and its
                           options are concerned
     miekg/dns EDNS0_SUBNET.unpack (what the server sees of the option data on the
                           wire) and pack followed by unpack (what a client sees)
   Executable, no proofs.

   The two database primitives enter as Section variables: [fm8] / [fmM] are the
   results of FindMap for the query name with map type 8 / M, [gl] is
   GetLocationByMap.  Model.Location instantiates them for CDB and both RocksDB key
   layouts.  Everything about the answer sections is outside this model and enters
   through [env]: is the name served, which rcode, was there a fresh cache entry.
   Addresses are N < 2^128 (16-byte form, IPv4 is v6-mapped) - this is what
   EDNS0_SUBNET.unpack produces for every family. uint8 arithmetic is explicit
   (Model.Location.ecs_scope: (mask + 256 - 96) mod 256). *)
From DnsV Require Import Base.Bytes Base.Ip Spec.Lpm Model.Rearranger Model.Location.
Open Scope N_scope.

(* dns.EDNS0_SUBNET after unpack *)
Record ecs := mkEcs { e_fam : N; e_src : N; e_scope : N; e_addr : N }.
(* an option of an OPT record *)
Inductive eopt := OEcs (e : ecs) | OOther (code : N) (data : bytes).
(* an OPT record: version, DO bit, UDP size (class field), options *)
Record edns := mkEdns { ed_ver : N; ed_do : bool; ed_udp : N; ed_opts : list eopt }.
(* the part of a request this model looks at; [q_rip] is net.ParseIP(state.IP()) *)
Record query := mkQuery { q_edns : option edns; q_rip : option N }.

(* ---------------------------------------------------------------- wire: option data -> EDNS0_SUBNET *)

Definition be_val (bs : bytes) : N := fold_left (fun acc b => acc * 256 + b) bs 0.
(* copy(addr, b[4:]) into a zeroed array of n bytes *)
Definition pad_to (n : nat) (bs : bytes) : bytes := firstn n (bs ++ repeat 0 n).

(* EDNS0_SUBNET.unpack: None = error (the whole message is then rejected) *)
Definition unpack_ecs (fam src scope : N) (ab : bytes) : option ecs :=
  if fam =? 0 then (if src =? 0 then Some (mkEcs 0 0 scope first_v4) else None)
  else if fam =? 1 then
    (if (32 <? src) || (32 <? scope) then None
     else Some (mkEcs 1 src scope (first_v4 + be_val (pad_to 4 ab))))
  else if fam =? 2 then
    (if (128 <? src) || (128 <? scope) then None
     else Some (mkEcs 2 src scope (be_val (pad_to 16 ab))))
  else None.

(* options as sent *)
Inductive wopt := WEcs (fam src scope : N) (ab : bytes) | WOther (code : N) (data : bytes).

Fixpoint unpack_opts (ws : list wopt) : option (list eopt) :=
  match ws with
  | [] => Some []
  | WEcs f s sc ab :: ws' =>
      match unpack_ecs f s sc ab, unpack_opts ws' with
      | Some e, Some r => Some (OEcs e :: r)
      | _, _ => None
      end
  | WOther c d :: ws' =>
      match unpack_opts ws' with Some r => Some (OOther c d :: r) | None => None end
  end.

(* EDNS0_SUBNET.pack on the server followed by unpack at the client: None = the
   reply cannot be packed, or the client rejects it *)
Definition wire_view (e : ecs) : option ecs :=
  if e_fam e =? 0 then (if e_src e =? 0 then Some (mkEcs 0 0 (e_scope e) first_v4) else None)
  else if e_fam e =? 1 then
    (if (32 <? e_src e) || (32 <? e_scope e) || negb (is_v4 (e_addr e)) then None
     else Some (mkEcs 1 (e_src e) (e_scope e) (clean_mask (e_addr e) (96 + e_src e))))
  else if e_fam e =? 2 then
    (if (128 <? e_src e) || (128 <? e_scope e) then None
     else Some (mkEcs 2 (e_src e) (e_scope e) (clean_mask (e_addr e) (e_src e))))
  else None.

(* ---------------------------------------------------------------- location.go *)

(* FindECS: the first client-subnet option *)
Fixpoint find_ecs (os : list eopt) : option ecs :=
  match os with
  | [] => None
  | OEcs e :: _ => Some e
  | OOther _ _ :: os' => find_ecs os'
  end.
Definition query_ecs (q : query) : option ecs :=
  match q_edns q with Some o => find_ecs (ed_opts o) | None => None end.

Definition set_scope (e : ecs) (s : N) : ecs := mkEcs (e_fam e) (e_src e) s (e_addr e).

Section Serve.
  Variable fm8 fmM : result (option bytes).                        (* FindMap(qname, 8 / M) *)
  Variable gl : mapid -> client -> result (option bytes * N).      (* GetLocationByMap *)

  (* EcsLocation: location (None = nil) and the SourceScope it stores in the option *)
  Definition ecs_location (e : ecs) : result (option location * N) :=
    if negb ((e_fam e =? 1) || (e_fam e =? 2)) then Ok (None, 0)     (* no address to map: scope 0, nil *)
    else
    rbind (find_location fm8 (fun m => gl m (ecs_client (e_fam e) (e_src e) (e_addr e))))
          (fun l => Ok (ecs_scope (e_fam e) l)).

  Definition resolver_location (rip : option N) : result location :=
    find_location fmM (fun m => gl m (resolver_client rip)).

  (* FindLocation: the option as it is afterwards (scope written into the request's
     own object) and the location that decides the answer; Err = error or recovered
     panic *)
  Definition find_client_location (q : query) : result (option ecs * location) :=
    match query_ecs q with
    | Some e =>
        rbind (ecs_location e) (fun r =>
        let e' := set_scope e (snd r) in
        match fst r with
        | Some l =>
            if id_eqb (l_loc l) (0, 0)
            then rbind (resolver_location (q_rip q)) (fun l' => Ok (Some e', l'))
            else Ok (Some e', l)
        | None => rbind (resolver_location (q_rip q)) (fun l' => Ok (Some e', l'))
        end)
    | None => rbind (resolver_location (q_rip q)) (fun l => Ok (None, l))
    end.

  (* ---------------------------------------------------------------- handler.go *)

  (* a reply: rcode, its OPT record, and (ghost) the location id handed to the cache
     key and to the answer lookup; (0,0) on the paths that look nothing up *)
  Record reply := mkReply { r_rcode : N; r_edns : option edns; r_loc : locid }.
  Inductive outcome := NoReply | Reply (r : reply).

  (* what the rest of the handler finds for this query *)
  Inductive authres :=
  | AuthErr                 (* IsAuthoritative / zone cut unpacking failed: dns.HandleFailed *)
  | NotServed               (* neither authoritative nor a delegation: REFUSED *)
  | Served (rcode : N).     (* answer, delegation, NODATA or NXDOMAIN computed *)
  Record env := mkEnv { cache_hit : locid -> option N;    (* fresh cache entry for this location: its rcode *)
                        auth : locid -> authres }.

  (* coredns request.supportedOptions; nothing registers further codes in dnsrocks *)
  Definition supported (code : N) : bool :=
    (code =? 3) || (code =? 9) || (code =? 10) || (code =? 11) || (code =? 12).
  Definition supported_options (os : list eopt) : list eopt :=
    filter (fun o => match o with OEcs _ => false | OOther c _ => supported c end) os.

  (* request.SizeAndDo (OPT part) *)
  Definition size_and_do (req : option edns) (m : reply) : reply :=
    match req with
    | None => m
    | Some o =>
        match r_edns m with
        | Some mo => mkReply (r_rcode m) (Some (mkEdns 0 (ed_do mo || ed_do o) (ed_udp o) (ed_opts mo))) (r_loc m)
        | None => mkReply (r_rcode m) (Some (mkEdns 0 (ed_do o) (ed_udp o) (supported_options (ed_opts o)))) (r_loc m)
        end
    end.

  (* o = new(dns.OPT) ... if ecs != nil { o.Option = append(o.Option, ecs) }, only
     when the request has an OPT *)
  Definition fresh_opt (req : option edns) (e : option ecs) : option edns :=
    match req with
    | None => None
    | Some _ => Some (mkEdns 0 false 0 (match e with Some x => [OEcs x] | None => [] end))
    end.

  Definition badvers (q : query) : bool :=
    match q_edns q with Some o => negb (ed_ver o =? 0) | None => false end.

  Definition serve (ev : env) (q : query) : outcome :=
    if badvers q then
      (* edns.Version: fresh OPT, no options; then writeAndLog *)
      Reply (size_and_do (q_edns q) (mkReply 16 (Some (mkEdns 0 false 0 [])) (0, 0)))
    else
      match find_client_location q with
      | Err _ => NoReply                       (* SERVFAIL returned to the caller, nothing written *)
      | Ok (e, loc) =>
          let id := l_loc loc in
          match cache_hit ev id with
          | Some rc => Reply (size_and_do (q_edns q) (mkReply rc (fresh_opt (q_edns q) e) id))
          | None =>
              match auth ev id with
              | AuthErr => Reply (mkReply 2 None id)         (* dns.HandleFailed: bare SERVFAIL *)
              | NotServed => Reply (size_and_do (q_edns q) (mkReply 5 (fresh_opt (q_edns q) e) id))
              | Served rc => Reply (size_and_do (q_edns q) (mkReply rc (fresh_opt (q_edns q) e) id))
              end
          end
      end.
End Serve.

Definition reply_ecs (r : reply) : option ecs :=
  match r_edns r with Some o => find_ecs (ed_opts o) | None => None end.
Fixpoint count_ecs (os : list eopt) : nat :=
  match os with [] => O | OEcs _ :: t => S (count_ecs t) | _ :: t => count_ecs t end.
Definition opt_code (o : eopt) : N := match o with OEcs _ => 8 | OOther c _ => c end.

(* ---------------------------------------------------------------- GetLocationByMap as longest-prefix match *)

(* what a driver searches with: the prefix length it allows (96 is added only under
   a 32-bit wide mask), the family it matches in (an IPv4 or v4-mapped address
   disclosed with fewer than 96 bits is an IPv6 prefix), and the address *)
Definition eff_plen (c : client) : N := c_size c + (if c_isv4 c && (c_bits c =? 32) then 96 else 0).
Definition cfam (c : client) : family := if c_isv4 c && (96 <=? eff_plen c) then V4 else V6.
Definition search_addr (premask : bool) (c : client) : N :=
  if premask then match c_masked c with Some x => x | None => c_addr c end else c_addr c.
(* the part of a GetLocationByMap result findLocation uses *)
Definition hit_of (r : option bytes * N) : option (locid * N) :=
  match fst r with Some b => Some (two_bytes b, snd r) | None => None end.

(* GetLocationByMap of a backend that implements longest-prefix match over the
   declared subnets [nets m] (what C03 proves of the real drivers); used by Run/C10
   and by the non-vacuity examples *)
Definition gl_lpm (nets : mapid -> list subnet) (premask : bool) (m : mapid) (cl : client)
  : result (option bytes * N) :=
  Ok (match lpm (nets m) (cfam cl) (search_addr premask cl) (eff_plen cl) with
      | Some (loc, l) => (Some (loc_bytes loc), l)
      | None => (None, 0)
      end).
Definition fm_of (m : mapid) : result (option bytes) :=
  Ok (if id_eqb m (0, 0) then None else Some (mapid_bytes m)).
