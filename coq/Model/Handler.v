(* Handler: FBDNSDB.ServeDNSWithRCODE with its OWN location lookup - the composition of the two
   handler models that so far took each other's part as an oracle:
     Model/Ecs.v    find_client_location  (db/location.go FindLocation: ECS map '8', then resolver
                    map 'M'; FindMap + GetLocationByMap of the driver at hand, Model/Location.v)
     Model/Serve.v  serve                 (dnsserver/handler.go: EDNS version, IsAuthoritative,
                    FindAnswer, sections) - its inputs [locres] and [ecs] are what FindLocation returned.
   handler.go:183-199: the packed, lower-cased question name is handed to FindLocation; an error
   (or recovered panic) of FindLocation ends the request without a reply (SERVFAIL to the caller);
   the location id of the returned Location decides every lookup; the returned option (the request's
   own, with the scope written by EcsLocation) is echoed.  The EDNS version check precedes it (both
   models have it first; a BADVERS reply does not depend on the location).

   One database, two views of it (both are listings of the same store, C15 / C16):
     [dbl] : list (key, stored bytes)   what FindMap / GetLocationByMap read (Model/Location.v)
     [st]  : list (key, rows)           what the answer readers read (Model/Store.v)
   One request, two views: [q] (Model/Serve.query: id, name, type, class, EDNS version) and
   [cq] (Model/Ecs.query: the OPT record with its options, the resolver address).
   No proofs in this file. *)
From DnsV Require Import Base.Bytes Base.Ip Model.Rearranger Model.Location Model.Ecs.
From DnsV Require Import Model.Store Model.LookupV1 Model.LookupV2 Model.Serve.
Open Scope N_scope.

(* dbi.FindMap of the three drivers *)
Definition find_map (lb : Location.backend) (dbl : list Location.kv) (mtype q : bytes) : result (option bytes) :=
  match lb with
  | BCdb _ => cdb_find_map (S (length q)) dbl mtype q true
  | BV1 => v1_find_map dbl mtype q
  | BV2 => v2_find_map dbl mtype q
  end.
(* dbi.GetLocationByMap *)
Definition get_location (lb : Location.backend) (dbl : list Location.kv) : mapid -> client -> result (option bytes * N) :=
  match lb with
  | BCdb sep => cdb_get_location sep dbl
  | _ => rdb_get_location dbl
  end.

(* reader.FindLocation(packedQName, r, state.IP()) *)
Definition client_location (lb : Location.backend) (dbl : list Location.kv) (qname : bytes) (cq : Ecs.query)
  : result (option ecs * location) :=
  find_client_location (find_map lb dbl [0; 56] qname) (find_map lb dbl [0; 77] qname) (get_location lb dbl) cq.

(* the two views describe the same request *)
Definition same_request (q : Serve.query) (cq : Ecs.query) : Prop :=
  Serve.q_edns q = option_map ed_ver (Ecs.q_edns cq).

(* the handler; [enc] is how the echoed option is represented in Model/Serve's response *)
Definition handle (lb : Location.backend) (b : LookupV1.backend) (dbl : list Location.kv) (st : Store.store)
           (q : Serve.query) (cq : Ecs.query) (enc : ecs -> ecsval) (max : N) : Serve.outcome :=
  match client_location lb dbl (lower_bytes (q_name q)) cq with
  | Err _ => Serve.serve b st q LocErr None max
  | Ok (e, loc) => Serve.serve b st q (LocOk (loc_bytes (l_loc loc))) (option_map enc e) max
  end.
