(* Model/Reload: small-step interleaving semantics of query serving and database
   reloading (dnsserver/handler.go ServeDNSWithRCODE, dnsserver/db.go Reload /
   AcquireReader, db/db.go Reload, db/rdbdriver.go + db/cdbdriver.go Reload,
   dnsdata/rdb/rdb.go CatchWithPrimary).  Executable, NO proofs inside.

   Threads: queries (TQ), reloads (TR), the reload goroutine that outlives a
   timed-out db.Reload (TL) and the environment changing a database path on
   disk (TE).  A schedule is a list of thread ids; [step] performs one atomic
   action of the named thread (None = not enabled).

   Generations.  The CONTENT of a backend is a stamp (the number every record of
   the harness databases carries) plus a ghost epoch: the global install counter
   at the moment that content became visible to readers.  A RocksDB catch-up
   mutates a backend in place: every reader pinned to it sees the new content
   from then on.  A cdb / different-path reload opens a new backend and the
   pointer swap makes it visible.

   Ghost state (st_clock, epochs, *_at times, flags) does not influence the
   non-ghost part of a step; it lets theorems talk about temporal order. *)
From DnsV Require Import Base.Bytes.
Open Scope N_scope.

(* ------------------------------------------------------------ environment *)
Record file := mkFile { f_stamp : N; f_ok : bool; f_key : bool }.
Definition disk := list (N * file).   (* path -> file; first binding wins; absent = missing path *)

Fixpoint dlookup (d : disk) (p : N) : option file :=
  match d with
  | [] => None
  | (k, f) :: d' => if k =? p then Some f else dlookup d' p
  end.

(* a read of the database sees a generation: its stamp and (ghost) its epoch *)
Record gen := mkG { g_stamp : N; g_epoch : N }.
Definition gen_eqb (a b : gen) : bool := (g_stamp a =? g_stamp b) && (g_epoch a =? g_epoch b).

Record backend := mkB { b_path : N; b_stamp : N; b_key : bool; b_epoch : N }.
Definition b_gen (b : backend) : gen := mkG (b_stamp b) (b_epoch b).

(* ------------------------------------------------------------ threads *)
Inductive tid := TQ (j : nat) | TR (i : nat) | TL (i : nat) | TE (i : nat).

(* program counter of a query over the yield points of ServeDNSWithRCODE.
   QRLocked, QPinned (inside AcquireReader) and QHitWrite are internal; the others are the
   states in which the goroutine is parked at verifYield:
   QAcq = acquired, QLocated = located, QChecked = cache_checked, QAuth = auth_checked,
   QAnswered = answered, QBeforeInsert = before_cache_insert, QBeforeWrite = before_write *)
Inductive qpc := QStart | QRLocked | QPinned | QAcq | QLocated | QHitWrite | QChecked | QAuth
               | QAnswered | QBeforeInsert | QBeforeWrite | QDone.

Record qstate := mkQ {
  q_pc : qpc;
  q_pin : nat;                (* backend pinned by NewReader (meaningful from QPinned on) *)
  q_reads : list gen;         (* generations seen by the lookups done so far, in order:
                                 FindLocation, IsAuthoritative, FindAnswer, SOA/NS/additional *)
  q_hit : option (list gen);  (* the cache entry found by lru.Get *)
  q_resp : option (list gen); (* the generations the written response was computed from *)
  q_cached : bool;            (* response came out of the cache *)
  q_acq_at : N;               (* ghost: clock of the RLock step *)
  q_done_at : N               (* ghost: clock of the write step *)
}.
Definition q0 : qstate := mkQ QStart 0 [] None None false 0 0.

Inductive rkind := Full (p : N) | Partial.
Inductive fail_kind := FMissing | FUnreadable | FNoKey | FTimeout | FCatchup.

(* RLocked = reload_locked, RReloaded = reload_done, RSwapped = reload_swapped,
   RPurged = reload_purged are yield points; RValidate, RSwapPtr, RFailing are internal *)
Inductive rpc := RStart | RLocked | RValidate | RReloaded | RSwapPtr | RSwapped | RPurged
               | RFailing (k : fail_kind) | RDone (res : option fail_kind).

Record rstate := mkR {
  r_pc : rpc;
  r_cand : nat;           (* backend returned by db.Reload (candidate, or the served one after a catch-up) *)
  r_newpath : N;          (* newPath computed under the lock *)
  r_inplace : bool;       (* ghost: this reload caught up the served backend in place *)
  r_late : bool;          (* the reload goroutine is still going to catch up backend r_lateb *)
  r_lateb : nat;
  r_late_done : bool;
  r_seen_last : N;        (* ghost: st_last_full when newPath was computed *)
  r_epoch : N;            (* ghost: epoch of the served content after the swap *)
  r_unlock_at : N         (* ghost: clock of the unlock step *)
}.
Definition r0 : rstate := mkR RStart 0 0 false false 0 false 0 0 0.

(* qs_ans_cached / qs_extra_cached: with the rocksdb driver the data the FindAnswer / the
   SOA-NS-additional phase needs was already fetched by the previous lookup of this request and
   is served from the per-request context cache (rdb.Context: IsAuthoritative reads the key of
   the query name and of the zone apex), so the phase sees the generation that lookup saw *)
Record qspec := mkQS { qs_client : N; qs_key : N; qs_ans_cached : bool; qs_extra_cached : bool }.
Record espec := mkES { es_path : N; es_file : file }.

Record config := mkC {
  c_rocks : bool;       (* driver rocksdb (catch-up in place when the path is unchanged) / cdb *)
  c_cache : bool;       (* CacheConfig.Enabled *)
  c_wrs : bool;         (* CacheConfig.WRSTimeout > 0: weighted answers are cached too *)
  c_vkey : bool;        (* a validation key is configured *)
  c_timeout : bool;     (* ReloadTimeout expires before db.Reload's goroutine finishes *)
  c_qs : list qspec;
  c_rs : list rkind;
  c_es : list espec
}.

Record state := mkS {
  st_disk : disk;
  st_backs : list backend;
  st_served : nat;                  (* h.dnsdb *)
  st_path : N;                      (* h.dbConfig.Path *)
  st_w : bool;                      (* reloadMu held by a writer *)
  st_r : nat;                       (* reloadMu reader count *)
  st_cache : list (N * list gen);   (* lru: key -> generations the entry was computed from *)
  st_qs : list qstate;
  st_rs : list rstate;
  st_es : list bool;                (* environment steps done *)
  st_epoch : N;                     (* ghost: install counter *)
  st_purged : N;                    (* ghost: st_epoch at the last purge *)
  st_last_full : N;                 (* ghost: path of the last full reload that returned nil (or the initial path) *)
  st_f5 : bool;                     (* ghost: a catch-up hit a backend pinned by a query between two lookups *)
  st_f6 : bool;                     (* ghost: an entry older than the last purge was inserted *)
  st_clock : N                      (* ghost: number of steps taken *)
}.

(* ------------------------------------------------------------ list helpers *)
Fixpoint upd {A} (n : nat) (x : A) (l : list A) : list A :=
  match l, n with
  | [], _ => []
  | _ :: t, O => x :: t
  | h :: t, S n' => h :: upd n' x t
  end.

Fixpoint clookup (c : list (N * list gen)) (k : N) : option (list gen) :=
  match c with
  | [] => None
  | (k', e) :: c' => if k' =? k then Some e else clookup c' k
  end.

Fixpoint cremove (c : list (N * list gen)) (k : N) : list (N * list gen) :=
  match c with
  | [] => []
  | (k', e) :: c' => if k' =? k then cremove c' k else (k', e) :: cremove c' k
  end.

Definition cadd (c : list (N * list gen)) (k : N) (e : list gen) := (k, e) :: cremove c k.

Definition back (st : state) (b : nat) : backend := nth b (st_backs st) (mkB 0 0 false 0).
Definition content (st : state) (b : nat) : gen := b_gen (back st b).

(* ------------------------------------------------------------ state setters *)
Definition set_q (st : state) (j : nat) (q : qstate) : state :=
  mkS (st_disk st) (st_backs st) (st_served st) (st_path st) (st_w st) (st_r st) (st_cache st)
      (upd j q (st_qs st)) (st_rs st) (st_es st) (st_epoch st) (st_purged st) (st_last_full st)
      (st_f5 st) (st_f6 st) (st_clock st).
Definition set_r (st : state) (i : nat) (r : rstate) : state :=
  mkS (st_disk st) (st_backs st) (st_served st) (st_path st) (st_w st) (st_r st) (st_cache st)
      (st_qs st) (upd i r (st_rs st)) (st_es st) (st_epoch st) (st_purged st) (st_last_full st)
      (st_f5 st) (st_f6 st) (st_clock st).
Definition set_lock (st : state) (w : bool) (r : nat) : state :=
  mkS (st_disk st) (st_backs st) (st_served st) (st_path st) w r (st_cache st)
      (st_qs st) (st_rs st) (st_es st) (st_epoch st) (st_purged st) (st_last_full st)
      (st_f5 st) (st_f6 st) (st_clock st).
Definition set_cache (st : state) (c : list (N * list gen)) (purged : N) (f6 : bool) : state :=
  mkS (st_disk st) (st_backs st) (st_served st) (st_path st) (st_w st) (st_r st) c
      (st_qs st) (st_rs st) (st_es st) (st_epoch st) purged (st_last_full st)
      (st_f5 st) f6 (st_clock st).
Definition set_backs (st : state) (bs : list backend) (epoch : N) (f5 : bool) : state :=
  mkS (st_disk st) bs (st_served st) (st_path st) (st_w st) (st_r st) (st_cache st)
      (st_qs st) (st_rs st) (st_es st) epoch (st_purged st) (st_last_full st)
      f5 (st_f6 st) (st_clock st).
Definition set_served (st : state) (b : nat) : state :=
  mkS (st_disk st) (st_backs st) b (st_path st) (st_w st) (st_r st) (st_cache st)
      (st_qs st) (st_rs st) (st_es st) (st_epoch st) (st_purged st) (st_last_full st)
      (st_f5 st) (st_f6 st) (st_clock st).
Definition set_path (st : state) (p : N) : state :=
  mkS (st_disk st) (st_backs st) (st_served st) p (st_w st) (st_r st) (st_cache st)
      (st_qs st) (st_rs st) (st_es st) (st_epoch st) (st_purged st) (st_last_full st)
      (st_f5 st) (st_f6 st) (st_clock st).
Definition set_last_full (st : state) (p : N) : state :=
  mkS (st_disk st) (st_backs st) (st_served st) (st_path st) (st_w st) (st_r st) (st_cache st)
      (st_qs st) (st_rs st) (st_es st) (st_epoch st) (st_purged st) p
      (st_f5 st) (st_f6 st) (st_clock st).
Definition set_env (st : state) (d : disk) (es : list bool) : state :=
  mkS d (st_backs st) (st_served st) (st_path st) (st_w st) (st_r st) (st_cache st)
      (st_qs st) (st_rs st) es (st_epoch st) (st_purged st) (st_last_full st)
      (st_f5 st) (st_f6 st) (st_clock st).
Definition tick (st : state) : state :=
  mkS (st_disk st) (st_backs st) (st_served st) (st_path st) (st_w st) (st_r st) (st_cache st)
      (st_qs st) (st_rs st) (st_es st) (st_epoch st) (st_purged st) (st_last_full st)
      (st_f5 st) (st_f6 st) (st_clock st + 1).

Definition qset_pc (q : qstate) (pc : qpc) : qstate :=
  mkQ pc (q_pin q) (q_reads q) (q_hit q) (q_resp q) (q_cached q) (q_acq_at q) (q_done_at q).
(* the generation the previous lookup of this query saw (d: none yet) *)
Definition prev_read (q : qstate) (d : gen) : gen := last (q_reads q) d.
Definition qread (q : qstate) (pc : qpc) (g : gen) : qstate :=
  mkQ pc (q_pin q) (q_reads q ++ [g]) (q_hit q) (q_resp q) (q_cached q) (q_acq_at q) (q_done_at q).
Definition rset_pc (r : rstate) (pc : rpc) : rstate :=
  mkR pc (r_cand r) (r_newpath r) (r_inplace r) (r_late r) (r_lateb r) (r_late_done r)
      (r_seen_last r) (r_epoch r) (r_unlock_at r).

(* a query is between two lookups: it has read the database and will read it again *)
Definition mid_lookups (pc : qpc) : bool :=
  match pc with QLocated | QChecked | QAuth | QAnswered => true | _ => false end.
Definition pinned_mid (b : nat) (q : qstate) : bool := mid_lookups (q_pc q) && Nat.eqb (q_pin q) b.

(* CatchWithPrimary on backend b: its content becomes what the primary at its path holds now *)
Definition catch_up (st : state) (b : nat) (f : file) : state :=
  let e := st_epoch st + 1 in
  let old := back st b in
  set_backs st (upd b (mkB (b_path old) (f_stamp f) (f_key f) e) (st_backs st)) e
            (st_f5 st || existsb (pinned_mid b) (st_qs st)).

Section Sem.
(* control-flow relevant parts of the response computation (the computation itself is the
   parameter serve_core below): is the answer for key k REFUSED when IsAuthoritative reads
   stamp s; is it subject to weighted selection when the answer / additional lookups read s *)
Variable refusedf : N -> N -> bool.
Variable weightedf : N -> N -> bool.

Definition is_weighted (k : N) (reads : list gen) : bool := existsb (fun g => weightedf (g_stamp g) k) reads.
Definition stale_read (purged : N) (g : gen) : bool := g_epoch g <? purged.

(* -------------------------------------------------- one action of a query *)
Definition q_step (cfg : config) (st : state) (j : nat) : option state :=
  match nth_error (st_qs st) j, nth_error (c_qs cfg) j with
  | Some q, Some qs =>
    let k := qs_key qs in
    match q_pc q with
    | QStart =>      (* h.reloadMu.RLock() *)
        if st_w st then None
        else Some (set_q (set_lock st false (S (st_r st))) j
                     (mkQ QRLocked 0 [] None None false (st_clock st) 0))
    | QRLocked =>    (* db.NewReader(h.dnsdb): pins the served backend *)
        Some (set_q st j (mkQ QPinned (st_served st) (q_reads q) (q_hit q) (q_resp q) (q_cached q)
                              (q_acq_at q) (q_done_at q)))
    | QPinned =>     (* RUnlock; yield acquired *)
        Some (set_q (set_lock st (st_w st) (pred (st_r st))) j (qset_pc q QAcq))
    | QAcq =>        (* reader.FindLocation; yield located *)
        Some (set_q st j (qread q QLocated (content st (q_pin q))))
    | QLocated =>    (* lru.Get *)
        if c_cache cfg then
          match clookup (st_cache st) k with
          | Some e => Some (set_q st j (mkQ QHitWrite (q_pin q) (q_reads q) (Some e) (q_resp q) (q_cached q)
                                            (q_acq_at q) (q_done_at q)))
          | None => Some (set_q st j (qset_pc q QChecked))
          end
        else Some (set_q st j (qset_pc q QChecked))
    | QHitWrite =>   (* copy of the cached response is written *)
        Some (set_q st j (mkQ QDone (q_pin q) (q_reads q) (q_hit q) (q_hit q) true (q_acq_at q) (st_clock st)))
    | QChecked =>    (* reader.IsAuthoritative; yield auth_checked *)
        Some (set_q st j (qread q QAuth (content st (q_pin q))))
    | QAuth =>       (* the IsAuthoritative result is the last read *)
        if refusedf (g_stamp (last (q_reads q) (mkG 0 0))) k
        then (* REFUSED is written at once, never cached *)
             Some (set_q st j (mkQ QDone (q_pin q) (q_reads q) (q_hit q) (Some (q_reads q)) false
                                   (q_acq_at q) (st_clock st)))
        else (* reader.FindAnswer; yield answered *)
             Some (set_q st j (qread q QAnswered
                                     (if c_rocks cfg && qs_ans_cached qs
                                      then prev_read q (content st (q_pin q)) else content st (q_pin q))))
    | QAnswered =>   (* FindSOA / GetNs / AdditionalSectionForRecords; yield before_cache_insert *)
        Some (set_q st j (qread q QBeforeInsert
                                (if c_rocks cfg && qs_extra_cached qs
                                 then prev_read q (content st (q_pin q)) else content st (q_pin q))))
    | QBeforeInsert =>   (* h.lru.Add unless weighted (and WRSTimeout = 0); yield before_write *)
        let st' :=
          if c_cache cfg && (negb (is_weighted k (q_reads q)) || c_wrs cfg)
          then set_cache st (cadd (st_cache st) k (q_reads q)) (st_purged st)
                         (st_f6 st || existsb (stale_read (st_purged st)) (q_reads q))
          else st in
        Some (set_q st' j (qset_pc q QBeforeWrite))
    | QBeforeWrite =>
        Some (set_q st j (mkQ QDone (q_pin q) (q_reads q) (q_hit q) (Some (q_reads q)) false
                              (q_acq_at q) (st_clock st)))
    | QDone => None
    end
  | _, _ => None
  end.

(* -------------------------------------------------- one action of a reload *)
Definition r_begin (cfg : config) (st : state) (i : nat) (r : rstate) (kind : rkind) : state :=
  let newpath := match kind with Full p => p | Partial => st_path st end in
  let sv := st_served st in
  let same := c_rocks cfg && (newpath =? b_path (back st sv)) in
  let r1 := mkR RLocked (r_cand r) newpath false false sv false (st_last_full st) (r_epoch r) (r_unlock_at r) in
  if c_timeout cfg then
    (* select takes ctx.Done(): ErrReloadTimeout.  The goroutine goes on: a catch-up of the
       same backend still happens (thread TL); a newly opened backend is closed again *)
    set_r st i (mkR (RFailing FTimeout) (r_cand r) newpath false same sv false (st_last_full st)
                    (r_epoch r) (r_unlock_at r))
  else if same then
    (* rdbdriver.Reload, path == r.path: CatchWithPrimary mutates the served backend, returns it *)
    match dlookup (st_disk st) newpath with
    | Some f =>
        if f_ok f
        then set_r (catch_up st sv f) i (mkR RValidate sv newpath true false sv false (st_last_full st)
                                             (r_epoch r) (r_unlock_at r))
        else set_r st i (rset_pc r1 (RFailing FCatchup))
    | None => set_r st i (rset_pc r1 (RFailing FCatchup))
    end
  else
    (* openCDB / openRDB of newPath *)
    match dlookup (st_disk st) newpath with
    | None => set_r st i (rset_pc r1 (RFailing FMissing))
    | Some f =>
        if f_ok f
        then set_r (set_backs st (st_backs st ++ [mkB newpath (f_stamp f) (f_key f) 0]) (st_epoch st) (st_f5 st))
                   i (mkR RValidate (length (st_backs st)) newpath false false sv false (st_last_full st)
                          (r_epoch r) (r_unlock_at r))
        else set_r st i (rset_pc r1 (RFailing FUnreadable))
    end.

Definition r_step (cfg : config) (st : state) (i : nat) : option state :=
  match nth_error (st_rs st) i, nth_error (c_rs cfg) i with
  | Some r, Some kind =>
    match r_pc r with
    | RStart =>      (* h.reloadMu.Lock(); yield reload_locked *)
        if st_w st || negb (Nat.eqb (st_r st) 0) then None
        else Some (set_r (set_lock st true 0) i (rset_pc r RLocked))
    | RLocked => Some (r_begin cfg st i r kind)
    | RValidate =>   (* ValidateDbKey / validateDbKeyOrDestroy; on success yield reload_done *)
        if c_vkey cfg && negb (b_key (back st (r_cand r)))
        then Some (set_r st i (rset_pc r (RFailing FNoKey)))
        else Some (set_r st i (rset_pc r RReloaded))
    | RReloaded =>   (* h.dnsdb = newDB *)
        let c := r_cand r in
        if Nat.eqb c (st_served st)
        then Some (set_r st i (mkR RSwapPtr c (r_newpath r) (r_inplace r) (r_late r) (r_lateb r) (r_late_done r)
                                   (r_seen_last r) (b_epoch (back st c)) (r_unlock_at r)))
        else
          let e := st_epoch st + 1 in
          let old := back st c in
          let st1 := set_served (set_backs st (upd c (mkB (b_path old) (b_stamp old) (b_key old) e) (st_backs st))
                                           e (st_f5 st)) c in
          Some (set_r st1 i (mkR RSwapPtr c (r_newpath r) (r_inplace r) (r_late r) (r_lateb r) (r_late_done r)
                                 (r_seen_last r) e (r_unlock_at r)))
    | RSwapPtr =>    (* h.dbConfig.Path = newPath; yield reload_swapped *)
        Some (set_r (set_path st (r_newpath r)) i (rset_pc r RSwapped))
    | RSwapped =>    (* h.lru.Purge(); yield reload_purged *)
        let st1 := if c_cache cfg then set_cache st [] (st_epoch st) (st_f6 st) else st in
        Some (set_r st1 i (rset_pc r RPurged))
    | RPurged =>     (* return nil; deferred Unlock *)
        let st1 := match kind with Full p => set_last_full st p | Partial => st end in
        Some (set_r (set_lock st1 false (st_r st)) i
                    (mkR (RDone None) (r_cand r) (r_newpath r) (r_inplace r) (r_late r) (r_lateb r) (r_late_done r)
                         (r_seen_last r) (r_epoch r) (st_clock st)))
    | RFailing k =>  (* return err; deferred Unlock *)
        Some (set_r (set_lock st false (st_r st)) i
                    (mkR (RDone (Some k)) (r_cand r) (r_newpath r) (r_inplace r) (r_late r) (r_lateb r) (r_late_done r)
                         (r_seen_last r) (r_epoch r) (st_clock st)))
    | RDone _ => None
    end
  | _, _ => None
  end.

(* the goroutine of a timed-out db.Reload finishing its catch-up *)
Definition l_step (cfg : config) (st : state) (i : nat) : option state :=
  match nth_error (st_rs st) i with
  | Some r =>
    if r_late r && negb (r_late_done r) then
      let b := r_lateb r in
      let r' := mkR (r_pc r) (r_cand r) (r_newpath r) (r_inplace r) (r_late r) (r_lateb r) true
                    (r_seen_last r) (r_epoch r) (r_unlock_at r) in
      match dlookup (st_disk st) (b_path (back st b)) with
      | Some f => if f_ok f then Some (set_r (catch_up st b f) i r') else Some (set_r st i r')
      | None => Some (set_r st i r')
      end
    else None
  | None => None
  end.

(* the environment replaces the content of a path (cdb: rename over the file;
   rocksdb: the primary is updated and flushed) *)
Definition e_step (cfg : config) (st : state) (i : nat) : option state :=
  match nth_error (st_es st) i, nth_error (c_es cfg) i with
  | Some false, Some e => Some (set_env st ((es_path e, es_file e) :: st_disk st) (upd i true (st_es st)))
  | _, _ => None
  end.

Definition step (cfg : config) (st : state) (t : tid) : option state :=
  match (match t with
         | TQ j => q_step cfg st j
         | TR i => r_step cfg st i
         | TL i => l_step cfg st i
         | TE i => e_step cfg st i
         end) with
  | Some st' => Some (tick st')
  | None => None
  end.

(* a schedule names a thread per step; a step that is not enabled leaves the state as it is
   (the thread stays blocked) *)
Definition step_or_skip (cfg : config) (st : state) (t : tid) : state :=
  match step cfg st t with Some st' => st' | None => st end.

Definition run (cfg : config) (st : state) (sched : list tid) : state :=
  fold_left (step_or_skip cfg) sched st.

(* the response computation proper: any function of the stamp and the key *)
Variable resp : Type.
Variable serve_core : N -> N -> resp.

Definition single (l : list gen) : option gen :=
  match l with
  | [] => None
  | g :: t => if forallb (gen_eqb g) t then Some g else None
  end.

(* what a finished query answered, when it was computed from one generation *)
Definition resp_value (cfg : config) (st : state) (j : nat) : option resp :=
  match nth_error (st_qs st) j, nth_error (c_qs cfg) j with
  | Some q, Some qs =>
      match q_resp q with
      | Some l => match single l with Some g => Some (serve_core (g_stamp g) (qs_key qs)) | None => None end
      | None => None
      end
  | _, _ => None
  end.
End Sem.

(* initial state: the database at path p0 is loaded, nothing runs *)
Definition init (cfg : config) (d : disk) (p0 : N) : state :=
  let f := match dlookup d p0 with Some f => f | None => mkFile 0 true true end in
  mkS d [mkB p0 (f_stamp f) (f_key f) 0] 0 p0 false 0 []
      (map (fun _ => q0) (c_qs cfg)) (map (fun _ => r0) (c_rs cfg)) (map (fun _ => false) (c_es cfg))
      0 0 p0 false false 0.
