(* Utf8: Go's unicode/utf8 DecodeRune / EncodeRune / ValidRune on byte lists,
   after go/src/unicode/utf8/utf8.go (first-byte table + accept ranges). *)
From DnsV Require Export Base.Bytes.
Open Scope N_scope.

Definition rune_error : N := 65533. (* U+FFFD *)

Definition cont (b : N) : bool := (128 <=? b) && (b <=? 191).

(* decode_rune s = (rune, width); width 0 only for the empty string.
   Invalid or short encodings give (RuneError, 1). *)
Definition decode_rune (s : bytes) : N * nat :=
  match s with
  | [] => (rune_error, 0%nat)
  | b0 :: t =>
    if b0 <? 128 then (b0, 1%nat)
    else if (194 <=? b0) && (b0 <=? 223) then
      match t with
      | b1 :: _ => if cont b1 then ((b0 mod 32) * 64 + b1 mod 64, 2%nat) else (rune_error, 1%nat)
      | _ => (rune_error, 1%nat)
      end
    else if (224 <=? b0) && (b0 <=? 239) then
      match t with
      | b1 :: b2 :: _ =>
        let lo := if b0 =? 224 then 160 else 128 in
        let hi := if b0 =? 237 then 159 else 191 in
        if (lo <=? b1) && (b1 <=? hi) && cont b2
        then (((b0 mod 16) * 64 + b1 mod 64) * 64 + b2 mod 64, 3%nat)
        else (rune_error, 1%nat)
      | _ => (rune_error, 1%nat)
      end
    else if (240 <=? b0) && (b0 <=? 244) then
      match t with
      | b1 :: b2 :: b3 :: _ =>
        let lo := if b0 =? 240 then 144 else 128 in
        let hi := if b0 =? 244 then 143 else 191 in
        if (lo <=? b1) && (b1 <=? hi) && cont b2 && cont b3
        then ((((b0 mod 8) * 64 + b1 mod 64) * 64 + b2 mod 64) * 64 + b3 mod 64, 4%nat)
        else (rune_error, 1%nat)
      | _ => (rune_error, 1%nat)
      end
    else (rune_error, 1%nat)
  end.

Definition valid_rune (r : N) : bool :=
  (r <? 55296) || ((57343 <? r) && (r <=? 1114111)).

(* EncodeRune: invalid runes are encoded as U+FFFD *)
Definition encode_rune (r : N) : bytes :=
  if r <? 128 then [r]
  else if r <? 2048 then [192 + r / 64; 128 + r mod 64]
  else if negb (valid_rune r) then [239; 191; 189]
  else if r <? 65536 then [224 + r / 4096; 128 + (r / 64) mod 64; 128 + r mod 64]
  else [240 + r / 262144; 128 + (r / 4096) mod 64; 128 + (r / 64) mod 64; 128 + r mod 64].
