(* Model/SWindow: executable model of metrics/swindow.go (the repaired code:
   dropExpired + cleaner + Samples), NO proofs inside.

   Time is an abstract integer clock (the harness uses microseconds since
   process start); values are Go int64 seen as Z.  A window is the slice
   sw.samples: samples in insertion order, each with its expiry instant. *)
From DnsV Require Import Base.Bytes.
Open Scope Z_scope.

Record sample := mkS { s_val : Z; s_exp : Z }.
Definition window := list sample.

(* Add: sw.samples = append(sw.samples, sample{v, time.Now().Add(lifetime)}) *)
Definition add (L now v : Z) (w : window) : window := w ++ [mkS v (now + L)].

(* the loop of dropExpired:
     newstartidx := 0
     for idx, val := range sw.samples {
         if !val.expires.Before(now) { break }
         newstartidx = idx + 1 }
   i.e. the length of the leading run of samples with expires < now *)
Fixpoint newstart (now : Z) (w : window) : nat :=
  match w with
  | [] => O
  | s :: w' => if s_exp s <? now then S (newstart now w') else O
  end.

(* if newstartidx > 0 { newsamples := copy of sw.samples[newstartidx:]; sw.samples = newsamples } *)
Definition drop_expired (now : Z) (w : window) : window :=
  match newstart now w with
  | O => w
  | n => skipn n w
  end.

(* one cleaner tick: lock; dropExpired(time.Now()); unlock *)
Definition tick (now : Z) (w : window) : window := drop_expired now w.

(* Samples(): lock; dropExpired(time.Now()); copy the values out.
   Returns the new state and the reported values. *)
Definition samples (now : Z) (w : window) : window * list Z :=
  let w' := drop_expired now w in (w', map s_val w').

(* timed histories of one window *)
Inductive wevent :=
| WAdd (t v : Z)     (* Add(v) whose time.Now() returned t *)
| WTick (t : Z)      (* cleaner tick at t *)
| WRead (t : Z).     (* Samples() at t (also what Stats.Get does per window) *)

Definition ev_time (e : wevent) : Z :=
  match e with WAdd t _ => t | WTick t => t | WRead t => t end.

Definition step (L : Z) (w : window) (e : wevent) : window :=
  match e with
  | WAdd t v => add L t v w
  | WTick t => tick t w
  | WRead t => fst (samples t w)
  end.

Definition exec (L : Z) (h : list wevent) : window := fold_left (step L) h [].

(* what a Samples() call at time t returns after history h *)
Definition read_after (L : Z) (h : list wevent) (t : Z) : list Z := snd (samples t (exec L h)).

(* A cleaner tick split in two critical sections (the shape class cleaner-race of the
   harness looks for): scan under the read lock, drop of the counted prefix under the
   write lock taken afterwards; another goroutine may run in between.
   (Go's drop(n) panics when n exceeds the length; skipn returns the empty list.) *)
Definition scan (now : Z) (w : window) : nat := newstart now w.
Definition drop_n (n : nat) (w : window) : window := skipn n w.
(* scan; [export at time t by another goroutine]; drop *)
Definition split_tick_with_export (now t : Z) (w : window) : window :=
  let n := scan now w in
  let w1 := fst (samples t w) in
  drop_n n w1.
