(* Model/ReloadLock: small-step interleaving model of the operations whose
   atomicity Model/Refcount takes for granted.  NO proofs in this file.

   Threads with program counters run FBDNSDB.Reload, FBDNSDB.AcquireReader +
   reader use + Reader.Close, and FBDNSDB.Close (dnsserver/db.go, db/db.go) in
   their sub-steps; a schedule is a list of thread ids, a step of a thread that
   is not enabled (it waits for reloadMu, or it has finished) is a no-op.

   Shared state = the state of Model/Refcount (served wrapper, wrappers with
   refCount / destroyable, backends with their Close count, pins, event log)
   plus reloadMu as a reader/writer lock: [lk_w] the thread holding it for
   writing (at most one by construction), [lk_r] the threads holding it for
   reading (the reader count of the Go RWMutex is the length of this list; same
   vocabulary as st_w / st_r of Model/Reload.v, with holders made explicit).
   The per-DB mutex DB.l is not a component: every sub-step below that touches
   refCount / destroyable is one critical section of DB.l, i.e. one atomic
   step (NewReader; the locked tail of DataReader.Close; Destroy), so Destroy
   and Close(reader) are ordered by the schedule exactly as DB.l orders them.

   Sub-steps
     reader     PStart -RLock-> PRLocked -NewReader-> PPinned -RUnlock-> PHold k
                -ForEach-> PHold (k-1) ... PHold 0 -FreeContext-> PFreed
                -refCount--, close if destroyable and 0-> PDone
                (use and release take no reloadMu)
     reload c   PStart -Lock-> PWLocked -f := h.dnsdb; goroutine calls f.dbi.Reload-> PCalled
                -the call returns c; newDB := &DB{newDBI}-> PRetSame | PRetNew | PFailed
                -ValidateDbKey-> PDestroyed (same, ok) | PFailed (same, key missing)
                                 | PValidOk | PValidFail (new)
                PValidFail -newDB.Destroy()-> PFailed
                PValidOk -f.Destroy()-> PDestroyed -h.dnsdb = newDB-> PSwapped
                PSwapped | PFailed -Unlock-> PDone
     shutdown   PStart -Lock-> PWLocked -h.dnsdb.Destroy()-> PDestroyed -Unlock-> PDone
     reload with timeout (F28)
                PStart -Lock-> PWLocked -call-> PCalled -timeout: destroyNewDbi, Unlock-> PTimedOut
                -the abandoned call returns, late candidate closed-> PDone
                (the last sub-step runs WITHOUT reloadMu)

   TReaderSplit is a reader whose DataReader.Close is NOT one critical section (seeded change
   c06h): PFreed -refCount-- atomically, outside DB.l; done if other readers remain-> PDecd
   -DB.l: close if destroyable and refCount = 0-> PDone.  Used only to show why the release
   must be one critical section.

   [late_lock] switches to the variant in which FBDNSDB.Reload takes the write
   lock only around the swap (seeded change c06f): used to show that the
   theorems are about the lock.

   Outside the quantifier, as in Model/Refcount (wf_hist): AcquireReader and
   Reload are not started after FBDNSDB.Close, Close is not called twice: the
   corresponding Lock/RLock sub-steps are not enabled once [shut] is set. *)
From DnsV Require Import Base.Bytes Spec.Handles Model.Refcount.
Open Scope N_scope.

Inductive tspec :=
| TIdle
| TReader (uses : nat)
| TReload (c : cand)
| TReloadTimeout (c : cand)
| TShutdown
| TReaderSplit (uses : nat).   (* variant c06h: a reader whose release decrements outside DB.l *)

Inductive pc :=
| PStart | PRLocked | PPinned | PHold (n : nat) | PFreed
| PWLocked | PCalled | PRetSame | PRetNew | PValidOk | PValidFail | PDestroyed | PSwapped | PFailed
| PTimedOut | PDecd | PDone.

Record thread := mkT {
  t_spec : tspec;
  t_pc : pc;
  t_f : nat;      (* reload: the wrapper f on which DB.Reload runs (h.dnsdb read under the lock) *)
  t_new : nat }.  (* reload: the wrapper newDB *)

Record sstate := mkSS {
  sh : state;               (* shared state of Model/Refcount *)
  lk_w : option nat;        (* reloadMu: writer *)
  lk_r : list nat;          (* reloadMu: readers *)
  ths : nat -> thread;
  late_lock : bool }.       (* variant: write lock only around the swap *)

Definition set_pc (th : thread) (p : pc) : thread := mkT (t_spec th) p (t_f th) (t_new th).

Definition upd_sh (ss : sstate) (t : nat) (th : thread) (s : state) : sstate :=
  mkSS s (lk_w ss) (lk_r ss) (fupd (ths ss) t th) (late_lock ss).

Definition lock_free (ss : sstate) : bool :=
  match lk_w ss, lk_r ss with None, [] => true | _, _ => false end.

Fixpoint remove_tid (t : nat) (l : list nat) : list nat :=
  match l with [] => [] | x :: l' => if Nat.eqb x t then l' else x :: remove_tid t l' end.

(* the tail of DataReader.Close that runs under DB.l: refCount--, close when destroyable and zero *)
Definition w_reader_unpin (w : wrapper) (s : state) : wrapper * state :=
  let w1 := w_set_ref w (dec64 (w_ref w)) in
  if w_destroyable w1 && (w_ref w1 =? 0) then (w1, bclose (w_bk w) s) else (w1, s).

(* ValidateDbKey on a stored wrapper *)
Definition w_validate_st (k : bool) (w : wrapper) (s : state) : wrapper * state :=
  let '(w', s', _) := w_validate w k s in (w', s').

Definition sstep (t : nat) (ss : sstate) : option sstate :=
  let th := ths ss t in
  let s := sh ss in
  match t_spec th, t_pc th with
  (* ---- reader *)
  | TReader _, PStart =>
      match lk_w ss with
      | None => if shut s then None
                else Some (mkSS s None (t :: lk_r ss) (fupd (ths ss) t (set_pc th PRLocked)) (late_lock ss))
      | Some _ => None
      end
  | TReader _, PRLocked => Some (upd_sh ss t (set_pc th PPinned) (step (Acquire t) s))
  | TReader k, PPinned =>
      Some (mkSS s (lk_w ss) (remove_tid t (lk_r ss)) (fupd (ths ss) t (set_pc th (PHold k))) (late_lock ss))
  | TReader _, PHold (S j) => Some (upd_sh ss t (set_pc th (PHold j)) (step (Use t) s))
  | TReader _, PHold O =>
      match lookup t (readers s) with
      | Some i => Some (upd_sh ss t (set_pc th PFreed) (touch (w_bk (ws s i)) OpFreeContext s))
      | None => None
      end
  | TReader _, PFreed =>
      match lookup t (readers s) with
      | Some i => let s1 := on_wrapper i w_reader_unpin s in
                  Some (upd_sh ss t (set_pc th PDone) (set_readers (remove_r t (readers s1)) s1))
      | None => None
      end
  (* ---- reader with the split release (c06h); up to FreeContext like TReader *)
  | TReaderSplit _, PStart =>
      match lk_w ss with
      | None => if shut s then None
                else Some (mkSS s None (t :: lk_r ss) (fupd (ths ss) t (set_pc th PRLocked)) (late_lock ss))
      | Some _ => None
      end
  | TReaderSplit _, PRLocked => Some (upd_sh ss t (set_pc th PPinned) (step (Acquire t) s))
  | TReaderSplit k, PPinned =>
      Some (mkSS s (lk_w ss) (remove_tid t (lk_r ss)) (fupd (ths ss) t (set_pc th (PHold k))) (late_lock ss))
  | TReaderSplit _, PHold (S j) => Some (upd_sh ss t (set_pc th (PHold j)) (step (Use t) s))
  | TReaderSplit _, PHold O =>
      match lookup t (readers s) with
      | Some i => Some (upd_sh ss t (set_pc th PFreed) (touch (w_bk (ws s i)) OpFreeContext s))
      | None => None
      end
  | TReaderSplit _, PFreed =>
      (* atomic.AddUint64(&refCount, ^0) without DB.l; only the reader that reaches 0 goes on *)
      match lookup t (readers s) with
      | Some i =>
          let w1 := w_set_ref (ws s i) (dec64 (w_ref (ws s i))) in
          let s1 := set_readers (remove_r t (readers s)) (set_ws (nw s) (fupd (ws s) i w1) s) in
          Some (upd_sh ss t (mkT (t_spec th) (if w_ref w1 =? 0 then PDecd else PDone) i (t_new th)) s1)
      | None => None
      end
  | TReaderSplit _, PDecd =>
      (* DB.l: if destroyable && refCount == 0 then dbi.Close() *)
      let w := ws s (t_f th) in
      Some (upd_sh ss t (set_pc th PDone)
              (if w_destroyable w && (w_ref w =? 0) then bclose (w_bk w) s else s))
  (* ---- reload *)
  | TReload _, PStart =>
      if shut s then None
      else if late_lock ss then Some (upd_sh ss t (set_pc th PWLocked) s)
      else if lock_free ss
           then Some (mkSS s (Some t) [] (fupd (ths ss) t (set_pc th PWLocked)) (late_lock ss))
           else None
  | TReload _, PWLocked | TReloadTimeout _, PWLocked =>
      let f := served s in
      Some (upd_sh ss t (mkT (t_spec th) PCalled f (t_new th)) (go_reload_begin (ws s f) s))
  | TReload c, PCalled =>
      let f := ws s (t_f th) in
      let '(local, s1) := go_reload_end f c s in
      match local with
      | None => Some (upd_sh ss t (set_pc th PFailed) s1)
      | Some b' =>
          if Nat.eqb b' (w_bk f) then Some (upd_sh ss t (set_pc th PRetSame) s1)
          else Some (upd_sh ss t (mkT (t_spec th) PRetNew (t_f th) (nw s1)) (add_wrapper (mkW b' 0 false) s1))
      end
  | TReload c, PRetSame =>
      let '(_, s1, ok) := w_validate (mkW (w_bk (ws s (t_f th))) 0 false) (cand_key c) s in
      if ok then Some (upd_sh ss t (mkT (t_spec th) PDestroyed (t_f th) (t_f th)) s1)
      else Some (upd_sh ss t (set_pc th PFailed) s1)
  | TReload c, PRetNew =>
      let s1 := on_wrapper (t_new th) (w_validate_st (cand_key c)) s in
      Some (upd_sh ss t (set_pc th (if cand_key c then PValidOk else PValidFail)) s1)
  | TReload _, PValidFail => Some (upd_sh ss t (set_pc th PFailed) (on_wrapper (t_new th) w_destroy s))
  | TReload _, PValidOk => Some (upd_sh ss t (set_pc th PDestroyed) (on_wrapper (t_f th) w_destroy s))
  | TReload _, PDestroyed =>
      if late_lock ss then
        if lock_free ss
        then Some (mkSS (set_served (t_new th) s) (Some t) [] (fupd (ths ss) t (set_pc th PSwapped)) true)
        else None
      else Some (upd_sh ss t (set_pc th PSwapped) (set_served (t_new th) s))
  | TReload _, PSwapped | TReload _, PFailed =>
      Some (mkSS s (match lk_w ss with Some t' => if Nat.eqb t' t then None else Some t' | None => None end)
                (lk_r ss) (fupd (ths ss) t (set_pc th PDone)) (late_lock ss))
  (* ---- shutdown *)
  | TShutdown, PStart =>
      if shut s then None
      else if lock_free ss
           then Some (mkSS s (Some t) [] (fupd (ths ss) t (set_pc th PWLocked)) (late_lock ss))
           else None
  | TShutdown, PWLocked => Some (upd_sh ss t (set_pc th PDestroyed) (step Shutdown s))
  | TShutdown, PDestroyed => Some (mkSS s None (lk_r ss) (fupd (ths ss) t (set_pc th PDone)) (late_lock ss))
  (* ---- reload that times out (F28) *)
  | TReloadTimeout _, PStart =>
      if shut s then None
      else if lock_free ss
           then Some (mkSS s (Some t) [] (fupd (ths ss) t (set_pc th PWLocked)) (late_lock ss))
           else None
  | TReloadTimeout _, PCalled =>
      Some (mkSS s None (lk_r ss) (fupd (ths ss) t (set_pc th PTimedOut)) (late_lock ss))
  | TReloadTimeout c, PTimedOut =>
      let f := ws s (t_f th) in
      let '(local, s1) := go_reload_end f c s in
      let s2 := match local with
                | Some b' => if negb (Nat.eqb b' (w_bk f)) then bclose b' s1 else s1
                | None => s1
                end in
      Some (upd_sh ss t (set_pc th PDone) s2)
  | _, _ => None
  end.

(* a schedule: thread ids; a thread that cannot move leaves the state alone *)
Definition sstep_or_stay (ss : sstate) (t : nat) : sstate :=
  match sstep t ss with Some ss' => ss' | None => ss end.
Definition srun (sched : list nat) (ss : sstate) : sstate := fold_left sstep_or_stay sched ss.

(* initial configuration: the server right after Load, threads as specified *)
Definition mk_ths (specs : list tspec) : nat -> thread :=
  fun t => mkT (nth t specs TIdle) PStart 0 0.
Definition sinit (specs : list tspec) (late : bool) : sstate := mkSS init None [] (mk_ths specs) late.

(* the variant thread kinds (a reload that times out: F28; a split release: c06h) are
   excluded from the positive theorems and used in the refutations *)
Definition is_variant (sp : tspec) : bool :=
  match sp with TReloadTimeout _ | TReaderSplit _ => true | _ => false end.
Definition no_variants (specs : list tspec) : bool := forallb (fun sp => negb (is_variant sp)) specs.

Definition finished (th : thread) : bool :=
  match t_spec th, t_pc th with TIdle, _ => true | _, PDone => true | _, _ => false end.
