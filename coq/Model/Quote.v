(* Quote: dnsdata/quote/quote.go (Bquote, Bunquote) with the parts of Go's
   strconv they call (Quote = appendQuotedWith/appendEscapedRune with quote = double-quote,
   ASCIIonly=false, graphicOnly=false; UnquoteChar with quote 0), written after
   the Go source statement by statement.  strconv.IsPrint on runes >= 0x80 is a
   parameter (an oracle); on ASCII it is fixed (0x20..0x7e).
   No proofs here: this file must keep evaluating when a proof breaks. *)
From DnsV Require Export Base.Bytes Model.Utf8.
Open Scope N_scope.

Definition hexdigit (n : N) : N := if n <? 10 then 48 + n else 87 + n. (* lowerhex *)

Definition is_print (oracle : N -> bool) (r : N) : bool :=
  if r <? 128 then (32 <=? r) && (r <=? 126) else oracle r.

Definition hex2 (b : N) : bytes := [hexdigit ((b / 16) mod 16); hexdigit (b mod 16)].
Definition hex4 (r : N) : bytes :=
  [hexdigit ((r / 4096) mod 16); hexdigit ((r / 256) mod 16); hexdigit ((r / 16) mod 16); hexdigit (r mod 16)].
Definition hex8 (r : N) : bytes :=
  [hexdigit ((r / 268435456) mod 16); hexdigit ((r / 16777216) mod 16);
   hexdigit ((r / 1048576) mod 16); hexdigit ((r / 65536) mod 16)] ++ hex4 r.

(* appendEscapedRune buf r dquote false false *)
Definition escaped_rune (oracle : N -> bool) (r : N) : bytes :=
  if (r =? 34) || (r =? 92) then [92; r]
  else if is_print oracle r then encode_rune r
  else if r =? 7 then [92; 97]
  else if r =? 8 then [92; 98]
  else if r =? 12 then [92; 102]
  else if r =? 10 then [92; 110]
  else if r =? 13 then [92; 114]
  else if r =? 9 then [92; 116]
  else if r =? 11 then [92; 118]
  else if (r <? 32) || (r =? 127) then 92 :: 120 :: hex2 r
  else if negb (valid_rune r) then 92 :: 117 :: hex4 rune_error
  else if r <? 65536 then 92 :: 117 :: hex4 r
  else 92 :: 85 :: hex8 r.

(* body of strconv.Quote (without the surrounding quotes); fuel = length s suffices *)
Fixpoint quote_body (oracle : N -> bool) (fuel : nat) (s : bytes) : bytes :=
  match fuel with
  | O => []
  | S fuel' =>
    match s with
    | [] => []
    | b0 :: t =>
      let '(r, w) := if b0 <? 128 then (b0, 1%nat) else decode_rune s in
      if (Nat.eqb w 1) && (r =? rune_error)
      then 92 :: 120 :: hex2 b0 ++ quote_body oracle fuel' t
      else escaped_rune oracle r ++ quote_body oracle fuel' (skipn w s)
    end
  end.

Definition go_quote (oracle : N -> bool) (s : bytes) : bytes :=
  34 :: quote_body oracle (length s) s ++ [34].

Fixpoint contains (c : N) (s : bytes) : bool :=
  match s with [] => false | x :: t => (x =? c) || contains c t end.

(* bytes.ReplaceAll s [c] rep *)
Fixpoint replace1 (c : N) (rep : bytes) (s : bytes) : bytes :=
  match s with [] => [] | x :: t => (if x =? c then rep else [x]) ++ replace1 c rep t end.

(* bytes.ReplaceAll s backslash-dquote dquote : leftmost, non overlapping *)
Fixpoint unescape_dquote (s : bytes) : bytes :=
  match s with
  | [] => []
  | x :: t =>
    match t with
    | y :: t' => if (x =? 92) && (y =? 34) then 34 :: unescape_dquote t' else x :: unescape_dquote t
    | [] => [x]
    end
  end.

Definition strip_ends (s : bytes) : bytes := removelast (tl s). (* s[1:len(s)-1] *)

Definition bquote (oracle : N -> bool) (b : bytes) : bytes :=
  let s := go_quote oracle b in
  let s := if contains 44 s then replace1 44 [92; 48; 53; 52] s else s in
  let s := if contains 58 s then replace1 58 [92; 48; 55; 50] s else s in
  if (length s <? 2)%nat then b
  else unescape_dquote (strip_ends s).

(* ---- UnquoteChar(s, 0) ---- *)
Definition unhex (c : N) : option N :=
  if (48 <=? c) && (c <=? 57) then Some (c - 48)
  else if (97 <=? c) && (c <=? 102) then Some (c - 97 + 10)
  else if (65 <=? c) && (c <=? 70) then Some (c - 65 + 10)
  else None.

Fixpoint unhex_n (n : nat) (s : bytes) (v : N) : option (N * bytes) :=
  match n with
  | O => Some (v, s)
  | S n' => match s with
            | c :: t => match unhex c with Some x => unhex_n n' t (v * 16 + x) | None => None end
            | [] => None
            end
  end.

Definition octal (c : N) : option N := if (48 <=? c) && (c <=? 55) then Some (c - 48) else None.

(* value, multibyte, tail *)
Definition unquote_char (s : bytes) : result (N * bool * bytes) :=
  match s with
  | [] => Err 1
  | c :: t =>
    if 128 <=? c then let '(r, w) := decode_rune s in Ok (r, true, skipn w s)
    else if negb (c =? 92) then Ok (c, false, t)
    else match t with
      | [] => Err 1
      | e :: u =>
        if e =? 97 then Ok (7, false, u)
        else if e =? 98 then Ok (8, false, u)
        else if e =? 102 then Ok (12, false, u)
        else if e =? 110 then Ok (10, false, u)
        else if e =? 114 then Ok (13, false, u)
        else if e =? 116 then Ok (9, false, u)
        else if e =? 118 then Ok (11, false, u)
        else if e =? 120 then
          match unhex_n 2 u 0 with Some (v, u') => Ok (v, false, u') | None => Err 1 end
        else if e =? 117 then
          match unhex_n 4 u 0 with
          | Some (v, u') => if valid_rune v then Ok (v, true, u') else Err 1
          | None => Err 1 end
        else if e =? 85 then
          match unhex_n 8 u 0 with
          | Some (v, u') => if valid_rune v then Ok (v, true, u') else Err 1
          | None => Err 1 end
        else match octal e with
          | Some d0 =>
            match u with
            | c1 :: c2 :: u' =>
              match octal c1, octal c2 with
              | Some d1, Some d2 =>
                let v := (d0 * 8 + d1) * 8 + d2 in
                if 255 <? v then Err 1 else Ok (v, false, u')
              | _, _ => Err 1
              end
            | _ => Err 1
            end
          | None => if e =? 92 then Ok (92, false, u) else Err 1
          end
      end
  end.

(* the loop of Bunquote; fuel = length s suffices since every step consumes >= 1 byte *)
Fixpoint unquote_loop (fuel : nat) (s : bytes) : result bytes :=
  match s with
  | [] => Ok []
  | _ =>
    match fuel with
    | O => Err 2
    | S fuel' =>
      match unquote_char s with
      | Err e => Err e
      | Ok (c, multibyte, ss) =>
        match unquote_loop fuel' ss with
        | Err e => Err e
        | Ok rest => Ok ((if (c <? 128) || negb multibyte then [c mod 256] else encode_rune c) ++ rest)
        end
      end
    end
  end.

Definition bunquote (b : bytes) : result bytes :=
  match b with
  | [] => Ok b
  | _ => if negb (contains 92 b) then Ok b else unquote_loop (length b) b
  end.

(* field splitting of dnsdata/data.go: the separator is the first ',' or ':' seen *)
Fixpoint first_sep (s : bytes) : option N :=
  match s with
  | [] => None
  | x :: t => if (x =? 44) || (x =? 58) then Some x else first_sep t
  end.

Fixpoint split_on (c : N) (s : bytes) (cur : bytes) : list bytes :=
  match s with
  | [] => [rev cur]
  | x :: t => if x =? c then rev cur :: split_on c t [] else split_on c t (x :: cur)
  end.
