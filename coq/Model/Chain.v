(* Model/Chain: the path of one DNS message through a dnsrocks listener
   (fbserver/server.go Start, lines 203-363):

     miekg server loop:  MsgAcceptFunc on the header      (dns@v1.1.50 server.go serveDNS, acceptfunc.go)
       -> serveMux        question-count guard             (fbserver/serve_mux.go)
       -> maxAnswerHandler  puts this listener's max answer in the context (fbserver/maxanswer.go)
       -> anyHandler      only if RefuseANY                (fbserver/any.go, RFC 8482 HINFO)
       -> whoami.Handler  only if WhoamiDomain is set      (whoami/common.go)
       -> FBDNSDB         the database handler             (dnsserver/handler.go)

   The DNSSEC and DoT-TLSA handlers are not installed in the configurations of
   C20 (their flags are empty) and are not modelled.

   The database handler is a parameter [serve : max answer -> env -> request ->
   outcome].  Its last step writeAndLog (SizeAndDo, then Scrub = Msg.Truncate) is
   modelled separately below over an abstract length accounting.

   Names are miekg presentation strings (bytes of the Go string, trailing dot),
   which are ASCII: Unpack escapes every byte outside 0x21..0x7e.
   Executable definitions only; proofs are in Proofs/Chain.v. *)
From DnsV Require Import Base.Bytes.
Open Scope N_scope.

(* ------------------------------------------------------------------ messages *)

Record question := mkQ { qname : bytes; qtype : N; qclass : N }.
(* a resource record as on the wire: OPT is the record of type 41 whose class is
   the UDP size and whose ttl holds extended rcode / version / flags *)
Record rr := mkRR { rname : bytes; rtype : N; rclass : N; rttl : N; rdata : bytes }.
Record header := mkH { hid : N; hqr : bool; hopcode : N; haa : bool; htc : bool; hrd : bool;
                       hra : bool; hz : bool; had : bool; hcd : bool; hrcode : N }.
Record msg := mkM { mh : header; mq : list question; man : list rr; mns : list rr; mex : list rr }.

Definition TypeHINFO := 13.
Definition TypeTXT := 16.
Definition TypeOPT := 41.
Definition TypeTSIG := 250.
Definition TypeANY := 255.
Definition ClassINET := 1.
Definition OpcodeQuery := 0.
Definition OpcodeNotify := 4.
Definition RcodeFormatError := 1.
Definition RcodeServerFailure := 2.
Definition RcodeNotImplemented := 4.

(* what the client observes.  Panic = an index-out-of-range in a handler; the
   miekg server runs handlers in goroutines without recover, so the process dies *)
Inductive outcome := Reply (m : msg) | NoReply | Panic.

(* what the handlers read through the ResponseWriter, and the String() of the
   request's client-subnet option (formatting is miekg's, taken as given) *)
Inductive transport := Udp | Tcp.
Record env := mkEnv { proto : transport; remote_addr : bytes; local_addr : bytes; local_ip : bytes;
                      ecs_str : option bytes }.

(* ------------------------------------------------------------------ strings *)

Definition lower_byte (b : N) : N := if (65 <=? b) && (b <=? 90) then b + 32 else b.
(* strings.ToLower on an ASCII string *)
Definition lower (s : bytes) : bytes := map lower_byte s.

Fixpoint count_bs (r : bytes) : nat :=
  match r with 92 :: t => S (count_bs t) | _ => O end.
(* dns.IsFqdn: ends with a dot that is not escaped *)
Definition is_fqdn (s : bytes) : bool :=
  match rev s with 46 :: r => Nat.even (count_bs r) | _ => false end.
(* dns.Fqdn *)
Definition fqdn (s : bytes) : bytes := if is_fqdn s then s else s ++ [46].

(* ------------------------------------------------------------------ configuration *)

Inductive accept_mode := AcceptDefault | AcceptAll.
(* one listener: ServerConfig.WhoamiDomain (raw flag value), RefuseANY, the
   max answer of this listener's address in IPAns; accept = the server's
   MsgAcceptFunc (miekg's default in production) *)
Record config := mkCfg { whoami_flag : bytes; refuse_any : bool; accept : accept_mode; max_answer : N }.

(* server.go:239-241 and whoami.NewWhoami: lower-cased fully qualified name; the
   handler is installed only for a non-empty flag *)
Definition whoami_domain (cfg : config) : option bytes :=
  match whoami_flag cfg with
  | [] => None
  | d => Some (lower (fqdn (lower (fqdn d))))
  end.

(* ------------------------------------------------------------------ miekg helpers *)

(* Msg.SetReply *)
Definition set_reply (r : msg) : msg :=
  let h := mh r in
  let isq := hopcode h =? OpcodeQuery in
  mkM (mkH (hid h) true (hopcode h) false false (isq && hrd h) false false false (isq && hcd h) 0)
      (match mq r with [] => [] | q :: _ => [q] end) [] [] [].

Definition with_rcode (m : msg) (rc : N) : msg :=
  let h := mh m in
  mkM (mkH (hid h) (hqr h) (hopcode h) (haa h) (htc h) (hrd h) (hra h) (hz h) (had h) (hcd h) rc)
      (mq m) (man m) (mns m) (mex m).

Definition with_aa (m : msg) (b : bool) : msg :=
  let h := mh m in
  mkM (mkH (hid h) (hqr h) (hopcode h) b (htc h) (hrd h) (hra h) (hz h) (had h) (hcd h) (hrcode h))
      (mq m) (man m) (mns m) (mex m).

Definition with_tc (m : msg) (b : bool) : msg :=
  let h := mh m in
  mkM (mkH (hid h) (hqr h) (hopcode h) (haa h) b (hrd h) (hra h) (hz h) (had h) (hcd h) (hrcode h))
      (mq m) (man m) (mns m) (mex m).

(* dns.HandleFailed *)
Definition handle_failed (r : msg) : msg := with_rcode (set_reply r) RcodeServerFailure.

(* Msg.IsEdns0 / popEdns0: the LAST record of type OPT in the additional section *)
Definition is_opt (r : rr) : bool := rtype r =? TypeOPT.
Fixpoint pop_last_opt (ex : list rr) : option rr * list rr :=
  match ex with
  | [] => (None, [])
  | r :: t =>
      match pop_last_opt t with
      | (Some o, t') => (Some o, r :: t')
      | (None, t') => if is_opt r then (Some r, t') else (None, r :: t')
      end
  end.
Definition last_opt (ex : list rr) : option rr := fst (pop_last_opt ex).

(* ------------------------------------------------------------------ transport front (miekg) *)

Inductive action := Accept | Reject | RejectNotImplemented | Ignore.

(* acceptfunc.go defaultMsgAcceptFunc, on the counts of the wire header *)
Definition default_accept (r : msg) : action :=
  let h := mh r in
  if hqr h then Ignore
  else if negb ((hopcode h =? OpcodeQuery) || (hopcode h =? OpcodeNotify)) then RejectNotImplemented
  else if negb (nlen (mq r) =? 1) then Reject
  else if 1 <? nlen (man r) then Reject
  else if 1 <? nlen (mns r) then Reject
  else if 2 <? nlen (mex r) then Reject
  else Accept.

Definition accept_action (cfg : config) (r : msg) : action :=
  match accept cfg with AcceptAll => Accept | AcceptDefault => default_accept r end.

Definition accepted (cfg : config) (r : msg) : bool :=
  match accept_action cfg r with Accept => true | _ => false end.

(* server.go serveDNS, cases MsgReject / MsgRejectNotImplemented: only the header
   was read; SetRcodeFormatError, Zero cleared, all sections empty *)
Definition reject_reply (r : msg) (notimpl : bool) : msg :=
  let h := mh r in
  mkM (mkH (hid h) true (if notimpl then hopcode h else OpcodeQuery) false (htc h) (hrd h) (hra h)
           false (had h) (hcd h) (if notimpl then RcodeNotImplemented else RcodeFormatError))
      [] [] [] [].

(* ------------------------------------------------------------------ anyHandler *)

(* "RFC 8482" and the empty string as two character-strings *)
Definition hinfo_rdata : bytes := [8; 82; 70; 67; 32; 56; 52; 56; 50; 0].

Definition any_reply (r : msg) (q : question) : msg :=
  let m := set_reply r in
  mkM (mh m) (mq m) [mkRR (qname q) TypeHINFO ClassINET 86400 hinfo_rdata] [] [].

Definition any_handler (r : msg) (next : outcome) : outcome :=
  match mq r with
  | [] => Panic                                   (* r.Question[0] *)
  | q :: _ => if qtype q =? TypeANY then Reply (any_reply r q) else next
  end.

(* ------------------------------------------------------------------ SizeAndDo *)

Definition supported_option (code : N) : bool :=
  (code =? 3) || (code =? 9) || (code =? 10) || (code =? 11) || (code =? 12).
(* request.supportedOptions on the option list in wire form: code(2) length(2) data.
   No option code is registered through edns.SetSupportedOption in dnsrocks. *)
Fixpoint opts_filter (fuel : nat) (b : bytes) : bytes :=
  match fuel with
  | O => []
  | S f =>
      match b with
      | c1 :: c2 :: l1 :: l2 :: t =>
          let n := N.to_nat (l1 * 256 + l2) in
          (if supported_option (c1 * 256 + c2) then c1 :: c2 :: l1 :: l2 :: firstn n t else [])
            ++ opts_filter f (skipn n t)
      | _ => []
      end
  end.
Definition supported_options (b : bytes) : bytes := opts_filter (length b) b.

Definition DO_bit := 32768.
Definition opt_do (o : rr) : bool := negb (N.land (rttl o) DO_bit =? 0).

(* the reply has its own OPT: normalise it in place *)
Definition opt_normalise (req_opt mo : rr) : rr :=
  let t := N.land (N.land (rttl mo) 4278255615) 65280 in     (* SetVersion(0); Ttl &= 0xff00 *)
  mkRR [46] TypeOPT (rclass req_opt) (if opt_do req_opt then N.lor t DO_bit else t) (rdata mo).
(* the reply has none: the request's OPT is reused *)
Definition opt_reuse (o : rr) : rr :=
  mkRR [46] TypeOPT (rclass o) (N.land (N.land (rttl o) 4278255615) 65280)
       (supported_options (rdata o)).

Fixpoint replace_last_opt (ex : list rr) (f : rr -> rr) : list rr * bool :=
  match ex with
  | [] => ([], false)
  | r :: t =>
      match replace_last_opt t f with
      | (t', true) => (r :: t', true)
      | (t', false) => if is_opt r then (f r :: t', true) else (r :: t', false)
      end
  end.

Definition size_and_do (req m : msg) : msg :=
  match last_opt (mex req) with
  | None => m
  | Some o =>
      match last_opt (mex m) with
      | Some _ => mkM (mh m) (mq m) (man m) (mns m) (fst (replace_last_opt (mex m) (opt_normalise o)))
      | None => mkM (mh m) (mq m) (man m) (mns m) (mex m ++ [opt_reuse o])
      end
  end.

(* Request.Size: advertised UDP size, at least 512; 64K over TCP *)
Definition MinMsgSize := 512.
Definition MaxMsgSize := 65535.
Definition req_size (e : env) (req : msg) : N :=
  match proto e with
  | Tcp => MaxMsgSize
  | Udp => let s := match last_opt (mex req) with Some o => rclass o | None => 0 end in
           if s <? MinMsgSize then MinMsgSize else s
  end.

(* ------------------------------------------------------------------ Truncate / Scrub / whoami / chain *)

Section Sized.
(* the length accounting of (dns.Msg).Truncate (msg_truncate.go):
   ulen m      uncompressed length of the whole message
   base m      header + question section with compression
   rlen ctx r  compressed length of record r when the records ctx (in message
               order, after the questions) have been laid out before it
   optlen o    Len of the OPT record (root owner: unaffected by compression) *)
Variable ulen : msg -> N.
Variable base : msg -> N.
Variable rlen : list rr -> rr -> N.
Variable optlen : rr -> N.

(* truncateLoop: returns (l, number kept, context) *)
Fixpoint trunc_loop (rrs : list rr) (size l : N) (ctx : list rr) (i : nat) : N * nat * list rr :=
  match rrs with
  | [] => (l, i, ctx)
  | r :: t =>
      let l' := l + rlen ctx r in
      if size <? l' then (size, i, ctx)
      else if l' =? size then (l', S i, ctx ++ [r])
      else trunc_loop t size l' (ctx ++ [r]) (S i)
  end.

Definition is_tsig (m : msg) : bool :=
  match rev (mex m) with r :: _ => rtype r =? TypeTSIG | [] => false end.

Definition trunc_stage (rrs : list rr) (size l : N) (ctx : list rr) : N * nat * list rr :=
  if l <? size then trunc_loop rrs size l ctx O else (l, O, ctx).

(* Go computes [size -= Len(edns0)] on int; here truncated subtraction: a negative
   budget and a zero budget both keep nothing (l >= 12 > budget) *)
Definition truncate (size : N) (m : msg) : msg :=
  if is_tsig m then m else
  let size := if size <? MinMsgSize then MinMsgSize else size in
  if ulen m <=? size then m
  else
    let '(edns0, extra) := pop_last_opt (mex m) in
    let size' := match edns0 with Some o => size - optlen o | None => size end in
    let '(l1, na, c1) := trunc_stage (man m) size' (base m) [] in
    let '(l2, nn, c2) := trunc_stage (mns m) size' l1 c1 in
    let '(_, ne, _) := trunc_stage extra size' l2 c2 in
    let tc := htc (mh m) || Nat.ltb na (length (man m)) || Nat.ltb nn (length (mns m))
              || Nat.ltb ne (length extra) in
    let m' := with_tc m tc in
    mkM (mh m') (mq m) (firstn na (man m)) (firstn nn (mns m))
        (firstn ne extra ++ match edns0 with Some o => [o] | None => [] end).

(* request.Scrub: Truncate to the request's size.  The Compress flag it may set
   afterwards only changes the encoding, not the records. *)
Definition scrub (e : env) (req m : msg) : msg := truncate (req_size e req) m.

(* dnsserver/handler.go writeAndLog, on the message the handler has built *)
Definition write_and_log (e : env) (req m : msg) : msg := scrub e req (size_and_do req m).

(* ---------------------------------------------------------------- whoami *)

Definition s_cluster : bytes := [99;108;117;115;116;101;114;32;110;111;116;97;118;97;105;108;97;98;108;101].
Definition s_protocol : bytes := [112;114;111;116;111;99;111;108;32].
Definition s_source : bytes := [115;111;117;114;99;101;32].
Definition s_destination : bytes := [100;101;115;116;105;110;97;116;105;111;110;32].
Definition s_ecs : bytes := [101;99;115;32].
Definition proto_name (t : transport) : bytes := match t with Udp => [85;68;80] | Tcp => [84;67;80] end.

(* one TXT record holding one character-string (shorter than 256 bytes), TTL 0,
   owner = the question name as sent, class = the question class *)
Definition whoami_txt (q : question) (s : bytes) : rr :=
  mkRR (qname q) TypeTXT (qclass q) 0 (nlen s :: s).

Definition whoami_answers (e : env) (q : question) : list rr :=
  if qtype q =? TypeTXT then
    [whoami_txt q s_cluster; whoami_txt q (s_protocol ++ proto_name (proto e));
     whoami_txt q (s_source ++ remote_addr e)]
    ++ (if bytes_eqb (local_ip e) [58; 58] then [] else [whoami_txt q (s_destination ++ local_addr e)])
    ++ (match ecs_str e with Some s => [whoami_txt q (s_ecs ++ s)] | None => [] end)
  else [].

Definition whoami_reply (e : env) (r : msg) (q : question) : msg :=
  let m := with_aa (set_reply r) true in
  scrub e r (size_and_do r (mkM (mh m) (mq m) (whoami_answers e q) [] [])).

(* whoami/common.go:38: same length and equal after lower-casing *)
Definition whoami_name_match (dom : bytes) (q : question) : bool :=
  Nat.eqb (length (qname q)) (length dom) && bytes_eqb (lower (qname q)) dom.

Definition whoami_handler (dom : bytes) (e : env) (r : msg) (next : outcome) : outcome :=
  match mq r with
  | [] => Panic                                   (* r.Question[0] *)
  | q :: _ => if whoami_name_match dom q then Reply (whoami_reply e r q) else next
  end.

(* ---------------------------------------------------------------- the chain *)

(* the database handler, given the max answer found in the context *)
Variable serve : N -> env -> msg -> outcome.

Definition whoami_stage (cfg : config) (e : env) (r : msg) (next : outcome) : outcome :=
  match whoami_domain cfg with Some d => whoami_handler d e r next | None => next end.

Definition any_stage (cfg : config) (r : msg) (next : outcome) : outcome :=
  if refuse_any cfg then any_handler r next else next.

(* maxAnswerHandler.ServeDNS: context value = this listener's max answer *)
Definition max_answer_stage (cfg : config) (e : env) (r : msg) : outcome :=
  any_stage cfg r (whoami_stage cfg e r (serve (max_answer cfg) e r)).

(* serveMux.ServeDNS *)
Definition serve_mux (cfg : config) (e : env) (r : msg) : outcome :=
  match mq r with
  | [] => Reply (handle_failed r)
  | _ :: _ => max_answer_stage cfg e r
  end.

(* the same chain with the question-count guard taken out (for the lemma that
   shows what the guard is for) *)
Definition serve_mux_noguard (cfg : config) (e : env) (r : msg) : outcome := max_answer_stage cfg e r.

(* one listener of a running server: miekg's accept step, then the handler *)
Definition server (cfg : config) (e : env) (r : msg) : outcome :=
  match accept_action cfg r with
  | Accept => serve_mux cfg e r
  | Reject => Reply (reject_reply r false)
  | RejectNotImplemented => Reply (reject_reply r true)
  | Ignore => NoReply
  end.

End Sized.

(* which front handler answers (used by the statements and by the spec) *)
Definition any_refused (cfg : config) (q : question) : bool := refuse_any cfg && (qtype q =? TypeANY).
Definition whoami_matched (cfg : config) (q : question) : bool :=
  match whoami_domain cfg with Some d => whoami_name_match d q | None => false end.
