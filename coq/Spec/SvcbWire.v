(* SvcbWire: the specification side of C18, independent of Model/Svcb.v.
   (1) [rfc_decode]: a decoder of the SvcParams wire form of RFC 9460 section 2.2:
       a sequence of (SvcParamKey u16, length u16, value) that exactly fills the data,
       keys in strictly increasing order (hence no repetition), and the per-key value
       syntax of section 7 (and 8 for mandatory):
         mandatory (0)        one or more u16 keys, strictly increasing, never key 0,
                              each of them present in the list
         alpn (1)             one or more alpn-ids, each 1 to 255 octets behind a length octet,
                              exactly filling the value
         no-default-alpn (2)  empty value
         port (3)             exactly two octets
         ipv4hint (4)         one or more 4-octet addresses
         ech (5)              opaque
         ipv6hint (6)         one or more 16-octet addresses
         any other key        opaque
       (the client-side self-consistency rule that no-default-alpn requires alpn is not a
        wire-format rule and is not checked; the pinned unit tests accept such lists)
   (2) [declared]: the keys and values a parameter text DECLARES, read off the text without
       producing any wire byte: segments between ';' up to the first empty segment (the
       accepted grammar: a trailing ';' ends the list; see the remark in Model/Svcb.v),
       key name before the first '=', value with the surrounding double quotes removed,
       multiple values separated by '|'.  Addresses and base64 are read through the same
       library oracles the implementation uses (what an address literal MEANS is not
       the subject of this property).
   Stdlib only, no axioms. *)
From DnsV Require Export Base.Bytes Base.Text.
Open Scope N_scope.

Inductive sval :=
| VMand (ks : list N)
| VAlpn (ids : list bytes)
| VNda
| VPort (p : N)
| VIp4 (a : list bytes)
| VEch (b : bytes)
| VIp6 (a : list bytes)
| VOpaque (k : N) (b : bytes).

Definition key_of (v : sval) : N :=
  match v with
  | VMand _ => 0 | VAlpn _ => 1 | VNda => 2 | VPort _ => 3
  | VIp4 _ => 4 | VEch _ => 5 | VIp6 _ => 6 | VOpaque k _ => k
  end.

(* ------------------------------------------------------------ (1) wire decoder *)
Fixpoint dec_u16s (v : bytes) : option (list N) :=
  match v with
  | [] => Some []
  | a :: b :: t => match dec_u16s t with Some r => Some ((a * 256 + b) :: r) | None => None end
  | _ => None
  end.

Fixpoint dec_alpn (fuel : nat) (v : bytes) : option (list bytes) :=
  match v with
  | [] => Some []
  | n :: t =>
    match fuel with
    | O => None
    | S f =>
      let c := firstn (N.to_nat n) t in
      if (n =? 0) || (nlen c <? n) then None
      else match dec_alpn f (skipn (N.to_nat n) t) with
           | Some r => Some (c :: r)
           | None => None
           end
    end
  end.

Fixpoint dec_chunks (n : nat) (fuel : nat) (v : bytes) : option (list bytes) :=
  match v with
  | [] => Some []
  | _ :: _ =>
    match fuel with
    | O => None
    | S f =>
      let c := firstn n v in
      if (length c <? n)%nat then None
      else match dec_chunks n f (skipn n v) with
           | Some r => Some (c :: r)
           | None => None
           end
    end
  end.

Definition dec_value (k : N) (v : bytes) : option sval :=
  match k with
  | 0 => match dec_u16s v with Some (k0 :: ks) => Some (VMand (k0 :: ks)) | _ => None end
  | 1 => match dec_alpn (length v) v with Some (i :: ids) => Some (VAlpn (i :: ids)) | _ => None end
  | 2 => match v with [] => Some VNda | _ => None end
  | 3 => match v with [a; b] => Some (VPort (a * 256 + b)) | _ => None end
  | 4 => match dec_chunks 4 (length v) v with Some (a :: r) => Some (VIp4 (a :: r)) | _ => None end
  | 5 => Some (VEch v)
  | 6 => match dec_chunks 16 (length v) v with Some (a :: r) => Some (VIp6 (a :: r)) | _ => None end
  | _ => Some (VOpaque k v)
  end.

(* prev = the previous key plus one (0 at the start): the next key must be >= prev *)
Fixpoint dec_params (fuel : nat) (prev : N) (w : bytes) : option (list sval) :=
  match w with
  | [] => Some []
  | _ :: _ =>
    match fuel with
    | O => None
    | S f =>
      match w with
      | kh :: kl :: lh :: ll :: rest =>
        let k := kh * 256 + kl in
        let n := lh * 256 + ll in
        if (prev <=? k) && (n <=? nlen rest) then
          match dec_value k (firstn (N.to_nat n) rest), dec_params f (k + 1) (skipn (N.to_nat n) rest) with
          | Some v, Some r => Some (v :: r)
          | _, _ => None
          end
        else None
      | _ => None
      end
    end
  end.

Definition has_sval_key (k : N) (d : list sval) : bool := existsb (fun w => key_of w =? k) d.

Definition mand_ok (d : list sval) : bool :=
  forallb (fun v => match v with
                    | VMand ks => strictly_inc ks && negb (existsb (N.eqb 0) ks)
                                  && forallb (fun k => has_sval_key k d) ks
                    | _ => true
                    end) d.

Definition rfc_decode (w : bytes) : option (list sval) :=
  match dec_params (length w) 0 w with
  | Some d => if mand_ok d then Some d else None
  | None => None
  end.

(* ------------------------------------------------------------ (2) declared values *)
Definition key_number (name : bytes) : option N :=
  if bytes_eqb name [109;97;110;100;97;116;111;114;121] then Some 0                          (* mandatory *)
  else if bytes_eqb name [97;108;112;110] then Some 1                                         (* alpn *)
  else if bytes_eqb name [110;111;45;100;101;102;97;117;108;116;45;97;108;112;110] then Some 2 (* no-default-alpn *)
  else if bytes_eqb name [112;111;114;116] then Some 3                                        (* port *)
  else if bytes_eqb name [105;112;118;52;104;105;110;116] then Some 4                         (* ipv4hint *)
  else if bytes_eqb name [101;99;104;99;111;110;102;105;103] then Some 5                      (* echconfig *)
  else if bytes_eqb name [105;112;118;54;104;105;110;116] then Some 6                         (* ipv6hint *)
  else None.

Fixpoint decimal_acc (acc : N) (s : bytes) : option N :=
  match s with
  | [] => Some acc
  | c :: t => if is_digit c then decimal_acc (acc * 10 + (c - 48)) t else None
  end.
Definition decimal (s : bytes) : option N := match s with [] => None | _ :: _ => decimal_acc 0 s end.

Section Declared.
Variable parse_ip : bytes -> option bytes.
Variable b64_dec : bytes -> option bytes.

Definition decl_v4 (tok : bytes) : option bytes :=
  match parse_ip tok with Some a => ip_to4 a | None => None end.

Definition decl_value (k : N) (v : bytes) : option sval :=
  let toks := split_on 124 v in
  match k with
  | 0 => match all_some (map key_number toks) with Some ks => Some (VMand ks) | None => None end
  | 1 => Some (VAlpn toks)
  | 2 => match v with [] => Some VNda | _ => None end
  | 3 => match decimal v with Some p => Some (VPort p) | None => None end
  | 4 => match all_some (map decl_v4 toks) with Some a => Some (VIp4 a) | None => None end
  | 5 => match b64_dec v with Some b => Some (VEch b) | None => None end
  | 6 => match all_some (map parse_ip toks) with Some a => Some (VIp6 a) | None => None end
  | _ => None
  end.

Definition decl_param (seg : bytes) : option sval :=
  match cut_at 61 seg with
  | None => None
  | Some (name, v) =>
    match key_number name with
    | None => None
    | Some k => decl_value k (trim_byte 34 v)
    end
  end.

(* the segments of the list: up to the first empty one *)
Fixpoint list_segments (segs : list bytes) : list bytes :=
  match segs with
  | [] => []
  | [] :: _ => []
  | s :: r => s :: list_segments r
  end.

(* declared parameters in the order of the text, mandatory keys in the order written *)
Definition declared_raw (t : bytes) : option (list sval) :=
  all_some (map decl_param (list_segments (split_on 59 t))).

End Declared.

(* the canonical order in which a decoder lists them: by key number; the set of mandatory
   keys by key number *)
Definition canon_val (v : sval) : sval :=
  match v with VMand ks => VMand (sort_by (fun k => k) ks) | _ => v end.
Definition canon (d : list sval) : list sval := sort_by key_of (map canon_val d).

Definition declared (parse_ip b64_dec : bytes -> option bytes) (t : bytes) : option (list sval) :=
  match declared_raw parse_ip b64_dec t with Some d => Some (canon d) | None => None end.

(* what makes a declared list unacceptable with respect to its mandatory parameter *)
Definition mand_names_self (d : list sval) : Prop := exists ks, In (VMand ks) d /\ In 0 ks.
Definition mand_repeats (d : list sval) : Prop := exists ks, In (VMand ks) d /\ ~ NoDup ks.
Definition mand_names_missing (d : list sval) : Prop :=
  exists ks k, In (VMand ks) d /\ In k ks /\ ~ In k (map key_of d).

(* boolean forms for evaluation on harness cases *)
Fixpoint nodup_b (l : list N) : bool :=
  match l with [] => true | x :: t => negb (existsb (N.eqb x) t) && nodup_b t end.
Definition mand_bad_b (d : list sval) : bool :=
  existsb (fun v => match v with
                    | VMand ks => existsb (N.eqb 0) ks || negb (nodup_b ks)
                                  || negb (forallb (fun k => has_sval_key k d) ks)
                    | _ => false
                    end) d.

Definition sval_eqb (a b : sval) : bool :=
  let leq := fix leq (x y : list bytes) : bool :=
    match x, y with [], [] => true | p :: x', q :: y' => bytes_eqb p q && leq x' y' | _, _ => false end in
  match a, b with
  | VMand x, VMand y => bytes_eqb x y
  | VAlpn x, VAlpn y => leq x y
  | VNda, VNda => true
  | VPort p, VPort q => p =? q
  | VIp4 x, VIp4 y => leq x y
  | VEch x, VEch y => bytes_eqb x y
  | VIp6 x, VIp6 y => leq x y
  | VOpaque k x, VOpaque j y => (k =? j) && bytes_eqb x y
  | _, _ => false
  end.
Fixpoint svals_eqb (a b : list sval) : bool :=
  match a, b with [], [] => true | x :: a', y :: b' => sval_eqb x y && svals_eqb a' b' | _, _ => false end.
