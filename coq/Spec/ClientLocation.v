(* Spec/ClientLocation: from which location a client is served, read directly off the
   M / 8 / % lines of the data file.  Short and independent of the lookup models (no keys, no
   databases, no range points): only the parsed-line type Model.Text.record, longest-prefix match
   and the map choice of Spec/Lpm, and the owner-name reading of Spec/Declared.

     M name,map      resolver map of the name      (name written *.x : wildcard map of x)
     8 name,map      client-subnet (ECS) map of the name
     % loc,net,map   in map [map], clients inside [net] are in location [loc]

   For a query name n from a client given by the resolver address and, optionally, an ECS option
   (family, source prefix length, address):
     1. the map of a name for a kind: the map declared for exactly this name, else the wildcard map of
        the nearest strict ancestor that has one (Spec/Lpm.map_choice), else the default map \000\000;
     2. ECS (family 1 or 2 only, and only if the name has an 8 map): the longest declared subnet of that
        map, in the family of the client prefix, not longer than the source prefix, that contains the
        address; its location decides unless it is \000\000;
     3. otherwise the resolver decides: longest declared subnet of the name's M map containing the
        resolver address (the default map \000\000 is searched when the name has no M map);
     4. nothing matches: location \000\000 - the client sees the untagged records only.
   The scope written into the echoed ECS option: the matched length (IPv4: minus 96), 24 / 48 when the
   name has an 8 map but no subnet with a location matches, 0 when ECS was not looked at. *)
From DnsV Require Import Base.Bytes Base.Ip Spec.Lpm Model.Text Spec.Declared.
Open Scope N_scope.

Definition id_of (b : bytes) : N * N := (nth 0 b 0, nth 1 b 0).                 (* a two-byte id *)
Definition addr16 (ip : bytes) : N := fold_left (fun acc b => acc * 256 + b) ip 0.   (* 16 bytes, big endian *)

(* the subnets declared for map m (IPv4 networks are v4-mapped, lengths in 128-bit terms) *)
Definition declared_subnets (rs : list Text.record) (m : mapid) : list subnet :=
  flat_map (fun r => match r with
                     | RNet lo ip ones lmap => if id_eqb (id_of lmap) m then [mkSubnet (addr16 ip) ones (id_of lo)] else []
                     | _ => []
                     end) rs.

Definition map_decl (kind : N) (dom lmap : bytes) : mapdecl :=
  if is_wild dom then mkMapdecl kind (owner_of (skipn 2 dom)) true (id_of lmap)
  else mkMapdecl kind (owner_of dom) false (id_of lmap).
Definition declared_maps (rs : list Text.record) : list mapdecl :=
  flat_map (fun r => match r with
                     | RIpmap dom lmap => [map_decl 77 dom lmap]
                     | RCsmap dom lmap => [map_decl 56 dom lmap]
                     | _ => []
                     end) rs.

Definition name_map (rs : list Text.record) (kind : N) (n : list bytes) : mapid :=
  match map_choice (declared_maps rs) kind n with Some m => m | None => (0, 0) end.

(* an ECS option as the server reads it: family, source prefix length, address (16-byte form) *)
Definition ecs_in := (N * N * N)%type.

Definition ecs_match (rs : list Text.record) (n : list bytes) (e : ecs_in) : option (locid * N) :=
  let '(fam, src, addr) := e in
  if (fam =? 1) || (fam =? 2) then
    let m := name_map rs 56 n in
    if id_eqb m (0, 0) then None
    else let plen := if fam =? 1 then 96 + src else src in
         lpm (declared_subnets rs m) (if is_v4 addr && (96 <=? plen) then V4 else V6) addr plen
  else None.

Definition resolver_match (rs : list Text.record) (n : list bytes) (rip : N) : option (locid * N) :=
  lpm (declared_subnets rs (name_map rs 77 n)) (fam rip) rip 128.

Definition loc_of (r : option (locid * N)) : locid := match r with Some (l, _) => l | None => (0, 0) end.

(* the location that decides the answer *)
Definition client_view (rs : list Text.record) (n : list bytes) (rip : N) (e : option ecs_in) : locid :=
  let by_ecs := match e with Some x => loc_of (ecs_match rs n x) | None => (0, 0) end in
  if id_eqb by_ecs (0, 0) then loc_of (resolver_match rs n rip) else by_ecs.

(* the scope of the echoed option *)
Definition scope_view (rs : list Text.record) (n : list bytes) (e : ecs_in) : N :=
  let '(fam, src, addr) := e in
  let dflt := if fam =? 2 then 48 else 24 in
  if negb ((fam =? 1) || (fam =? 2)) then 0
  else if id_eqb (name_map rs 56 n) (0, 0) then 0
  else match ecs_match rs n e with
       | Some (loc, len) => if id_eqb loc (0, 0) then dflt else if fam =? 1 then len - 96 else len
       | None => dflt
       end.

(* the tag a client of that location sees besides the untagged records *)
Definition view_bytes (l : locid) : bytes := [fst l; snd l].
