(* Spec/AnswerExtra: what the declared records allow in the ADDITIONAL section (C01), read off
   the property statement: only declared, visible, non-wildcard address records of a name that is
   the target of an NS / MX record (or the owner of an HTTPS record) present in the answer or
   authority section.  Over declared records; independent of the model (imports only the byte
   vocabulary, Spec/Answer and the name packing of Spec/Rows). *)
From DnsV Require Import Base.Bytes Spec.Answer Spec.Rows.
Open Scope N_scope.

(* the declared address records of family ty (1 = A, 28 = AAAA) of the name written in an rdata
   as the packed name t (any letter case), as visible to a client in location L *)
Definition addr_records (L : bytes) (recs : list record) (t : bytes) (ty : N) : list record :=
  filter (fun r => visible L r && negb (r_wild r) && (r_type r =? ty) &&
                   bytes_eqb (pack (r_owner r)) (map lowerb t)) recs.
