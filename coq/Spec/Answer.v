(* Spec/Answer: what a data file's records prescribe as the answer to a query (C01),
   read off the property statement - over declared RECORDS, not over keys or rows.
   Independent of the model: imports only the byte vocabulary.

   Left unconstrained (any behaviour satisfies the spec): order inside a section; which
   of several declared addresses are served (only their number and that each is a declared
   one with positive weight - C11 owns the choice); the additional section of an
   authoritative answer beyond soundness; the authority section of a non-empty
   authoritative answer beyond soundness; class other than IN; type DS at or below a
   delegation; a name with both a CNAME and other data (both are returned). *)
From DnsV Require Import Base.Bytes.
Open Scope N_scope.

Definition label := bytes.
Definition name := list label.            (* leftmost label first; the root is [] ; lower case *)

Record record := mkRec {
  r_owner : name;          (* without the "*." of a wildcard record *)
  r_wild : bool;
  r_loc : option bytes;    (* None = untagged, Some two bytes *)
  r_type : N;
  r_ttl : N;
  r_weight : N;            (* A / AAAA only *)
  r_rdata : bytes          (* uncompressed wire form *)
}.

Definition lowerb (b : N) : N := if (65 <=? b) && (b <=? 90) then b + 32 else b.
Fixpoint label_eqb (a b : label) : bool :=        (* ASCII case-insensitive *)
  match a, b with
  | [], [] => true
  | x :: a', y :: b' => (lowerb x =? lowerb y) && label_eqb a' b'
  | _, _ => false
  end.
Fixpoint name_eqb (a b : name) : bool :=
  match a, b with
  | [], [] => true
  | x :: a', y :: b' => label_eqb x y && name_eqb a' b'
  | _, _ => false
  end.

(* letters, digits, hyphen, underscore (names are lower case) *)
Definition wildsafe_label (l : label) : bool :=
  forallb (fun c => ((97 <=? c) && (c <=? 122)) || ((48 <=? c) && (c <=? 57)) || (c =? 45) || (c =? 95)) l.

Section View.
Variable L : bytes.                 (* the client's location; [0;0] = none *)
Variable recs : list record.

Definition visible (r : record) : bool :=
  match r_loc r with None => true | Some l => bytes_eqb l L end.

Definition own_records (n : name) : list record :=
  filter (fun r => visible r && negb (r_wild r) && name_eqb (r_owner r) n) recs.
Definition wild_records (n : name) : list record :=
  filter (fun r => visible r && r_wild r && name_eqb (r_owner r) n) recs.
Definition of_type (t : N) (l : list record) : list record := filter (fun r => r_type r =? t) l.
Definition nonempty {A} (l : list A) : bool := match l with [] => false | _ => true end.

(* the closest ancestor-or-self of n that has a visible NS record *)
Fixpoint zone_cut (n : name) : option name :=
  if nonempty (of_type 2 (own_records n)) then Some n
  else match n with [] => None | _ :: p => zone_cut p end.

Definition authoritative (z : name) : bool := nonempty (of_type 6 (own_records z)).

(* n has no visible records of its own: the nearest ancestor strictly above n, not above the
   zone apex, reached across wild-safe labels only, that has visible wildcard records *)
Fixpoint covering_wildcard (apex n : name) : option name :=
  if name_eqb n apex then None else
  match n with
  | [] => None
  | l :: p => if negb (wildsafe_label l) then None
              else if nonempty (wild_records p) then Some p
              else covering_wildcard apex p
  end.

(* the records that answer for name n inside the zone with this apex *)
Definition source_records (apex n : name) : list record :=
  if nonempty (own_records n) then own_records n
  else match covering_wildcard apex n with Some a => wild_records a | None => [] end.

Inductive verdict :=
| Refused                                            (* outside every zone *)
| Referral (cut : name) (ns : list record)           (* at or below a delegation: NS of the cut *)
| Answer (apex : name) (nxdomain : bool) (ans : list record) (soa : list record).
  (* authoritative: the records to be served for (name, type); with an empty answer one of [soa] in authority *)

Definition spec_response (q : name) (qtype : N) : verdict :=
  match zone_cut q with
  | None => Refused
  | Some z =>
      if negb (authoritative z) then Referral z (of_type 2 (own_records z))
      else
        let src := source_records z q in
        Answer z (negb (nonempty src))
               (filter (fun r => (r_type r =? qtype) || (r_type r =? 5) || (qtype =? 255)) src)
               (of_type 6 (own_records z))
  end.

(* guard of the statement's "well-formed data file", for this client's view: every name
   with a visible SOA also has a visible NS *)
Definition wf_view : bool :=
  forallb (fun r => negb (visible r && negb (r_wild r) && (r_type r =? 6))
                    || nonempty (of_type 2 (own_records (r_owner r)))) recs.
End View.
