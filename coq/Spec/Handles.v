(* Spec/Handles: what the property C06 says about a log of backend events.
   Independent of the model: only the vocabulary of events and three short
   predicates (with boolean twins used by Run/C06 on observed logs).

   An event is (backend id, operation code).  Logs are kept NEWEST FIRST: the
   head of the list is the most recent event, the tail is everything older. *)
From DnsV Require Import Base.Bytes.
Open Scope N_scope.

Definition event := (nat * N)%type.

(* operation codes, the same numbers the Go harness prints *)
Definition OpOpen : N := 0.          (* backend created by an open / full reload *)
Definition OpNewContext : N := 1.
Definition OpFinder : N := 2.        (* ClosestKeyFinder *)
Definition OpForEach : N := 3.
Definition OpFreeContext : N := 4.
Definition OpReload : N := 5.        (* DBI.Reload called on this backend *)
Definition OpReloadRet : N := 6.     (* that call returns (the call was in flight until now) *)
Definition OpClose : N := 7.
(* 8 Find, 9 FindMap, 10 GetLocationByMap, 11 GetStats: plain uses, never produced by the modelled operations *)

Definition is_close (o : N) : bool := o =? 7.
Definition is_open (o : N) : bool := o =? 0.

(* number of Close calls on backend b in the log *)
Fixpoint closes (log : list event) (b : nat) : N :=
  match log with
  | [] => 0
  | (b', o) :: older => (if Nat.eqb b' b && is_close o then 1 else 0) + closes older b
  end.

Definition openedb (log : list event) (b : nat) : bool :=
  existsb (fun e => Nat.eqb (fst e) b && is_open (snd e)) log.

(* 1. never touched after close: every event that is not itself a Close hits a
      backend on which no Close happened earlier *)
Fixpoint no_use_after_close (log : list event) : Prop :=
  match log with
  | [] => True
  | (b, o) :: older => (is_close o = false -> closes older b = 0) /\ no_use_after_close older
  end.

Fixpoint no_use_after_closeb (log : list event) : bool :=
  match log with
  | [] => true
  | (b, o) :: older => (is_close o || (closes older b =? 0)) && no_use_after_closeb older
  end.

(* 2. never closed twice *)
Definition no_double_close (log : list event) : Prop := forall b, closes log b <= 1.

Definition no_double_closeb (log : list event) : bool :=
  forallb (fun e => closes log (fst e) <=? 1) log.

(* 3. open iff needed.  A snapshot is the log so far, the backend that is being
      served (None once the server has been shut down) and the backends pinned by
      the readers that are currently held. *)
Record snapshot := mkSnap { sn_log : list event; sn_served : option nat; sn_pinned : list nat }.

Definition needed (sn : snapshot) (b : nat) : Prop :=
  sn_served sn = Some b \/ In b (sn_pinned sn).

Definition neededb (sn : snapshot) (b : nat) : bool :=
  match sn_served sn with Some b' => Nat.eqb b' b | None => false end
  || existsb (Nat.eqb b) (sn_pinned sn).

(* a needed backend exists and is open; a backend that was opened and is not
   needed any more has been closed exactly once *)
Definition handles_ok (sn : snapshot) : Prop :=
  (forall b, needed sn b -> openedb (sn_log sn) b = true /\ closes (sn_log sn) b = 0) /\
  (forall b, openedb (sn_log sn) b = true -> ~ needed sn b -> closes (sn_log sn) b = 1).

Definition handles_okb (sn : snapshot) : bool :=
  match sn_served sn with Some b => openedb (sn_log sn) b | None => true end
  && forallb (openedb (sn_log sn)) (sn_pinned sn)
  && forallb (fun e => negb (is_open (snd e)) ||
                       (if neededb sn (fst e) then closes (sn_log sn) (fst e) =? 0
                        else closes (sn_log sn) (fst e) =? 1)) (sn_log sn).

(* no leak: in a quiescent snapshot (no reader holds anything) every backend ever
   opened, other than the served one, has been closed exactly once; after
   shutdown (served = None) this includes the backend that was served last *)
Definition no_leak (sn : snapshot) : Prop :=
  sn_pinned sn = [] ->
  forall b, openedb (sn_log sn) b = true -> sn_served sn <> Some b -> closes (sn_log sn) b = 1.
