(* Spec of C03: longest-prefix match over declared subnets, and the choice of the
   map for a name.  Short, independent of the models. *)
From DnsV Require Import Base.Bytes Base.Ip.
Open Scope N_scope.

Inductive family := V4 | V6.
Definition family_eqb (a b : family) : bool :=
  match a, b with V4, V4 => true | V6, V6 => true | _, _ => false end.

(* family of a client address: IPv4 iff it lies in ::ffff:0:0/96 *)
Definition fam (a : N) : family := if is_v4 a then V4 else V6.
(* family of a declared subnet: IPv4 iff its network address does (then its length is 96 + the IPv4 length) *)
Definition sfam (s : subnet) : family := if is_v4 (s_addr s) && (96 <=? s_len s) then V4 else V6.

(* block (q, len): a is inside iff a / 2^(128-len) = q *)
Definition contains (s : subnet) (a : N) : bool :=
  a / blk_size (s_len s) =? s_addr s / blk_size (s_len s).

Definition eligible (f : family) (a plen : N) (s : subnet) : bool :=
  family_eqb (sfam s) f && (s_len s <=? plen) && contains s a.

(* the longest eligible subnet: (location, matched length) *)
Fixpoint lpm (S : list subnet) (f : family) (a plen : N) : option (locid * N) :=
  match S with
  | [] => None
  | s :: S' =>
      let r := lpm S' f a plen in
      if eligible f a plen s then
        match r with
        | Some (_, l) => if l <? s_len s then Some (s_loc s, s_len s) else
                         if l =? s_len s then Some (s_loc s, s_len s) else r
        | None => Some (s_loc s, s_len s)
        end
      else r
  end.

(* ---- choice of the map for a name ---- *)

(* a map declaration: kind (77 = M resolver maps, 56 = 8 client-subnet maps), the
   name as a list of labels (top label last), wildcard flag, map id *)
Record mapdecl := mkMapdecl { md_kind : N; md_name : list bytes; md_wild : bool; md_id : mapid }.

Fixpoint labels_eqb (a b : list bytes) : bool :=
  match a, b with
  | [], [] => true
  | x :: a', y :: b' => bytes_eqb x y && labels_eqb a' b'
  | _, _ => false
  end.

Fixpoint lookup_decl (maps : list mapdecl) (kind : N) (wild : bool) (n : list bytes) : option mapid :=
  match maps with
  | [] => None
  | m :: maps' =>
      if (md_kind m =? kind) && Bool.eqb (md_wild m) wild && labels_eqb (md_name m) n
      then Some (md_id m) else lookup_decl maps' kind wild n
  end.

(* nearest enclosing wildcard: the wildcard map of the closest strict ancestor *)
Fixpoint nearest_wild (maps : list mapdecl) (kind : N) (n : list bytes) : option mapid :=
  match n with
  | [] => None
  | _ :: parent =>
      match lookup_decl maps kind true parent with
      | Some m => Some m
      | None => nearest_wild maps kind parent
      end
  end.

(* exact-name map first, else the nearest enclosing wildcard map *)
Definition map_choice (maps : list mapdecl) (kind : N) (n : list bytes) : option mapid :=
  match lookup_decl maps kind false n with
  | Some m => Some m
  | None => nearest_wild maps kind n
  end.
