(* Spec/KeysV2: the shape of the keys of a compiled database in the v2 layout (RocksDB, reversed
   owner names), as a DECIDABLE predicate on the database as the readers see it (Model/Store.store:
   key -> rows).  It is the guard of C13_no_panic_v2, proved for every database compiled from
   records with non-empty owner labels (Proofs/NoPanicV2.compiled_store_wf) and evaluated on the
   dump of every database the real compiler writes during a check run (Run/C13.v).
   - every key occurs once (RocksDB: keys are strictly ascending);
   - a key that starts with the resource-record marker "\000o" (dnsdata.ResourceRecordsKeyMarker) is
       marker ++ (non-zero length byte, that many bytes)* ++ \000 ++ two location bytes
     (dnsdata.makedomainkey for an owner whose labels are 1..255 bytes long), or its third byte is
     >= 64 (dnsdata.FeaturesKey "\000o_features": no probe of a wire-valid name reaches it);
   - keys outside the marker range (range points "\000\000\000!..", maps "\000M..=", "\0008..=")
     and all rows are unconstrained.
   No proofs in this file; imports only the byte vocabulary and the store type. *)
From DnsV Require Import Base.Bytes Model.Store.
Open Scope N_scope.

Definition rr_marker : bytes := [0; 111].

Fixpoint rname_ok (fuel : nat) (l : bytes) : bool :=
  match fuel with
  | O => false
  | S f =>
      match l with
      | [] => false
      | c :: t => if c =? 0 then nlen t =? 2
                  else (c <=? nlen t) && rname_ok f (skipn (N.to_nat c) t)
      end
  end.
Definition key_ok (k : bytes) : bool :=
  if is_prefix rr_marker k then
    match skipn 2 k with
    | c :: t => (64 <=? c) || rname_ok (S (length k)) (c :: t)
    | [] => false
    end
  else true.
Fixpoint keys_once (st : store) : bool :=
  match st with
  | [] => true
  | (k, _) :: t => negb (has_key t k) && keys_once t
  end.
Definition wf_store_v2 (st : store) : bool :=
  keys_once st && forallb (fun kv => key_ok (fst kv)) st.
