(* Spec/Cdb: what C16 prescribes, independent of the model.  A database is the list of
   (key, value) pairs in the order they were written. *)
From DnsV Require Import Base.Bytes.
Open Scope N_scope.

Definition key_eqb (k : bytes) (p : bytes * bytes) : bool := bytes_eqb k (fst p).

(* the values a lookup of k must return, in this order, followed by end-of-data *)
Definition spec_vals (kvs : list (bytes * bytes)) (k : bytes) : list bytes :=
  map snd (filter (key_eqb k) kvs).

(* size of the file the writer produces: header, records, 2 slots of 8 bytes per pair *)
Definition rec_size (p : bytes * bytes) : N := 8 + nlen (fst p) + nlen (snd p).
Fixpoint data_size (l : list (bytes * bytes)) : N :=
  match l with [] => 0 | p :: t => rec_size p + data_size t end.
Definition file_size (l : list (bytes * bytes)) : N := 2048 + data_size l + 16 * nlen l.

(* the guard of every C16 theorem: all file positions fit in uint32 *)
Definition fits32 (l : list (bytes * bytes)) : Prop := file_size l < 4294967296.
