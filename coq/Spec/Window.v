(* Spec/Window: what a sampled metric must export, stated on the history of
   AddSample calls alone (no window state, no cleaner).

   A sample added at time s with lifetime L expires at s + L; the code's
   comparison is  expires.Before(now), so the sample is reported by a read at
   time t iff  not (s + L < t),  i.e.  t <= s + L. *)
From DnsV Require Import Base.Bytes Model.SWindow.
Open Scope Z_scope.

Fixpoint spec_samples (L : Z) (h : list wevent) (t : Z) : list Z :=
  match h with
  | [] => []
  | WAdd s v :: h' => if t <=? s + L then v :: spec_samples L h' t else spec_samples L h' t
  | _ :: h' => spec_samples L h' t
  end.

Definition list_min (x : Z) (l : list Z) : Z := fold_right Z.min x l.
Definition list_max (x : Z) (l : list Z) : Z := fold_right Z.max x l.
Definition list_sum (l : list Z) : Z := fold_right Z.add 0 l.

(* minimum, maximum and truncated average of a list; 0,0,0 is the no-data convention *)
Definition spec_export (l : list Z) : Z * Z * Z :=
  match l with
  | [] => (0, 0, 0)
  | x :: r => (list_min x r, list_max x r, Z.quot (list_sum l) (Z.of_nat (length l)))
  end.

(* the sum is representable as an int64 *)
Definition fits64 (z : Z) : Prop := -9223372036854775808 <= z < 9223372036854775808.
Definition fits64b (z : Z) : bool := (-9223372036854775808 <=? z) && (z <? 9223372036854775808).

Definition has_add (h : list wevent) : bool :=
  existsb (fun e => match e with WAdd _ _ => true | _ => false end) h.

(* timestamps never go back *)
Fixpoint mono_from (t0 : Z) (h : list wevent) : Prop :=
  match h with
  | [] => True
  | e :: h' => t0 <= ev_time e /\ mono_from (ev_time e) h'
  end.
Definition mono (h : list wevent) : Prop :=
  match h with [] => True | e :: h' => mono_from (ev_time e) h' end.
