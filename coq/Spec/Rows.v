(* Spec/Rows: the row-level statement of what the compiler stores for a declared record:
   its key in the v1 and v2 layouts and its value row
     type(2,BE) ch [loc(2) for '>' '+'] ttl(4,BE) ttd(8 zero bytes) [weight(4,BE) for A/AAAA] rdata
   ch: '=' 61 untagged, '>' 62 located, '*' 42 wildcard, '+' 43 located wildcard.
   Independent of the model. *)
From DnsV Require Import Base.Bytes Spec.Answer.
Open Scope N_scope.

Definition pack (n : name) : bytes := flat_map (fun l => nlen l :: l) n ++ [0].
Definition rpack (n : name) : bytes := pack (rev n).

Definition loc_bytes (r : record) : bytes := match r_loc r with Some l => l | None => [0; 0] end.

Definition row_of (r : record) : bytes :=
  u16be (r_type r) ++
  (match r_loc r, r_wild r with
   | None, false => [61]
   | None, true => [42]
   | Some l, false => 62 :: l
   | Some l, true => 43 :: l
   end) ++
  u32be (r_ttl r) ++ [0; 0; 0; 0; 0; 0; 0; 0] ++
  (if (r_type r =? 1) || (r_type r =? 28) then u32be (r_weight r) else []) ++
  r_rdata r.

Definition key_v1 (r : record) : bytes := loc_bytes r ++ pack (r_owner r).
Definition key_v2 (r : record) : bytes := [0; 111] ++ rpack (r_owner r) ++ loc_bytes r.

Definition rows_of_v1 (recs : list record) : list (bytes * bytes) := map (fun r => (key_v1 r, row_of r)) recs.
Definition rows_of_v2 (recs : list record) : list (bytes * bytes) := map (fun r => (key_v2 r, row_of r)) recs.

(* comparison with a dump: key -> multiset of rows *)
Fixpoint remove_one (x : bytes) (l : list bytes) : option (list bytes) :=
  match l with
  | [] => None
  | y :: t => if bytes_eqb x y then Some t
              else match remove_one x t with Some t' => Some (y :: t') | None => None end
  end.
Fixpoint multiset_eqb (a b : list bytes) : bool :=
  match a with
  | [] => match b with [] => true | _ => false end
  | x :: a' => match remove_one x b with Some b' => multiset_eqb a' b' | None => false end
  end.

Definition rows_for (k : bytes) (kvs : list (bytes * bytes)) : list bytes :=
  map snd (filter (fun kv => bytes_eqb (fst kv) k) kvs).

(* the dump (restricted to owner-name keys) holds exactly the declared rows *)
Definition same_rows (dump : list (bytes * list bytes)) (kvs : list (bytes * bytes)) : bool :=
  forallb (fun d => multiset_eqb (snd d) (rows_for (fst d) kvs)) dump &&
  forallb (fun kv => existsb (fun d => bytes_eqb (fst d) (fst kv)) dump) kvs.
