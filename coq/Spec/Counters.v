(* Spec/Counters: the vocabulary of the counter/log clauses of C19, stated on what a
   query handling did (list of IncrementCounter calls, logger calls, writes). *)
From DnsV Require Import Base.Bytes Model.Counters.
Open Scope N_scope.

(* ---------- counting *)
Fixpoint cnt (k : ckey) (l : list ckey) : nat :=
  match l with
  | [] => O
  | x :: l' => ((if key_eqb k x then 1 else 0) + cnt k l')%nat
  end.

Definition b2n (b : bool) : nat := if b then 1%nat else 0%nat.

Definition nlog (c : logcall) (l : list logcall) : nat :=
  length (filter (fun x => match c, x with
                           | LogSent, LogSent | LogRequest, LogRequest | LogFailedReq, LogFailedReq => true
                           | _, _ => false end) l).

(* the composed response that was really sent, if any *)
Definition sent (o : outcome) : option (N * bool * N) :=
  match o_writes o with
  | [WrComposed rc aa n true] => Some (rc, aa, n)
  | _ => None
  end.

(* the handler got as far as a location *)
Definition located (q : qclass) : bool :=
  q_reader_ok q && q_edns_ok q && q_pack_ok q &&
  match q_loc q with LocOk _ _ _ => true | _ => false end.

Definition loc_total (l : list ckey) : nat :=
  (cnt KLocEcs l + cnt KLocEmpty l + cnt KLocDefault l + cnt KLocFallback l + cnt KLocResolver l)%nat.
Definition cache_total (l : list ckey) : nat :=
  (cnt KCacheHit l + cnt KCacheExpired l + cnt KCacheMissed l)%nat.

(* outcome counters and the query log follow the response really sent:
   with a composed response written successfully, each outcome counter is bumped
   iff the response has that outcome, and the logger got exactly that message,
   once; without one, no outcome counter moves and nothing is logged as sent *)
Definition outcome_follows_sent (o : outcome) : Prop :=
  match sent o with
  | Some (rc, aa, n) =>
      cnt KNxdomain (o_incs o) = b2n (rc =? RcodeNameError)
      /\ cnt KRefused (o_incs o) = b2n (rc =? RcodeRefused)
      /\ cnt KBadvers (o_incs o) = b2n (rc =? RcodeBadVers)
      /\ cnt KNodata (o_incs o) = b2n ((rc =? RcodeSuccess) && (n =? 0))
      /\ cnt KNotAuthoritative (o_incs o) = b2n (negb aa)
      /\ o_logs o = [LogSent]
  | None =>
      cnt KNxdomain (o_incs o) = 0%nat /\ cnt KRefused (o_incs o) = 0%nat
      /\ cnt KBadvers (o_incs o) = 0%nat /\ cnt KNodata (o_incs o) = 0%nat
      /\ cnt KNotAuthoritative (o_incs o) = 0%nat
      /\ nlog LogSent (o_logs o) = 0%nat
  end.


(* the location class a query belongs to: client-subnet when the location came from the
   ECS option, otherwise by location id (0,0 none; 0,1 default; 0,2 fallback default;
   anything else a resolver location) *)
Definition id_class (id0 id1 : N) : ckey :=
  if (id0 =? 0) && (id1 =? 0) then KLocEmpty
  else if (id0 =? 0) && (id1 =? 1) then KLocDefault
  else if (id0 =? 0) && (id1 =? 2) then KLocFallback
  else KLocResolver.
Definition true_loc_class (via_ecs : bool) (id0 id1 : N) : ckey :=
  if via_ecs then KLocEcs else id_class id0 id1.
