(* Spec/Declared: the DNS records one line of a data file DECLARES, read off the documented
   meaning of the line types (tinydns-data format with the FB extensions), as records of
   Spec/Answer (owner labels, wildcard flag, location tag, type, ttl, weight, rdata in
   uncompressed wire form).  Written independently of the compiler model (Model/Text.convert):
   nothing here mentions keys, row heads or the MarshalMap helpers; only the parsed-line type
   Model.Text.record and basic vocabulary (split at '.', decimal print, the v4-mapped test).

     Z  SOA                              .  SOA (hostmaster.dom, fixed timers) + NS + address of the server
     &  NS + address of the server       +  A or AAAA by address family, weighted
     =  address + PTR under in-addr.arpa / ip6.arpa          @  MX + address of the exchanger
     S  SRV + address of the target      C  CNAME     ^  PTR     '  TXT (character strings of <= 127 bytes)
     :  generic (type, rdata verbatim)   B / H  SVCB / HTTPS (priority, target, SvcParams in wire form)
     %  M  8  !  declare no served record (client subnets, maps, range points).
   An address field that does not parse declares no address record (and, for =, nothing at all). *)
From DnsV Require Import Model.Text.
From DnsV Require Model.Svcb.
From DnsV Require Import Spec.Answer Spec.Rows.
Open Scope N_scope.

(* a name in text form -> its labels: split at '.', empty labels (leading, trailing, doubled dots) dropped *)
Definition dns_labels (d : bytes) : name := filter Text.nonempty (split_on 46 d []).
(* owners are case-insensitive: stored in lower case (A-Z only) *)
Definition owner_of (d : bytes) : name := dns_labels (map lowerb d).
(* a name inside rdata: uncompressed wire form, case preserved *)
Definition wire (d : bytes) : bytes := pack (dns_labels d).
(* the location field: two bytes other than 00 tag the record, anything else leaves it untagged *)
Definition tag (lo : bytes) : option bytes :=
  if (length lo =? 2)%nat && negb (bytes_eqb lo [0; 0]) then Some lo else None.

Definition drec (dom : bytes) (wild : bool) (lo : bytes) (ty ttl : N) (rdata : bytes) : Answer.record :=
  mkRec (owner_of dom) wild (tag lo) ty ttl 0 rdata.

(* A for a v4-mapped address (::ffff:a.b.c.d, the 16-byte form of an IPv4 address), AAAA otherwise *)
Definition addr (dom : bytes) (wild : bool) (ip : option bytes) (ttl : N) (lo : bytes) (weight : N) : list Answer.record :=
  match ip with
  | None => []
  | Some a =>
      if is4 a then [mkRec (owner_of dom) wild (tag lo) 1 ttl weight (skipn 12 a)]
      else [mkRec (owner_of dom) wild (tag lo) 28 ttl weight a]
  end.

Definition soa_rdata (ns adm : bytes) (ser ref ret exp min : N) : bytes :=
  wire ns ++ wire adm ++ u32be ser ++ u32be ref ++ u32be ret ++ u32be exp ++ u32be min.

(* TXT rdata: the text cut into character strings of at most 127 bytes, each behind its length *)
Fixpoint txt_strings (fuel : nat) (s : bytes) : bytes :=
  match fuel with
  | O => []
  | S f => match s with
           | [] => []
           | _ => nlen (firstn 127 s) :: firstn 127 s ++ txt_strings f (skipn 127 s)
           end
  end.
Definition txt_rdata (s : bytes) : bytes := txt_strings (length s) s.

(* the reverse-lookup name of a 16-byte address: d.c.b.a.in-addr.arpa for a v4-mapped address,
   else the 32 nibbles, lowest first, under ip6.arpa *)
Definition hexdig (n : N) : N := if n <? 10 then 48 + n else 87 + n.
Definition l_inaddr : label := [105; 110; 45; 97; 100; 100; 114].
Definition l_arpa : label := [97; 114; 112; 97].
Definition l_ip6 : label := [105; 112; 54].
Definition arpa_name (a : bytes) : name :=
  if is4 a then
    [print_dec (nth 15 a 0); print_dec (nth 14 a 0); print_dec (nth 13 a 0); print_dec (nth 12 a 0); l_inaddr; l_arpa]
  else flat_map (fun v => [[hexdig (v mod 16)]; [hexdig ((v / 16) mod 16)]]) (rev a) ++ [l_ip6; l_arpa].

Definition hostmaster (dom : bytes) : bytes := [104; 111; 115; 116; 109; 97; 115; 116; 101; 114] ++ 46 :: dom.

Definition declared (r : Text.record) : list Answer.record :=
  match r with
  | RNet _ _ _ _ => []
  | RSoa dom ns adm ser ref ret exp min ttl lo => [drec dom false lo 6 ttl (soa_rdata ns adm ser ref ret exp min)]
  | RDot dom ip ns ttl lo ser =>
      [drec dom false lo 6 (if ttl =? 0 then 0 else 2560) (soa_rdata ns (hostmaster dom) ser 16384 2048 1048576 2560);
       drec dom false lo 2 ttl (wire ns)] ++ addr ns false ip ttl lo 1
  | RNs dom ip ns ttl lo => drec dom false lo 2 ttl (wire ns) :: addr ns false ip ttl lo 1
  | RAddr dom wild ip ttl lo weight => addr dom wild ip ttl lo weight
  | RPaddr dom wild ip ttl lo =>
      match ip with
      | None => []
      | Some a => addr dom wild ip ttl lo 1 ++
                  [mkRec (arpa_name a) false (tag lo) 12 ttl 0 (wire (if wild then 42 :: 46 :: dom else dom))]
      end
  | RMx dom ip mx dist ttl lo => drec dom false lo 15 ttl (u16be dist ++ wire mx) :: addr mx false ip ttl lo 1
  | RSrv dom ip srv port pri weight ttl lo =>
      drec dom false lo 33 ttl (u16be pri ++ u16be weight ++ u16be port ++ wire srv) :: addr srv false ip ttl lo 1
  | RCname dom wild cname ttl lo => [drec dom wild lo 5 ttl (wire cname)]
  | RPtr dom host ttl lo => [drec dom false lo 12 ttl (wire host)]
  | RTxt dom wild txt ttl lo => [drec dom wild lo 16 ttl (txt_rdata txt)]
  | RAux dom rtype rdata ttl lo => [drec dom false lo rtype ttl rdata]
  | RIpmap _ _ => []
  | RCsmap _ _ => []
  | RRangePoint _ _ _ _ _ => []
  | RSvcb h dom wild tgt ttl lo prio ps =>
      [drec dom wild lo (if h then 65 else 64) ttl (u16be prio ++ wire tgt ++ Model.Svcb.to_wire ps)]
  end.

(* ---------------------------------------------------------------- the DNS side of "well-formed data file"
   (decidable).  Names: every label at most 63 bytes, every byte a byte; a name carried in NS rdata fits
   255 octets on the wire.  Numbers fit their fields.  A generic line does not declare the types that
   have line types of their own with a different row form (A, AAAA) or whose rdata the server parses (NS).
   A = line has a parsable address. *)
Definition labels_okb (d : bytes) : bool :=
  wf_bytesb d && forallb (fun l => nlen l <=? 63) (split_on 46 d []).
Definition wire_okb (d : bytes) : bool := labels_okb d && (nlen (wire d) <=? 255).
Definition ip_okb (ip : option bytes) : bool :=
  match ip with None => true | Some a => (length a =? 16)%nat && wf_bytesb a end.
Definition u32okb (n : N) : bool := n <? 4294967296.

Definition dns_okb (r : Text.record) : bool :=
  match r with
  | RSoa dom ns adm ser ref ret exp min ttl lo => labels_okb dom && labels_okb ns && labels_okb adm && u32okb ttl
  | RDot dom ip ns ttl lo ser => labels_okb dom && wire_okb ns && ip_okb ip && u32okb ttl
  | RNs dom ip ns ttl lo => labels_okb dom && wire_okb ns && ip_okb ip && u32okb ttl
  | RAddr dom wild ip ttl lo weight => labels_okb dom && ip_okb ip && u32okb ttl && u32okb weight
  | RPaddr dom wild ip ttl lo =>
      labels_okb dom && ip_okb ip && u32okb ttl && match ip with Some _ => true | None => false end
  | RMx dom ip mx dist ttl lo => labels_okb dom && labels_okb mx && ip_okb ip && u32okb ttl
  | RSrv dom ip srv port pri weight ttl lo => labels_okb dom && labels_okb srv && ip_okb ip && u32okb ttl
  | RCname dom wild cname ttl lo => labels_okb dom && labels_okb cname && u32okb ttl
  | RPtr dom host ttl lo => labels_okb dom && labels_okb host && u32okb ttl
  | RTxt dom wild txt ttl lo => labels_okb dom && u32okb ttl
  | RAux dom rtype rdata ttl lo =>
      labels_okb dom && u32okb ttl && (rtype <? 65536) && negb ((rtype =? 1) || (rtype =? 28) || (rtype =? 2))
  | RSvcb h dom wild tgt ttl lo prio ps => labels_okb dom && labels_okb tgt && u32okb ttl
  | _ => true
  end.
