(* MapOfLists: what property C15 says, independent of any encoding.
   The store is a map  key -> list of values ; a key is present iff its list is
   not empty.  Add appends, Del removes one equal value (the spec fixes the first
   one, which is observable only through the order of the list), a read yields
   the list, a batch is all its additions followed by all its deletions as one
   step that either happens completely or not at all, backup + restore is the
   identity. *)
From DnsV Require Export Base.Bytes.
Open Scope N_scope.

Definition smap := bytes -> list bytes.
Definition m_empty : smap := fun _ => [].

Fixpoint remove_first (v : bytes) (l : list bytes) : option (list bytes) :=
  match l with
  | [] => None
  | x :: l' => if bytes_eqb x v then Some l' else option_map (cons x) (remove_first v l')
  end.

Definition m_set (m : smap) (k : bytes) (l : list bytes) : smap :=
  fun k' => if bytes_eqb k' k then l else m k'.

Definition m_has_key (m : smap) (k : bytes) : bool := match m k with [] => false | _ => true end.
Definition m_add (m : smap) (k v : bytes) : smap := m_set m k (m k ++ [v]).
(* None = failure, the map is unchanged *)
Definition m_del (m : smap) (k v : bytes) : option smap :=
  match remove_first v (m k) with
  | None => None
  | Some l' => Some (m_set m k l')
  end.
Definition m_for_each (m : smap) (k : bytes) : list bytes := m k.
Definition m_find (m : smap) (k : bytes) : option bytes := hd_error (m k).

Definition m_adds (m : smap) (adds : list (bytes * bytes)) : smap :=
  fold_left (fun m' '(k, v) => m_add m' k v) adds m.
Fixpoint m_dels (m : smap) (dels : list (bytes * bytes)) : option smap :=
  match dels with
  | [] => Some m
  | (k, v) :: r => match m_del m k v with None => None | Some m' => m_dels m' r end
  end.
(* all additions, then all deletions, atomically *)
Definition m_batch (m : smap) (adds dels : list (bytes * bytes)) : option smap :=
  m_dels (m_adds m adds) dels.

(* operation histories *)
Inductive op :=
| OAdd (k v : bytes)
| ODel (k v : bytes)
| OBatch (adds dels : list (bytes * bytes))
| OBackupRestore
| OReopen         (* close the store and open the same directory again *)
| OBackup         (* one more backup of the store into the (one) backup directory *)
| ORestore (cont : bool).   (* restore the latest backup into a fresh directory; cont: go on with that copy *)

(* one step: new map and "the operation failed".  ord = the order in which the
   additions of one batch are taken (the identity in the plain reading; the code
   leaves the relative order of additions to one key to its sort) *)
Definition spec_step (ord : list (bytes * bytes) -> list (bytes * bytes)) (m : smap) (o : op) : smap * bool :=
  match o with
  | OAdd k v => (m_add m k v, false)
  | ODel k v => match m_del m k v with Some m' => (m', false) | None => (m, true) end
  | OBatch adds dels => match m_batch m (ord adds) dels with Some m' => (m', false) | None => (m, true) end
  | OBackupRestore => (m, false)
  | OReopen => (m, false)
  | OBackup | ORestore _ => (m, false)   (* snapshots are kept by spec_bstep below, which never gets here *)
  end.

(* final map and the failure flags of all steps *)
Fixpoint spec_run (ord : list (bytes * bytes) -> list (bytes * bytes)) (m : smap) (ops : list op) : smap * list bool :=
  match ops with
  | [] => (m, [])
  | o :: r => let '(m1, e) := spec_step ord m o in let '(m2, es) := spec_run ord m1 r in (m2, e :: es)
  end.

(* Backups as a periodically run tool takes them: every OBackup adds a snapshot of the map to
   one backup directory, ORestore yields the LATEST snapshot (in a fresh directory; with cont the
   history goes on with that copy, else with the store the backups were taken from).  State =
   (current map, latest snapshot if any).  ORestore without any backup fails and changes nothing.
   OBackupRestore above is the one-shot variant with a backup directory of its own. *)
Definition bmap := (smap * option smap)%type.
Definition spec_bstep (ord : list (bytes * bytes) -> list (bytes * bytes)) (st : bmap) (o : op) : bmap * bool :=
  let '(m, b) := st in
  match o with
  | OBackup => ((m, Some m), false)
  | ORestore cont =>
      match b with
      | Some bm => ((if cont then bm else m, b), false)
      | None => ((m, b), true)
      end
  | _ => let '(m', f) := spec_step ord m o in ((m', b), f)
  end.
(* what a restore shows: the latest snapshot *)
Definition spec_restored (st : bmap) : option smap := snd st.

Fixpoint spec_brun (ord : list (bytes * bytes) -> list (bytes * bytes)) (st : bmap) (ops : list op) : bmap * list bool :=
  match ops with
  | [] => (st, [])
  | o :: r => let '(st1, e) := spec_bstep ord st o in let '(st2, es) := spec_brun ord st1 r in (st2, e :: es)
  end.

(* per-key view of a batch *)
Definition vals_of (k : bytes) (l : list (bytes * bytes)) : list bytes :=
  map snd (filter (fun p => bytes_eqb (fst p) k) l).
Fixpoint remove_firsts (vs : list bytes) (l : list bytes) : option (list bytes) :=
  match vs with
  | [] => Some l
  | v :: r => match remove_first v l with None => None | Some l' => remove_firsts r l' end
  end.
(* removes those of vs that are there *)
Fixpoint remove_avail (vs : list bytes) (l : list bytes) : list bytes :=
  match vs with
  | [] => l
  | v :: r => match remove_first v l with None => remove_avail r l | Some l' => remove_avail r l' end
  end.

(* boolean multiset equality of two lists of values *)
Fixpoint perm_b (l1 l2 : list bytes) : bool :=
  match l1 with
  | [] => match l2 with [] => true | _ => false end
  | x :: r => match remove_first x l2 with None => false | Some l2' => perm_b r l2' end
  end.
Fixpoint vlist_eqb (l1 l2 : list bytes) : bool :=
  match l1, l2 with
  | [], [] => true
  | x :: a, y :: b => bytes_eqb x y && vlist_eqb a b
  | _, _ => false
  end.
(* l1 and l2 agree on the first p values and hold the same values after them:
   two results of one batch that differ only in the order of the additions *)
Definition upto_new_b (p : nat) (l1 l2 : list bytes) : bool :=
  vlist_eqb (firstn p l1) (firstn p l2) && perm_b (skipn p l1) (skipn p l2).
