(* C13 - Any query gets a well-formed reply or none; the server never panics.
   Only statements closed by [exact]; proofs are in Proofs/. *)
From DnsV Require Import Base.Bytes Model.Store Model.LookupV1 Model.LookupV2 Model.Serve Proofs.Serve.
Open Scope N_scope.

(* an unsupported EDNS version gets BADVERS whatever the database, client and backend *)
Theorem C13_badvers : forall b st q locr ecs max v,
  q_edns q = Some v -> v <> 0 -> serve b st q locr ecs max = badvers_reply q.
Proof. exact serve_badvers. Qed.
Print Assumptions C13_badvers.
