(* C13 - Any query gets a well-formed reply or none; the server never panics.
   Only statements closed by [exact]; proofs are in Proofs/.
   [serve b st q locr ecs max] is the model of ServeDNSWithRCODE (Model/Serve.v): backend, compiled
   database as key -> rows, query, the location FindLocation returned, the ECS option to echo,
   max-answer.  [wire_name n] = n is an uncompressed wire name (labels of 1..63 bytes, <= 255). *)
From DnsV Require Import Base.Bytes Model.Store Model.LookupV1 Model.LookupV2 Model.Serve.
From DnsV Require Import Spec.Answer Spec.Rows Proofs.ZoneCut Proofs.Serve Proofs.NoPanic Proofs.Shape Proofs.Reverse Proofs.Size.
From DnsV Require Import Proofs.Compile Proofs.NoPanicV2Names Proofs.NoPanicV2Walk Proofs.NoPanicV2.
Open Scope N_scope.

(* CDB and RocksDB with v1 keys (the label-by-label reader): no panic and no fuel exhaustion
   for EVERY store - even one with malformed rows, because ForEach recovers callback panics -
   every client location, and every wire-valid query name *)
Theorem C13_no_panic_v1 : forall b st q locr ecs max,
  b <> RDB2 -> wire_name (q_name q) = true ->
  serve b st q locr ecs max <> OPanic /\ serve b st q locr ecs max <> OFuel.
Proof. exact serve_no_panic_v1. Qed.
Print Assumptions C13_no_panic_v1.

(* RocksDB with v2 keys (the closest-key reader of db/answer_sorted.go): no panic and no fuel
   exhaustion for every database that satisfies the DECIDABLE guard [wf_store_v2] (Proofs/NoPanicV2Walk):
   every key occurs once, and every key in the range of the resource-record marker "\000o" is
   marker ++ (non-zero length byte, that many bytes)* ++ \000 ++ two location bytes, or has a third
   byte >= 64 (dnsdata.FeaturesKey "\000o_features", which sorts behind every probe of a wire-valid
   name); keys outside the marker range and ALL rows are unconstrained (callback panics are
   recovered by rdb.ForEach).  Every wire-valid query name; every client location of two bytes
   ([loc_wf]: the Go type of a location id is [2]byte).  The per-request cache is part of the model *)
Theorem C13_no_panic_v2 : forall st q locr ecs max,
  wf_store_v2 st = true -> wire_name (q_name q) = true -> loc_wf locr ->
  serve RDB2 st q locr ecs max <> OPanic /\ serve RDB2 st q locr ecs max <> OFuel.
Proof. exact serve_no_panic_v2. Qed.
Print Assumptions C13_no_panic_v2.

(* the three readers in one statement: the guard concerns the v2 layout only *)
Theorem C13_no_panic : forall b st q locr ecs max,
  (b = RDB2 -> wf_store_v2 st = true /\ loc_wf locr) -> wire_name (q_name q) = true ->
  serve b st q locr ecs max <> OPanic /\ serve b st q locr ecs max <> OFuel.
Proof. exact serve_no_panic. Qed.
Print Assumptions C13_no_panic.

(* the guard is what the compiler emits: the v2 database of any records whose owner labels are
   1..63 bytes long and whose location tags are two bytes (Proofs/ZoneCut.wf_recs; in fact any
   non-empty labels: Proofs/NoPanicV2.compiled_store_wf) satisfies it, and so does every sorted
   dump whose keys pass [key_ok] (what the harness hands over) *)
Theorem C13_compiled_store_wf : forall recs, wf_recs recs -> wf_store_v2 (store_of (rows_of_v2 recs)) = true.
Proof. exact wf_recs_store_wf. Qed.
Print Assumptions C13_compiled_store_wf.
Theorem C13_sorted_dump_wf : forall st, sorted_keys st = true ->
  forallb (fun kv => key_ok (fst kv)) st = true -> wf_store_v2 st = true.
Proof. exact sorted_store_wf. Qed.
Print Assumptions C13_sorted_dump_wf.

(* C13_no_panic_v2_refuted: without the guard the v2 reader DOES panic.  The compiler validates no
   owner names (dnsdata.putreverseddom writes byte(len(label)) and then the whole label), so a data
   file with a label longer than 255 bytes - outside the well-formed data files of DESIGN section 10 -
   compiles to a key whose name part is not a well-formed reversed name.  Witness: owner label
   "com" ++ \000 ++ 255 more bytes (259 bytes; key = marker ++ \003 com \000 ...), query com. A from a
   client in a location that sorts above the key's continuation: findCommonLongestPrefix returns
   len(reversed query name), the next round of sortedDataReader.find slices the key buffer beyond its
   capacity.  Reproduced on the real server (data file: Mcom:m1 / %ab,10.0.0.0/8,m1 /
   +com\000111..1:1.2.3.4:60, client 10.0.0.1): runtime error: slice bounds out of range [:10] with
   capacity 9; CDB and RocksDB-v1 answer REFUSED *)
Theorem C13_no_panic_v2_refuted :
  exists st q locr ecs max,
    sorted_keys st = true /\ wire_name (q_name q) = true /\ loc_wf locr /\
    wf_store_v2 st = false /\ serve RDB2 st q locr ecs max = OPanic.
Proof. exact no_panic_v2_needs_guard. Qed.
Print Assumptions C13_no_panic_v2_refuted.

(* the part of that reader whose indices are Go bytes, reverseZoneNameToBuffer, neither wraps nor
   panics on a wire-valid name and yields the reversed packed name *)
Theorem C13_reverse_zone_name_no_panic : forall n, wf_name n -> nlen (pack n) <= 255 ->
  reverse_zone_name (pack n) = Val (rpack n).
Proof. exact reverse_zone_name_pack. Qed.
Print Assumptions C13_reverse_zone_name_no_panic.

(* an unsupported EDNS version gets BADVERS whatever the database, client and backend *)
Theorem C13_badvers : forall b st q locr ecs max v,
  q_edns q = Some v -> v <> 0 -> serve b st q locr ecs max = badvers_reply q.
Proof. exact serve_badvers. Qed.
Print Assumptions C13_badvers.

(* every reply of all three backends carries the query's ID (the QR bit is set by SetReply on
   every path and is not a field of the model's response) *)
Theorem C13_reply_id : forall b st q locr ecs max x,
  serve b st q locr ecs max = OReply x -> rs_id x = q_id q.
Proof. exact serve_id. Qed.
Print Assumptions C13_reply_id.

(* "whatever is written has the query's question" is FALSE for the code as it is: the BADVERS
   reply (built by coredns edns.Version) has an empty question section - finding F22 *)
Theorem C13_reply_shape_refuted :
  exists b st q locr ecs max x,
    serve b st q locr ecs max = OReply x /\ rs_question x <> question_of q.
Proof. exact reply_shape_refuted. Qed.
Print Assumptions C13_reply_shape_refuted.

(* outside that finding (no OPT, or EDNS version 0) every reply of all three backends echoes
   ID and question *)
Theorem C13_reply_shape_outside_finding : forall b st q locr ecs max x,
  (q_edns q = None \/ q_edns q = Some 0) ->
  serve b st q locr ecs max = OReply x -> rs_id x = q_id q /\ rs_question x = question_of q.
Proof. exact serve_echoes. Qed.
Print Assumptions C13_reply_shape_outside_finding.

(* C13_size_partial: the size clause over an abstract size function.  [size] (packed length) and
   [truncate] (miekg Msg.Truncate as called by request.Scrub) are library behaviour and enter as
   arbitrary functions satisfying the contract the handler relies on: truncate n r fits into n >= 512,
   leaves a fitting message alone, and reports TC when it changed the message.  Then every reply of
   serve - whose OPT with the echoed client-subnet option is part of the reply BEFORE it is fitted,
   as in the code - goes on the wire within max(512, advertised size), unchanged if it fits and with
   TC set otherwise.  Partial: the contract itself is not proved (the differential run observes the
   real sizes over a UDP writer: Run/C13.v udp_ok) *)
Theorem C13_size_partial : forall (size : response -> N) (truncate : N -> response -> response * bool),
  (forall n r, 512 <= n -> size (fst (truncate n r)) <= n) ->
  (forall n r, size r <= n -> truncate n r = (r, false)) ->
  (forall n r, fst (truncate n r) <> r -> snd (truncate n r) = true) ->
  forall b st q locr ecs max adv r,
  serve b st q locr ecs max = OReply r ->
  size (fst (written truncate adv r)) <= limit adv /\
  (size r <= limit adv -> written truncate adv r = (r, false)) /\
  (fst (written truncate adv r) <> r -> snd (written truncate adv r) = true).
Proof. exact written_fits. Qed.
Print Assumptions C13_size_partial.

(* the hypotheses are satisfiable and the conclusion is not vacuous: a referral from a delegated root *)
Example C13_example :
  let st := [([0; 0; 0], [[0; 2; 61; 0; 0; 0; 60; 0; 0; 0; 0; 0; 0; 0; 0; 1; 97; 0]])] in
  let q := mkQ 9 [1; 88; 0] 43 1 (Some 0) in
  wire_name (q_name q) = true /\
  serve CDB st q (LocOk [0; 0]) None 1 =
    OReply (mkResp 9 (Some ([1; 88; 0], 43, 1)) 0 false []
              [IRR (mkRR [0] 2 1 60 [1; 97; 0])] [] (Some None)).
Proof. vm_compute. split; reflexivity. Qed.
Print Assumptions C13_example.

(* the hypotheses of C13_no_panic_v2 are satisfiable by a non-trivial compiled database: the v2 dump
   of corpus case C01/upper-target (zone example.com with NS, MX, a delegation and glue, plus the
   features key), keys as the real compiler wrote them; a located client asks below the delegation *)
Example C13_example_v2 :
  let e := [7; 101; 120; 97; 109; 112; 108; 101] in
  let k (l : bytes) := [0; 111; 3; 99; 111; 109] ++ e ++ l ++ [0; 0; 0] in
  let row t := [0; t; 61; 0; 0; 0; 60; 0; 0; 0; 0; 0; 0; 0; 0] in
  let st := [(k [], [row 6 ++ [3; 110; 115; 49; 0; 1; 104; 0; 0; 0; 0; 1; 0; 0; 0; 2; 0; 0; 0; 3; 0; 0; 0; 4; 0; 0; 0; 5];
                     row 2 ++ [3; 110; 115; 49] ++ e ++ [3; 99; 111; 109; 0]]);
             (k [3; 110; 115; 49], [row 1 ++ [0; 0; 0; 1; 192; 0; 2; 1]]);
             (k [3; 119; 119; 119], [row 15 ++ [2; 113; 4; 77; 97; 105; 108] ++ e ++ [3; 99; 111; 109; 0]]);
             (k [4; 109; 97; 105; 108], [row 1 ++ [0; 0; 0; 1; 192; 0; 2; 7]]);
             (k [5; 100; 101; 108; 101; 103], [row 2 ++ [2; 78; 83; 5; 100; 101; 108; 101; 103] ++ e ++ [3; 99; 111; 109; 0]]);
             (k [5; 100; 101; 108; 101; 103; 2; 110; 115], [row 1 ++ [0; 0; 0; 1; 192; 0; 2; 9]]);
             ([0; 111; 95; 102; 101; 97; 116; 117; 114; 101; 115], [[0; 0; 0; 2]])] in
  let q := mkQ 1 ([3; 119; 119; 119; 5; 100; 101; 108; 101; 103] ++ e ++ [3; 99; 111; 109; 0]) 1 1 None in
  wf_store_v2 st = true /\ sorted_keys st = true /\ wire_name (q_name q) = true /\ loc_wf (LocOk [97; 98]) /\
  serve RDB2 st q (LocOk [97; 98]) None 1 =
    OReply (mkResp 1 (Some (q_name q, 1, 1)) 0 false []
              [IRR (mkRR ([5; 100; 101; 108; 101; 103] ++ e ++ [3; 99; 111; 109; 0]) 2 1 60
                         ([2; 78; 83; 5; 100; 101; 108; 101; 103] ++ e ++ [3; 99; 111; 109; 0]))]
              [IPick ([2; 78; 83; 5; 100; 101; 108; 101; 103] ++ e ++ [3; 99; 111; 109; 0]) 1 1 [(60, 1, [192; 0; 2; 9])] 1]
              None).
Proof. vm_compute. repeat split; reflexivity. Qed.
Print Assumptions C13_example_v2.
