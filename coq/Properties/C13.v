(* C13 - Any query gets a well-formed reply or none; the server never panics.
   Only statements closed by [exact]; proofs are in Proofs/.
   [serve b st q locr ecs max] is the model of ServeDNSWithRCODE (Model/Serve.v): backend, compiled
   database as key -> rows, query, the location FindLocation returned, the ECS option to echo,
   max-answer.  [wire_name n] = n is an uncompressed wire name (labels of 1..63 bytes, <= 255). *)
From DnsV Require Import Base.Bytes Model.Store Model.LookupV1 Model.LookupV2 Model.Serve.
From DnsV Require Import Spec.Answer Spec.Rows Proofs.ZoneCut Proofs.Serve Proofs.NoPanic Proofs.Shape Proofs.Reverse Proofs.Size.
Open Scope N_scope.

(* CDB and RocksDB with v1 keys (the label-by-label reader): no panic and no fuel exhaustion
   for EVERY store - even one with malformed rows, because ForEach recovers callback panics -
   every client location, and every wire-valid query name *)
Theorem C13_no_panic_v1 : forall b st q locr ecs max,
  b <> RDB2 -> wire_name (q_name q) = true ->
  serve b st q locr ecs max <> OPanic /\ serve b st q locr ecs max <> OFuel.
Proof. exact serve_no_panic_v1. Qed.
Print Assumptions C13_no_panic_v1.

(* C13_no_panic_v2_partial.  For the closest-key reader (RocksDB v2 keys) freedom from panics is
   NOT proved as a whole (it needs the shape of every key SeekForPrev can land on; the differential
   run covers it on root-zone, root-delegation, empty and generated databases).  Proved: the part of
   that reader whose indices are Go bytes, reverseZoneNameToBuffer, neither wraps nor panics on a
   wire-valid name and yields the reversed packed name *)
Theorem C13_reverse_zone_name_no_panic : forall n, wf_name n -> nlen (pack n) <= 255 ->
  reverse_zone_name (pack n) = Val (rpack n).
Proof. exact reverse_zone_name_pack. Qed.
Print Assumptions C13_reverse_zone_name_no_panic.

(* an unsupported EDNS version gets BADVERS whatever the database, client and backend *)
Theorem C13_badvers : forall b st q locr ecs max v,
  q_edns q = Some v -> v <> 0 -> serve b st q locr ecs max = badvers_reply q.
Proof. exact serve_badvers. Qed.
Print Assumptions C13_badvers.

(* every reply of all three backends carries the query's ID (the QR bit is set by SetReply on
   every path and is not a field of the model's response) *)
Theorem C13_reply_id : forall b st q locr ecs max x,
  serve b st q locr ecs max = OReply x -> rs_id x = q_id q.
Proof. exact serve_id. Qed.
Print Assumptions C13_reply_id.

(* "whatever is written has the query's question" is FALSE for the code as it is: the BADVERS
   reply (built by coredns edns.Version) has an empty question section - finding F22 *)
Theorem C13_reply_shape_refuted :
  exists b st q locr ecs max x,
    serve b st q locr ecs max = OReply x /\ rs_question x <> question_of q.
Proof. exact reply_shape_refuted. Qed.
Print Assumptions C13_reply_shape_refuted.

(* outside that finding (no OPT, or EDNS version 0) every reply of all three backends echoes
   ID and question *)
Theorem C13_reply_shape_outside_finding : forall b st q locr ecs max x,
  (q_edns q = None \/ q_edns q = Some 0) ->
  serve b st q locr ecs max = OReply x -> rs_id x = q_id q /\ rs_question x = question_of q.
Proof. exact serve_echoes. Qed.
Print Assumptions C13_reply_shape_outside_finding.

(* C13_size_partial: the size clause over an abstract size function.  [size] (packed length) and
   [truncate] (miekg Msg.Truncate as called by request.Scrub) are library behaviour and enter as
   arbitrary functions satisfying the contract the handler relies on: truncate n r fits into n >= 512,
   leaves a fitting message alone, and reports TC when it changed the message.  Then every reply of
   serve - whose OPT with the echoed client-subnet option is part of the reply BEFORE it is fitted,
   as in the code - goes on the wire within max(512, advertised size), unchanged if it fits and with
   TC set otherwise.  Partial: the contract itself is not proved (the differential run observes the
   real sizes over a UDP writer: Run/C13.v udp_ok) *)
Theorem C13_size_partial : forall (size : response -> N) (truncate : N -> response -> response * bool),
  (forall n r, 512 <= n -> size (fst (truncate n r)) <= n) ->
  (forall n r, size r <= n -> truncate n r = (r, false)) ->
  (forall n r, fst (truncate n r) <> r -> snd (truncate n r) = true) ->
  forall b st q locr ecs max adv r,
  serve b st q locr ecs max = OReply r ->
  size (fst (written truncate adv r)) <= limit adv /\
  (size r <= limit adv -> written truncate adv r = (r, false)) /\
  (fst (written truncate adv r) <> r -> snd (written truncate adv r) = true).
Proof. exact written_fits. Qed.
Print Assumptions C13_size_partial.

(* the hypotheses are satisfiable and the conclusion is not vacuous: a referral from a delegated root *)
Example C13_example :
  let st := [([0; 0; 0], [[0; 2; 61; 0; 0; 0; 60; 0; 0; 0; 0; 0; 0; 0; 0; 1; 97; 0]])] in
  let q := mkQ 9 [1; 88; 0] 43 1 (Some 0) in
  wire_name (q_name q) = true /\
  serve CDB st q (LocOk [0; 0]) None 1 =
    OReply (mkResp 9 (Some ([1; 88; 0], 43, 1)) 0 false []
              [IRR (mkRR [0] 2 1 60 [1; 97; 0])] [] (Some None)).
Proof. vm_compute. split; reflexivity. Qed.
Print Assumptions C13_example.
