(* C20 - Transport and plugin chain do not alter answers.
   Only statements closed by [exact]; proofs are in Proofs/Chain.v, the model in
   Model/Chain.v.  [server ulen base rlen optlen serve cfg e r] is what one listener
   of a running server (configuration cfg: whoami flag, refuse-any, accept function,
   this listener's max answer) sends back for the request r arriving with the
   connection data e: Reply m, NoReply, or Panic (the process dies).
   [serve mx e r] is the database handler given max answer mx - any function.
   ulen/base/rlen/optlen are the length accounting of miekg's Truncate - any functions.
   All statements are for every request, every configuration, every environment. *)
From DnsV Require Import Base.Bytes Model.Chain Proofs.Chain.
Open Scope N_scope.

(* A request that passes the accept step, has a first question that is not an ANY
   query under refusal and does not name the whoami domain, gets exactly what the
   database handler writes when it is given this listener's max answer. *)
Theorem C20_chain_transparent : forall ulen base rlen optlen serve cfg e r q0 rest,
  accepted cfg r = true -> mq r = q0 :: rest ->
  any_refused cfg q0 = false -> whoami_matched cfg q0 = false ->
  server ulen base rlen optlen serve cfg e r = serve (max_answer cfg) e r.
Proof. exact chain_transparent. Qed.
Print Assumptions C20_chain_transparent.

(* the statement as worded in the property: exactly one question *)
Theorem C20_chain_transparent_one_question : forall ulen base rlen optlen serve cfg e r q0,
  accepted cfg r = true -> mq r = [q0] ->
  ~ (refuse_any cfg = true /\ qtype q0 = TypeANY) -> whoami_matched cfg q0 = false ->
  server ulen base rlen optlen serve cfg e r = serve (max_answer cfg) e r.
Proof. exact chain_transparent_one_question. Qed.
Print Assumptions C20_chain_transparent_one_question.

(* with miekg's default accept function every accepted request has exactly one question *)
Theorem C20_accepted_default_one_question : forall cfg r,
  accept cfg = AcceptDefault -> accepted cfg r = true -> exists q, mq r = [q].
Proof. exact accepted_default_one_question. Qed.
Print Assumptions C20_accepted_default_one_question.

(* Refusal on, first question of type ANY: the reply is the SetReply header (not
   authoritative, rcode 0), the question, one HINFO record "RFC 8482" "" with the
   question's owner, class IN, TTL 86400, empty authority and additional sections -
   and it is the same whatever the database handler is (it is not consulted). *)
Theorem C20_any_is_hinfo_only : forall ulen base rlen optlen serve cfg e r q0 rest,
  accepted cfg r = true -> mq r = q0 :: rest -> refuse_any cfg = true -> qtype q0 = TypeANY ->
  server ulen base rlen optlen serve cfg e r = Reply (any_reply r q0) /\
  man (any_reply r q0) = [mkRR (qname q0) TypeHINFO ClassINET 86400 hinfo_rdata] /\
  mns (any_reply r q0) = [] /\ mex (any_reply r q0) = [] /\ mq (any_reply r q0) = [q0] /\
  hrcode (mh (any_reply r q0)) = 0 /\ hqr (mh (any_reply r q0)) = true /\
  hid (mh (any_reply r q0)) = hid (mh r) /\ haa (mh (any_reply r q0)) = false /\
  htc (mh (any_reply r q0)) = false /\
  (forall serve2, server ulen base rlen optlen serve2 cfg e r = server ulen base rlen optlen serve cfg e r).
Proof. exact any_is_hinfo_only. Qed.
Print Assumptions C20_any_is_hinfo_only.

(* A message without a question never makes the server panic and never reaches
   the database handler.  It is answered with FORMERR or NOTIMP by the accept step
   (default accept function; a message with the QR bit is dropped), or with
   SERVFAIL by the serveMux guard when the accept function lets it through. *)
Theorem C20_no_question_fails_not_panics : forall ulen base rlen optlen serve cfg e r,
  mq r = [] ->
  server ulen base rlen optlen serve cfg e r <> Panic /\
  (forall serve2, server ulen base rlen optlen serve2 cfg e r = server ulen base rlen optlen serve cfg e r) /\
  match server ulen base rlen optlen serve cfg e r with
  | Reply m => failure_rcode (hrcode (mh m)) /\ hqr (mh m) = true /\ hid (mh m) = hid (mh r) /\
               mq m = [] /\ man m = [] /\ mns m = [] /\ mex m = []
  | NoReply => hqr (mh r) = true /\ accept cfg = AcceptDefault
  | Panic => False
  end /\
  (accept cfg = AcceptAll -> server ulen base rlen optlen serve cfg e r = Reply (handle_failed r)) /\
  (accept cfg = AcceptDefault -> hqr (mh r) = false ->
   server ulen base rlen optlen serve cfg e r =
   Reply (reject_reply r (negb ((hopcode (mh r) =? OpcodeQuery) || (hopcode (mh r) =? OpcodeNotify))))).
Proof. exact no_question_fails_not_panics. Qed.
Print Assumptions C20_no_question_fails_not_panics.

(* what the guard protects: the same handlers without it index an empty slice *)
Theorem C20_handlers_without_guard_panic : forall ulen base rlen optlen serve cfg e r,
  mq r = [] -> (refuse_any cfg = true \/ whoami_domain cfg <> None) ->
  serve_mux_noguard ulen base rlen optlen serve cfg e r = Panic.
Proof. exact handlers_without_guard_panic. Qed.
Print Assumptions C20_handlers_without_guard_panic.

(* whoami answers exactly the queries whose first question name equals the
   configured domain after ASCII lower-casing (any type, any class), unless the ANY
   handler took the query; its answer section holds only its own TXT records (owner
   = the name as sent, TTL 0), the authority section is empty, and the database
   handler is not consulted.  Every other name goes to the database handler. *)
Theorem C20_whoami_scope : forall ulen base rlen optlen serve cfg e r q0 rest,
  accepted cfg r = true -> mq r = q0 :: rest -> any_refused cfg q0 = false ->
  (whoami_matched cfg q0 = true ->
     server ulen base rlen optlen serve cfg e r = Reply (whoami_reply ulen base rlen optlen e r q0) /\
     (forall serve2, server ulen base rlen optlen serve2 cfg e r = server ulen base rlen optlen serve cfg e r) /\
     Forall (whoami_rr q0) (man (whoami_reply ulen base rlen optlen e r q0)) /\
     mns (whoami_reply ulen base rlen optlen e r q0) = []) /\
  (whoami_matched cfg q0 = false -> server ulen base rlen optlen serve cfg e r = serve (max_answer cfg) e r) /\
  (whoami_matched cfg q0 = true <-> exists d, whoami_domain cfg = Some d /\ lower (qname q0) = d).
Proof. exact whoami_scope. Qed.
Print Assumptions C20_whoami_scope.

Theorem C20_whoami_case_insensitive : forall cfg q1 q2,
  lower (qname q1) = lower (qname q2) -> whoami_matched cfg q1 = whoami_matched cfg q2.
Proof. exact whoami_case_insensitive. Qed.
Print Assumptions C20_whoami_case_insensitive.

(* writeAndLog = SizeAndDo then Scrub (Truncate to the request's size).  With m1 the
   message after SizeAndDo: over TCP the client gets m1 whole (up to 64 kB); over
   UDP it gets m1 whole if its uncompressed length fits max(512, advertised size),
   otherwise prefixes of the three sections (the OPT record kept), TC set exactly
   when it was set or a record is missing, and - when header, question and OPT fit
   at all - a compressed length within that size.
   PARTIAL: lengths are the abstract accounting functions; that Pack produces
   exactly these lengths, the sockets, TCP framing and the miekg server loop are
   runtime and covered by the differential run only (wire length <= size). *)
Theorem C20_udp_tc_tcp_complete_partial : forall ulen base rlen optlen e req m,
  let m1 := size_and_do req m in
  let out := write_and_log ulen base rlen optlen e req m in
  is_tsig m1 = false ->
  (proto e = Tcp -> ulen m1 <= MaxMsgSize -> out = m1) /\
  (proto e = Udp ->
     let size := req_size e req in
     MinMsgSize <= size /\
     (forall o, last_opt (mex req) = Some o -> size = N.max MinMsgSize (rclass o)) /\
     (last_opt (mex req) = None -> size = MinMsgSize) /\
     ((ulen m1 <= size /\ out = m1) \/
      (size < ulen m1 /\ truncated_from base rlen optlen size m1 out /\
       (length (man out) < length (man m1) \/ length (mns out) < length (mns m1)
        \/ length (mex out) < length (mex m1) -> htc (mh out) = true)%nat))).
Proof. exact udp_tc_tcp_complete. Qed.
Print Assumptions C20_udp_tc_tcp_complete_partial.

(* the option filter of SizeAndDo: the fuel used by the model suffices *)
Theorem C20_supported_options_fuel : forall b f, (length b <= f)%nat -> opts_filter f b = supported_options b.
Proof. exact supported_options_fuel. Qed.
Print Assumptions C20_supported_options_fuel.

(* non-trivial instances (toy database handler returning max-answer many records;
   toy lengths): transparent path with three records on the max-answer-3 listener,
   HINFO for ANY, ANY to the database when refusal is off, whoami in another letter
   case with a flag given without trailing dot, FORMERR / SERVFAIL for no question,
   Panic without the guard; truncation to 5 of 10 and 13 of 20 records with TC *)
Example C20_chain_examples :
  ex_server (ex_cfg ex_flag true AcceptDefault 3) (ex_env Udp) (ex_query ex_name 1 [])
    = ex_serve 3 (ex_env Udp) (ex_query ex_name 1 []) /\
  (exists m, ex_server (ex_cfg ex_flag true AcceptDefault 3) (ex_env Udp) (ex_query ex_name 1 []) = Reply m /\
             length (man m) = 3%nat) /\
  (exists m, ex_server (ex_cfg ex_flag true AcceptDefault 3) (ex_env Udp) (ex_query ex_name 255 []) = Reply m /\
             man m = [mkRR ex_name 13 1 86400 hinfo_rdata] /\ haa (mh m) = false) /\
  ex_server (ex_cfg ex_flag false AcceptDefault 3) (ex_env Udp) (ex_query ex_name 255 [])
    = ex_serve 3 (ex_env Udp) (ex_query ex_name 255 []) /\
  (exists m, ex_server (ex_cfg ex_flag false AcceptDefault 3) (ex_env Tcp)
               (ex_query [87;72;79;65;77;73;46;99;50;48;46;116;101;115;116;46] 16 []) = Reply m /\
             length (man m) = 4%nat /\ haa (mh m) = true) /\
  whoami_matched (ex_cfg ex_flag false AcceptDefault 3) (mkQ ex_whoami 16 1) = true /\
  whoami_matched (ex_cfg ex_flag false AcceptDefault 3) (mkQ ex_name 16 1) = false /\
  whoami_matched (ex_cfg [] false AcceptDefault 3) (mkQ ex_whoami 16 1) = false /\
  (exists m, ex_server (ex_cfg ex_flag true AcceptDefault 1) (ex_env Udp)
               (mkM (mkH 7 false 0 false false true false false false false 0) [] [] [] []) = Reply m /\
             hrcode (mh m) = 1) /\
  (exists m, ex_server (ex_cfg ex_flag true AcceptAll 1) (ex_env Udp)
               (mkM (mkH 7 false 0 false false true false false false false 0) [] [] [] []) = Reply m /\
             hrcode (mh m) = 2) /\
  serve_mux_noguard ex_ulen ex_base ex_rlen ex_optlen ex_serve (ex_cfg ex_flag true AcceptAll 1) (ex_env Udp)
    (mkM (mkH 7 false 0 false false true false false false false 0) [] [] [] []) = Panic.
Proof. exact chain_examples. Qed.
Print Assumptions C20_chain_examples.

Example C20_truncation_examples :
  (let out := write_and_log ex_ulen ex_base ex_rlen ex_optlen (ex_env Udp) (ex_query ex_name 16 []) (ex_answer 10 []) in
   length (man out) = 5%nat /\ htc (mh out) = true) /\
  (let out := write_and_log ex_ulen ex_base ex_rlen ex_optlen (ex_env Udp) (ex_query ex_name 16 [ex_opt 1232])
                (ex_answer 20 [ex_opt 4096]) in
   length (man out) = 13%nat /\ htc (mh out) = true /\ mex out = [ex_opt 1232]) /\
  (let out := write_and_log ex_ulen ex_base ex_rlen ex_optlen (ex_env Udp) (ex_query ex_name 16 [ex_opt 4096])
                (ex_answer 20 [ex_opt 4096]) in
   length (man out) = 20%nat /\ htc (mh out) = false) /\
  (let out := write_and_log ex_ulen ex_base ex_rlen ex_optlen (ex_env Tcp) (ex_query ex_name 16 []) (ex_answer 10 []) in
   out = ex_answer 10 []).
Proof. exact truncation_examples. Qed.
Print Assumptions C20_truncation_examples.

(* ================================================================ COMPOSITION: the whole handler of a listener
   [serve] above is "any function".  Here it is the real stack: Model/Compose.db_serve = the cache-enabled
   database handler (Model/Cache.serve over Model/Serve.serve; with cc_enabled = false the uncached one) in
   the state (generation g, cache c) at time now.  Proofs: Proofs/ComposeChain.v (on Proofs/Compose.v).

   What does not line up between Model/Chain (concrete miekg messages, connection data) and Model/Serve
   (projection of the response: rcode, AA, sections as items, OPT / ECS), and how it is bridged
   ([bridge], Model/Compose.v - arbitrary functions, constrained only by the named hypotheses below):
     br_wire   the wire form of the first question's (presentation) name: dns.PackDomainName;
               None = it fails (dns.HandleFailed)
     br_from   the requester as FindLocation sees it (remote address, ECS option) - the request's q_from
     br_ecs    the ECS option FindLocation hands back for this request on this generation
     br_render how a Serve.outcome is written: picks drawn (C11), names in presentation form, header bits
               copied by SetReply, writeAndLog = SizeAndDo + Scrub (C20_udp_tc_tcp_complete_partial) -
               env (transport, addresses) is used here and in br_from only
   type, class, id and the last OPT's EDNS version are read from the message by [view] / [msg_extra]
   (first question; root, 0, 0 when there is none, as coredns request.Name / QType / QClass).
   [whole_server ulen base rlen optlen br ccfg g c now cfg e r] := server ... (db_serve br ccfg g c now) cfg e r.
   [hfinal ccfg (g0, []) h] : the state (generation, cache) a sequential history h of queries (each arriving
   with its listener's max answer), reloads and failed reloads leaves behind (Properties/C12.v, composition
   part, for the vocabulary: refines_variant, refines_mod_case, gen_declares, hist_wire, hist_max). *)
From DnsV Require Model.Cache Model.Serve Model.LookupV1.
From DnsV Require Import Spec.Answer Spec.Rows Spec.KeysV2 Proofs.ZoneCut Proofs.NoPanic Proofs.FileLevel.
From DnsV Require Import Model.Compose Proofs.Compose Proofs.ComposeChain Proofs.ComposeExample.

(* C20_server_is_spec.  For every listener configuration, every state the handler can be in after a
   sequential history, and every accepted request whose first question is not ANY under refusal and does
   not name the whoami domain (16-bit type and class, a name that packs): the listener's reply is the
   rendering of what the database handler writes for the request's view [rq] with THIS listener's max
   answer, and that - when it is a reply to a supported EDNS version - refines Spec/Answer.spec_response of
   the records declared by the generation in force, for the client's location: exactly unless it is a
   cache hit; a hit modulo the letter case of owner names and for the max answer of the query the entry was
   computed for (the cache is shared by all listeners and its key holds no max answer:
   C12_max_answer_shared_through_cache).
   By C20_chain_transparent, the cache invariant behind C12_cached_handler_is_spec, C01_response_is_spec /
   C01_file_level. *)
Theorem C20_server_is_spec : forall ulen base rlen optlen br ccfg h g0 now cfg e r q0 rest w,
  hist_wire h ->
  accepted cfg r = true -> mq r = q0 :: rest ->
  any_refused cfg q0 = false -> whoami_matched cfg q0 = false ->
  br_wire br (qname q0) = Some w -> qtype q0 < 65536 -> qclass q0 < 65536 ->
  let mx := max_answer cfg in
  let g := fst (hfinal ccfg (g0, []) h) in
  let c := snd (hfinal ccfg (g0, []) h) in
  let rq := Cache.mkReq (br_from br e r) w (qtype q0) (qclass q0) (msg_extra r) in
  let f := snd (fst (handle mx ccfg g c now rq)) in
  let o := snd (handle mx ccfg g c now rq) in
  whole_server ulen base rlen optlen br ccfg g c now cfg e r = br_render br e r (f (br_ecs br e r g)) /\
  forall recs ecs y n,
    let L := loc_of_num (locate g rq) in
    gen_declares g L recs ->
    (req_edns rq = None \/ req_edns rq = Some 0) ->
    wf_name n -> nlen (pack n) <= 255 -> LookupV1.lower_bytes w = pack n ->
    f ecs = Serve.OReply y ->
    located g rq = true /\
    (exists a mx', refines_variant L recs n (query_of rq) ecs a mx' y) /\
    (o <> Cache.OHit -> response_refines L recs n (query_of rq) ecs mx y).
Proof. exact server_is_spec. Qed.
Print Assumptions C20_server_is_spec.

(* when all earlier queries arrived with this listener's max answer (one listener, or listeners configured
   alike): the listener's own max answer on hits too *)
Theorem C20_server_is_spec_same_max : forall ulen base rlen optlen br ccfg h g0 now cfg e r q0 rest w,
  hist_wire h -> hist_max (max_answer cfg) h ->
  accepted cfg r = true -> mq r = q0 :: rest ->
  any_refused cfg q0 = false -> whoami_matched cfg q0 = false ->
  br_wire br (qname q0) = Some w -> qtype q0 < 65536 -> qclass q0 < 65536 ->
  let mx := max_answer cfg in
  let g := fst (hfinal ccfg (g0, []) h) in
  let c := snd (hfinal ccfg (g0, []) h) in
  let rq := Cache.mkReq (br_from br e r) w (qtype q0) (qclass q0) (msg_extra r) in
  let f := snd (fst (handle mx ccfg g c now rq)) in
  let o := snd (handle mx ccfg g c now rq) in
  whole_server ulen base rlen optlen br ccfg g c now cfg e r = br_render br e r (f (br_ecs br e r g)) /\
  forall recs ecs y n,
    let L := loc_of_num (locate g rq) in
    gen_declares g L recs ->
    (req_edns rq = None \/ req_edns rq = Some 0) ->
    wf_name n -> nlen (pack n) <= 255 -> LookupV1.lower_bytes w = pack n ->
    f ecs = Serve.OReply y ->
    located g rq = true /\
    refines_mod_case L recs n (query_of rq) ecs mx y /\
    (o <> Cache.OHit -> response_refines L recs n (query_of rq) ecs mx y).
Proof. exact server_is_spec_same_max. Qed.
Print Assumptions C20_server_is_spec_same_max.

(* the same for any state satisfying the cache invariant [Inv Pq g c]: every entry is the canonical outcome
   of the current generation for its key, some asker's spelling a and some asker's max answer m with Pq a m *)
Theorem C20_server_is_spec_state : forall ulen base rlen optlen br ccfg Pq g c now cfg e r q0 rest w,
  Inv Pq g c ->
  accepted cfg r = true -> mq r = q0 :: rest ->
  any_refused cfg q0 = false -> whoami_matched cfg q0 = false ->
  br_wire br (qname q0) = Some w -> Pq w (max_answer cfg) -> qtype q0 < 65536 -> qclass q0 < 65536 ->
  let mx := max_answer cfg in
  let rq := Cache.mkReq (br_from br e r) w (qtype q0) (qclass q0) (msg_extra r) in
  let f := snd (fst (handle mx ccfg g c now rq)) in
  let o := snd (handle mx ccfg g c now rq) in
  whole_server ulen base rlen optlen br ccfg g c now cfg e r = br_render br e r (f (br_ecs br e r g)) /\
  forall recs ecs y n,
    let L := loc_of_num (locate g rq) in
    gen_declares g L recs ->
    (req_edns rq = None \/ req_edns rq = Some 0) ->
    wf_name n -> nlen (pack n) <= 255 -> LookupV1.lower_bytes w = pack n ->
    f ecs = Serve.OReply y ->
    located g rq = true /\
    (exists a mx', Pq a mx' /\ refines_variant L recs n (query_of rq) ecs a mx' y) /\
    (o <> Cache.OHit -> response_refines L recs n (query_of rq) ecs mx y).
Proof. exact server_is_spec_state. Qed.
Print Assumptions C20_server_is_spec_state.

(* the empty cache satisfies the invariant, a purge restores it (so does every step: Proofs/Compose.handle_step) *)
Theorem C20_inv_empty : forall Pq g, Inv Pq g [].
Proof. exact Inv_nil. Qed.
Print Assumptions C20_inv_empty.

(* a Panic of a listener can only be a Panic of the database handler on a message WITH a question: the
   serve_mux guard, the accept step and the front handlers never panic themselves *)
Theorem C20_server_panic_origin : forall ulen base rlen optlen serve cfg e r,
  server ulen base rlen optlen serve cfg e r = Panic ->
  exists q0 rest, mq r = q0 :: rest /\ serve (max_answer cfg) e r = Panic.
Proof. exact server_panic. Qed.
Print Assumptions C20_server_panic_origin.

(* C20_server_never_panics.  With the serve_mux guard in place the whole server never panics: for every
   listener configuration, connection and request (with or without a question, accepted or not, any
   opcode, ANY, whoami, any EDNS version, located or not), in every state reached by a sequential history
   of requests off the wire ([hist_wire_names]: 16-bit type and class, wire-valid names; any max answers),
   whatever the cache holds - under C13's store guard for the generation in force (v2 keys only: wf_store_v2, which every
   compiled database satisfies: C13_compiled_store_wf) and the two named hypotheses on the miekg side:
     wire_ok br   : what PackDomainName returns is an uncompressed wire name (labels 1..63, <= 255 octets)
     render_ok br : writing a reply panics only if the handler's outcome was a panic (or out of fuel)
   By C20_no_question_fails_not_panics' case analysis (C20_server_panic_origin), the cache invariant and
   C13_no_panic. *)
Theorem C20_server_never_panics : forall ulen base rlen optlen br ccfg h g0 now cfg e r,
  wire_ok br -> render_ok br -> hist_wire_names h ->
  let g := fst (hfinal ccfg (g0, []) h) in
  let c := snd (hfinal ccfg (g0, []) h) in
  (g_backend g = LookupV1.RDB2 -> wf_store_v2 (g_store g) = true) ->
  (forall q0 rest, mq r = q0 :: rest -> qtype q0 < 65536 /\ qclass q0 < 65536) ->
  whole_server ulen base rlen optlen br ccfg g c now cfg e r <> Panic.
Proof. exact server_never_panics. Qed.
Print Assumptions C20_server_never_panics.

Theorem C20_server_never_panics_state : forall ulen base rlen optlen br ccfg g c now cfg e r,
  wire_ok br -> render_ok br ->
  Inv wire_asked g c ->
  (g_backend g = LookupV1.RDB2 -> wf_store_v2 (g_store g) = true) ->
  (forall q0 rest, mq r = q0 :: rest -> qtype q0 < 65536 /\ qclass q0 < 65536) ->
  whole_server ulen base rlen optlen br ccfg g c now cfg e r <> Panic.
Proof. exact server_never_panics_state. Qed.
Print Assumptions C20_server_never_panics_state.

(* the named hypotheses and the history guard, spelled out *)
Theorem C20_bridge_hypotheses_meaning : forall br h,
  (wire_ok br <-> forall nm w, br_wire br nm = Some w -> wire_name w = true) /\
  (render_ok br <-> forall e r o, br_render br e r o = Panic -> o = Serve.OPanic \/ o = Serve.OFuel) /\
  (hist_wire_names h <->
   Forall (fun ev => match ev with
                     | Cache.EQuery _ _ _ r => Cache.q_qtype r < 65536 /\ Cache.q_qclass r < 65536 /\ wire_name (Cache.q_asked r) = true
                     | _ => True end) h).
Proof. intros. unfold wire_ok, render_ok, hist_wire_names, hist_ok, req_ok, wire_asked. tauto. Qed.
Print Assumptions C20_bridge_hypotheses_meaning.

(* non-vacuity: the listener (whoami WhoAmI.example.com, refuse-any, default accept, max answer 1) over the
   cache-enabled handler on generation 1 of C12_cached_handler_example (the data file of
   C01_file_level_example as CDB) after TXT Foo.example.com has been asked; toy bridge (names without escapes
   split at the dots, requester 1, records rendered with their wire owner) satisfying both hypotheses.
   TXT foo.example.com. : answered from the cache with the owner as first asked, AA, this request's id;
   ANY: HINFO; the whoami name: its TXT records; no question: FORMERR *)
Example C20_whole_server_example :
  wire_ok toy_bridge /\ render_ok toy_bridge /\
  (exists m, y_server y_st1 (ex_query y_foo_text 16 []) = Reply m /\
             man m = [mkRR y_Foo 16 1 120 [5; 104; 101; 108; 108; 111]] /\
             haa (mh m) = true /\ hid (mh m) = 4660) /\
  any_refused y_lcfg (mkQ y_foo_text 16 1) = false /\
  whoami_matched y_lcfg (mkQ y_foo_text 16 1) = false /\
  (exists m, y_server y_st1 (ex_query y_foo_text 255 []) = Reply m /\
             man m = [mkRR y_foo_text 13 1 86400 hinfo_rdata]) /\
  (exists m, y_server y_st1 (ex_query y_whoami_text 16 []) = Reply m /\ length (man m) = 4%nat) /\
  (exists m, y_server y_st1 (mkM (mkH 7 false 0 false false true false false false false 0) [] [] [] []) = Reply m /\
             hrcode (mh m) = 1).
Proof. exact whole_server_example. Qed.
Print Assumptions C20_whole_server_example.

(* What remains outside.  The bridge functions are parameters: that miekg's Unpack / PackDomainName, the
   location lookup and the message writer behave as [wire_ok] / [render_ok] say is the differential run's
   matter (C13, C20 harnesses), as is the tie of [view] to coredns request.Request.
   ANY under refusal and the whoami name are C20_any_is_hinfo_only / C20_whoami_scope (database not consulted). *)
