(* C20 - Transport and plugin chain do not alter answers.
   Only statements closed by [exact]; proofs are in Proofs/Chain.v, the model in
   Model/Chain.v.  [server ulen base rlen optlen serve cfg e r] is what one listener
   of a running server (configuration cfg: whoami flag, refuse-any, accept function,
   this listener's max answer) sends back for the request r arriving with the
   connection data e: Reply m, NoReply, or Panic (the process dies).
   [serve mx e r] is the database handler given max answer mx - any function.
   ulen/base/rlen/optlen are the length accounting of miekg's Truncate - any functions.
   All statements are for every request, every configuration, every environment. *)
From DnsV Require Import Base.Bytes Model.Chain Proofs.Chain.
Open Scope N_scope.

(* A request that passes the accept step, has a first question that is not an ANY
   query under refusal and does not name the whoami domain, gets exactly what the
   database handler writes when it is given this listener's max answer. *)
Theorem C20_chain_transparent : forall ulen base rlen optlen serve cfg e r q0 rest,
  accepted cfg r = true -> mq r = q0 :: rest ->
  any_refused cfg q0 = false -> whoami_matched cfg q0 = false ->
  server ulen base rlen optlen serve cfg e r = serve (max_answer cfg) e r.
Proof. exact chain_transparent. Qed.
Print Assumptions C20_chain_transparent.

(* the statement as worded in the property: exactly one question *)
Theorem C20_chain_transparent_one_question : forall ulen base rlen optlen serve cfg e r q0,
  accepted cfg r = true -> mq r = [q0] ->
  ~ (refuse_any cfg = true /\ qtype q0 = TypeANY) -> whoami_matched cfg q0 = false ->
  server ulen base rlen optlen serve cfg e r = serve (max_answer cfg) e r.
Proof. exact chain_transparent_one_question. Qed.
Print Assumptions C20_chain_transparent_one_question.

(* with miekg's default accept function every accepted request has exactly one question *)
Theorem C20_accepted_default_one_question : forall cfg r,
  accept cfg = AcceptDefault -> accepted cfg r = true -> exists q, mq r = [q].
Proof. exact accepted_default_one_question. Qed.
Print Assumptions C20_accepted_default_one_question.

(* Refusal on, first question of type ANY: the reply is the SetReply header (not
   authoritative, rcode 0), the question, one HINFO record "RFC 8482" "" with the
   question's owner, class IN, TTL 86400, empty authority and additional sections -
   and it is the same whatever the database handler is (it is not consulted). *)
Theorem C20_any_is_hinfo_only : forall ulen base rlen optlen serve cfg e r q0 rest,
  accepted cfg r = true -> mq r = q0 :: rest -> refuse_any cfg = true -> qtype q0 = TypeANY ->
  server ulen base rlen optlen serve cfg e r = Reply (any_reply r q0) /\
  man (any_reply r q0) = [mkRR (qname q0) TypeHINFO ClassINET 86400 hinfo_rdata] /\
  mns (any_reply r q0) = [] /\ mex (any_reply r q0) = [] /\ mq (any_reply r q0) = [q0] /\
  hrcode (mh (any_reply r q0)) = 0 /\ hqr (mh (any_reply r q0)) = true /\
  hid (mh (any_reply r q0)) = hid (mh r) /\ haa (mh (any_reply r q0)) = false /\
  htc (mh (any_reply r q0)) = false /\
  (forall serve2, server ulen base rlen optlen serve2 cfg e r = server ulen base rlen optlen serve cfg e r).
Proof. exact any_is_hinfo_only. Qed.
Print Assumptions C20_any_is_hinfo_only.

(* A message without a question never makes the server panic and never reaches
   the database handler.  It is answered with FORMERR or NOTIMP by the accept step
   (default accept function; a message with the QR bit is dropped), or with
   SERVFAIL by the serveMux guard when the accept function lets it through. *)
Theorem C20_no_question_fails_not_panics : forall ulen base rlen optlen serve cfg e r,
  mq r = [] ->
  server ulen base rlen optlen serve cfg e r <> Panic /\
  (forall serve2, server ulen base rlen optlen serve2 cfg e r = server ulen base rlen optlen serve cfg e r) /\
  match server ulen base rlen optlen serve cfg e r with
  | Reply m => failure_rcode (hrcode (mh m)) /\ hqr (mh m) = true /\ hid (mh m) = hid (mh r) /\
               mq m = [] /\ man m = [] /\ mns m = [] /\ mex m = []
  | NoReply => hqr (mh r) = true /\ accept cfg = AcceptDefault
  | Panic => False
  end /\
  (accept cfg = AcceptAll -> server ulen base rlen optlen serve cfg e r = Reply (handle_failed r)) /\
  (accept cfg = AcceptDefault -> hqr (mh r) = false ->
   server ulen base rlen optlen serve cfg e r =
   Reply (reject_reply r (negb ((hopcode (mh r) =? OpcodeQuery) || (hopcode (mh r) =? OpcodeNotify))))).
Proof. exact no_question_fails_not_panics. Qed.
Print Assumptions C20_no_question_fails_not_panics.

(* what the guard protects: the same handlers without it index an empty slice *)
Theorem C20_handlers_without_guard_panic : forall ulen base rlen optlen serve cfg e r,
  mq r = [] -> (refuse_any cfg = true \/ whoami_domain cfg <> None) ->
  serve_mux_noguard ulen base rlen optlen serve cfg e r = Panic.
Proof. exact handlers_without_guard_panic. Qed.
Print Assumptions C20_handlers_without_guard_panic.

(* whoami answers exactly the queries whose first question name equals the
   configured domain after ASCII lower-casing (any type, any class), unless the ANY
   handler took the query; its answer section holds only its own TXT records (owner
   = the name as sent, TTL 0), the authority section is empty, and the database
   handler is not consulted.  Every other name goes to the database handler. *)
Theorem C20_whoami_scope : forall ulen base rlen optlen serve cfg e r q0 rest,
  accepted cfg r = true -> mq r = q0 :: rest -> any_refused cfg q0 = false ->
  (whoami_matched cfg q0 = true ->
     server ulen base rlen optlen serve cfg e r = Reply (whoami_reply ulen base rlen optlen e r q0) /\
     (forall serve2, server ulen base rlen optlen serve2 cfg e r = server ulen base rlen optlen serve cfg e r) /\
     Forall (whoami_rr q0) (man (whoami_reply ulen base rlen optlen e r q0)) /\
     mns (whoami_reply ulen base rlen optlen e r q0) = []) /\
  (whoami_matched cfg q0 = false -> server ulen base rlen optlen serve cfg e r = serve (max_answer cfg) e r) /\
  (whoami_matched cfg q0 = true <-> exists d, whoami_domain cfg = Some d /\ lower (qname q0) = d).
Proof. exact whoami_scope. Qed.
Print Assumptions C20_whoami_scope.

Theorem C20_whoami_case_insensitive : forall cfg q1 q2,
  lower (qname q1) = lower (qname q2) -> whoami_matched cfg q1 = whoami_matched cfg q2.
Proof. exact whoami_case_insensitive. Qed.
Print Assumptions C20_whoami_case_insensitive.

(* writeAndLog = SizeAndDo then Scrub (Truncate to the request's size).  With m1 the
   message after SizeAndDo: over TCP the client gets m1 whole (up to 64 kB); over
   UDP it gets m1 whole if its uncompressed length fits max(512, advertised size),
   otherwise prefixes of the three sections (the OPT record kept), TC set exactly
   when it was set or a record is missing, and - when header, question and OPT fit
   at all - a compressed length within that size.
   PARTIAL: lengths are the abstract accounting functions; that Pack produces
   exactly these lengths, the sockets, TCP framing and the miekg server loop are
   runtime and covered by the differential run only (wire length <= size). *)
Theorem C20_udp_tc_tcp_complete_partial : forall ulen base rlen optlen e req m,
  let m1 := size_and_do req m in
  let out := write_and_log ulen base rlen optlen e req m in
  is_tsig m1 = false ->
  (proto e = Tcp -> ulen m1 <= MaxMsgSize -> out = m1) /\
  (proto e = Udp ->
     let size := req_size e req in
     MinMsgSize <= size /\
     (forall o, last_opt (mex req) = Some o -> size = N.max MinMsgSize (rclass o)) /\
     (last_opt (mex req) = None -> size = MinMsgSize) /\
     ((ulen m1 <= size /\ out = m1) \/
      (size < ulen m1 /\ truncated_from base rlen optlen size m1 out /\
       (length (man out) < length (man m1) \/ length (mns out) < length (mns m1)
        \/ length (mex out) < length (mex m1) -> htc (mh out) = true)%nat))).
Proof. exact udp_tc_tcp_complete. Qed.
Print Assumptions C20_udp_tc_tcp_complete_partial.

(* the option filter of SizeAndDo: the fuel used by the model suffices *)
Theorem C20_supported_options_fuel : forall b f, (length b <= f)%nat -> opts_filter f b = supported_options b.
Proof. exact supported_options_fuel. Qed.
Print Assumptions C20_supported_options_fuel.

(* non-trivial instances (toy database handler returning max-answer many records;
   toy lengths): transparent path with three records on the max-answer-3 listener,
   HINFO for ANY, ANY to the database when refusal is off, whoami in another letter
   case with a flag given without trailing dot, FORMERR / SERVFAIL for no question,
   Panic without the guard; truncation to 5 of 10 and 13 of 20 records with TC *)
Example C20_chain_examples :
  ex_server (ex_cfg ex_flag true AcceptDefault 3) (ex_env Udp) (ex_query ex_name 1 [])
    = ex_serve 3 (ex_env Udp) (ex_query ex_name 1 []) /\
  (exists m, ex_server (ex_cfg ex_flag true AcceptDefault 3) (ex_env Udp) (ex_query ex_name 1 []) = Reply m /\
             length (man m) = 3%nat) /\
  (exists m, ex_server (ex_cfg ex_flag true AcceptDefault 3) (ex_env Udp) (ex_query ex_name 255 []) = Reply m /\
             man m = [mkRR ex_name 13 1 86400 hinfo_rdata] /\ haa (mh m) = false) /\
  ex_server (ex_cfg ex_flag false AcceptDefault 3) (ex_env Udp) (ex_query ex_name 255 [])
    = ex_serve 3 (ex_env Udp) (ex_query ex_name 255 []) /\
  (exists m, ex_server (ex_cfg ex_flag false AcceptDefault 3) (ex_env Tcp)
               (ex_query [87;72;79;65;77;73;46;99;50;48;46;116;101;115;116;46] 16 []) = Reply m /\
             length (man m) = 4%nat /\ haa (mh m) = true) /\
  whoami_matched (ex_cfg ex_flag false AcceptDefault 3) (mkQ ex_whoami 16 1) = true /\
  whoami_matched (ex_cfg ex_flag false AcceptDefault 3) (mkQ ex_name 16 1) = false /\
  whoami_matched (ex_cfg [] false AcceptDefault 3) (mkQ ex_whoami 16 1) = false /\
  (exists m, ex_server (ex_cfg ex_flag true AcceptDefault 1) (ex_env Udp)
               (mkM (mkH 7 false 0 false false true false false false false 0) [] [] [] []) = Reply m /\
             hrcode (mh m) = 1) /\
  (exists m, ex_server (ex_cfg ex_flag true AcceptAll 1) (ex_env Udp)
               (mkM (mkH 7 false 0 false false true false false false false 0) [] [] [] []) = Reply m /\
             hrcode (mh m) = 2) /\
  serve_mux_noguard ex_ulen ex_base ex_rlen ex_optlen ex_serve (ex_cfg ex_flag true AcceptAll 1) (ex_env Udp)
    (mkM (mkH 7 false 0 false false true false false false false 0) [] [] [] []) = Panic.
Proof. exact chain_examples. Qed.
Print Assumptions C20_chain_examples.

Example C20_truncation_examples :
  (let out := write_and_log ex_ulen ex_base ex_rlen ex_optlen (ex_env Udp) (ex_query ex_name 16 []) (ex_answer 10 []) in
   length (man out) = 5%nat /\ htc (mh out) = true) /\
  (let out := write_and_log ex_ulen ex_base ex_rlen ex_optlen (ex_env Udp) (ex_query ex_name 16 [ex_opt 1232])
                (ex_answer 20 [ex_opt 4096]) in
   length (man out) = 13%nat /\ htc (mh out) = true /\ mex out = [ex_opt 1232]) /\
  (let out := write_and_log ex_ulen ex_base ex_rlen ex_optlen (ex_env Udp) (ex_query ex_name 16 [ex_opt 4096])
                (ex_answer 20 [ex_opt 4096]) in
   length (man out) = 20%nat /\ htc (mh out) = false) /\
  (let out := write_and_log ex_ulen ex_base ex_rlen ex_optlen (ex_env Tcp) (ex_query ex_name 16 []) (ex_answer 10 []) in
   out = ex_answer 10 []).
Proof. exact truncation_examples. Qed.
Print Assumptions C20_truncation_examples.
