(* C03 - placeholder while the proofs are being written *)
From DnsV Require Import Base.Bytes Base.Ip Spec.Lpm.
Open Scope N_scope.
Theorem C03_tmp : lpm [] V4 0 0 = None.
Proof. reflexivity. Qed.
Print Assumptions C03_tmp.
