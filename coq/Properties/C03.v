(* C03 - Client-to-location mapping is longest-prefix match over declared subnets.
   This file holds only theorem statements closed by [exact]; the proofs are in
   Proofs/Lpm.v (blocks, lpm), Proofs/Sweep.v (the location stack over a laminar
   family), Proofs/Squash.v, Proofs/Rearranger.v (Rearrange = lpm) and
   Proofs/Location.v (CDB lookup, map choice).

   Guard wf_subnets (Proofs/Location.v, decidable, Example C03_wf_subnets_example):
   every subnet has length <= 128 and a 16-byte network address without host bits,
   no (address, length) is declared twice, and no IPv6 subnet of length 1..95
   contains ::ffff:0:0 (known finding F20, see the two C03_rdb_is_lpm_refuted theorems). *)
From DnsV Require Import Base.Bytes Base.Ip Spec.Lpm Model.Rearranger Model.Location.
From DnsV Require Import Proofs.Lpm Proofs.Location Proofs.Rearranger Proofs.RdbLocate Proofs.MapV2.
From Coq Require Import Permutation.
Open Scope N_scope.

(* ---- the two lemmas that carry the geometry (quotient form of a block) *)
Theorem C03_laminar : forall s t x, s_len s <= s_len t -> s_len t <= 128 ->
  contains s x = true -> contains t x = true -> forall y, contains t y = true -> contains s y = true.
Proof. exact laminar. Qed.
Print Assumptions C03_laminar.

Theorem C03_straddle : forall s x p, s_len s <= 128 -> p <= 128 -> 0 < x -> masked x p ->
  contains s (x - 1) = true -> contains s x = true -> s_len s < p.
Proof. exact straddle. Qed.
Print Assumptions C03_straddle.

(* ---- the hypotheses are satisfiable *)
Theorem C03_wf_subnets_example :
  wf_subnets [mkSubnet 0 0 (0, 1); mkSubnet first_v4 96 (0, 2);
              mkSubnet (first_v4 + 10 * 2 ^ 24) 104 (0, 3); mkSubnet (first_v4 + 10 * 2 ^ 24 + 2 ^ 8) 120 (0, 4);
              mkSubnet (first_v4 + 10 * 2 ^ 24) 112 (0, 5); mkSubnet (first_v4 + 11 * 2 ^ 24) 104 (0, 6);
              mkSubnet (2 ^ 128 - 1) 128 (0, 7); mkSubnet (2 ^ 127) 1 (0, 8);
              mkSubnet 0 96 (0, 9); mkSubnet (first_v4) 104 (0, 10)].
Proof. exact wf_subnets_example. Qed.
Print Assumptions C03_wf_subnets_example.

(* sort.Slice: any function returning a sorted permutation; insertion sort is one *)
Theorem C03_sort_spec_satisfiable : sort_spec isort.
Proof. exact isort_spec. Qed.
Print Assumptions C03_sort_spec_satisfiable.

(* ---- RocksDB side: the range points Rearrange derives, read by predecessor search
   (greatest (address, mask byte) <= (masked client address, client prefix length)),
   give exactly lpm - for every sorted permutation sort.Slice may return; Rearrange
   never panics on a well-formed set *)
Theorem C03_rdb_is_lpm : forall sort S a plen,
  sort_spec sort -> wf_subnets S -> a < two128 -> plen <= 128 -> masked a plen ->
  exists pts, rearrange sort S = Ok pts /\ pt_locate pts a plen = lpm S (fam a) a plen.
Proof. exact rearrange_is_lpm. Qed.
Print Assumptions C03_rdb_is_lpm.

(* the same at the level of the driver: GetLocationByMap of the RocksDB backend
   (search key = marker, map, masked client address, prefix length; SeekForPrev in
   bytewise order; the closest key must carry the marker and map; value decoding)
   on any database whose range-point records of map m are exactly those of the
   points Rearrange returned.  The client is given as the callers build it. *)
Theorem C03_rdb_driver_is_lpm : forall sort, sort_spec sort -> forall S, wf_subnets S ->
  forall pts, rearrange sort S = Ok pts ->
  forall (db : list kv) (m : mapid),
  (forall p, In p pts -> In (rp_key m p, mv1 (rp_value p)) db) ->
  (forall k v, In (k, v) db -> is_prefix (rp_marker ++ mapid_bytes m) k = true ->
     exists p, In p pts /\ k = rp_key m p /\ v = mv1 (rp_value p)) ->
  forall a bits ones plen, a < two128 -> client_plen a bits ones plen ->
  rdb_get_location db m (mkClient (Some a) bits ones) =
  Ok (lpm_result (lpm S (fam (clean_mask a plen)) (clean_mask a plen) plen)).
Proof. exact rdb_driver_is_lpm. Qed.
Print Assumptions C03_rdb_driver_is_lpm.

(* outside the guard the faithful model violates the property (finding F20):
   ::/64 alone, client ::1:0:0:1 inside it gets no location *)
Theorem C03_rdb_is_lpm_refuted_inside :
  exists S a plen, wf_but_overlap S = true /\ a < two128 /\ plen <= 128 /\ masked a plen /\
    exists pts, rearrange isort S = Ok pts /\ pt_locate pts a plen = None /\
                lpm S (fam a) a plen = Some ((0, 1), 64).
Proof. exact rearrange_lpm_refuted_inside. Qed.
Print Assumptions C03_rdb_is_lpm_refuted_inside.

(* ::/1 alone, client 8000:: outside every subnet gets its location *)
Theorem C03_rdb_is_lpm_refuted_outside :
  exists S a plen, wf_but_overlap S = true /\ a < two128 /\ plen <= 128 /\ masked a plen /\
    exists pts, rearrange isort S = Ok pts /\ pt_locate pts a plen = Some ((0, 1), 1) /\
                lpm S (fam a) a plen = None.
Proof. exact rearrange_lpm_refuted_outside. Qed.
Print Assumptions C03_rdb_is_lpm_refuted_outside.

(* ---- the lookup function does not depend on the order of AddLocation calls
   (parallel parser workers) nor on the sorted permutation chosen by sort.Slice *)
Theorem C03_rearrange_order_independent : forall sort sort' S S' a plen,
  sort_spec sort -> sort_spec sort' -> wf_subnets S -> Permutation S S' ->
  a < two128 -> plen <= 128 -> masked a plen ->
  exists pts pts', rearrange sort S = Ok pts /\ rearrange sort' S' = Ok pts' /\
                   pt_locate pts a plen = pt_locate pts' a plen.
Proof. exact rearrange_order_independent. Qed.
Print Assumptions C03_rearrange_order_independent.

(* ---- CDB side, both prefix-set modes (sep = per-family sets): descending prefix
   lengths <= the client prefix, mask, exact get - on the database compiled from the
   data file.  The client is given as the callers build it (128-bit mask, or 32-bit
   mask on a v4-mapped address); the driver masks the address itself. *)
Theorem C03_cdb_is_lpm : forall sep f m db a bits ones plen,
  wf_kinds f = true -> wf_addrs f = true -> wf_subnets (nets_of f m) -> cdb_db f = Some db ->
  a < two128 -> client_plen a bits ones plen ->
  cdb_get_location sep db m (mkClient (Some a) bits ones) =
  Ok (lpm_result (lpm (nets_of f m) (fam (clean_mask a plen)) (clean_mask a plen) plen)).
Proof. exact cdb_is_lpm. Qed.
Print Assumptions C03_cdb_is_lpm.

(* ---- name-to-map step: exact-name map first, else the nearest enclosing wildcard map.
   [Hget] says that the M / 8 records of the database are exactly the declarations
   (enc = how a value is stored); C03_cdb_map_records shows it for the compiled CDB. *)
Theorem C03_map_choice_v1 : forall decls kind db,
  (forall n wild, wf_labelsb n = true ->
     get db ([0; kind] ++ pack_labels n ++ [suffix_of wild]) =
     option_map (fun id => mv1 (mapid_bytes id)) (lookup_decl decls kind wild n)) ->
  forall ls, wf_labelsb ls = true ->
  v1_find_map db [0; kind] (pack_labels ls) = Ok (option_map mapid_bytes (map_choice decls kind ls)).
Proof. intros decls kind db H ls W. exact (v1_find_map_choice decls kind db mv1 H ls W eq_refl). Qed.
Print Assumptions C03_map_choice_v1.

Theorem C03_map_choice_cdb : forall decls kind db,
  (forall n wild, wf_labelsb n = true ->
     get db ([0; kind] ++ pack_labels n ++ [suffix_of wild]) =
     option_map (fun id => mapid_bytes id) (lookup_decl decls kind wild n)) ->
  forall ls, wf_labelsb ls = true ->
  cdb_find_map (S (length (pack_labels ls))) db [0; kind] (pack_labels ls) true =
  Ok (option_map mapid_bytes (map_choice decls kind ls)).
Proof. intros decls kind db H ls W. exact (cdb_find_map_choice decls kind db (fun v => v) H ls W eq_refl). Qed.
Print Assumptions C03_map_choice_cdb.

(* RocksDB v2 keys (reversed names, sorted search with skips, findMapInSortedData as
   repaired in ca8d016): on any database whose map records of this kind are exactly
   the declarations, each (kind, name, wildcard) declared with one map id *)
Theorem C03_map_choice_v2 : forall decls kind (db : list kv),
  (forall d, In d decls -> wf_labelsb (md_name d) = true) ->
  (forall d d', In d decls -> In d' decls ->
     md_kind d = md_kind d' -> md_name d = md_name d' -> md_wild d = md_wild d' -> md_id d = md_id d') ->
  (forall d, In d decls -> md_kind d = kind ->
     In (vkey kind (rev (md_name d)) (suffix_of (md_wild d)), mv1 (mapid_bytes (md_id d))) db) ->
  (forall k v, In (k, v) db -> is_prefix [0; kind] k = true ->
     exists d, In d decls /\ md_kind d = kind /\ k = vkey kind (rev (md_name d)) (suffix_of (md_wild d)) /\
               v = mv1 (mapid_bytes (md_id d))) ->
  forall ls, wf_labelsb ls = true ->
  v2_find_map db [0; kind] (pack_labels ls) = Ok (option_map mapid_bytes (map_choice decls kind ls)).
Proof. exact v2_find_map_choice. Qed.
Print Assumptions C03_map_choice_v2.

Theorem C03_cdb_map_records : forall f decls db kind n wild,
  f_maps f = map decl_line decls -> forallb wf_declb decls = true -> cdb_db f = Some db ->
  kind = 77 \/ kind = 56 -> wf_labelsb n = true ->
  get db (v1_map_key kind n wild) = option_map (fun id => mapid_bytes id) (lookup_decl decls kind wild n).
Proof. exact cdb_map_records. Qed.
Print Assumptions C03_cdb_map_records.
