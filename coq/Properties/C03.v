(* C03 - Client-to-location mapping is longest-prefix match over declared subnets.
   This file holds only theorem statements closed by [exact]; the proofs are in
   Proofs/Lpm.v (blocks, lpm), Proofs/Sweep.v (the location stack over a laminar
   family), Proofs/Squash.v, Proofs/Rearranger.v (Rearrange = lpm) and
   Proofs/Location.v (CDB lookup, map choice).

   Guard wf_subnets (Proofs/Location.v, decidable, Example C03_wf_subnets_example):
   every subnet has length <= 128 and a 16-byte network address without host bits,
   no (address, length) is declared twice, and no IPv6 subnet of length 1..95
   contains ::ffff:0:0 (known finding F20, see the two C03_rdb_is_lpm_refuted theorems). *)
From DnsV Require Import Base.Bytes Base.Ip Spec.Lpm Model.Rearranger Model.Location.
From DnsV Require Import Proofs.Lpm Proofs.Location Proofs.Rearranger Proofs.RdbLocate Proofs.MapV2.
From Coq Require Import Permutation.
Open Scope N_scope.

(* ---- the two lemmas that carry the geometry (quotient form of a block) *)
Theorem C03_laminar : forall s t x, s_len s <= s_len t -> s_len t <= 128 ->
  contains s x = true -> contains t x = true -> forall y, contains t y = true -> contains s y = true.
Proof. exact laminar. Qed.
Print Assumptions C03_laminar.

Theorem C03_straddle : forall s x p, s_len s <= 128 -> p <= 128 -> 0 < x -> masked x p ->
  contains s (x - 1) = true -> contains s x = true -> s_len s < p.
Proof. exact straddle. Qed.
Print Assumptions C03_straddle.

(* ---- the hypotheses are satisfiable *)
Theorem C03_wf_subnets_example :
  wf_subnets [mkSubnet 0 0 (0, 1); mkSubnet first_v4 96 (0, 2);
              mkSubnet (first_v4 + 10 * 2 ^ 24) 104 (0, 3); mkSubnet (first_v4 + 10 * 2 ^ 24 + 2 ^ 8) 120 (0, 4);
              mkSubnet (first_v4 + 10 * 2 ^ 24) 112 (0, 5); mkSubnet (first_v4 + 11 * 2 ^ 24) 104 (0, 6);
              mkSubnet (2 ^ 128 - 1) 128 (0, 7); mkSubnet (2 ^ 127) 1 (0, 8);
              mkSubnet 0 96 (0, 9); mkSubnet (first_v4) 104 (0, 10)].
Proof. exact wf_subnets_example. Qed.
Print Assumptions C03_wf_subnets_example.

(* sort.Slice: any function returning a sorted permutation; insertion sort is one *)
Theorem C03_sort_spec_satisfiable : sort_spec isort.
Proof. exact isort_spec. Qed.
Print Assumptions C03_sort_spec_satisfiable.

(* ---- RocksDB side: the range points Rearrange derives, read by predecessor search
   (greatest (address, mask byte) <= (masked client address, client prefix length)),
   give exactly lpm - for every sorted permutation sort.Slice may return; Rearrange
   never panics on a well-formed set *)
Theorem C03_rdb_is_lpm : forall sort S a plen,
  sort_spec sort -> wf_subnets S -> a < two128 -> plen <= 128 -> masked a plen ->
  exists pts, rearrange sort S = Ok pts /\ pt_locate pts a plen = lpm S (fam a) a plen.
Proof. exact rearrange_is_lpm. Qed.
Print Assumptions C03_rdb_is_lpm.

(* the same at the level of the driver: GetLocationByMap of the RocksDB backend
   (search key = marker, map, masked client address, prefix length; SeekForPrev in
   bytewise order; the closest key must carry the marker and map; value decoding)
   on any database whose range-point records of map m are exactly those of the
   points Rearrange returned.  The client is given as the callers build it. *)
Theorem C03_rdb_driver_is_lpm : forall sort, sort_spec sort -> forall S, wf_subnets S ->
  forall pts, rearrange sort S = Ok pts ->
  forall (db : list kv) (m : mapid),
  (forall p, In p pts -> In (rp_key m p, mv1 (rp_value p)) db) ->
  (forall k v, In (k, v) db -> is_prefix (rp_marker ++ mapid_bytes m) k = true ->
     exists p, In p pts /\ k = rp_key m p /\ v = mv1 (rp_value p)) ->
  forall a bits ones plen, a < two128 -> client_plen a bits ones plen ->
  rdb_get_location db m (mkClient (Some a) bits ones) =
  Ok (lpm_result (lpm S (fam (clean_mask a plen)) (clean_mask a plen) plen)).
Proof. exact rdb_driver_is_lpm. Qed.
Print Assumptions C03_rdb_driver_is_lpm.

(* outside the guard the faithful model violates the property (finding F20):
   ::/64 alone, client ::1:0:0:1 inside it gets no location *)
Theorem C03_rdb_is_lpm_refuted_inside :
  exists S a plen, wf_but_overlap S = true /\ a < two128 /\ plen <= 128 /\ masked a plen /\
    exists pts, rearrange isort S = Ok pts /\ pt_locate pts a plen = None /\
                lpm S (fam a) a plen = Some ((0, 1), 64).
Proof. exact rearrange_lpm_refuted_inside. Qed.
Print Assumptions C03_rdb_is_lpm_refuted_inside.

(* ::/1 alone, client 8000:: outside every subnet gets its location *)
Theorem C03_rdb_is_lpm_refuted_outside :
  exists S a plen, wf_but_overlap S = true /\ a < two128 /\ plen <= 128 /\ masked a plen /\
    exists pts, rearrange isort S = Ok pts /\ pt_locate pts a plen = Some ((0, 1), 1) /\
                lpm S (fam a) a plen = None.
Proof. exact rearrange_lpm_refuted_outside. Qed.
Print Assumptions C03_rdb_is_lpm_refuted_outside.

(* ---- the lookup function does not depend on the order of AddLocation calls
   (parallel parser workers) nor on the sorted permutation chosen by sort.Slice *)
Theorem C03_rearrange_order_independent : forall sort sort' S S' a plen,
  sort_spec sort -> sort_spec sort' -> wf_subnets S -> Permutation S S' ->
  a < two128 -> plen <= 128 -> masked a plen ->
  exists pts pts', rearrange sort S = Ok pts /\ rearrange sort' S' = Ok pts' /\
                   pt_locate pts a plen = pt_locate pts' a plen.
Proof. exact rearrange_order_independent. Qed.
Print Assumptions C03_rearrange_order_independent.

(* ---- CDB side, both prefix-set modes (sep = per-family sets): descending prefix
   lengths <= the client prefix, mask, exact get - on the database compiled from the
   data file.  The client is given as the callers build it (128-bit mask, or 32-bit
   mask on a v4-mapped address); the driver masks the address itself. *)
Theorem C03_cdb_is_lpm : forall sep f m db a bits ones plen,
  wf_kinds f = true -> wf_addrs f = true -> wf_subnets (nets_of f m) -> cdb_db f = Some db ->
  a < two128 -> client_plen a bits ones plen ->
  cdb_get_location sep db m (mkClient (Some a) bits ones) =
  Ok (lpm_result (lpm (nets_of f m) (fam (clean_mask a plen)) (clean_mask a plen) plen)).
Proof. exact cdb_is_lpm. Qed.
Print Assumptions C03_cdb_is_lpm.

(* ---- name-to-map step: exact-name map first, else the nearest enclosing wildcard map.
   [Hget] says that the M / 8 records of the database are exactly the declarations
   (enc = how a value is stored); C03_cdb_map_records shows it for the compiled CDB. *)
Theorem C03_map_choice_v1 : forall decls kind db,
  (forall n wild, wf_labelsb n = true ->
     get db ([0; kind] ++ pack_labels n ++ [suffix_of wild]) =
     option_map (fun id => mv1 (mapid_bytes id)) (lookup_decl decls kind wild n)) ->
  forall ls, wf_labelsb ls = true ->
  v1_find_map db [0; kind] (pack_labels ls) = Ok (option_map mapid_bytes (map_choice decls kind ls)).
Proof. intros decls kind db H ls W. exact (v1_find_map_choice decls kind db mv1 H ls W eq_refl). Qed.
Print Assumptions C03_map_choice_v1.

Theorem C03_map_choice_cdb : forall decls kind db,
  (forall n wild, wf_labelsb n = true ->
     get db ([0; kind] ++ pack_labels n ++ [suffix_of wild]) =
     option_map (fun id => mapid_bytes id) (lookup_decl decls kind wild n)) ->
  forall ls, wf_labelsb ls = true ->
  cdb_find_map (S (length (pack_labels ls))) db [0; kind] (pack_labels ls) true =
  Ok (option_map mapid_bytes (map_choice decls kind ls)).
Proof. intros decls kind db H ls W. exact (cdb_find_map_choice decls kind db (fun v => v) H ls W eq_refl). Qed.
Print Assumptions C03_map_choice_cdb.

(* RocksDB v2 keys (reversed names, sorted search with skips, findMapInSortedData as
   repaired in ca8d016): on any database whose map records of this kind are exactly
   the declarations, each (kind, name, wildcard) declared with one map id *)
Theorem C03_map_choice_v2 : forall decls kind (db : list kv),
  (forall d, In d decls -> wf_labelsb (md_name d) = true) ->
  (forall d d', In d decls -> In d' decls ->
     md_kind d = md_kind d' -> md_name d = md_name d' -> md_wild d = md_wild d' -> md_id d = md_id d') ->
  (forall d, In d decls -> md_kind d = kind ->
     In (vkey kind (rev (md_name d)) (suffix_of (md_wild d)), mv1 (mapid_bytes (md_id d))) db) ->
  (forall k v, In (k, v) db -> is_prefix [0; kind] k = true ->
     exists d, In d decls /\ md_kind d = kind /\ k = vkey kind (rev (md_name d)) (suffix_of (md_wild d)) /\
               v = mv1 (mapid_bytes (md_id d))) ->
  forall ls, wf_labelsb ls = true ->
  v2_find_map db [0; kind] (pack_labels ls) = Ok (option_map mapid_bytes (map_choice decls kind ls)).
Proof. exact v2_find_map_choice. Qed.
Print Assumptions C03_map_choice_v2.

Theorem C03_cdb_map_records : forall f decls db kind n wild,
  f_maps f = map decl_line decls -> forallb wf_declb decls = true -> cdb_db f = Some db ->
  kind = 77 \/ kind = 56 -> wf_labelsb n = true ->
  get db (v1_map_key kind n wild) = option_map (fun id => mapid_bytes id) (lookup_decl decls kind wild n).
Proof. exact cdb_map_records. Qed.
Print Assumptions C03_cdb_map_records.

(* ==================================================================================
   C03 x C07 / C15: the database-contents hypothesis of C03_rdb_driver_is_lpm
   discharged (Proofs/SquashKeys.v, Proofs/LinkEcsLpm.v, Proofs/LinkRdbDb.v,
   Proofs/LinkRdbModel.v).
   ================================================================================== *)
From DnsV Require Import Model.Compile Spec.MapOfLists Proofs.MultiValue Proofs.Batch Proofs.CompilePipe.
From DnsV Require Import Proofs.SquashKeys Proofs.LinkEcsLpm Proofs.LinkRdbDb Proofs.LinkRdbModel.

(* ---- the squash property: within one map Rearrange never emits two points with the
   same (address, mask byte), i.e. the range-point keys of its points are pairwise
   different (and no point is emitted twice) *)
Theorem C03_rearrange_keys_distinct : forall sort S pts m, sort_spec sort -> wf_subnets S ->
  rearrange sort S = Ok pts -> NoDup (map (rp_key m) pts).
Proof. exact rearrange_rp_keys_nodup. Qed.
Print Assumptions C03_rearrange_keys_distinct.

Theorem C03_rearrange_address_mask_distinct : forall sort S pts, sort_spec sort -> wf_subnets S ->
  rearrange sort S = Ok pts -> NoDup (map (fun p => (p_ip p, rp_mlen p)) pts).
Proof. exact rearrange_keys_nodup. Qed.
Print Assumptions C03_rearrange_address_mask_distinct.

(* ---- the hypothesis, named: for every map the range-point records of the database
   are exactly those of the points Rearrange returns for the map's subnets *)
Theorem C03_rdb_holds_points_unfold : forall sort nets db,
  rdb_holds_points sort nets db <->
  forall m, exists pts, rearrange sort (nets m) = Ok pts /\
    (forall p, In p pts -> In (rp_key m p, mv1 (rp_value p)) db) /\
    (forall k v, In (k, v) db -> is_prefix (rp_marker ++ mapid_bytes m) k = true ->
       exists p, In p pts /\ k = rp_key m p /\ v = mv1 (rp_value p)).
Proof. exact rdb_holds_points_unfold. Qed.
Print Assumptions C03_rdb_holds_points_unfold.

(* ---- from C07's conclusion.  The codec is C07's parameter (conv, accum, feature);
   [rp_codec ... f] says what is needed of it for the file f:
     exists acc extra, rp_accum sort nets ids = Ok acc            (the range-point records
                         (rp_key m p, rp_value p) of the points of every map m in ids)
       /\ Permutation (accum f) (acc ++ extra)                    (SubnetRanger.MarshalMap, maps in any order,
                                                                   plus e.g. the prefix sets)
       /\ no key of a line's records, of extra or of the feature records starts with \000\000\000!
   [ids]: the maps that have subnet lines.  [db] is a store as the RocksDB compilers of
   C07 produce it (store_ok: framed multi-values; every key holds the values the
   codec's records hold for it, as a multiset - the conclusion of C07_builder_lossless
   and C07_batches_lossless), [dbl] its listing.  Multi-value grouping concatenates the
   values of equal keys; by the squash property every range-point key occurs once, so
   its record holds exactly one chunk: the location. *)
Theorem C03_rdb_db_from_compile :
  forall line conv accum feature sort nets ids,
  sort_spec sort -> (forall m, wf_subnets (nets m)) -> NoDup ids -> (forall m, ~ In m ids -> nets m = []) ->
  forall f (db : store) dbl, rp_codec line conv accum feature sort nets ids f ->
  store_ok db -> (forall k, Permutation (vals db k) (spec_compile line conv accum feature f k)) ->
  lists_store dbl db -> rdb_holds_points sort nets dbl.
Proof. exact rdb_db_from_compile. Qed.
Print Assumptions C03_rdb_db_from_compile.

(* ... hence for every RocksDB compilation of the file in the sense of C07 *)
Theorem C03_rdb_db_from_compilation :
  forall line conv accum feature sort nets ids,
  sort_spec sort -> (forall m, wf_subnets (nets m)) -> NoDup ids -> (forall m, ~ In m ids -> nets m = []) ->
  forall f (db : store) dbl, rp_codec line conv accum feature sort nets ids f ->
  feature <> [] -> kvs_ok (records line conv accum feature f) ->
  rdb_compilation line conv accum feature f db ->
  lists_store dbl db -> rdb_holds_points sort nets dbl.
Proof. exact rdb_db_from_compilation. Qed.
Print Assumptions C03_rdb_db_from_compilation.

(* the listing exists *)
Theorem C03_compiled_store_listing : forall line conv accum feature f (db : store),
  store_ok db -> (forall k, Permutation (vals db k) (spec_compile line conv accum feature f k)) ->
  exists dbl, lists_store dbl db.
Proof. exact compiled_store_listing. Qed.
Print Assumptions C03_compiled_store_listing.

(* the maps of a data file that have subnet lines satisfy the two side conditions on ids *)
Theorem C03_file_ids_ok : forall f, NoDup (file_ids f) /\ forall m, ~ In m (file_ids f) -> nets_of f m = [].
Proof. exact (fun f => conj (file_ids_nodup f) (file_ids_cover f)). Qed.
Print Assumptions C03_file_ids_ok.

(* non-vacuity and a closed instance: the codec over subnet lines only (lines emit
   nothing, the accumulator emits the range points, one features record) satisfies
   rp_codec and C07's side conditions; every compilation of such a file is
   longest-prefix match under GetLocationByMap, and compilations exist *)
Theorem C03_net_codec_ok : forall sort f, sort_spec sort -> (forall m, wf_subnets (nets_of (net_file f) m)) ->
  rp_codec netline net_conv (net_accum sort) net_feature sort (nets_of (net_file f)) (file_ids (net_file f)) f /\
  net_feature <> [] /\ kvs_ok (records netline net_conv (net_accum sort) net_feature f) /\
  accepted netline net_conv f = true.
Proof. exact net_codec_ok. Qed.
Print Assumptions C03_net_codec_ok.

Theorem C03_rdb_compiled_is_lpm : forall sort f (db : store) dbl,
  sort_spec sort -> (forall m, wf_subnets (nets_of (net_file f) m)) ->
  rdb_compilation netline net_conv (net_accum sort) net_feature f db -> lists_store dbl db ->
  forall m a bits ones plen, a < two128 -> client_plen a bits ones plen ->
  rdb_get_location dbl m (mkClient (Some a) bits ones) =
  Ok (lpm_result (lpm (nets_of (net_file f) m) (fam (clean_mask a plen)) (clean_mask a plen) plen)).
Proof. exact net_compilation_is_lpm. Qed.
Print Assumptions C03_rdb_compiled_is_lpm.

Theorem C03_rdb_compiled_exists : forall sort ksort f,
  sort_spec sort -> sort_ok ksort -> (forall m, wf_subnets (nets_of (net_file f) m)) ->
  exists db dbl, rdb_compilation netline net_conv (net_accum sort) net_feature f db /\ lists_store dbl db.
Proof. exact net_compilation_exists. Qed.
Print Assumptions C03_rdb_compiled_exists.

(* ---- the database model of C03 itself (rdb_db, the one Run/C03.v evaluates against the
   real RocksDB databases): it satisfies the hypothesis, so the RocksDB side holds from
   the data file through GetLocationByMap like C03_cdb_is_lpm, for both key layouts *)
Theorem C03_rdb_model_db_holds_points : forall sort v2 f db, sort_spec sort -> wf_kinds f = true ->
  (forall m, wf_subnets (nets_of f m)) -> rdb_db sort v2 f = Ok db ->
  rdb_holds_points sort (nets_of f) db.
Proof. exact rdb_db_holds_points. Qed.
Print Assumptions C03_rdb_model_db_holds_points.

Theorem C03_rdb_file_is_lpm : forall sort v2 f m db a bits ones plen, sort_spec sort ->
  wf_kinds f = true -> (forall m', wf_subnets (nets_of f m')) -> rdb_db sort v2 f = Ok db ->
  a < two128 -> client_plen a bits ones plen ->
  rdb_get_location db m (mkClient (Some a) bits ones) =
  Ok (lpm_result (lpm (nets_of f m) (fam (clean_mask a plen)) (clean_mask a plen) plen)).
Proof. exact rdb_file_is_lpm. Qed.
Print Assumptions C03_rdb_file_is_lpm.

Theorem C03_rdb_model_db_total_v1 : forall sort f, sort_spec sort -> (forall m, wf_subnets (nets_of f m)) ->
  exists db, rdb_db sort false f = Ok db.
Proof. exact rdb_db_total_v1. Qed.
Print Assumptions C03_rdb_model_db_total_v1.

(* outside the guard the squash property fails and with it the RocksDB lookup (finding
   F20): ::/1 with 255.0.0.0/8 yields the null point at ::1:0:0:0 twice, the record
   under its key holds two chunks, and GetLocationByMap returns an error *)
Theorem C03_rearrange_keys_distinct_refuted :
  exists S pts, wf_but_overlap S = true /\ rearrange isort S = Ok pts /\
    ~ NoDup (map (fun p => (p_ip p, rp_mlen p)) pts).
Proof. exact rearrange_keys_distinct_refuted. Qed.
Print Assumptions C03_rearrange_keys_distinct_refuted.

Theorem C03_rdb_file_is_lpm_refuted :
  exists f m db a, wf_kinds f = true /\ wf_but_overlap (nets_of f m) = true /\ rdb_db isort false f = Ok db /\
    a < two128 /\
    rdb_get_location db m (mkClient (Some a) 128 128) = Err 2 /\
    lpm (nets_of f m) (fam a) a 128 = Some ((0, 1), 1).
Proof. exact rdb_file_is_lpm_refuted. Qed.
Print Assumptions C03_rdb_file_is_lpm_refuted.

(* ==================================================================================
   C03 on the compiled RocksDB database of a data file, CLOSED over the codec
   (Model/Accum.v, Proofs/AccumLink.v): the line codec is C09's (parse_line, convert with
   NoRnetOutput), the accumulator is the concrete one of rdb initCodec - SubnetRanger.MarshalMap:
   for every map with subnet lines the range-point records of Rearrange - and the features record
   is the one of the key layout.  [rp_codec] is PROVED of it for files without '!' lines (subnets
   given as % lines, as the compiler reads them; a preprocessed file carries its own range points).
   [file_nets rs m]: the subnets the % lines declare for map m (address as a number, length in
   128-bit terms, location id).  sort.Slice stays abstract.
   ================================================================================== *)
From DnsV Require Model.Text Model.Preproc Proofs.FileLevel.
From DnsV Require Import Model.Accum Proofs.AccumLink.

Theorem C03_rp_codec_rdb : forall sort o serial v2 f, sort_spec sort ->
  Proofs.FileLevel.wf_file o serial f = true -> no_rp_lines o serial f = true ->
  (forall m, wf_subnets (file_nets (Proofs.FileLevel.parsed o serial f) m)) ->
  rp_codec bytes (Proofs.FileLevel.conv_line o serial true v2) (accum_rdb sort o serial) [Model.Preproc.feature_kv v2] sort
           (file_nets (Proofs.FileLevel.parsed o serial f)) (ranger_ids (Proofs.FileLevel.parsed o serial f)) f.
Proof. exact rp_codec_rdb. Qed.
Print Assumptions C03_rp_codec_rdb.

(* every RocksDB compilation (builder or batches, any setting, any schedule; v1 or v2 keys) of a
   well-formed file holds exactly the range points of Rearrange ... *)
Theorem C03_rdb_db_from_compile_closed : forall sort, sort_spec sort -> forall o serial v2 f,
  Proofs.FileLevel.wf_file o serial f = true -> no_rp_lines o serial f = true ->
  (forall m, wf_subnets (file_nets (Proofs.FileLevel.parsed o serial f) m)) ->
  kvs_ok (flat_map (recs_of bytes (Proofs.FileLevel.conv_line o serial false v2)) f) ->
  forall (db : store) dbl,
  rdb_compilation bytes (Proofs.FileLevel.conv_line o serial true v2) (accum_rdb sort o serial) [Model.Preproc.feature_kv v2] f db ->
  lists_store dbl db -> rdb_holds_points sort (file_nets (Proofs.FileLevel.parsed o serial f)) dbl.
Proof. exact rdb_compiled_holds_points. Qed.
Print Assumptions C03_rdb_db_from_compile_closed.

(* ... hence GetLocationByMap on it is longest-prefix match over the subnets the file declares *)
Theorem C03_rdb_compiled_is_lpm_closed : forall sort, sort_spec sort -> forall o serial v2 f,
  Proofs.FileLevel.wf_file o serial f = true -> no_rp_lines o serial f = true ->
  (forall m, wf_subnets (file_nets (Proofs.FileLevel.parsed o serial f) m)) ->
  kvs_ok (flat_map (recs_of bytes (Proofs.FileLevel.conv_line o serial false v2)) f) ->
  forall (db : store) dbl,
  rdb_compilation bytes (Proofs.FileLevel.conv_line o serial true v2) (accum_rdb sort o serial) [Model.Preproc.feature_kv v2] f db ->
  lists_store dbl db ->
  forall m a bits ones plen, a < two128 -> client_plen a bits ones plen ->
  rdb_get_location dbl m (mkClient (Some a) bits ones) =
  Ok (lpm_result (lpm (file_nets (Proofs.FileLevel.parsed o serial f) m) (fam (clean_mask a plen)) (clean_mask a plen) plen)).
Proof. exact rdb_compiled_is_lpm_closed. Qed.
Print Assumptions C03_rdb_compiled_is_lpm_closed.

(* such compilations exist and can be listed *)
Theorem C03_rdb_compiled_exists_closed : forall (sort : list point -> list point) o serial v2 f,
  Proofs.FileLevel.wf_file o serial f = true ->
  kvs_ok (flat_map (recs_of bytes (Proofs.FileLevel.conv_line o serial false v2)) f) ->
  forall ksort, sort_ok ksort ->
  exists (db : store) dbl,
    rdb_compilation bytes (Proofs.FileLevel.conv_line o serial true v2) (accum_rdb sort o serial) [Model.Preproc.feature_kv v2] f db /\
    lists_store dbl db.
Proof. exact rdb_compiled_exists_closed. Qed.
Print Assumptions C03_rdb_compiled_exists_closed.

(* ==================================================================================
   C03 on the databases compiled from the TEXT of a data file (C09's line codec, the concrete
   accumulators of Model/Accum.v, any C07 pipeline): FindMap is exact-name map, else nearest wildcard
   map, over the file's M / 8 lines, for all three drivers; GetLocationByMap of the CDB driver is
   longest-prefix match over the file's % lines (the RocksDB driver: C03_rdb_compiled_is_lpm_closed).
   [declared_maps rs] / [declared_subnets rs m] (Spec/ClientLocation.v): the declarations read off the
   parsed lines; [R_rdb] / [R_cdb]: the codec's records under the RocksDB / CDB configuration;
   [grouped R dbl]: dbl lists a RocksDB store holding R (Proofs/LinkRdbDb.v; C03_store_grouped).
   Guards: wf_file, loc_file_okb (field widths of % M 8 lines, no '!' line, no record tagged \000%),
   maps_once (no two M / 8 lines for the same kind, name and wildcard flag), wf_subnets per map.
   ================================================================================== *)
From DnsV Require Spec.ClientLocation.
From DnsV Require Import Proofs.ClientSpecLink Proofs.ClientDbFacts Proofs.ClientLink Proofs.ClientCdbLpm Proofs.ClientLookups.

Theorem C03_map_choice_compiled_v1 : forall (sort : list point -> list point) o serial f,
  Proofs.FileLevel.wf_file o serial f = true -> loc_file_okb o serial f = true -> maps_once (Proofs.FileLevel.parsed o serial f) ->
  forall dbl kind n, kind = 77 \/ kind = 56 -> wf_labelsb n = true ->
  grouped (R_rdb sort o serial f false) dbl ->
  v1_find_map dbl [0; kind] (pack_labels n) =
  Ok (option_map mapid_bytes (map_choice (Spec.ClientLocation.declared_maps (Proofs.FileLevel.parsed o serial f)) kind n)).
Proof. exact find_map_v1. Qed.
Print Assumptions C03_map_choice_compiled_v1.

Theorem C03_map_choice_compiled_v2 : forall (sort : list point -> list point) o serial f,
  Proofs.FileLevel.wf_file o serial f = true -> loc_file_okb o serial f = true -> maps_once (Proofs.FileLevel.parsed o serial f) ->
  forall dbl kind n, kind = 77 \/ kind = 56 -> wf_labelsb n = true ->
  grouped (R_rdb sort o serial f true) dbl ->
  v2_find_map dbl [0; kind] (pack_labels n) =
  Ok (option_map mapid_bytes (map_choice (Spec.ClientLocation.declared_maps (Proofs.FileLevel.parsed o serial f)) kind n)).
Proof. exact find_map_v2. Qed.
Print Assumptions C03_map_choice_compiled_v2.

Theorem C03_map_choice_compiled_cdb : forall o serial f,
  Proofs.FileLevel.wf_file o serial f = true -> loc_file_okb o serial f = true -> maps_once (Proofs.FileLevel.parsed o serial f) ->
  forall stream kind n, kind = 77 \/ kind = 56 -> wf_labelsb n = true ->
  Permutation stream (R_cdb o serial f) ->
  cdb_find_map (S (length (pack_labels n))) stream [0; kind] (pack_labels n) true =
  Ok (option_map mapid_bytes (map_choice (Spec.ClientLocation.declared_maps (Proofs.FileLevel.parsed o serial f)) kind n)).
Proof. exact find_map_cdb. Qed.
Print Assumptions C03_map_choice_compiled_cdb.

(* the listing of a compiled RocksDB store is such a grouping *)
Theorem C03_store_grouped : forall R (s : store) dbl, store_ok s ->
  (forall k, Permutation (vals s k) (vals_of k R)) -> lists_store dbl s -> grouped R dbl.
Proof. exact store_grouped. Qed.
Print Assumptions C03_store_grouped.

(* CDB, both prefix-set modes, on any Put stream of the codec's records *)
Theorem C03_cdb_compiled_is_lpm : forall o serial f,
  Proofs.FileLevel.wf_file o serial f = true -> loc_file_okb o serial f = true ->
  (forall m, wf_subnets (Spec.ClientLocation.declared_subnets (Proofs.FileLevel.parsed o serial f) m)) ->
  forall sep stream, Permutation stream (R_cdb o serial f) ->
  forall m a bits ones plen, a < two128 -> client_plen a bits ones plen ->
  cdb_get_location sep stream m (mkClient (Some a) bits ones) =
  Ok (lpm_result (lpm (Model.Accum.file_nets (Proofs.FileLevel.parsed o serial f) m) (fam (clean_mask a plen)) (clean_mask a plen) plen)).
Proof. exact cdb_compiled_is_lpm. Qed.
Print Assumptions C03_cdb_compiled_is_lpm.

(* the spec's subnets are C03's nets_of of the file's subnet lines *)
Theorem C03_declared_subnets_nets : forall rs m, Spec.ClientLocation.declared_subnets rs m = Model.Accum.file_nets rs m.
Proof. exact declared_subnets_nets. Qed.
Print Assumptions C03_declared_subnets_nets.

(* ==================================================================================
   C03 on the RocksDB database compiled from the PREPROCESSED text (cmd/dnsrocks-preproc: Codec.Preprocess,
   SubnetRanger.OpenScanner turns the % lines into per-map ! range-point lines; the preprocessed text is
   what the compiler then reads).  For a file f that passes both well-formedness predicates
   (Proofs.Preproc.wf_file of C09 and Proofs.FileLevel.wf_file of C01/C03), has no ! line of its own,
   whose subnets pass C03's guard per map (file_subnets_wfb: outside F20) and whose values are small:
   the preprocessor succeeds, and on EVERY RocksDB compilation (builder or batches, any setting, any
   schedule, v1 or v2 keys, the point lines in any order) of the preprocessed text, listed,
   GetLocationByMap is longest-prefix match over the subnets f's OWN % lines declare for that map
   (file_nets (parsed f) m, as in C03_rdb_compiled_is_lpm_closed) - the database-contents hypothesis
   of C03_rdb_driver_is_lpm holds for it.
   Composition: C09_preproc_same_db_closed / C07 (preprocessed_facts), bridge A (the records of the scanned
   lines in C09's formulation = line records of FileLevel.conv_line ++ range points of Rearrange ++ feature;
   Proofs/LinkPreprocLpm.v records_split), bridge B (store_holds_points), C03_rdb_driver_is_lpm.
   ================================================================================== *)
From DnsV Require Import Model.Text Model.Preproc.
From DnsV Require Import Proofs.LinkDiffText Proofs.LinkPreprocRearranger Proofs.LinkPreprocDiff Proofs.LinkPreprocDiffExample.
From DnsV Require Import Proofs.LinkPreprocLpm Proofs.LinkPreprocLpmExample.

Theorem C03_preprocessed_rdb_is_lpm : forall o,
  (forall a, wf_bytes a -> length a = 16%nat -> o_parse_ip o (o_print_ip o a) = Some a) ->
  o_parse_ip o [] = None ->
  (forall a, Model.Quote.contains 44 (o_print_ip o a) = false) ->
  forall sort, sort_spec sort ->
  forall v2 serial pserial, serial <= max32 -> pserial = serial \/ pserial = 0 ->
  forall f, Proofs.Preproc.wf_file o serial f -> file_subnets_wfb o serial f = true ->
  Proofs.FileLevel.wf_file o serial f = true -> no_rp_lines o serial f = true ->
  kvs_ok (records bytes (convert_ln o v2 serial) (text_accum o v2 serial (rearrange_total sort)) (features v2) (scan f)) ->
  exists body points,
    rearrange_text sort (Proofs.LinkPreprocRearranger.file_nets o serial f) = Ok points /\
    preprocess o (rearrange_total sort) pserial f = Ok (body ++ map (marshal o) points) /\
    forall pts, Permutation pts points ->
      let out := body ++ map (marshal o) pts in
      forall (db : store) dbl,
        rdb_compilation bytes (convert_ln o v2 serial) (text_accum o v2 serial (rearrange_total sort)) (features v2) (scan out) db ->
        lists_store dbl db ->
        rdb_holds_points sort (Model.Accum.file_nets (Proofs.FileLevel.parsed o serial f)) dbl /\
        forall m a bits ones plen, a < two128 -> client_plen a bits ones plen ->
          rdb_get_location dbl m (mkClient (Some a) bits ones) =
          Ok (lpm_result (lpm (Model.Accum.file_nets (Proofs.FileLevel.parsed o serial f) m)
                              (fam (clean_mask a plen)) (clean_mask a plen) plen)).
Proof. exact preprocessed_rdb_is_lpm. Qed.
Print Assumptions C03_preprocessed_rdb_is_lpm.

(* non-vacuity: the two-map file  %ab,,m1 / Z... / %cd,,m2 / +www...  (toy address oracle, all library
   premises proved) passes every guard; on every RocksDB compilation (v2 keys) of its preprocessed text
   the client 10.0.0.1 gets location ab in map m1 and location cd in map m2 *)
Example C03_preprocessed_rdb_example :
  exists body points,
    preprocess x_o x_R 0 x_B = Ok (body ++ map (marshal x_o) points) /\
    forall pts, Permutation pts points ->
      forall (db : store) dbl,
        rdb_compilation bytes x_conv x_acc x_feat (scan (body ++ map (marshal x_o) pts)) db ->
        lists_store dbl db ->
        rdb_get_location dbl (109, 49) (mkClient (Some x_client) 32 32) = Ok (Some [97; 98], 96) /\
        rdb_get_location dbl (109, 50) (mkClient (Some x_client) 32 32) = Ok (Some [99; 100], 96).
Proof. exact preprocessed_lpm_example. Qed.
Print Assumptions C03_preprocessed_rdb_example.
