(* C08 - Applying a diff gives the database of the new data file.
   Only statements closed by [exact]; proofs are in Proofs/Diff.v (and Proofs/CompilePipe.v,
   Proofs/Batch.v).  The codec is a parameter: conv l = Codec.ConvertLn on line l (for the
   serial and key layout of the database), feature = the feature record.
   The files are PREPROCESSED: subnet lines have been replaced by range point lines, so
   every line is converted independently and the accumulator emits nothing (no_accum);
   records f = flat_map conv f ++ feature.
     compiled f db     db is well formed and holds, under every key, the multiset of values of records f
                       (by C07 this is what the builder and the batch compiler produce: C08_compilers_compile)
     is_line_diff A B d  d = a '-' line for every line of dm and a '+' line for every line of dp, in any
                       order, where A = dm + C and B = dp + C as multisets of lines
     line_ok l         l is empty, a comment, or '+' / '-' followed by a line the codec accepts
     msub D L          D is contained in L as a multiset
   vals db k = what a reader gets for key k; Permutation = multiset equality. *)
From DnsV Require Import Model.Diff Spec.MapOfLists Proofs.MultiValue Proofs.Batch Proofs.CompilePipe Proofs.Diff.
Open Scope N_scope.

Theorem C08_diff_is_recompile : forall conv feature sort, sort_ok sort -> forall A B d dbA,
  accepted bytes conv A = true -> accepted bytes conv B = true ->
  kvs_ok (records bytes conv no_accum feature B) ->
  is_line_diff A B d -> compiled conv feature A dbA ->
  exists db', apply_diff conv sort dbA d = Ok db' /\ compiled conv feature B db'.
Proof. exact diff_is_recompile. Qed.
Print Assumptions C08_diff_is_recompile.

(* ... which is, key by key, the multiset of any database compiled from B *)
Theorem C08_diff_equals_fresh_compile : forall conv feature sort, sort_ok sort -> forall A B d dbA dbB,
  accepted bytes conv A = true -> accepted bytes conv B = true ->
  kvs_ok (records bytes conv no_accum feature B) ->
  is_line_diff A B d -> compiled conv feature A dbA -> compiled conv feature B dbB ->
  exists db', apply_diff conv sort dbA d = Ok db' /\ forall k, Permutation (vals db' k) (vals dbB k).
Proof. exact diff_equals_fresh_compile. Qed.
Print Assumptions C08_diff_equals_fresh_compile.

(* the compilers of C07 (builder or batches, any setting, any schedule) produce compiled databases *)
Theorem C08_compilers_compile : forall conv feature f db, feature <> [] ->
  kvs_ok (records bytes conv no_accum feature f) ->
  rdb_compilation bytes conv no_accum feature f db -> compiled conv feature f db.
Proof. exact compiled_by_rdb. Qed.
Print Assumptions C08_compilers_compile.

(* successive diffs A -> B1 -> B2 -> ... end in a compilation of the last file *)
Theorem C08_chain : forall conv feature sort, sort_ok sort -> forall steps A db,
  accepted bytes conv A = true -> compiled conv feature A db -> chain_ok conv feature A steps ->
  exists db', apply_chain conv sort db (map fst steps) = Ok db' /\
              compiled conv feature (final_file A steps) db'.
Proof. exact diff_chain. Qed.
Print Assumptions C08_chain.

(* a failing diff leaves the database as it was; it fails because a line is malformed or rejected,
   or because some key would lose a value it does not hold (an absent key holds nothing) *)
Theorem C08_all_or_nothing : forall conv sort, sort_ok sort -> forall db d e, store_ok db ->
  (Forall (line_ok conv) d -> kvs_ok (adds_of conv d)) ->
  apply_diff conv sort db d = Err e ->
  fst (apply_diff_effect conv sort db d) = db /\
  (((e = E_CONV \/ e = E_BADOP) /\ exists l, In l d /\ ~ line_ok conv l) \/
   (Forall (line_ok conv) d /\ e = E_NXVAL /\
    exists k, ~ msub (vals_of k (dels_of conv d)) (vals db k ++ vals_of k (adds_of conv d)))).
Proof. exact all_or_nothing. Qed.
Print Assumptions C08_all_or_nothing.

(* conversely: a malformed or rejected line fails the whole diff *)
Theorem C08_bad_line_fails : forall conv sort db d,
  (exists l, In l d /\ ~ line_ok conv l) -> exists e, apply_diff conv sort db d = Err e.
Proof. exact bad_line_fails. Qed.
Print Assumptions C08_bad_line_fails.

(* and a readable diff succeeds exactly when every key holds, after the additions, what is to be deleted;
   then M(after) + M(deleted) = M(before) + M(added) *)
Theorem C08_applicable_iff : forall conv sort, sort_ok sort -> forall db d, store_ok db ->
  Forall (line_ok conv) d -> kvs_ok (adds_of conv d) ->
  ((exists db', apply_diff conv sort db d = Ok db') <->
   forall k, msub (vals_of k (dels_of conv d)) (vals db k ++ vals_of k (adds_of conv d))).
Proof. exact apply_diff_applicable. Qed.
Print Assumptions C08_applicable_iff.

Theorem C08_effect : forall conv sort, sort_ok sort -> forall db d, store_ok db ->
  Forall (line_ok conv) d -> kvs_ok (adds_of conv d) ->
  match apply_diff conv sort db d with
  | Ok db' => store_ok db' /\
              forall k, Permutation (vals db' k ++ vals_of k (dels_of conv d)) (vals db k ++ vals_of k (adds_of conv d))
  | Err e => e = E_NXVAL /\ exists k, ~ msub (vals_of k (dels_of conv d)) (vals db k ++ vals_of k (adds_of conv d))
  end.
Proof. exact apply_diff_cases. Qed.
Print Assumptions C08_effect.

Example C08_example :
  let A := [[1; 10]; [2; 20]; [1; 11]] in
  let B := [[2; 21]; [1; 11]; [1; 11]] in
  let d := [[43; 2; 21]; [45; 1; 10]; [35; 7]; [45; 2; 20]; []; [43; 1; 11]] in
  let feature := [([0; 111], [1; 0; 0; 0])] in
  sort_ok kv_isort /\ accepted bytes ex2_conv A = true /\ accepted bytes ex2_conv B = true /\
  kvs_ok (records bytes ex2_conv no_accum feature B) /\ is_line_diff A B (filter (fun l => match l with 43 :: _ | 45 :: _ => true | _ => false end) d) /\
  exists dbA, compile_builder bytes ex2_conv kv_isort 1 2 A (records bytes ex2_conv no_accum feature A) = Ok dbA /\
    compiled ex2_conv feature A dbA /\
    (exists db', apply_diff ex2_conv kv_isort dbA d = Ok db' /\
                 vals db' [1] = [[11]; [11]] /\ vals db' [2] = [[21]] /\ vals db' [0; 111] = [[1; 0; 0; 0]]) /\
    apply_diff ex2_conv kv_isort dbA [[45; 3; 3]] = Err E_NXVAL /\
    apply_diff ex2_conv kv_isort dbA [[43; 1; 12]; [45; 1; 10]; [45; 1; 10]] = Err E_NXVAL /\
    apply_diff ex2_conv kv_isort dbA [[43; 2; 5]; [42; 1]] = Err E_BADOP /\
    apply_diff ex2_conv kv_isort dbA [[45; 1; 10]; [43; 0; 1]] = Err E_CONV.
Proof. exact diff_example. Qed.
Print Assumptions C08_example.
