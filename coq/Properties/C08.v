(* C08 - Applying a diff gives the database of the new data file.
   Only statements closed by [exact]; proofs are in Proofs/Diff.v (and Proofs/CompilePipe.v,
   Proofs/Batch.v).  The codec is a parameter: conv l = Codec.ConvertLn on line l (for the
   serial and key layout of the database), feature = the feature record.
   The files are PREPROCESSED: subnet lines have been replaced by range point lines, so
   every line is converted independently and the accumulator emits nothing (no_accum);
   records f = flat_map conv f ++ feature.
     compiled f db     db is well formed and holds, under every key, the multiset of values of records f
                       (by C07 this is what the builder and the batch compiler produce: C08_compilers_compile)
     is_line_diff A B d  d = a '-' line for every line of dm and a '+' line for every line of dp, in any
                       order, where A = dm + C and B = dp + C as multisets of lines
     line_ok l         l is empty, a comment, or '+' / '-' followed by a line the codec accepts
     msub D L          D is contained in L as a multiset
   vals db k = what a reader gets for key k; Permutation = multiset equality. *)
From DnsV Require Import Model.Diff Spec.MapOfLists Proofs.MultiValue Proofs.Batch Proofs.CompilePipe Proofs.Diff.
Open Scope N_scope.

Theorem C08_diff_is_recompile : forall conv feature sort, sort_ok sort -> forall A B d dbA,
  accepted bytes conv A = true -> accepted bytes conv B = true ->
  kvs_ok (records bytes conv no_accum feature B) ->
  is_line_diff A B d -> compiled conv feature A dbA ->
  exists db', apply_diff conv sort dbA d = Ok db' /\ compiled conv feature B db'.
Proof. exact diff_is_recompile. Qed.
Print Assumptions C08_diff_is_recompile.

(* ... which is, key by key, the multiset of any database compiled from B *)
Theorem C08_diff_equals_fresh_compile : forall conv feature sort, sort_ok sort -> forall A B d dbA dbB,
  accepted bytes conv A = true -> accepted bytes conv B = true ->
  kvs_ok (records bytes conv no_accum feature B) ->
  is_line_diff A B d -> compiled conv feature A dbA -> compiled conv feature B dbB ->
  exists db', apply_diff conv sort dbA d = Ok db' /\ forall k, Permutation (vals db' k) (vals dbB k).
Proof. exact diff_equals_fresh_compile. Qed.
Print Assumptions C08_diff_equals_fresh_compile.

(* the compilers of C07 (builder or batches, any setting, any schedule) produce compiled databases *)
Theorem C08_compilers_compile : forall conv feature f db, feature <> [] ->
  kvs_ok (records bytes conv no_accum feature f) ->
  rdb_compilation bytes conv no_accum feature f db -> compiled conv feature f db.
Proof. exact compiled_by_rdb. Qed.
Print Assumptions C08_compilers_compile.

(* successive diffs A -> B1 -> B2 -> ... end in a compilation of the last file *)
Theorem C08_chain : forall conv feature sort, sort_ok sort -> forall steps A db,
  accepted bytes conv A = true -> compiled conv feature A db -> chain_ok conv feature A steps ->
  exists db', apply_chain conv sort db (map fst steps) = Ok db' /\
              compiled conv feature (final_file A steps) db'.
Proof. exact diff_chain. Qed.
Print Assumptions C08_chain.

(* a failing diff leaves the database as it was; it fails because a line is malformed or rejected,
   or because some key would lose a value it does not hold (an absent key holds nothing) *)
Theorem C08_all_or_nothing : forall conv sort, sort_ok sort -> forall db d e, store_ok db ->
  (Forall (line_ok conv) d -> kvs_ok (adds_of conv d)) ->
  apply_diff conv sort db d = Err e ->
  fst (apply_diff_effect conv sort db d) = db /\
  (((e = E_CONV \/ e = E_BADOP) /\ exists l, In l d /\ ~ line_ok conv l) \/
   (Forall (line_ok conv) d /\ e = E_NXVAL /\
    exists k, ~ msub (vals_of k (dels_of conv d)) (vals db k ++ vals_of k (adds_of conv d)))).
Proof. exact all_or_nothing. Qed.
Print Assumptions C08_all_or_nothing.

(* conversely: a malformed or rejected line fails the whole diff *)
Theorem C08_bad_line_fails : forall conv sort db d,
  (exists l, In l d /\ ~ line_ok conv l) -> exists e, apply_diff conv sort db d = Err e.
Proof. exact bad_line_fails. Qed.
Print Assumptions C08_bad_line_fails.

(* and a readable diff succeeds exactly when every key holds, after the additions, what is to be deleted;
   then M(after) + M(deleted) = M(before) + M(added) *)
Theorem C08_applicable_iff : forall conv sort, sort_ok sort -> forall db d, store_ok db ->
  Forall (line_ok conv) d -> kvs_ok (adds_of conv d) ->
  ((exists db', apply_diff conv sort db d = Ok db') <->
   forall k, msub (vals_of k (dels_of conv d)) (vals db k ++ vals_of k (adds_of conv d))).
Proof. exact apply_diff_applicable. Qed.
Print Assumptions C08_applicable_iff.

Theorem C08_effect : forall conv sort, sort_ok sort -> forall db d, store_ok db ->
  Forall (line_ok conv) d -> kvs_ok (adds_of conv d) ->
  match apply_diff conv sort db d with
  | Ok db' => store_ok db' /\
              forall k, Permutation (vals db' k ++ vals_of k (dels_of conv d)) (vals db k ++ vals_of k (adds_of conv d))
  | Err e => e = E_NXVAL /\ exists k, ~ msub (vals_of k (dels_of conv d)) (vals db k ++ vals_of k (adds_of conv d))
  end.
Proof. exact apply_diff_cases. Qed.
Print Assumptions C08_effect.

Example C08_example :
  let A := [[1; 10]; [2; 20]; [1; 11]] in
  let B := [[2; 21]; [1; 11]; [1; 11]] in
  let d := [[43; 2; 21]; [45; 1; 10]; [35; 7]; [45; 2; 20]; []; [43; 1; 11]] in
  let feature := [([0; 111], [1; 0; 0; 0])] in
  sort_ok kv_isort /\ accepted bytes ex2_conv A = true /\ accepted bytes ex2_conv B = true /\
  kvs_ok (records bytes ex2_conv no_accum feature B) /\ is_line_diff A B (filter (fun l => match l with 43 :: _ | 45 :: _ => true | _ => false end) d) /\
  exists dbA, compile_builder bytes ex2_conv kv_isort 1 2 A (records bytes ex2_conv no_accum feature A) = Ok dbA /\
    compiled ex2_conv feature A dbA /\
    (exists db', apply_diff ex2_conv kv_isort dbA d = Ok db' /\
                 vals db' [1] = [[11]; [11]] /\ vals db' [2] = [[21]] /\ vals db' [0; 111] = [[1; 0; 0; 0]]) /\
    apply_diff ex2_conv kv_isort dbA [[45; 3; 3]] = Err E_NXVAL /\
    apply_diff ex2_conv kv_isort dbA [[43; 1; 12]; [45; 1; 10]; [45; 1; 10]] = Err E_NXVAL /\
    apply_diff ex2_conv kv_isort dbA [[43; 2; 5]; [42; 1]] = Err E_BADOP /\
    apply_diff ex2_conv kv_isort dbA [[45; 1; 10]; [43; 0; 1]] = Err E_CONV.
Proof. exact diff_example. Qed.
Print Assumptions C08_example.

(* ---- diffs of any length.  The huge-fail class of the check (a diff of more than
   rdb.DefaultBatchSize records that one line makes inapplicable) carries only the offending line;
   these two theorems say what the model does with the whole diff, whatever precedes and follows
   that line (pre, post arbitrary, of any length).  line_okb / line_dels: Model/DiffLine.v. *)
From DnsV Require Import Model.DiffLine Proofs.DiffHuge.

(* a line ApplyDiff cannot read (unknown operation, or an argument the codec rejects) anywhere in a
   diff: an error, and the store is the store before *)
Theorem C08_failing_line_anywhere_is_noop : forall conv sort db pre l post,
  line_okb conv l = false ->
  exists e, (e = E_CONV \/ e = E_BADOP) /\ apply_diff_effect conv sort db (pre ++ l :: post) = (db, e).
Proof. exact failing_line_anywhere_is_noop. Qed.
Print Assumptions C08_failing_line_anywhere_is_noop.

(* a readable diff that deletes, anywhere, a value which its key neither holds (an absent key holds
   nothing) nor receives from the diff: ErrNXVal, and the store is the store before *)
Theorem C08_absent_delete_anywhere_is_noop : forall conv sort, sort_ok sort -> forall db pre l post k v,
  store_ok db -> Forall (line_ok conv) (pre ++ l :: post) -> kvs_ok (adds_of conv (pre ++ l :: post)) ->
  In (k, v) (line_dels conv l) ->
  ~ In v (vals db k ++ vals_of k (adds_of conv (pre ++ l :: post))) ->
  apply_diff_effect conv sort db (pre ++ l :: post) = (db, E_NXVAL).
Proof. exact absent_delete_anywhere_is_noop. Qed.
Print Assumptions C08_absent_delete_anywhere_is_noop.

(* ================================================================================================
   C08 ON TEXT: the Section variables of the theorems above instantiated with the CONCRETE codec of
   Model/Text.v (proofs: Proofs/LinkDiffText.v, Proofs/LinkPreprocDiff.v).
     convert_ln o v2 serial l   Codec.ConvertLn under rdb.initCodec with UseV2Keys = v2 (both key layouts)
                                and Codec.Serial = serial: parse_line, Acc.update, convert v2 true
     features v2                the feature record
     pre_file o v2 serial f     every line of f: type character not '%' (preprocessed: range point lines
                                instead of subnets), parse_line accepts it, every value it compiles to
                                is shorter than 2^32 bytes (pre_lineb, decidable on the text)
     text_records o v2 serial f flat_map (convert v2 true o parse_line) f ++ feature record
   o : toracles holds the library functions (net.ParseIP, ...); nothing is assumed of it here.
   ================================================================================================ *)
From DnsV Require Import Model.Rearranger Model.Text Model.Preproc Proofs.Rearranger.
From DnsV Require Import Proofs.LinkDiffText Proofs.LinkPreprocRearranger Proofs.LinkPreprocDiff Proofs.LinkPreprocDiffExample.

(* every codec hypothesis of C08_diff_is_recompile holds for preprocessed text *)
Theorem C08_text_codec_hypotheses : forall o v2 serial f, pre_file o v2 serial f ->
  accepted bytes (convert_ln o v2 serial) f = true /\
  kvs_ok (records bytes (convert_ln o v2 serial) no_accum (features v2) f) /\
  features v2 <> [] /\
  records bytes (convert_ln o v2 serial) no_accum (features v2) f = text_records o v2 serial f.
Proof.
  intros o v2 serial f H.
  exact (conj (pre_file_accepted o v2 serial f H) (conj (pre_file_kvs_ok o v2 serial f H)
        (conj (feat_nonempty v2) (records_text o v2 serial f H)))).
Qed.
Print Assumptions C08_text_codec_hypotheses.

(* the compiler's view of a preprocessed TEXT file (Model/Preproc.compile: TrimLeft, short lines and
   comments skipped, ConvertLn, rearranger points, feature record) is the record list of C07 / C08 with
   an empty accumulator, for any rearranger that makes nothing of nothing; scanned_lineb: two bytes or
   more, no leading space *)
Theorem C08_text_compile_is_records : forall o v2 serial rearrange f, rearrange [] = [] ->
  pre_file o v2 serial f -> forallb scanned_lineb f = true ->
  Model.Preproc.compile o rearrange v2 serial f = Ok (records bytes (convert_ln o v2 serial) no_accum (features v2) f).
Proof. exact text_compile_pre. Qed.
Print Assumptions C08_text_compile_is_records.

(* the diff A -> B of two preprocessed text files, its lines in any order, applied to a database compiled
   from A succeeds and gives a database compiled from B: under every key the multiset of values the text
   of B compiles to, which is what any C07 compilation of B holds *)
Theorem C08_diff_is_recompile_text : forall o v2 serial sort, sort_ok sort -> forall A B d dbA,
  pre_file o v2 serial A -> pre_file o v2 serial B -> is_line_diff A B d ->
  compiled (convert_ln o v2 serial) (features v2) A dbA ->
  exists db', apply_diff (convert_ln o v2 serial) sort dbA d = Ok db' /\
    compiled (convert_ln o v2 serial) (features v2) B db' /\
    (forall k, Permutation (vals db' k) (vals_of k (text_records o v2 serial B))) /\
    (forall dbB, rdb_compilation bytes (convert_ln o v2 serial) no_accum (features v2) B dbB ->
       forall k, Permutation (vals db' k) (vals dbB k)).
Proof. exact diff_is_recompile_text. Qed.
Print Assumptions C08_diff_is_recompile_text.

Theorem C08_compilers_compile_text : forall o v2 serial f db, pre_file o v2 serial f ->
  rdb_compilation bytes (convert_ln o v2 serial) no_accum (features v2) f db ->
  compiled (convert_ln o v2 serial) (features v2) f db.
Proof. exact compilers_compile_text. Qed.
Print Assumptions C08_compilers_compile_text.

(* chains of diffs between preprocessed text files (chain_pre: every file of the chain is pre_file and
   every step a line diff) *)
Theorem C08_chain_text : forall o v2 serial sort, sort_ok sort -> forall steps A db,
  pre_file o v2 serial A -> compiled (convert_ln o v2 serial) (features v2) A db ->
  chain_pre o v2 serial A steps ->
  exists db', apply_chain (convert_ln o v2 serial) sort db (map fst steps) = Ok db' /\
              compiled (convert_ln o v2 serial) (features v2) (final_file A steps) db'.
Proof. exact diff_chain_text. Qed.
Print Assumptions C08_chain_text.

(* when a line fails to convert, computed from the text alone (independent of serial and key layout):
   parse_error = the error of DecodeLn: empty line (decodeRtype panics), a type character outside the 17
   (ErrBadRType), a location field that does not unquote, a '%' network that does not parse, a B/H
   parameter list FromText rejects; convert_error adds Acc.update: a '%' line whose location is not two
   bytes long.  Nothing else makes ConvertLn fail. *)
Theorem C08_convert_error : forall o v2 serial l,
  (forall e, parse_line o serial l = Err e <-> parse_error o l = Some e) /\
  (forall e, convert_ln o v2 serial l = Err e <-> convert_error o l = Some e) /\
  ((exists x, convert_ln o v2 serial l = Ok x) <-> convert_error o l = None) /\
  (forall x, convert_ln o v2 serial l = Ok x -> exists r, parse_line o serial l = Ok r /\ x = convert v2 true r) /\
  (line_ok (convert_ln o v2 serial) l <-> diff_line_okb o l = true).
Proof.
  intros o v2 serial l. split; [intro e; apply parse_err_iff|]. split; [intro e; apply convert_err_iff|].
  split; [apply convert_ok_iff|]. split; [|apply diff_line_ok_iff].
  intros x H. pose proof (convert_error_spec o v2 serial l) as S. rewrite H in S. exact (proj2 S).
Qed.
Print Assumptions C08_convert_error.

(* a failing diff leaves the database as it was; it fails at a line that is malformed on the text
   (diff_line_okb: bad operator, or an argument with a convert_error), or because some key would lose a
   value it does not hold.  plus_smallb: the values a '+' line adds are shorter than 2^32 bytes *)
Theorem C08_all_or_nothing_text : forall o v2 serial sort, sort_ok sort -> forall db d e, store_ok db ->
  forallb (plus_smallb o v2 serial) d = true ->
  apply_diff (convert_ln o v2 serial) sort db d = Err e ->
  fst (apply_diff_effect (convert_ln o v2 serial) sort db d) = db /\
  (((e = E_CONV \/ e = E_BADOP) /\ exists l, In l d /\ diff_line_okb o l = false) \/
   (forallb (diff_line_okb o) d = true /\ e = E_NXVAL /\
    exists k, ~ msub (vals_of k (dels_of (convert_ln o v2 serial) d))
                     (vals db k ++ vals_of k (adds_of (convert_ln o v2 serial) d)))).
Proof. exact all_or_nothing_text. Qed.
Print Assumptions C08_all_or_nothing_text.

Theorem C08_bad_line_fails_text : forall o v2 serial sort db d,
  (exists l, In l d /\ diff_line_okb o l = false) ->
  exists e, apply_diff (convert_ln o v2 serial) sort db d = Err e.
Proof. exact bad_line_fails_text. Qed.
Print Assumptions C08_bad_line_fails_text.

(* C09 + C07 + C08, end to end, all guards explicit.  For ORIGINAL data files A and B (with subnet lines):
     library premises on o (as in C09), sort.Slice of the rearranger (sort_spec) and of the batch
     (sort_ok), serial <= max32, the preprocessor run with the same serial or none,
     wf_file (C09's guard, outside F12/F26/F27/F8 as C09 states them), file_subnets_wfb (C03's guard
     wf_subnets on the subnets of every map), values shorter than 2^32 bytes (kvs_ok of the records of
     the scanned file; scan = the lines parse() hands on), text_accum = the accumulator with the concrete
     rearranger (Proofs/LinkPreprocDiff.v)
   the preprocessor succeeds on both; for every order pa / pb in which the range point lines are written,
   the preprocessed texts PA, PB are scanned text, every C07 compilation of PA is a database the diff
   applies to, and ANY line diff PA -> PB applied to it gives a database that holds, under every key, the
   multiset of values ANY C07 compilation of the ORIGINAL B holds. *)
Theorem C08_preprocessed_diff_end_to_end : forall o,
  (forall a, wf_bytes a -> length a = 16%nat -> o_parse_ip o (o_print_ip o a) = Some a) ->
  o_parse_ip o [] = None ->
  (forall a, contains 44 (o_print_ip o a) = false) ->
  forall sort, sort_spec sort ->
  forall v2 serial pserial, serial <= max32 -> pserial = serial \/ pserial = 0 ->
  forall ksort, sort_ok ksort ->
  forall A B,
  Proofs.Preproc.wf_file o serial A -> file_subnets_wfb o serial A = true ->
  kvs_ok (records bytes (convert_ln o v2 serial) (text_accum o v2 serial (rearrange_total sort)) (features v2) (scan A)) ->
  Proofs.Preproc.wf_file o serial B -> file_subnets_wfb o serial B = true ->
  kvs_ok (records bytes (convert_ln o v2 serial) (text_accum o v2 serial (rearrange_total sort)) (features v2) (scan B)) ->
  exists bodyA pointsA bodyB pointsB,
    preprocess o (rearrange_total sort) pserial A = Ok (bodyA ++ map (marshal o) pointsA) /\
    preprocess o (rearrange_total sort) pserial B = Ok (bodyB ++ map (marshal o) pointsB) /\
    forall pa pb, Permutation pa pointsA -> Permutation pb pointsB ->
      let PA := bodyA ++ map (marshal o) pa in
      let PB := bodyB ++ map (marshal o) pb in
      scan PA = PA /\ scan PB = PB /\
      (forall dbA, rdb_compilation bytes (convert_ln o v2 serial) (text_accum o v2 serial (rearrange_total sort))
                     (features v2) (scan PA) dbA ->
                   compiled (convert_ln o v2 serial) (features v2) PA dbA) /\
      forall d dbA, is_line_diff PA PB d -> compiled (convert_ln o v2 serial) (features v2) PA dbA ->
        exists db', apply_diff (convert_ln o v2 serial) ksort dbA d = Ok db' /\
          compiled (convert_ln o v2 serial) (features v2) PB db' /\
          forall dbB, rdb_compilation bytes (convert_ln o v2 serial) (text_accum o v2 serial (rearrange_total sort))
                        (features v2) (scan B) dbB ->
            forall k, Permutation (vals db' k) (vals dbB k).
Proof. exact preprocessed_diff_end_to_end. Qed.
Print Assumptions C08_preprocessed_diff_end_to_end.

(* non-vacuity (Proofs/LinkPreprocDiffExample.v): two files with subnet lines for two maps over the toy
   address syntax o_toy satisfy every guard; the preprocessed forms have 5 and 8 lines; a shuffled five-line
   diff (with a comment and an empty line) applied to a builder compilation of preprocess A agrees on all
   15 keys with a batch compilation of the original B, while the database before does not; malformed
   lines fail with the error classes of C08_convert_error *)
Example C08_text_example :
  sort_spec isort /\ sort_ok kv_isort /\
  Proofs.Preproc.wf_file x_o 7 x_A /\ Proofs.Preproc.wf_file x_o 7 x_B /\
  file_subnets_wfb x_o 7 x_A = true /\ file_subnets_wfb x_o 7 x_B = true /\
  kvs_ok (records bytes x_conv x_acc x_feat (scan x_A)) /\ kvs_ok (records bytes x_conv x_acc x_feat (scan x_B)) /\
  preprocess x_o x_R 0 x_A = Ok x_PA /\ preprocess x_o x_R 0 x_B = Ok x_PB /\
  length x_PA = 5%nat /\ length x_PB = 8%nat /\ length (file_nets x_o 7 x_B) = 2%nat /\
  pre_file x_o true 7 x_PA /\ pre_file x_o true 7 x_PB /\ forallb scanned_lineb x_PB = true /\
  is_line_diff x_PA x_PB (filter (fun l => match l with 43 :: _ | 45 :: _ => true | _ => false end) x_d) /\
  exists dbA dbB db',
    compile_builder bytes x_conv kv_isort 1 2 (scan x_PA) (records bytes x_conv x_acc x_feat (scan x_PA)) = Ok dbA /\
    compile_batches bytes x_conv kv_isort (scan x_B) (rev (batches 3 (records bytes x_conv x_acc x_feat (scan x_B)))) = Ok dbB /\
    apply_diff x_conv kv_isort dbA x_d = Ok db' /\
    length x_keys = 15%nat /\
    map (vals db') x_keys = map (vals dbB) x_keys /\
    map (vals dbA) x_keys <> map (vals dbB) x_keys /\
    apply_diff x_conv kv_isort dbA [43 :: x_a2; 42 :: x_a1] = Err E_BADOP /\
    apply_diff x_conv kv_isort dbA [43 :: x_a2; [45; 35; 120]] = Err E_CONV /\
    convert_error x_o [35; 120] = Some E_BADTYPE /\
    convert_error x_o [43; 97; 44; 44; 44; 44; 92] = Some E_QUOTE /\
    convert_error x_o [37; 44; 44; 109; 49] = Some E_LOC /\
    convert_error x_o [] = Some Model.Text.E_PANIC /\
    apply_diff x_conv kv_isort dbA [45 :: x_a2] = Err E_NXVAL.
Proof. exact link_example. Qed.
Print Assumptions C08_text_example.

(* ================================================================================================
   The value-size guards follow from the LENGTH of the text lines (Proofs/TextSizes.v, Proofs/LinkSizes.v)
   when the library's ParseIP returns 16-byte addresses (parse_ip_16 o).
   ================================================================================================ *)
From DnsV Require Import Proofs.TextSizes Proofs.LinkSizes.

(* every value a line compiles to is at most 12 * |line| + 500000 bytes long (Bunquote emits at most four
   bytes per byte, a server name is expanded by the owner, B/H lists hold at most seven parameters of at
   most 65535 bytes) *)
Theorem C08_values_bounded : forall o v2 serial l r,
  (forall s a, o_parse_ip o s = Some a -> length a = 16%nat) ->
  parse_line o serial l = Ok r ->
  Forall (fun p => nlen (snd p) <= 12 * nlen l + 500000) (convert v2 true r).
Proof. exact convert_values_bounded. Qed.
Print Assumptions C08_values_bounded.

(* so the guards of the text theorems are decided on the text alone, independent of serial and key layout:
   pre_line_textb = not a '%' line, no parse_error, at most 2^24 bytes (short_lineb) *)
Theorem C08_text_guard_syntactic : forall o v2 serial, parse_ip_16 o ->
  (forall f, forallb (pre_line_textb o) f = true -> pre_file o v2 serial f) /\
  (forall d, forallb short_lineb d = true -> forallb (plus_smallb o v2 serial) d = true).
Proof.
  intros o v2 serial H. split; [intro f; apply pre_file_text; exact H | intro d; apply plus_small_short; exact H].
Qed.
Print Assumptions C08_text_guard_syntactic.

(* C08_preprocessed_diff_end_to_end with the value-size guards replaced by: every line of A and of B is at
   most 2^24 bytes long *)
Theorem C08_preprocessed_diff_end_to_end_short : forall o,
  (forall a, wf_bytes a -> length a = 16%nat -> o_parse_ip o (o_print_ip o a) = Some a) ->
  o_parse_ip o [] = None ->
  (forall a, contains 44 (o_print_ip o a) = false) ->
  parse_ip_16 o ->
  forall sort, sort_spec sort ->
  forall v2 serial pserial, serial <= max32 -> pserial = serial \/ pserial = 0 ->
  forall ksort, sort_ok ksort ->
  forall A B,
  Proofs.Preproc.wf_file o serial A -> file_subnets_wfb o serial A = true -> forallb short_lineb A = true ->
  Proofs.Preproc.wf_file o serial B -> file_subnets_wfb o serial B = true -> forallb short_lineb B = true ->
  exists bodyA pointsA bodyB pointsB,
    preprocess o (rearrange_total sort) pserial A = Ok (bodyA ++ map (marshal o) pointsA) /\
    preprocess o (rearrange_total sort) pserial B = Ok (bodyB ++ map (marshal o) pointsB) /\
    forall pa pb, Permutation pa pointsA -> Permutation pb pointsB ->
      let PA := bodyA ++ map (marshal o) pa in
      let PB := bodyB ++ map (marshal o) pb in
      scan PA = PA /\ scan PB = PB /\
      (forall dbA, rdb_compilation bytes (convert_ln o v2 serial) (text_accum o v2 serial (rearrange_total sort))
                     (features v2) (scan PA) dbA ->
                   compiled (convert_ln o v2 serial) (features v2) PA dbA) /\
      forall d dbA, is_line_diff PA PB d -> compiled (convert_ln o v2 serial) (features v2) PA dbA ->
        exists db', apply_diff (convert_ln o v2 serial) ksort dbA d = Ok db' /\
          compiled (convert_ln o v2 serial) (features v2) PB db' /\
          forall dbB, rdb_compilation bytes (convert_ln o v2 serial) (text_accum o v2 serial (rearrange_total sort))
                        (features v2) (scan B) dbB ->
            forall k, Permutation (vals db' k) (vals dbB k).
Proof. exact preprocessed_diff_end_to_end_short. Qed.
Print Assumptions C08_preprocessed_diff_end_to_end_short.

(* non-vacuity of the added premise and guard: o_toy returns 16-byte addresses, the example files are short *)
Example C08_short_example :
  parse_ip_16 x_o /\ forallb short_lineb x_A = true /\ forallb short_lineb x_B = true /\
  forallb (pre_line_textb x_o) x_PA = true /\ forallb (pre_line_textb x_o) x_PB = true.
Proof. split; [exact toy_parse_ip_16|]. repeat split; vm_compute; reflexivity. Qed.
Print Assumptions C08_short_example.
