(* C05 - A reload switches generations atomically and visibly.
   Statements only; proofs are in Proofs/Reload*.v.  The system is the interleaving semantics
   Model/Reload.v: [run refusedf weightedf cfg (init cfg d p0) sched] is the state reached from a
   handler that loaded path p0 of disk d, after the schedule sched (any list of thread ids; a
   step of a thread that is not enabled is skipped).  refusedf / weightedf / cfg / d / p0 / sched
   are universally quantified everywhere: both drivers (c_rocks), cache on or off, validation key
   or not, expiring ReloadTimeout or not, any queries, any sequence of full / partial reloads,
   any on-disk updates.

   Vocabulary.  [rat st i r] / [qat st j q]: r is the state of reload thread i / q of query
   thread j.  r_pc r = RDone None: Reload returned nil; RDone (Some k): it returned an error of
   kind k.  Ghost fields: r_unlock_at / q_acq_at / q_done_at are the step numbers of the reload's
   Unlock, the query's RLock and the query's write; g_epoch g is the position in the global
   install sequence of the content a lookup read (g_stamp g is the number the harness databases
   carry); r_epoch r is the epoch served right after r's pointer swap.

   Findings (the faithful model does not satisfy the clause; see the _refuted theorems):
   F5 single generation across a RocksDB catch-up; F23 / F24 a failed partial RocksDB reload
   (validation key missing / timeout) has already / still caught up the served backend. *)
From DnsV Require Import Base.Bytes Model.Reload Proofs.Reload Proofs.ReloadBase Proofs.ReloadFlags
  Proofs.ReloadVis Proofs.ReloadMono Proofs.ReloadPath Proofs.ReloadNoop Proofs.ReloadSingle
  Proofs.ReloadMain Proofs.ReloadWitness.
Open Scope N_scope.

(* Once a reload has returned successfully, every query that takes the read lock afterwards pins a
   backend whose content is at least as new as what that reload installed, and every one of its
   lookups reads such content. *)
Theorem C05_visible_after_return :
  forall refusedf weightedf cfg d p0 sched i j r q,
  let st := run refusedf weightedf cfg (init cfg d p0) sched in
  rat st i r -> qat st j q -> r_pc r = RDone None -> q_pc q <> QStart ->
  r_unlock_at r < q_acq_at q ->
  (pinned (q_pc q) = true -> r_epoch r <= epoch_of st (q_pin q)) /\
  forall g, In g (q_reads q) -> r_epoch r <= g_epoch g.
Proof. exact visible_after_return. Qed.
Print Assumptions C05_visible_after_return.

(* A partial reload acts on the path of the last full reload that returned nil (or the initial
   path): whenever no reload holds the write lock the configured path is that path; the newPath a
   partial reload computes is the last-switched path it saw; and that cannot change while it holds
   the lock. *)
Theorem C05_partial_follows_last_switch :
  forall refusedf weightedf cfg d p0 sched,
  let st := run refusedf weightedf cfg (init cfg d p0) sched in
  (st_w st = false -> st_path st = st_last_full st) /\
  (forall i r, rat st i r -> nth_error (c_rs cfg) i = Some Partial -> begun (r_pc r) = true ->
     r_newpath r = r_seen_last r) /\
  (forall i r, rat st i r -> holds (r_pc r) = true -> begun (r_pc r) = true ->
     r_seen_last r = st_last_full st).
Proof. exact partial_follows_last_switch. Qed.
Print Assumptions C05_partial_follows_last_switch.

(* Generations never go backwards: a query that took the read lock after another query had
   written its response reads nothing older than anything the earlier one read - for ANY two
   queries, in particular for two queries of one client.  [no_late]: no timed-out RocksDB
   catch-up is pending or was applied (finding F24 breaks exactly this hypothesis). *)
Theorem C05_monotone_per_client :
  forall refusedf weightedf cfg d p0 sched j1 j2 q1 q2,
  let st := run refusedf weightedf cfg (init cfg d p0) sched in
  no_late st ->
  qat st j1 q1 -> qat st j2 q2 -> q_pc q1 = QDone -> q_pc q2 <> QStart -> q_done_at q1 < q_acq_at q2 ->
  forall g1 g2, In g1 (q_reads q1) -> In g2 (q_reads q2) -> g_epoch g1 <= g_epoch g2.
Proof. exact monotone. Qed.
Print Assumptions C05_monotone_per_client.

(* a response that did not come out of the cache consists of exactly what the lookups read *)
Theorem C05_response_is_reads :
  forall refusedf weightedf cfg d p0 sched j q l,
  let st := run refusedf weightedf cfg (init cfg d p0) sched in
  qat st j q -> q_resp q = Some l -> q_cached q = false -> l = q_reads q.
Proof. exact resp_is_reads. Qed.
Print Assumptions C05_response_is_reads.

(* A reload that fails leaves the server as if nothing happened: NO step of a reload thread that
   ends in an error (missing path, unreadable file, validation key missing, timeout, catch-up
   error) changes the view (served backend, configured path, cache, disk, content of every existing
   backend) - provided it was not an in-place catch-up (r_inplace = false; finding F23 otherwise). *)
Theorem C05_failed_reload_is_noop_outside_finding :
  forall refusedf weightedf cfg d p0 s1 s2 i k r,
  let sa := run refusedf weightedf cfg (init cfg d p0) s1 in
  let sb := step_or_skip refusedf weightedf cfg sa (TR i) in
  let sf := run refusedf weightedf cfg sb s2 in
  rat sf i r -> r_pc r = RDone (Some k) -> r_inplace r = false -> view_eq sa sb.
Proof. exact failed_reload_is_noop. Qed.
Print Assumptions C05_failed_reload_is_noop_outside_finding.

(* ... and the goroutine a timed-out db.Reload leaves behind does nothing at all, unless it is a
   pending catch-up of the served RocksDB backend (r_late; finding F24) *)
Theorem C05_failed_reload_late_is_noop_outside_finding :
  forall refusedf weightedf cfg d p0 s1 s2 i r,
  let sa := run refusedf weightedf cfg (init cfg d p0) s1 in
  let sb := step_or_skip refusedf weightedf cfg sa (TL i) in
  let sf := run refusedf weightedf cfg sb s2 in
  rat sf i r -> r_late r = false -> sb = sa.
Proof. exact failed_reload_late_noop. Qed.
Print Assumptions C05_failed_reload_late_is_noop_outside_finding.

(* with the cdb driver no reload is ever a catch-up: the two theorems above apply to every failing
   reload of every schedule, for every failure kind *)
Theorem C05_failed_reload_is_noop :
  forall refusedf weightedf cfg d p0 sched i r,
  c_rocks cfg = false ->
  rat (run refusedf weightedf cfg (init cfg d p0) sched) i r -> r_late r = false /\ r_inplace r = false.
Proof. exact cdb_no_catchup. Qed.
Print Assumptions C05_failed_reload_is_noop.

(* F23: RocksDB, validation key configured, primary updated to a generation without the key:
   the partial reload returns the validation error, yet the served stamp went from 1 to 3 *)
Theorem C05_failed_reload_is_noop_refuted :
  exists r, rat st_f23_final 0 r /\ r_pc r = RDone (Some FNoKey) /\ r_inplace r = true /\
            stamp_of st_f23_a (st_served st_f23_a) = 1 /\ stamp_of st_f23_b (st_served st_f23_b) = 3 /\
            stamp_of st_f23_final (st_served st_f23_final) = 3 /\ ~ view_eq st_f23_a st_f23_b.
Proof. exact failed_reload_is_noop_refuted_nokey. Qed.
Print Assumptions C05_failed_reload_is_noop_refuted.

(* F24: RocksDB, ReloadTimeout expires on a partial reload: Reload returned ErrReloadTimeout and
   the served stamp still goes from 1 to 2 afterwards *)
Theorem C05_failed_reload_is_noop_refuted_timeout :
  exists r, rat st_f24_a 0 r /\ r_pc r = RDone (Some FTimeout) /\ r_late r = true /\
            stamp_of st_f24_a (st_served st_f24_a) = 1 /\ stamp_of st_f24_b (st_served st_f24_b) = 2 /\
            st_f24_b <> st_f24_a.
Proof. exact failed_reload_is_noop_refuted_timeout. Qed.
Print Assumptions C05_failed_reload_is_noop_refuted_timeout.

(* Every response is computed from one generation: all the stamps a response was computed from
   (lookups, or the cache entry it was copied from) are equal - with the cdb driver always ... *)
Theorem C05_single_generation :
  forall refusedf weightedf cfg d p0 sched j q l,
  let st := run refusedf weightedf cfg (init cfg d p0) sched in
  c_rocks cfg = false -> qat st j q -> q_resp q = Some l -> single_s l.
Proof. exact single_generation_cdb. Qed.
Print Assumptions C05_single_generation.

(* ... with RocksDB not (F5): a partial reload catches up the pinned backend between the answer
   lookup and the additional-section lookup of one query: stamps 1,1,1,2 in one response *)
Theorem C05_single_generation_refuted :
  exists cfg d p0 sched j q l,
    qat (run nof nof cfg (init cfg d p0) sched) j q /\ q_resp q = Some l /\ ~ single_s l.
Proof. exact single_generation_refuted. Qed.
Print Assumptions C05_single_generation_refuted.

(* it holds on every schedule in which no catch-up step of a backend falls between two lookups of
   a query pinned to it (the flag st_f5 is raised exactly by such a step: Model/Reload.v catch_up) *)
Theorem C05_single_generation_outside_finding :
  forall refusedf weightedf cfg d p0 sched j q l,
  let st := run refusedf weightedf cfg (init cfg d p0) sched in
  st_f5 st = false -> qat st j q -> q_resp q = Some l -> single_s l.
Proof. exact single_generation_outside. Qed.
Print Assumptions C05_single_generation_outside_finding.

(* in particular on every schedule without in-place or late catch-ups (no partial reload and no
   full reload of the served path on RocksDB) *)
Theorem C05_single_generation_without_catchup :
  forall refusedf weightedf cfg d p0 sched,
  let st := run refusedf weightedf cfg (init cfg d p0) sched in
  (forall i r, rat st i r -> r_inplace r = false /\ r_late r = false) -> st_f5 st = false.
Proof. exact f5_needs_catchup. Qed.
Print Assumptions C05_single_generation_without_catchup.

(* hypotheses are satisfiable: cdb with cache and validation key; a full switch to path 1 returns,
   a query then reads generation 2 (epoch 1) four times; a full reload of a missing path fails
   without being a catch-up; path 1 is replaced on disk, a partial reload follows path 1 and
   installs stamp 5 as epoch 2; a second query of the same client starts after the first finished
   and reads epoch 2 only *)
Example C05_example :
  exists r0 r1 r2 q0 q1,
    rat st_ex 0 r0 /\ rat st_ex 1 r1 /\ rat st_ex 2 r2 /\ qat st_ex 0 q0 /\ qat st_ex 1 q1 /\
    r_pc r0 = RDone None /\ r_epoch r0 = 1 /\ r_unlock_at r0 < q_acq_at q0 /\
    q_resp q0 = Some [mkG 2 1; mkG 2 1; mkG 2 1; mkG 2 1] /\
    r_pc r1 = RDone (Some FMissing) /\ r_inplace r1 = false /\
    r_pc r2 = RDone None /\ r_newpath r2 = 1 /\ r_seen_last r2 = 1 /\ r_epoch r2 = 2 /\
    q_done_at q0 < q_acq_at q1 /\ q_cached q1 = false /\
    q_resp q1 = Some [mkG 5 2; mkG 5 2; mkG 5 2; mkG 5 2] /\
    st_f5 st_ex = false /\ st_f6 st_ex = false /\ no_late st_ex /\ st_path st_ex = 1 /\ st_last_full st_ex = 1.
Proof. exact example_run. Qed.
Print Assumptions C05_example.
