From DnsV Require Import Model.Svcb Spec.SvcbWire Proofs.Svcb.
Open Scope N_scope.
Theorem C18_placeholder : key_of VNda = 2.
Proof. exact placeholder_c18. Qed.
Print Assumptions C18_placeholder.
