(* C18 - SVCB/HTTPS parameters compile to conformant, faithful wire data.
   This file holds only theorem statements closed by [exact]; proofs are in Proofs/Svcb.v.
   [orc] stands for the library behaviour that is not modelled (net.ParseIP, net.IP.String,
   base64 Decode / Encode); every theorem holds for every [orc] satisfying the stated facts.
   The accepted grammar: the list ends at the first empty segment of the ';' split
   (Spec/SvcbWire.v declared_raw). *)
From Coq Require Import Sorted.
From DnsV Require Import Base.Bytes Base.Text Model.Svcb Spec.SvcbWire Proofs.Svcb.
Open Scope N_scope.

(* every accepted parameter list is stored with strictly increasing keys (hence none repeated) *)
Theorem C18_sorted_unique : forall orc,
  (forall s a, parse_ip orc s = Some a -> length a = 16%nat /\ wf_bytes a) ->
  (forall s x, b64_dec orc s = Some x -> wf_bytes x) ->
  forall t l, from_text orc t = Ok l -> StronglySorted N.lt (map fst l).
Proof. exact sorted_unique. Qed.
Print Assumptions C18_sorted_unique.

(* the independent RFC 9460 decoder recovers from the emitted wire data exactly the declared
   keys and values (in key order) - for every accepted text, unconditionally *)
Theorem C18_decodes_to_declared : forall orc,
  (forall s a, parse_ip orc s = Some a -> length a = 16%nat /\ wf_bytes a) ->
  (forall s x, b64_dec orc s = Some x -> wf_bytes x) ->
  forall t l, from_text orc t = Ok l ->
  exists d, declared (parse_ip orc) (b64_dec orc) t = Some d /\ rfc_decode (to_wire l) = Some d.
Proof. exact decodes_to_declared. Qed.
Print Assumptions C18_decodes_to_declared.

(* a list whose mandatory parameter names a missing key, repeats a key or names itself
   (or which repeats a parameter key) is rejected *)
Theorem C18_mandatory_rejects : forall orc,
  (forall s a, parse_ip orc s = Some a -> length a = 16%nat /\ wf_bytes a) ->
  (forall s x, b64_dec orc s = Some x -> wf_bytes x) ->
  forall t d, declared_raw (parse_ip orc) (b64_dec orc) t = Some d ->
  mand_names_missing d \/ mand_repeats d \/ mand_names_self d \/ ~ NoDup (map key_of d) ->
  exists e, from_text orc t = Err e.
Proof. exact mandatory_rejects. Qed.
Print Assumptions C18_mandatory_rejects.

(* printing the stored parameters and parsing the print again yields the same list (hence the
   same wire data), for every accepted list that declares no v4-mapped ipv6hint *)
Theorem C18_text_roundtrip_outside_finding : forall orc,
  (forall s a, parse_ip orc s = Some a -> length a = 16%nat /\ wf_bytes a) ->
  (forall s x, b64_dec orc s = Some x -> wf_bytes x) ->
  (forall a, length a = 4%nat -> wf_bytes a -> parse_ip orc (print_ip orc a) = Some (v4_prefix ++ a)) ->
  (forall a, length a = 16%nat -> wf_bytes a -> ip_to4 a = None ->
     parse_ip orc (print_ip orc a) = Some a /\ has_byte 58 (print_ip orc a) = true) ->
  (forall a, (length a = 4%nat \/ length a = 16%nat) -> wf_bytes a ->
     has_byte 59 (print_ip orc a) = false /\ has_byte 124 (print_ip orc a) = false
     /\ has_byte 34 (print_ip orc a) = false) ->
  (forall x, wf_bytes x -> b64_dec orc (b64_enc orc x) = Some x
     /\ has_byte 59 (b64_enc orc x) = false /\ has_byte 34 (b64_enc orc x) = false) ->
  forall t l d, from_text orc t = Ok l -> declared (parse_ip orc) (b64_dec orc) t = Some d ->
  no_mapped6 d -> exists s, to_text orc l = Ok s /\ from_text orc s = Ok l.
Proof. exact text_roundtrip_outside_finding. Qed.
Print Assumptions C18_text_roundtrip_outside_finding.

(* finding F8: with a v4-mapped ipv6hint the round trip fails - ipv6hint=::ffff:1.2.3.4 is
   accepted, printed as ipv6hint="1.2.3.4" and that print is rejected *)
Theorem C18_text_roundtrip_refuted : forall orc,
  parse_ip orc f8_token = Some f8_addr -> print_ip orc f8_addr = f8_dotted ->
  from_text orc f8_text = Ok [(6, f8_addr)]
  /\ to_text orc [(6, f8_addr)] = Ok f8_printed
  /\ from_text orc f8_printed = Err E_IP6_NOCOLON.
Proof. exact text_roundtrip_refuted. Qed.
Print Assumptions C18_text_roundtrip_refuted.

Theorem C18_text_roundtrip_refuted_closed :
  exists t l s, from_text f8_orc t = Ok l /\ to_text f8_orc l = Ok s /\ from_text f8_orc s = Err E_IP6_NOCOLON.
Proof. exact text_roundtrip_refuted_closed. Qed.
Print Assumptions C18_text_roundtrip_refuted_closed.

(* the printing side of the model never runs out of the fuel it supplies *)
Theorem C18_model_fuel_suffices : forall orc k v, unmarshal orc k v <> Err E_FUEL.
Proof. exact model_fuel_suffices. Qed.
Print Assumptions C18_model_fuel_suffices.

(* all oracle hypotheses above are jointly satisfiable (by a toy address / base64 syntax) *)
Theorem C18_oracle_hypotheses_satisfiable :
  (forall s a, parse_ip ex_orc s = Some a -> length a = 16%nat /\ wf_bytes a)
  /\ (forall s x, b64_dec ex_orc s = Some x -> wf_bytes x)
  /\ (forall a, length a = 4%nat -> wf_bytes a -> parse_ip ex_orc (print_ip ex_orc a) = Some (v4_prefix ++ a))
  /\ (forall a, length a = 16%nat -> wf_bytes a -> ip_to4 a = None ->
        parse_ip ex_orc (print_ip ex_orc a) = Some a /\ has_byte 58 (print_ip ex_orc a) = true)
  /\ (forall a, (length a = 4%nat \/ length a = 16%nat) -> wf_bytes a ->
        has_byte 59 (print_ip ex_orc a) = false /\ has_byte 124 (print_ip ex_orc a) = false
        /\ has_byte 34 (print_ip ex_orc a) = false)
  /\ (forall x, wf_bytes x -> b64_dec ex_orc (b64_enc ex_orc x) = Some x
        /\ has_byte 59 (b64_enc ex_orc x) = false /\ has_byte 34 (b64_enc ex_orc x) = false)
  /\ (exists t l, from_text ex_orc t = Ok l /\ length l = 2%nat).
Proof. exact oracle_hypotheses_satisfiable. Qed.
Print Assumptions C18_oracle_hypotheses_satisfiable.
