(* C02 - Storage backend and key layout never change an answer.
   Only statements closed by [exact]; proofs are in Proofs/. *)
From DnsV Require Import Base.Bytes Model.Store Proofs.Store.
Open Scope N_scope.

(* SeekForPrev as modelled: the key found is a key of the store, returned with its own rows,
   and is not greater than the probe *)
Theorem C02_seek_prev_sound : forall s probe k v,
  seek_prev s probe = Some (k, v) -> In (k, v) s /\ bleb k probe = true.
Proof. intros s probe k v H. split; [exact (seek_prev_in s probe k v H) | exact (seek_prev_le s probe k v H)]. Qed.
Print Assumptions C02_seek_prev_sound.
