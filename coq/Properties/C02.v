(* C02 - Storage backend and key layout never change an answer.
   Only statements closed by [exact]; proofs are in Proofs/.

   What is proved concerns the RocksDB read path that the v2 (closest-key) reader adds to the
   label-by-label one: SeekForPrev, and the per-request context cache shared by exact gets and
   closest-key lookups (dnsdata/rdb/rdb.go).  [uniq st] : every key is stored once.
   [closest_sound st c] : every cache entry (search key -> found key, data) is what SeekForPrev
   returns for the search key - true of the empty cache a request starts with and preserved by
   everything the closest-key walk does. *)
From DnsV Require Import Base.Bytes Model.Store Model.LookupV1 Model.LookupV2.
From DnsV Require Import Spec.Answer Spec.Rows Proofs.ZoneCut Proofs.Store Proofs.Ctx Proofs.CtxFind Proofs.Reverse Proofs.SortedStore.
Open Scope N_scope.

(* SeekForPrev as modelled: the key found is a key of the store, returned with its own rows,
   and is not greater than the probe *)
Theorem C02_seek_prev_sound : forall s probe k v,
  seek_prev s probe = Some (k, v) -> In (k, v) s /\ bleb k probe = true.
Proof. exact seek_prev_sound. Qed.
Print Assumptions C02_seek_prev_sound.

(* the [uniq] hypothesis below holds of every store with strictly ascending keys - the decidable
   predicate the dumps handed to the model satisfy *)
Theorem C02_sorted_store_uniq : forall st, sorted_keys st = true -> uniq st.
Proof. exact sorted_uniq. Qed.
Print Assumptions C02_sorted_store_uniq.

(* a key that is present is its own closest key *)
Theorem C02_seek_prev_present : forall st k v, uniq st -> In (k, v) st -> seek_prev st k = Some (k, v).
Proof. exact seek_prev_present. Qed.
Print Assumptions C02_seek_prev_present.

(* ctx_cache_transparent, exact gets (the code after repair 6c5e0a8): whatever the cache holds,
   as long as its exact entries are right, get returns the database's rows and keeps it so *)
Theorem C02_ctx_get_transparent : forall st c key,
  get_sound st c -> fst (get_v2 st c key) = get st key /\ get_sound st (snd (get_v2 st c key)).
Proof. exact get_v2_transparent. Qed.
Print Assumptions C02_ctx_get_transparent.

(* ctx_cache_transparent, closest-key lookups: with a cache written by FindClosest only,
   FindClosest returns what SeekForPrev returns and keeps the cache such *)
Theorem C02_ctx_find_closest_transparent : forall st c key,
  uniq st -> closest_sound st c ->
  fst (find_closest st c key) = seek_prev st key /\ closest_sound st (snd (find_closest st c key)).
Proof. exact find_closest_transparent. Qed.
Print Assumptions C02_ctx_find_closest_transparent.

(* the literal claim "every FindClosest answered from the cache equals the uncached answer" is
   FALSE for the code as it is: an exact get of an ABSENT key caches (key -> key, no data), and a
   later FindClosest of that key returns the key itself instead of its predecessor.  Not
   observable through the handler - every closest-key walk of a request precedes its exact gets
   of absent keys, and the walk would only strip one label instead of skipping - so this is a
   remark about the cache, not a finding about answers. *)
Theorem C02_ctx_cache_transparent_refuted :
  exists st c key, uniq st /\ get_sound st c /\ c = snd (get_v2 st [] key) /\
    fst (find_closest st c key) <> seek_prev st key.
Proof. exact ctx_find_closest_not_transparent. Qed.
Print Assumptions C02_ctx_cache_transparent_refuted.

(* the closest-key walk (sortedDataReader.find, used by IsAuthoritative and FindAnswer of the v2
   reader) computes the same client state with ANY closest-sound cache as with no cache at all
   ([find_pure]: every FindClosest and get goes to the database), panics exactly when that does,
   and leaves a closest-sound cache for the next walk of the request *)
Theorem C02_find_cache_free : forall st, uniq st ->
  forall P parse pre post q loc p c,
  closest_sound st c ->
  agrees st P (find st P parse pre post q loc p c) (find_pure st P parse pre post q loc p).
Proof. exact find_cache_free. Qed.
Print Assumptions C02_find_cache_free.

(* the reader builds the name part of a v2 key with reverseZoneNameToBuffer, whose index is a Go
   byte; the compiler writes Spec/Rows.rpack.  On every wire-valid name (labels 1..63 bytes, at most
   255 bytes) the byte arithmetic does not wrap, nothing panics and the two coincide - so the exact
   gets of the v2 reader (FindSOA, GetNs, additional section) probe the key the compiler wrote *)
Theorem C02_reverse_zone_name : forall n, wf_name n -> nlen (pack n) <= 255 ->
  reverse_zone_name (pack n) = Val (rpack n).
Proof. exact reverse_zone_name_pack. Qed.
Print Assumptions C02_reverse_zone_name.

(* C02_v2_equals_v1_partial.  The statement targeted by DESIGN.md,
     forall recs q L, serve RDB2 (store_v2 recs) q L ~ serve RDB1 (store_v1 recs) q L,
   is NOT proved.  Proved: the cache is out of the picture (theorems above), so what remains is
   the cache-free walk [find_pure] against the label-by-label loops; the missing lemma is
   seek_skip_sound (a closest key that shares k labels with the name proves that no ancestor with
   more than k labels has a key).
   The differential run compares the three real servers pairwise on every query (Run/C02.v) and
   the v2 model against the RocksDB-v2 server (Run/Core.v). *)

Example C02_example :
  let st := [([0; 111; 0; 0; 0], [[9]]); ([0; 111; 1; 97; 0; 0; 0], [[1]; [2]])] in
  uniq st /\ closest_sound st [] /\
  seek_prev st [0; 111; 1; 97; 1; 98; 0; 0; 0] = Some ([0; 111; 1; 97; 0; 0; 0], [[1]; [2]]).
Proof.
  split; [|split; [apply closest_sound_nil | vm_compute; reflexivity]].
  intros k v [H|[H|[]]]; inversion H; subst; reflexivity.
Qed.
Print Assumptions C02_example.
