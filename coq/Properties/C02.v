(* C02 - Storage backend and key layout never change an answer.
   Only statements closed by [exact]; proofs are in Proofs/.

   Headline: C02_v2_equals_v1 (the handler over RocksDB v2 keys = the handler over RocksDB v1 keys,
   outcome for outcome), C02_cdb_equals_v1, C02_three_backends - at the end of this file.
   First part: the RocksDB read path that the v2 (closest-key) reader adds to the label-by-label
   one: SeekForPrev, and the per-request context cache shared by exact gets and closest-key lookups
   (dnsdata/rdb/rdb.go).  [uniq st] : every key is stored once.
   [closest_sound st c] : every cache entry (search key -> found key, data) is what SeekForPrev
   returns for the search key - true of the empty cache a request starts with and preserved by
   everything the closest-key walk does. *)
From DnsV Require Import Base.Bytes Model.Store Model.LookupV1 Model.LookupV2.
From DnsV Require Import Spec.Answer Spec.Rows Proofs.ZoneCut Proofs.Store Proofs.Ctx Proofs.CtxFind Proofs.Reverse Proofs.SortedStore.
From DnsV Require Import Model.Serve Proofs.Compile Proofs.RevOrder Proofs.V2Funcs Proofs.SeekSkip Proofs.V2Store Proofs.V2Sim Proofs.V2Readers Proofs.V2Serve Proofs.V2Corollaries Proofs.Referral Proofs.CdbRdb1.
Open Scope N_scope.

(* SeekForPrev as modelled: the key found is a key of the store, returned with its own rows,
   and is not greater than the probe *)
Theorem C02_seek_prev_sound : forall s probe k v,
  seek_prev s probe = Some (k, v) -> In (k, v) s /\ bleb k probe = true.
Proof. exact seek_prev_sound. Qed.
Print Assumptions C02_seek_prev_sound.

(* the [uniq] hypothesis below holds of every store with strictly ascending keys - the decidable
   predicate the dumps handed to the model satisfy *)
Theorem C02_sorted_store_uniq : forall st, sorted_keys st = true -> uniq st.
Proof. exact sorted_uniq. Qed.
Print Assumptions C02_sorted_store_uniq.

(* a key that is present is its own closest key *)
Theorem C02_seek_prev_present : forall st k v, uniq st -> In (k, v) st -> seek_prev st k = Some (k, v).
Proof. exact seek_prev_present. Qed.
Print Assumptions C02_seek_prev_present.

(* ctx_cache_transparent, exact gets (the code after repair 6c5e0a8): whatever the cache holds,
   as long as its exact entries are right, get returns the database's rows and keeps it so *)
Theorem C02_ctx_get_transparent : forall st c key,
  get_sound st c -> fst (get_v2 st c key) = get st key /\ get_sound st (snd (get_v2 st c key)).
Proof. exact get_v2_transparent. Qed.
Print Assumptions C02_ctx_get_transparent.

(* ctx_cache_transparent, closest-key lookups: with a cache written by FindClosest only,
   FindClosest returns what SeekForPrev returns and keeps the cache such *)
Theorem C02_ctx_find_closest_transparent : forall st c key,
  uniq st -> closest_sound st c ->
  fst (find_closest st c key) = seek_prev st key /\ closest_sound st (snd (find_closest st c key)).
Proof. exact find_closest_transparent. Qed.
Print Assumptions C02_ctx_find_closest_transparent.

(* the literal claim "every FindClosest answered from the cache equals the uncached answer" is
   FALSE for the code as it is: an exact get of an ABSENT key caches (key -> key, no data), and a
   later FindClosest of that key returns the key itself instead of its predecessor.  Not
   observable through the handler - every closest-key walk of a request precedes its exact gets
   of absent keys, and the walk would only strip one label instead of skipping - so this is a
   remark about the cache, not a finding about answers. *)
Theorem C02_ctx_cache_transparent_refuted :
  exists st c key, uniq st /\ get_sound st c /\ c = snd (get_v2 st [] key) /\
    fst (find_closest st c key) <> seek_prev st key.
Proof. exact ctx_find_closest_not_transparent. Qed.
Print Assumptions C02_ctx_cache_transparent_refuted.

(* the closest-key walk (sortedDataReader.find, used by IsAuthoritative and FindAnswer of the v2
   reader) computes the same client state with ANY closest-sound cache as with no cache at all
   ([find_pure]: every FindClosest and get goes to the database), panics exactly when that does,
   and leaves a closest-sound cache for the next walk of the request *)
Theorem C02_find_cache_free : forall st, uniq st ->
  forall P parse pre post q loc p c,
  closest_sound st c ->
  agrees st P (find st P parse pre post q loc p c) (find_pure st P parse pre post q loc p).
Proof. exact find_cache_free. Qed.
Print Assumptions C02_find_cache_free.

(* the reader builds the name part of a v2 key with reverseZoneNameToBuffer, whose index is a Go
   byte; the compiler writes Spec/Rows.rpack.  On every wire-valid name (labels 1..63 bytes, at most
   255 bytes) the byte arithmetic does not wrap, nothing panics and the two coincide - so the exact
   gets of the v2 reader (FindSOA, GetNs, additional section) probe the key the compiler wrote *)
Theorem C02_reverse_zone_name : forall n, wf_name n -> nlen (pack n) <= 255 ->
  reverse_zone_name (pack n) = Val (rpack n).
Proof. exact reverse_zone_name_pack. Qed.
Print Assumptions C02_reverse_zone_name.

(* ================================================================ the simulation: v2 reader = v1 reader

   Vocabulary.  Names are label lists; [bkey r loc] = "\000o" ++ labels of r (top-level label first,
   each behind its length byte) ++ 0 ++ loc is the v2 key of the name with reversed label list r and
   location loc ([key_v2 rc = bkey (rev (r_owner rc)) (loc_bytes rc)]).  [name_ok] : every label has
   1..63 bytes.  [store_v2 recs] : the v2-keyed store the records compile to.  [v2_store recs st] :
   what the reader may assume of ANY v2 database holding the records - every key once; each key is
   the key of a name with a two-byte location ([rr_shaped]) or [foreign] (no "\000o" prefix, or a
   first byte >= 64 behind it, like "\000o_features"); the rows of a name key are the declared
   rows.  Other key families (maps, features) and the order of keys in the dump are irrelevant. *)

(* SeekForPrev returns the GREATEST key <= probe, or nothing when there is none *)
Theorem C02_seek_prev_greatest : forall (db : store) k,
  match seek_prev db k with
  | Some (k', v) => In (k', v) db /\ bleb k' k = true /\
                    (forall k'' v'', In (k'', v'') db -> bleb k'' k = true -> bleb k'' k' = true)
  | None => forall k'' v'', In (k'', v'') db -> bleb k'' k = false
  end.
Proof. exact seek_prev_greatest. Qed.
Print Assumptions C02_seek_prev_greatest.

(* reversed packed names are a prefix-free code ordered below their descendants: the key of an
   ancestor sorts strictly before every key of a name below it, whatever the two locations *)
Theorem C02_ancestor_key_lt : forall x l z loc loc', lab_ok l ->
  bltb (bkey x loc') (bkey (x ++ l :: z) loc) = true.
Proof. exact ancestor_key_lt. Qed.
Print Assumptions C02_ancestor_key_lt.

(* seek_skip_sound (DESIGN.md).  The probe for ancestor r of the query name (reversed labels
   r ++ rest) and location loc landed on the key of name y: every proper ancestor x of r that has a
   key under ANY location is an ancestor-or-self of the common label prefix [clp] of the query name
   and y - so no name strictly between that prefix and r has a key, and the walk may skip them *)
Theorem C02_seek_skip_sound : forall st r rest loc y ly v x z loc' v',
  seek_prev st (bkey r loc) = Some (bkey y ly, v) ->
  r = x ++ z -> z <> [] -> name_ok z -> name_ok x -> In (bkey x loc', v') st ->
  exists w, clp (r ++ rest) y = x ++ w.
Proof. exact seek_skip_sound. Qed.
Print Assumptions C02_seek_skip_sound.

(* border of data: nothing at or below the probe, or a key without the marker - then no proper
   ancestor has a key at all *)
Theorem C02_seek_skip_none : forall st r loc x z loc' v',
  seek_prev st (bkey r loc) = None ->
  r = x ++ z -> z <> [] -> name_ok z -> ~ In (bkey x loc', v') st.
Proof. exact seek_skip_none. Qed.
Print Assumptions C02_seek_skip_none.
Theorem C02_seek_skip_border : forall st r loc k v x z loc' v',
  seek_prev st (bkey r loc) = Some (k, v) -> is_prefix marker k = false ->
  r = x ++ z -> z <> [] -> name_ok z -> ~ In (bkey x loc', v') st.
Proof. exact seek_skip_border. Qed.
Print Assumptions C02_seek_skip_border.

(* the helper routines on wire-valid names: neither the Go byte arithmetic of
   getLengthWithoutLastLabel wraps nor does anything index out of range, and they compute the
   length without the last label / the length of the common label prefix *)
Theorem C02_get_length_without_last_label : forall r t, name_ok r -> r <> [] -> nlen (body r) + 1 <= 255 ->
  get_length_without_last_label (body r ++ t) (nlen (body r) + 1) = Val (nlen (body (removelast r)) + 1).
Proof. exact glwll_spec. Qed.
Print Assumptions C02_get_length_without_last_label.
Theorem C02_find_common_longest_prefix : forall a b, name_ok a -> name_ok b -> a <> b ->
  find_common_longest_prefix (body a ++ [0]) (body b ++ [0]) = Val (nlen (body (clp a b))).
Proof. exact fclp_spec. Qed.
Print Assumptions C02_find_common_longest_prefix.

(* the compiled v2 store is a v2 store, and holds under (name, location) the rows the v1 store
   holds under (location, name) *)
Theorem C02_store_v2_ok : forall recs, wf_recs recs -> v2_store recs (store_v2 recs).
Proof. exact store_v2_ok. Qed.
Print Assumptions C02_store_v2_ok.
Theorem C02_rows_v2_v1 : forall recs st m loc, wf_recs recs -> v2_store recs st -> name_ok m -> length loc = 2%nat ->
  get st (bkey (rev m) loc) = get (store_v1 recs) (loc ++ pack m).
Proof. exact rows_v2_v1. Qed.
Print Assumptions C02_rows_v2_v1.

(* the three entry points of the v2 reader against those of the v1 reader, context cache threaded
   through.  IsAuthoritative: same NS / SOA flags; the same zone cut when an NS was found; when none
   was found the v1 reader reports the root and the v2 reader the last name it probed, neither of
   which has a visible NS ([auth_rel]).  FindAnswer (control name = an ancestor-or-self of the query
   name): the same answer items and found flag - location override probe, border of data, root
   stop, zone-cut stop and the wild-safe check over skipped labels included.  ForEachResourceRecord
   (FindSOA, GetNs, additional section): the same state and error flag *)
Theorem C02_is_authoritative_sim : forall recs L st2, wf_recs recs -> length L = 2%nat -> v2_store recs st2 ->
  forall n c, wf_name n -> nlen (pack n) <= 255 -> closest_sound st2 c ->
  exists a1 a2 c',
    is_authoritative_v1 RDB1 (store_v1 recs) (pack n) L = Val a1 /\
    is_authoritative_v2 st2 c (pack n) L = Val (a2, c') /\ closest_sound st2 c' /\ auth_rel recs L n a1 a2.
Proof. exact is_auth_sim. Qed.
Print Assumptions C02_is_authoritative_sim.

Theorem C02_find_answer_sim : forall recs L st2, wf_recs recs -> length L = 2%nat -> v2_store recs st2 ->
  forall n cz cpre c qname qtype max,
  wf_name n -> nlen (pack n) <= 255 -> n = cpre ++ cz -> closest_sound st2 c ->
  exists an found c',
    find_answer_v1 RDB1 (store_v1 recs) (pack n) (pack cz) qname qtype L max = Val (an, found) /\
    find_answer_v2 st2 c (pack n) (pack cz) qname qtype L max = Val (an, found, c') /\ closest_sound st2 c'.
Proof. exact find_answer_sim. Qed.
Print Assumptions C02_find_answer_sim.

Theorem C02_for_each_rr_sim : forall recs L st2, wf_recs recs -> length L = 2%nat -> v2_store recs st2 ->
  forall S t c (f : cb S) s, name_ok t -> nlen (pack t) <= 255 -> get_sound st2 c ->
  exists c', for_each_rr_v2 st2 c (pack t) L f s =
               Val (fst (for_each_rr_v1 RDB1 (store_v1 recs) (pack t) L f s),
                    snd (for_each_rr_v1 RDB1 (store_v1 recs) (pack t) L f s), c') /\
             get_sound st2 c'.
Proof. exact rr_sim. Qed.
Print Assumptions C02_for_each_rr_sim.

(* C02_v2_equals_v1 (DESIGN.md), full strength.  Guards, as for the C01 theorems: [wf_recs]
   (fields fit their widths, labels 1..63 bytes and lower case, tags are two bytes other than 00),
   [wf_view] for the client's location (every name with a visible SOA has a visible NS), the
   lower-cased query name is a wire-valid name [pack n] of at most 255 bytes.  Then the handler over
   RocksDB with v2 keys (closest-key reader, context cache included) returns EXACTLY the outcome of
   the handler over RocksDB with v1 keys (label-by-label reader): same reply, no panic, no fuel
   exhaustion; for every query type and class, EDNS or not, every echoed ECS option and max-answer.
   Not covered by [serve] (see Model/Serve.v): the location lookup itself (C03), truncation, LRU. *)
Theorem C02_v2_equals_v1 : forall recs L, wf_recs recs -> length L = 2%nat -> wf_view L recs = true ->
  forall q n ecs max, wf_name n -> nlen (pack n) <= 255 -> lower_bytes (q_name q) = pack n ->
  serve RDB2 (store_v2 recs) q (LocOk L) ecs max = serve RDB1 (store_v1 recs) q (LocOk L) ecs max.
Proof. exact v2_equals_v1. Qed.
Print Assumptions C02_v2_equals_v1.

(* the same for ANY v2 database that holds the records, whatever else it holds and in whatever
   order - what the differential run's dumps are (maps, features key, sorted) *)
Theorem C02_v2_equals_v1_any_store : forall recs L st2,
  wf_recs recs -> length L = 2%nat -> v2_store recs st2 -> wf_view L recs = true ->
  forall q n ecs max, wf_name n -> nlen (pack n) <= 255 -> lower_bytes (q_name q) = pack n ->
  serve RDB2 st2 q (LocOk L) ecs max = serve RDB1 (store_v1 recs) q (LocOk L) ecs max.
Proof. exact serve_v2_equals_v1. Qed.
Print Assumptions C02_v2_equals_v1_any_store.

(* hence two v2 databases with the same records serve the same (compiler options, batch sizes and
   the builder cannot matter to answers beyond the key -> rows map, which is C07's theorem) *)
Theorem C02_v2_store_irrelevant : forall recs L st st' q n ecs max,
  wf_recs recs -> length L = 2%nat -> wf_view L recs = true ->
  v2_store recs st -> v2_store recs st' ->
  wf_name n -> nlen (pack n) <= 255 -> lower_bytes (q_name q) = pack n ->
  serve RDB2 st q (LocOk L) ecs max = serve RDB2 st' q (LocOk L) ecs max.
Proof. exact v2_any_store. Qed.
Print Assumptions C02_v2_store_irrelevant.

(* C02_cdb_equals_v1.  The CDB driver and the RocksDB driver with v1 keys run the same
   label-by-label reader over the same key -> rows map and differ in one place: cdbdriver.ForEach
   does not return an error returned by the callback, rdb.ForEach does.  Only GetNs returns errors
   (NS rdata that is not a name), so over records whose NS rdata is a wire name ([wf_ns_rdata],
   what the compiler writes) the two handlers agree on every query, client outcome and option *)
Theorem C02_cdb_equals_v1 : forall recs q locr ecs max,
  wf_recs recs -> Forall wf_ns_rdata recs ->
  serve CDB (store_v1 recs) q locr ecs max = serve RDB1 (store_v1 recs) q locr ecs max.
Proof. exact serve_cdb_equals_rdb1. Qed.
Print Assumptions C02_cdb_equals_v1.

(* the same for any store over which GetNs never returns an error *)
Theorem C02_cdb_equals_v1_store : forall st q locr ecs max,
  (forall zname cls, okcb st (ns_cb zname cls)) ->
  serve CDB st q locr ecs max = serve RDB1 st q locr ecs max.
Proof. exact serve_cdb_equals_rdb1_store. Qed.
Print Assumptions C02_cdb_equals_v1_store.

(* without that guard the two DO differ - on rows no compiler output contains (an NS row whose
   rdata is not a name: RocksDB sends an empty authority section, CDB the NS records read before
   the bad one).  Outside the property (not a compiled data file); recorded so that the guard is
   seen to be necessary *)
Theorem C02_cdb_rdb1_differ_on_malformed_ns_row :
  exists st q locr ecs max, serve CDB st q locr ecs max <> serve RDB1 st q locr ecs max.
Proof. exact cdb_rdb1_differ_on_bad_ns. Qed.
Print Assumptions C02_cdb_rdb1_differ_on_malformed_ns_row.

(* the property's sentence at the level of the handler model: the three backends give the same
   outcome to every query from every located client *)
Theorem C02_three_backends : forall recs L, wf_recs recs -> Forall wf_ns_rdata recs -> length L = 2%nat -> wf_view L recs = true ->
  forall q n ecs max, wf_name n -> nlen (pack n) <= 255 -> lower_bytes (q_name q) = pack n ->
  serve RDB2 (store_v2 recs) q (LocOk L) ecs max = serve CDB (store_v1 recs) q (LocOk L) ecs max /\
  serve RDB1 (store_v1 recs) q (LocOk L) ecs max = serve CDB (store_v1 recs) q (LocOk L) ecs max.
Proof. exact three_backends. Qed.
Print Assumptions C02_three_backends.

(* Remarks.
   * wf_view is needed: with a visible SOA but no visible NS anywhere above, IsAuthoritative finds
     no zone cut; the v1 reader then reports the root as zone cut, the v2 reader the last name it
     probed, and FindSOA at those two names can differ.  Such data is outside the statement
     (a zone without NS records).
   * NOT proved here: the compiler side - that the three compilers produce [store_v1 recs] /
     a [v2_store recs] from the same file with any options (C07 owns the key -> rows map; the
     differential run checks the dumps against Spec/Rows: Run/Core.v compile_ok); the location
     lookup (C03: FindLocation is an oracle of [serve]).  The differential run compares the three
     real servers pairwise on every query (Run/C02.v) and each model against its server (Run/Core.v). *)

(* the hypotheses are satisfiable and the conclusion is not vacuous: a located client, a wildcard
   below the apex, the closest-key reader skipping from a.b.z to z *)
Example C02_v2_example :
  let recs := [mkRec [[122]] false None 6 60 0 [0; 0; 0; 0; 0; 1; 0; 0; 0; 2; 0; 0; 0; 3; 0; 0; 0; 4; 0; 0; 0; 5];
               mkRec [[122]] false None 2 60 0 [1; 110; 0];
               mkRec [[122]] true None 16 60 0 [1; 119];
               mkRec [[120]; [122]] false (Some [97; 98]) 1 60 1 [10; 0; 0; 1]] in
  let q := mkQ 1 [1; 65; 1; 98; 1; 122; 0] 16 1 None in
  let n := [[97]; [98]; [122]] in
  lower_bytes (q_name q) = pack n /\ wf_view [97; 98] recs = true /\
  serve RDB2 (store_v2 recs) q (LocOk [97; 98]) None 1 =
    OReply (mkResp 1 (Some ([1; 65; 1; 98; 1; 122; 0], 16, 1)) 0 true
              [IRR (mkRR [1; 65; 1; 98; 1; 122; 0] 16 1 60 [1; 119])] [] [] None) /\
  serve RDB1 (store_v1 recs) q (LocOk [97; 98]) None 1 = serve RDB2 (store_v2 recs) q (LocOk [97; 98]) None 1.
Proof. exact v2_example. Qed.
Print Assumptions C02_v2_example.

Example C02_example :
  let st := [([0; 111; 0; 0; 0], [[9]]); ([0; 111; 1; 97; 0; 0; 0], [[1]; [2]])] in
  uniq st /\ closest_sound st [] /\
  seek_prev st [0; 111; 1; 97; 1; 98; 0; 0; 0] = Some ([0; 111; 1; 97; 0; 0; 0], [[1]; [2]]).
Proof.
  split; [|split; [apply closest_sound_nil | vm_compute; reflexivity]].
  intros k v [H|[H|[]]]; inversion H; subst; reflexivity.
Qed.
Print Assumptions C02_example.
