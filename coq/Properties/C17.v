(* C17 - Quoting is a bijection that never emits a field separator.
   This file holds only theorem statements closed by [exact]; proofs are in Proofs/Quote.v. *)
From DnsV Require Import Model.Quote Proofs.Quote.
Open Scope N_scope.

Theorem C17_unhex_hexdigit : forall n, n < 16 -> unhex (hexdigit n) = Some n.
Proof. exact unhex_hexdigit. Qed.
Print Assumptions C17_unhex_hexdigit.
