(* C17 - Quoting is a bijection that never emits a field separator.
   This file holds only theorem statements closed by [exact]; proofs are in
   Proofs/Utf8.v and Proofs/Quote.v.  [oracle] is strconv.IsPrint on runes >= 0x80
   (any function); [wf_bytes b] says every element of b is a byte (< 256).
   44 = comma, 58 = colon, 10 = newline. *)
From DnsV Require Import Model.Quote Proofs.Quote.
Open Scope N_scope.

(* Bunquote (Bquote b) = b, nil error, for every byte string *)
Theorem C17_roundtrip : forall oracle b, wf_bytes b -> bunquote (bquote oracle b) = Ok b.
Proof. exact bquote_roundtrip. Qed.
Print Assumptions C17_roundtrip.

(* the quoted form contains no comma, no colon, no newline *)
Theorem C17_no_separator : forall oracle b, wf_bytes b ->
  contains 44 (bquote oracle b) = false /\ contains 58 (bquote oracle b) = false /\
  contains 10 (bquote oracle b) = false.
Proof. exact bquote_no_separator. Qed.
Print Assumptions C17_no_separator.

(* a data-file line: the quoted fields joined by the separator (comma or colon).
   Splitting the line on the separator gives back exactly the quoted fields, each
   field unquotes to the original, and (with at least two fields) the separator
   detection of dnsdata.fields finds this separator first.  SplitN's limit of 15
   fields and the leading record-type byte are not part of this statement. *)
Theorem C17_fields_roundtrip : forall oracle sep fs, sep = 44 \/ sep = 58 -> fs <> [] ->
  Forall wf_bytes fs ->
  let line := join_sep sep (map (bquote oracle) fs) in
  split_on sep line [] = map (bquote oracle) fs /\
  map bunquote (split_on sep line []) = map Ok fs /\
  ((2 <= length fs)%nat -> first_sep line = Some sep).
Proof. exact fields_roundtrip. Qed.
Print Assumptions C17_fields_roundtrip.

Theorem C17_unhex_hexdigit : forall n, n < 16 -> unhex (hexdigit n) = Some n.
Proof. exact unhex_hexdigit. Qed.
Print Assumptions C17_unhex_hexdigit.

(* UTF-8: decoding the encoding of a valid non-ASCII rune returns it with its width *)
Theorem C17_utf8_decode_encode : forall r X, 128 <= r -> valid_rune r = true ->
  decode_rune (encode_rune r ++ X) = (r, length (encode_rune r)).
Proof. exact Proofs.Utf8.decode_encode. Qed.
Print Assumptions C17_utf8_decode_encode.

(* UTF-8: a byte sequence that DecodeRune accepts with width >= 2 is the encoding of the
   rune it returns; otherwise DecodeRune returns (RuneError, 1) *)
Theorem C17_utf8_encode_decode : forall b0 t r w, 128 <= b0 -> decode_rune (b0 :: t) = (r, w) ->
  (w = 1%nat /\ r = rune_error) \/
  ((2 <= w)%nat /\ 128 <= r /\ valid_rune r = true /\ length (encode_rune r) = w /\
   b0 :: t = encode_rune r ++ skipn w (b0 :: t)).
Proof. exact Proofs.Utf8.decode_rune_spec. Qed.
Print Assumptions C17_utf8_encode_decode.

(* non-trivial instances: a string with comma, colon, quote, backslash, newline, NUL,
   DEL, a valid 2-byte rune (printable per this oracle), U+FFFD, a 4-byte rune (not printable), invalid
   bytes 0xff 0xc0 and a truncated sequence *)
Example C17_example :
  let oracle := fun r => r =? 233 in
  let b := [97; 44; 58; 34; 92; 10; 0; 127; 195; 169; 239; 191; 189; 240; 159; 152; 128; 255; 192; 226; 130] in
  wf_bytes b /\
  bquote oracle b =
    [97; 92;48;53;52; 92;48;55;50; 34; 92;92; 92;110; 92;120;48;48; 92;120;55;102; 195;169;
     92;117;102;102;102;100; 92;85;48;48;48;49;102;54;48;48; 92;120;102;102; 92;120;99;48;
     92;120;101;50; 92;120;56;50] /\
  bunquote (bquote oracle b) = Ok b /\
  split_on 44 (join_sep 44 (map (bquote oracle) [b; []; [44; 44]])) [] =
    [bquote oracle b; []; [92;48;53;52; 92;48;53;52]].
Proof. exact quote_example. Qed.
Print Assumptions C17_example.
