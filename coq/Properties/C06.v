(* C06 - No database backend is used after close, closed twice, or leaked.
   Only theorem statements closed by [exact]; model in Model/Refcount.v, the
   property vocabulary in Spec/Handles.v, proofs in Proofs/Refcount.v.

   All theorems quantify over ALL histories [ops] that pass the decidable guard
   [wf_hist init ops] (Model/Refcount.v: slots acquired when free and
   used/released when held, nothing but use/release/late completion after
   shutdown, no replacement or shutdown of the served backend while a timed-out
   reload is still inside DBI.Reload).  The number of readers is unbounded. *)
From DnsV Require Import Base.Bytes Spec.Handles Model.Refcount Proofs.Refcount.
Open Scope N_scope.

(* never touched after close *)
Theorem C06_no_use_after_close : forall ops, wf_hist init ops = true ->
  no_use_after_close (log (run ops init)).
Proof. exact no_use_after_close_all. Qed.
Print Assumptions C06_no_use_after_close.

(* never closed twice *)
Theorem C06_no_double_close : forall ops, wf_hist init ops = true ->
  no_double_close (log (run ops init)).
Proof. exact no_double_close_all. Qed.
Print Assumptions C06_no_double_close.

(* after every history: a backend that is served or pinned by a held reader is
   open; every other backend ever opened has been closed exactly once *)
Theorem C06_open_iff_needed : forall ops, wf_hist init ops = true ->
  handles_ok (snap (run ops init)).
Proof. exact open_iff_needed_all. Qed.
Print Assumptions C06_open_iff_needed.

(* no leak: quiescent (no reader held, no late reload pending) implies every
   backend ever opened other than the served one - and after shutdown that one
   too - has been closed exactly once; this includes candidates of rejected and
   timed-out reloads *)
Theorem C06_no_leak : forall ops, wf_hist init ops = true ->
  let s := run ops init in
  quiescent s ->
  forall b, openedb (log s) b = true ->
    (shut s = true \/ b <> w_bk (ws s (served s))) -> closes (log s) b = 1.
Proof. exact no_leak_all. Qed.
Print Assumptions C06_no_leak.

(* the invariant behind it: refCount = number of held readers of that wrapper *)
Theorem C06_refcount_exact : forall ops, wf_hist init ops = true ->
  let s := run ops init in
  forall i, (i < nw s)%nat -> w_ref (ws s i) = nheld i (readers s).
Proof. exact refcount_exact_all. Qed.
Print Assumptions C06_refcount_exact.

(* FINDING (outside the property's quantifier, where a timed-out reload completes
   before the next operation): without the in-flight clause of the guard the
   property is false.  Witness: reload times out while DBI.Reload still runs on
   the served backend; a second reload installs a new backend and closes the old
   one; then the first call returns - on a closed backend. *)
Theorem C06_inflight_reload_refuted :
  exists ops, wf_hist_weak init ops = true /\ ~ no_use_after_close (log (run ops init)).
Proof. exact inflight_reload_refuted. Qed.
Print Assumptions C06_inflight_reload_refuted.

(* the guard is satisfiable by a long history that uses every operation *)
Theorem C06_guard_example :
  wf_hist init example_history = true /\
  length example_history = 31%nat /\
  nb (run example_history init) = 7%nat /\
  quiescent (run example_history init) /\
  map (closes (log (run example_history init))) (seq 0 7) = [1; 1; 1; 1; 1; 1; 1].
Proof. exact example_history_wf. Qed.
Print Assumptions C06_guard_example.

(* the boolean checkers that Run/C06 applies to observed logs are the predicates above *)
Theorem C06_checkers_exact : forall l sn,
  (no_use_after_closeb l = true <-> no_use_after_close l) /\
  (no_double_closeb l = true <-> no_double_close l) /\
  (handles_okb sn = true <-> handles_ok sn).
Proof.
  exact (fun l sn => conj (no_use_after_closeb_iff l) (conj (no_double_closeb_iff l) (handles_okb_iff sn))).
Qed.
Print Assumptions C06_checkers_exact.
