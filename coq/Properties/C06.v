(* C06 - No database backend is used after close, closed twice, or leaked.
   Only theorem statements closed by [exact]; model in Model/Refcount.v, the
   property vocabulary in Spec/Handles.v, proofs in Proofs/Refcount.v.

   All theorems quantify over ALL histories [ops] that pass the decidable guard
   [wf_hist init ops] (Model/Refcount.v: slots acquired when free and
   used/released when held, nothing but use/release/late completion after
   shutdown, no replacement or shutdown of the served backend while a timed-out
   reload is still inside DBI.Reload).  The number of readers is unbounded. *)
From DnsV Require Import Base.Bytes Spec.Handles Model.Refcount Proofs.Refcount Model.ReloadLock Proofs.ReloadLock.
Open Scope N_scope.

(* never touched after close *)
Theorem C06_no_use_after_close : forall ops, wf_hist init ops = true ->
  no_use_after_close (log (run ops init)).
Proof. exact no_use_after_close_all. Qed.
Print Assumptions C06_no_use_after_close.

(* never closed twice *)
Theorem C06_no_double_close : forall ops, wf_hist init ops = true ->
  no_double_close (log (run ops init)).
Proof. exact no_double_close_all. Qed.
Print Assumptions C06_no_double_close.

(* after every history: a backend that is served or pinned by a held reader is
   open; every other backend ever opened has been closed exactly once *)
Theorem C06_open_iff_needed : forall ops, wf_hist init ops = true ->
  handles_ok (snap (run ops init)).
Proof. exact open_iff_needed_all. Qed.
Print Assumptions C06_open_iff_needed.

(* no leak: quiescent (no reader held, no late reload pending) implies every
   backend ever opened other than the served one - and after shutdown that one
   too - has been closed exactly once; this includes candidates of rejected and
   timed-out reloads *)
Theorem C06_no_leak : forall ops, wf_hist init ops = true ->
  let s := run ops init in
  quiescent s ->
  forall b, openedb (log s) b = true ->
    (shut s = true \/ b <> w_bk (ws s (served s))) -> closes (log s) b = 1.
Proof. exact no_leak_all. Qed.
Print Assumptions C06_no_leak.

(* the invariant behind it: refCount = number of held readers of that wrapper *)
Theorem C06_refcount_exact : forall ops, wf_hist init ops = true ->
  let s := run ops init in
  forall i, (i < nw s)%nat -> w_ref (ws s i) = nheld i (readers s).
Proof. exact refcount_exact_all. Qed.
Print Assumptions C06_refcount_exact.

(* FINDING (outside the property's quantifier, where a timed-out reload completes
   before the next operation): without the in-flight clause of the guard the
   property is false.  Witness: reload times out while DBI.Reload still runs on
   the served backend; a second reload installs a new backend and closes the old
   one; then the first call returns - on a closed backend. *)
Theorem C06_inflight_reload_refuted :
  exists ops, wf_hist_weak init ops = true /\ ~ no_use_after_close (log (run ops init)).
Proof. exact inflight_reload_refuted. Qed.
Print Assumptions C06_inflight_reload_refuted.

(* the guard is satisfiable by a long history that uses every operation *)
Theorem C06_guard_example :
  wf_hist init example_history = true /\
  length example_history = 31%nat /\
  nb (run example_history init) = 7%nat /\
  quiescent (run example_history init) /\
  map (closes (log (run example_history init))) (seq 0 7) = [1; 1; 1; 1; 1; 1; 1].
Proof. exact example_history_wf. Qed.
Print Assumptions C06_guard_example.

(* the boolean checkers that Run/C06 applies to observed logs are the predicates above *)
Theorem C06_checkers_exact : forall l sn,
  (no_use_after_closeb l = true <-> no_use_after_close l) /\
  (no_double_closeb l = true <-> no_double_close l) /\
  (handles_okb sn = true <-> handles_ok sn).
Proof.
  exact (fun l sn => conj (no_use_after_closeb_iff l) (conj (no_double_closeb_iff l) (handles_okb_iff sn))).
Qed.
Print Assumptions C06_checkers_exact.

(* ------------------------------------------------------------------------------------------
   Why a server reload may be treated as ONE step of the history model above.
   Model/ReloadLock.v is a small-step interleaving model: reader threads (RLock, NewReader,
   RUnlock, ForEach..., FreeContext, locked refCount--), reload threads (Lock, DBI.Reload
   called, returned, ValidateDbKey, newDB.Destroy / f.Destroy, swap, Unlock) and shutdown
   threads (Lock, Destroy, Unlock) over the SAME shared state plus reloadMu as a
   reader/writer lock.  The theorems quantify over every list of thread programs of the standard
   kinds (no_variants: no timed-out reload, no split release) and EVERY schedule (a disabled step is a no-op). *)

(* no call on a closed backend and no second Close, for every interleaving of the sub-steps *)
Theorem C06_smallstep_safe : forall specs sched, no_variants specs = true ->
  let ss := srun sched (sinit specs false) in
  no_use_after_close (log (sh ss)) /\ no_double_close (log (sh ss)).
Proof. exact smallstep_safe. Qed.
Print Assumptions C06_smallstep_safe.

(* in every state in which reloadMu is not write-held the shared state satisfies the
   invariant Inv of the atomic model, so served and pinned backends are open and all others
   closed exactly once *)
Theorem C06_smallstep_lockfree_atomic : forall specs sched, no_variants specs = true ->
  let ss := srun sched (sinit specs false) in
  lk_w ss = None -> Inv (sh ss) /\ handles_ok (snap (sh ss)).
Proof. exact smallstep_lockfree_atomic. Qed.
Print Assumptions C06_smallstep_lockfree_atomic.

(* no leak after every schedule: write lock free (in particular: all threads finished, see
   C06_smallstep_quiet_unlocked) and no reader held *)
Theorem C06_smallstep_no_leak : forall specs sched, no_variants specs = true ->
  let ss := srun sched (sinit specs false) in
  lk_w ss = None -> readers (sh ss) = [] ->
  forall b, openedb (log (sh ss)) b = true ->
    (shut (sh ss) = true \/ b <> w_bk (ws (sh ss) (served (sh ss)))) -> closes (log (sh ss)) b = 1.
Proof. exact smallstep_no_leak. Qed.
Print Assumptions C06_smallstep_no_leak.

Theorem C06_smallstep_quiet_unlocked : forall specs sched, no_variants specs = true ->
  let ss := srun sched (sinit specs false) in quiet ss -> lk_w ss = None.
Proof. exact smallstep_quiet_unlocked. Qed.
Print Assumptions C06_smallstep_quiet_unlocked.

(* PARTIAL with respect to the intended refinement.  Proved: mutual exclusion - between the
   Lock and the Unlock of a reload (or shutdown) no other thread is inside Reload, Close or
   AcquireReader, so the only foreign steps between a reload's sub-steps are use / release
   of readers that already hold a pin - and, with the three theorems above, that every such
   interleaving is safe and ends in states satisfying the atomic model's invariant.
   MISSING: the trace refinement itself (for every schedule a permutation of the operations,
   consistent with each thread's program order, whose ATOMIC run from Model/Refcount has the
   same final state and the same per-backend event sequences up to commuting independent
   events).  The mover argument would need an extensional equivalence on states (the wrapper
   and backend maps are functions) and commutation lemmas for release against every reload
   sub-step; it was not done. *)
Theorem C06_reload_is_atomic_under_lock_partial : forall specs sched, no_variants specs = true ->
  let ss := srun sched (sinit specs false) in
  forall t, lk_w ss = Some t ->
    wsec (ths ss t) = true /\ (forall t', t' <> t -> wsec (ths ss t') = false) /\
    (forall t', rsec (ths ss t') = false) /\ lk_r ss = [].
Proof. exact smallstep_mutex. Qed.
Print Assumptions C06_reload_is_atomic_under_lock_partial.

(* the model is not vacuous: an acquisition attempted during a reload is refused twice,
   then served by the new backend; everything is closed exactly once in the end *)
Theorem C06_smallstep_blocked_acquire_example :
  sstep 1 (srun [0; 0]%nat (sinit ex_specs false)) = None /\
  sstep 1 (srun [0; 0; 1; 0; 0]%nat (sinit ex_specs false)) = None /\
  pinned (sh (srun [0; 0; 1; 0; 0; 1; 0; 0; 0; 1; 1]%nat (sinit ex_specs false))) = [1%nat] /\
  (let ss := srun ex_sched (sinit ex_specs false) in
   quiet ss /\ closes (log (sh ss)) 0 = 1 /\ closes (log (sh ss)) 1 = 0 /\ readers (sh ss) = []).
Proof. exact smallstep_blocked_acquire_example. Qed.
Print Assumptions C06_smallstep_blocked_acquire_example.

(* it is the write lock that does it: with the lock taken only around the swap (seeded change
   c06f) a reader gets in between f.Destroy() and the swap - use after close and double close *)
Theorem C06_smallstep_late_lock_refuted :
  exists specs sched, no_variants specs = true /\
    let ss := srun sched (sinit specs true) in
    ~ no_use_after_close (log (sh ss)) /\ ~ no_double_close (log (sh ss)).
Proof. exact smallstep_late_lock_refuted. Qed.
Print Assumptions C06_smallstep_late_lock_refuted.

(* F28 in the small-step model: the abandoned goroutine of a timed-out reload is a reload
   sub-step that runs without reloadMu; a later reload closes the backend it is still using *)
Theorem C06_smallstep_f28_refuted :
  exists specs sched, ~ no_use_after_close (log (sh (srun sched (sinit specs false)))).
Proof. exact smallstep_f28_refuted. Qed.
Print Assumptions C06_smallstep_f28_refuted.

(* and DataReader.Close must be ONE critical section of DB.l: with the decrement done
   atomically outside the lock and the destroyable-and-zero test under it (seeded change
   c06h), f.Destroy() fits in between and the backend is closed twice *)
Theorem C06_smallstep_split_release_refuted :
  exists specs sched,
    let ss := srun sched (sinit specs false) in
    quiet ss /\ ~ no_double_close (log (sh ss)).
Proof. exact smallstep_split_release_refuted. Qed.
Print Assumptions C06_smallstep_split_release_refuted.
