(* C09 - placeholder while the proofs are being written *)
From DnsV Require Import Model.Text.
Theorem C09_placeholder : True.
Proof. exact I. Qed.
Print Assumptions C09_placeholder.
