(* C09 - Text normal form and preprocessing preserve meaning.
   Statements only, closed by [exact]; proofs are in Proofs/TextBase.v, TextNames.v,
   TextRecords.v, Text.v, Preproc.v; the model is Model/Text.v and Model/Preproc.v.

   Vocabulary.  [o : toracles] collects the library functions the model does not define
   (strconv.IsPrint, net.ParseIP / IP.String, net.ParseCIDR / IPNet.String, base64 Decode / Encode);
   the premises of the theorems about o are the library behaviour the proofs rely on: ParseIP
   inverts IP.String on 16-byte addresses, rejects the empty text, and IP.String prints no ','
   (every IsPrint is allowed); for the parameter list of B/H lines [svcb_library o]
   (Proofs/Text.v) = the premises of C18_text_roundtrip_outside_finding: ParseIP yields 16 bytes,
   base64 Decode yields bytes and inverts Encode, a printed 4-byte address parses to its v4-in-v6
   form, a printed 16-byte address outside ::ffff:0:0/96 holds a ':', printed addresses hold none
   of ; | double-quote and base64 text none of ; double-quote.  All premises are jointly satisfiable
   (C09_library_premises_satisfiable).
   [serial] is Codec.Serial.  [wf_line o serial l]: the line parses
   (all 17 record types: % Z . & + = @ S C ^ ' : M 8 ! B H, Model/Text.v modelled_type) to a record
   with bytes < 256, quoted labels shorter than 256 bytes, numbers inside their width, locations of
   0 or 2 bytes, 16-byte addresses, no empty first label in front of "*.", and - B/H - a target whose
   text does not begin with "*." and a parameter text without ',' (Model/Text.v
   wf_recordb, which also lists the shapes deliberately left outside).
   [svcb_accepted o r]: the parameter list of a B/H record is one ParamList.FromText returns (true
   of every record parse_line returns; trivially true of the other 15 types).
   [finding_class] = the recorded defects F8 (B/H: v4-mapped ipv6hint), F12 (explicit SOA serial 0),
   F26 (single-label absolute server name), F27 (root wildcard map); each is shown to be real by a
   witness.
   [convert v2 nornet r] = the key/value records of MarshalMap (v2 = key layout,
   nornet = NoRnetOutput). *)
From DnsV Require Import Model.Text Model.Preproc Proofs.Quote Proofs.TextRecords Proofs.Text Proofs.Preproc.
From DnsV Require Model.Svcb.
From Coq Require Import Permutation.
Open Scope N_scope.

(* every record parsed from a well-formed line re-serialises to text that parses back to a record
   compiling to exactly the same keys and values, and re-serialising again gives the same text *)
Theorem C09_roundtrip_outside_finding : forall o,
  (forall a, wf_bytes a -> length a = 16%nat -> o_parse_ip o (o_print_ip o a) = Some a) ->
  o_parse_ip o [] = None ->
  (forall a, contains 44 (o_print_ip o a) = false) ->
  svcb_library o ->
  forall serial v2 nornet l r,
  wf_line o serial l -> parse_line o serial l = Ok r -> finding_class o serial r = false ->
  exists r', parse_line o serial (marshal o r) = Ok r' /\
             convert v2 nornet r' = convert v2 nornet r /\
             marshal o r' = marshal o r.
Proof. exact roundtrip_stmt. Qed.
Print Assumptions C09_roundtrip_outside_finding.

(* F8: Hexample.com,.,300,,1,ipv6hint=::ffff:1.2.3.4 (the oracle o_f8 answers as net.ParseIP and
   net.IP.String do on this address): the line is well formed, parses to a record in the finding class
   (and in no other), its text form is Hexample.com,.,300,,1,ipv6hint="1.2.3.4", and that text is
   rejected (ipv6hint value without ':') *)
Theorem C09_roundtrip_f8_refuted : exists r,
  wf_line o_f8 7 f8_line /\ parse_line o_f8 7 f8_line = Ok r /\ finding_class o_f8 7 r = true /\
  f12_class 7 r = false /\ f26_class o_f8 r = false /\ f27_class o_f8 r = false /\
  marshal o_f8 r = f8_printed /\
  parse_line o_f8 7 (marshal o_f8 r) = Err (E_SVCB + Model.Svcb.E_IP6_NOCOLON).
Proof. exact f8_refuted. Qed.
Print Assumptions C09_roundtrip_f8_refuted.

(* F12: Zexample.com,a.ns.example.com,dns.example.com,0,7200,1800,604800,120,120,,  (Codec.Serial 7):
   the line is well formed, its text form parses, and the re-parsed record compiles differently *)
Theorem C09_roundtrip_f12_refuted : exists r r',
  wf_line o_plain 7 f12_line /\ parse_line o_plain 7 f12_line = Ok r /\ finding_class o_plain 7 r = true /\
  parse_line o_plain 7 (marshal o_plain r) = Ok r' /\
  convert false false r' <> convert false false r.
Proof. exact (proj1 f12_refuted). Qed.
Print Assumptions C09_roundtrip_f12_refuted.

(* F26: &example.com,,a.,3600 *)
Theorem C09_roundtrip_f26_refuted : exists r r',
  wf_line o_plain 7 f26_line /\ parse_line o_plain 7 f26_line = Ok r /\ finding_class o_plain 7 r = true /\
  parse_line o_plain 7 (marshal o_plain r) = Ok r' /\
  convert false false r' <> convert false false r.
Proof. exact f26_refuted. Qed.
Print Assumptions C09_roundtrip_f26_refuted.

(* F27: M*.,\000\001 *)
Theorem C09_roundtrip_f27_refuted : exists r r',
  wf_line o_plain 7 f27_line /\ parse_line o_plain 7 f27_line = Ok r /\ finding_class o_plain 7 r = true /\
  parse_line o_plain 7 (marshal o_plain r) = Ok r' /\
  convert false false r' <> convert false false r.
Proof. exact f27_refuted. Qed.
Print Assumptions C09_roundtrip_f27_refuted.

(* the text form is a fixed point of parse-then-print *)
Theorem C09_marshal_idempotent : forall o serial,
  (forall a, wf_bytes a -> length a = 16%nat -> o_parse_ip o (o_print_ip o a) = Some a) ->
  o_parse_ip o [] = None ->
  (forall a, contains 44 (o_print_ip o a) = false) ->
  svcb_library o ->
  forall r r',
  wf_recordb o r = true -> svcb_accepted o r -> finding_class o serial r = false ->
  parse_line o serial (marshal o r) = Ok r' -> marshal o r' = marshal o r.
Proof. exact marshal_idempotent_stmt. Qed.
Print Assumptions C09_marshal_idempotent.

(* every record parse_line returns satisfies svcb_accepted *)
Theorem C09_parsed_is_accepted : forall o serial l r,
  parse_line o serial l = Ok r -> svcb_accepted o r.
Proof. exact parse_accepted. Qed.
Print Assumptions C09_parsed_is_accepted.

(* all 17 record types are modelled: a line whose type character is none of the 17 is ErrBadRType *)
Theorem C09_unknown_type_rejected : forall o serial t b,
  modelled_type t = false -> parse_line o serial (t :: b) = Err E_BADTYPE.
Proof. exact unknown_type_rejected. Qed.
Print Assumptions C09_unknown_type_rejected.

(* a B/H shape left outside the guard is a real failure of the round trip:
   Bx.example.com,*.*.svc.example.com,300,,1 keeps the target *.svc.example.com, prints it, and reads it
   back as svc.example.com (getdom drops a leading "*." of the target each time) *)
Theorem C09_svcb_wild_target_not_roundtrip : exists r r',
  parse_line o_plain 7 svcb_tgt_line = Ok r /\ wf_lineb o_plain 7 svcb_tgt_line = false /\
  finding_class o_plain 7 r = false /\
  parse_line o_plain 7 (marshal o_plain r) = Ok r' /\
  convert false false r' <> convert false false r.
Proof. exact svcb_wild_target_not_roundtrip. Qed.
Print Assumptions C09_svcb_wild_target_not_roundtrip.

(* range point text <-> key/value: the printed mask length of an IPv4 point is the stored
   128-bit length less 96 (uint8 arithmetic), and the line read back compiles to the key
   00 00 00 '!' map ip16 mlen and the value (location or nothing) of the point itself *)
Theorem C09_rangepoint_text_key : forall o serial,
  (forall a, wf_bytes a -> length a = 16%nat -> o_parse_ip o (o_print_ip o a) = Some a) ->
  (forall a, contains 44 (o_print_ip o a) = false) ->
  forall v2 nornet lmap ip ml null locid,
  wf_recordb o (RRangePoint lmap ip ml null locid) = true ->
  marshal o (RRangePoint lmap ip ml null locid) =
    33 :: loctext lmap ++ 44 :: o_print_ip o ip ++
    (if null then []
     else 44 :: print_dec (if is4 ip then (ml + 160) mod 256 else ml) ++ 44 :: loctext locid) /\
  (is4 ip = true -> 96 <= ml -> (ml + 160) mod 256 = ml - 96) /\
  exists r', parse_line o serial (marshal o (RRangePoint lmap ip ml null locid)) = Ok r' /\
    convert v2 nornet r' =
      [([0; 0; 0; 33] ++ lmap ++ ip ++ [if null then 0 else ml], if null then [] else locid)] /\
    convert v2 nornet r' = convert v2 nornet (RRangePoint lmap ip ml null locid).
Proof. exact rangepoint_text_key. Qed.
Print Assumptions C09_rangepoint_text_key.

(* preprocessing: for a well-formed file (Proofs/Preproc.v wf_file: every line is skipped by both
   tools, or has two bytes or more, does not start with a space, parses to a well-formed record the
   accumulator accepts, and - Z lines - is outside F12) the preprocessor succeeds, and its output
   compiles to the same records as the original, whatever order the '!' lines are written in.
   [rearrange] is the rearranger (C03), any function with the two stated properties. *)
Theorem C09_preproc_same_db_outside_finding : forall o,
  (forall a, wf_bytes a -> length a = 16%nat -> o_parse_ip o (o_print_ip o a) = Some a) ->
  o_parse_ip o [] = None ->
  (forall a, contains 44 (o_print_ip o a) = false) ->
  forall v2 serial pserial rearrange,
  serial <= max32 ->
  pserial = serial \/ pserial = 0 ->
  rearrange [] = [] ->
  (forall ns r, In r (rearrange ns) ->
     (exists lmap ip ml null locid, r = RRangePoint lmap ip ml null locid) /\ wf_recordb o r = true) ->
  forall f, wf_file o serial f ->
  exists body nets kvs,
    pre_go o pserial f = Ok (body, nets) /\
    preprocess o rearrange pserial f = Ok (body ++ map (marshal o) (rearrange nets)) /\
    compile o rearrange v2 serial f = Ok kvs /\
    forall pts, Permutation pts (rearrange nets) ->
      exists kvs', compile o rearrange v2 serial (body ++ map (marshal o) pts) = Ok kvs' /\
                   Permutation kvs' kvs.
Proof. exact preproc_stmt. Qed.
Print Assumptions C09_preproc_same_db_outside_finding.

(* white space.  The preprocessor's line loop writes every line that is neither empty, a comment, a % line
   nor a Z line exactly as it read it (lines are what bufio.ScanLines delivers): white space at the end
   of a line belongs to its last field and stays, white space at its start stays too. *)
Theorem C09_preproc_passthrough_exact : forall o pserial l,
  is_ignored l = false -> nth 0 l 0 <> 37 -> nth 0 l 0 <> 90 ->
  pre_line o pserial l = Ok ([l], []).
Proof. exact pre_line_exact. Qed.
Print Assumptions C09_preproc_passthrough_exact.

(* C09_preproc_same_db_outside_finding for the widened guard wf_file_ws (Proofs/Preproc.v): besides the
   lines of wf_file (which already admits any white space at the end of a pass-through line), every
   written-through line that the compiler - after stripping leading BLANKS only - skips or accepts
   without feeding the accumulator: lines that begin with blanks, white-space lines.  Still excluded,
   because the two tools really differ there: % lines behind blanks, and lines that begin with other
   white space (the compiler rejects them, ErrBadRType; the preprocessor writes them through, so the
   preprocessed text is rejected as well - checked by the harness as consistent rejection). *)
Theorem C09_preproc_same_db_ws_outside_finding : forall o,
  (forall a, wf_bytes a -> length a = 16%nat -> o_parse_ip o (o_print_ip o a) = Some a) ->
  o_parse_ip o [] = None ->
  (forall a, contains 44 (o_print_ip o a) = false) ->
  forall v2 serial pserial rearrange,
  serial <= max32 ->
  pserial = serial \/ pserial = 0 ->
  rearrange [] = [] ->
  (forall ns r, In r (rearrange ns) ->
     (exists lmap ip ml null locid, r = RRangePoint lmap ip ml null locid) /\ wf_recordb o r = true) ->
  forall f, wf_file_ws o v2 serial f ->
  exists body nets kvs,
    pre_go o pserial f = Ok (body, nets) /\
    preprocess o rearrange pserial f = Ok (body ++ map (marshal o) (rearrange nets)) /\
    compile o rearrange v2 serial f = Ok kvs /\
    forall pts, Permutation pts (rearrange nets) ->
      exists kvs', compile o rearrange v2 serial (body ++ map (marshal o) pts) = Ok kvs' /\
                   Permutation kvs' kvs.
Proof. exact preproc_ws_stmt. Qed.
Print Assumptions C09_preproc_same_db_ws_outside_finding.

(* non-vacuity: a TXT line ending in a blank, a line of one blank, a line of one TAB, an indented TXT line
   ending in a TAB: in the guard, preprocessed to itself byte for byte, and the compiled TXT data ends
   with the blank *)
Example C09_ws_file_example :
  wf_file_ws o_plain false 7 ws_file /\
  preprocess o_plain (fun _ => []) 7 ws_file = Ok ws_file /\
  exists k v rest, compile o_plain (fun _ => []) false 7 ws_file = Ok ((k, v) :: rest) /\
    last v 0 = 32 /\ length rest = 2%nat.
Proof. exact ws_file_example. Qed.
Print Assumptions C09_ws_file_example.

(* F12 at file level: the one-line file of the F12 witness, preprocessed with serial 7 and compiled
   with default serial 7, gives different records *)
Theorem C09_preproc_f12_refuted :
  exists out k1 k2, preprocess o_plain (fun _ => []) 7 [f12_line] = Ok out /\
    compile o_plain (fun _ => []) false 7 [f12_line] = Ok k1 /\
    compile o_plain (fun _ => []) false 7 out = Ok k2 /\
    ~ Permutation k2 k1.
Proof. exact preproc_f12_refuted. Qed.
Print Assumptions C09_preproc_f12_refuted.

(* non-vacuity: +*.a\054b.Example.com.,2001:db8::1,300,,xy satisfies the guard, is outside the findings,
   is not in normal form, and goes round (v2 keys) with a non-empty record list *)
Example C09_example :
  wf_line o_ex 7 ex_line /\
  exists r, parse_line o_ex 7 ex_line = Ok r /\ finding_class o_ex 7 r = false /\
    marshal o_ex r <> ex_line /\
    exists r', parse_line o_ex 7 (marshal o_ex r) = Ok r' /\
      convert true false r' = convert true false r /\ marshal o_ex r' = marshal o_ex r /\
      convert true false r <> [].
Proof. exact roundtrip_example. Qed.
Print Assumptions C09_example.

(* non-vacuity for B/H: H*.Example.com:svc.example.com.:300:ab:1:port="443";alpn=h2|h3;no-default-alpn=
   satisfies the guard, is outside the findings, is not in normal form, and goes round *)
Example C09_svcb_example :
  wf_line o_plain 7 svcb_ex_line /\
  exists r, parse_line o_plain 7 svcb_ex_line = Ok r /\ finding_class o_plain 7 r = false /\
    marshal o_plain r <> svcb_ex_line /\
    exists r', parse_line o_plain 7 (marshal o_plain r) = Ok r' /\
      convert true false r' = convert true false r /\ marshal o_plain r' = marshal o_plain r /\
      convert true false r <> [].
Proof. exact svcb_example. Qed.
Print Assumptions C09_svcb_example.

(* the library premises of the line-level theorems are jointly satisfiable (toy address / base64 syntax) *)
Example C09_library_premises_satisfiable :
  (forall a, wf_bytes a -> length a = 16%nat -> o_parse_ip o_toy (o_print_ip o_toy a) = Some a) /\
  o_parse_ip o_toy [] = None /\
  (forall a, contains 44 (o_print_ip o_toy a) = false) /\
  svcb_library o_toy.
Proof. exact library_premises_satisfiable. Qed.
Print Assumptions C09_library_premises_satisfiable.

(* non-vacuity at file level: a file with a comment, %ab,10.0.0.0/8,m1, a Z line without serial and an
   address line satisfies wf_file (with a two-point rearranger); it is preprocessed to four lines
   (the Z line changed: serial filled in) and both texts compile (v2 keys) to the same five records *)
Example C09_file_example :
  wf_file o_fx 7 fx_file /\
  exists out k, preprocess o_fx fx_rearrange 7 fx_file = Ok out /\
    length out = 4%nat /\ nth 0 out [] <> nth 2 fx_file [] /\
    compile o_fx fx_rearrange true 7 fx_file = Ok k /\ compile o_fx fx_rearrange true 7 out = Ok k /\
    length k = 5%nat.
Proof. exact file_example. Qed.
Print Assumptions C09_file_example.

(* ================================================================================================
   C09 CLOSED with the concrete rearranger of C03 (Model/Rearranger.v), and combined with C07.
   Proofs: Proofs/LinkPreprocRearranger.v, Proofs/LinkPreprocDiff.v.  The accumulator of the text codec is
   defined there from Model/Text.v + Model/Rearranger.v + Model/Location.v:
     file_nets o serial f       the subnet records of the '%' lines of f, in file order
     rearrange_text sort ns     SubnetRanger: one Rearranger per map (maps in first-appearance order),
                                AddLocation in file order, Rearrange with sort.Slice = sort, one Rrangepoint
                                record per point; Err = Rearrange panicked
     rearrange_total sort       the same as a total function (the shape [rearrange] has in Model/Preproc.v)
     file_subnets_wfb o serial f  C03's guard wf_subnets on the subnets of every map of the file (decidable):
                                under it Rearrange does not panic
     scan f                     the lines parse() hands to the workers (TrimLeft, short lines and comments dropped)
     convert_ln / text_accum / features   the codec of C07 for text: ConvertLn, the accumulator's records
                                (points of rearrange_total sort of the subnets of the lines), feature record
   ================================================================================================ *)
From DnsV Require Import Model.Rearranger Proofs.Rearranger Model.Compile Proofs.Batch Proofs.CompilePipe.
From DnsV Require Import Proofs.LinkDiffText Proofs.LinkPreprocRearranger Proofs.LinkPreprocDiff Proofs.LinkPreprocDiffExample.

(* the two rearranger hypotheses of C09_preproc_same_db_outside_finding hold for the concrete rearranger of
   every sort.Slice, restricted to well-formed subnet records with a two-byte location (rearrange_guarded;
   nothing else reaches the rearranger from a well-formed file): nothing from nothing, and every point
   Rearrange returns is a well-formed Rrangepoint record - map id, 16-byte address, mask byte and location
   bytes are bytes.  No geometric guard is needed for this. *)
Theorem C09_rearranger_hypotheses : forall o sort, sort_spec sort ->
  rearrange_guarded o sort [] = [] /\
  forall ns r, In r (rearrange_guarded o sort ns) ->
    (exists lmap ip ml null locid, r = RRangePoint lmap ip ml null locid) /\ wf_recordb o r = true.
Proof. exact rearrange_guarded_hyps. Qed.
Print Assumptions C09_rearranger_hypotheses.

(* ... hence the literal instance of C09_preproc_same_db_outside_finding, no rearranger hypothesis left *)
Theorem C09_preproc_same_db_instance : forall o,
  (forall a, wf_bytes a -> length a = 16%nat -> o_parse_ip o (o_print_ip o a) = Some a) ->
  o_parse_ip o [] = None ->
  (forall a, contains 44 (o_print_ip o a) = false) ->
  forall sort, sort_spec sort ->
  forall v2 serial pserial, serial <= max32 -> pserial = serial \/ pserial = 0 ->
  forall f, Proofs.Preproc.wf_file o serial f ->
  exists body nets kvs,
    pre_go o pserial f = Ok (body, nets) /\
    preprocess o (rearrange_guarded o sort) pserial f = Ok (body ++ map (marshal o) (rearrange_guarded o sort nets)) /\
    Model.Preproc.compile o (rearrange_guarded o sort) v2 serial f = Ok kvs /\
    forall pts, Permutation pts (rearrange_guarded o sort nets) ->
      exists kvs', Model.Preproc.compile o (rearrange_guarded o sort) v2 serial (body ++ map (marshal o) pts) = Ok kvs' /\
                   Permutation kvs' kvs.
Proof. exact preproc_stmt_instance. Qed.
Print Assumptions C09_preproc_same_db_instance.

(* the closed statement, with the unguarded concrete rearranger: for every sort.Slice, a well-formed file
   (outside F12 as wf_file states it) whose subnets pass C03's guard is preprocessed without a panic of
   Rearrange to its body followed by the text of the points (subnets = file_nets f), and that text - the
   point lines in any order - compiles to the same records as the original, up to order, leaving no subnet
   for the accumulator *)
Theorem C09_preproc_same_db_closed : forall o,
  (forall a, wf_bytes a -> length a = 16%nat -> o_parse_ip o (o_print_ip o a) = Some a) ->
  o_parse_ip o [] = None ->
  (forall a, contains 44 (o_print_ip o a) = false) ->
  forall sort, sort_spec sort ->
  forall v2 serial pserial, serial <= max32 -> pserial = serial \/ pserial = 0 ->
  forall f, Proofs.Preproc.wf_file o serial f -> file_subnets_wfb o serial f = true ->
  exists body points kvs,
    pre_go o pserial f = Ok (body, file_nets o serial f) /\
    rearrange_text sort (file_nets o serial f) = Ok points /\
    preprocess o (rearrange_total sort) pserial f = Ok (body ++ map (marshal o) points) /\
    Model.Preproc.compile o (rearrange_total sort) v2 serial f = Ok kvs /\
    forall pts, Permutation pts points ->
      exists kvs', Model.Preproc.compile o (rearrange_total sort) v2 serial (body ++ map (marshal o) pts) = Ok kvs' /\
                   Permutation kvs' kvs /\
                   exists K', compile_go o v2 serial (body ++ map (marshal o) pts) = Ok (K', []).
Proof. exact preproc_same_db_closed. Qed.
Print Assumptions C09_preproc_same_db_closed.

(* Model/Preproc.compile is the record list of C07 over the scanned lines, for the text codec *)
Theorem C09_compile_is_c07_records : forall o v2 serial R f kvs,
  Model.Preproc.compile o R v2 serial f = Ok kvs ->
  accepted bytes (convert_ln o v2 serial) (scan f) = true /\
  kvs = records bytes (convert_ln o v2 serial) (text_accum o v2 serial R) (features v2) (scan f).
Proof. exact compile_is_records. Qed.
Print Assumptions C09_compile_is_c07_records.

(* C09 + C07, both key layouts (v2 arbitrary): for a well-formed file (guards as above; values shorter than
   2^32 bytes: kvs_ok of the file's records), ANY C07 RocksDB compilation of the preprocessed text (builder
   or batches, any setting, any schedule, the point lines in any order) and ANY C07 RocksDB compilation of
   the original text are well-formed stores holding equal multisets of values under every key *)
Theorem C09_preproc_same_compiled_db : forall o,
  (forall a, wf_bytes a -> length a = 16%nat -> o_parse_ip o (o_print_ip o a) = Some a) ->
  o_parse_ip o [] = None ->
  (forall a, contains 44 (o_print_ip o a) = false) ->
  forall sort, sort_spec sort ->
  forall v2 serial pserial, serial <= max32 -> pserial = serial \/ pserial = 0 ->
  forall f, Proofs.Preproc.wf_file o serial f -> file_subnets_wfb o serial f = true ->
  kvs_ok (records bytes (convert_ln o v2 serial) (text_accum o v2 serial (rearrange_total sort)) (features v2) (scan f)) ->
  exists body points,
    rearrange_text sort (file_nets o serial f) = Ok points /\
    preprocess o (rearrange_total sort) pserial f = Ok (body ++ map (marshal o) points) /\
    forall pts, Permutation pts points ->
      let out := body ++ map (marshal o) pts in
      scan out = out /\
      forall db1 db2,
        rdb_compilation bytes (convert_ln o v2 serial) (text_accum o v2 serial (rearrange_total sort)) (features v2) (scan out) db1 ->
        rdb_compilation bytes (convert_ln o v2 serial) (text_accum o v2 serial (rearrange_total sort)) (features v2) (scan f) db2 ->
        store_ok db1 /\ store_ok db2 /\ forall k, Permutation (vals db1 k) (vals db2 k).
Proof. exact preproc_same_compiled_db. Qed.
Print Assumptions C09_preproc_same_compiled_db.

(* non-vacuity: the guards hold for two files with subnet lines for two maps over o_toy (the oracle of
   C09_library_premises_satisfiable), and the chained theorem applies to them
   (the computed databases are in C08_text_example) *)
Example C09_link_example :
  Proofs.Preproc.wf_file x_o 7 x_A /\ Proofs.Preproc.wf_file x_o 7 x_B /\
  file_subnets_wfb x_o 7 x_A = true /\ file_subnets_wfb x_o 7 x_B = true /\
  kvs_ok (records bytes x_conv x_acc x_feat (scan x_A)) /\ kvs_ok (records bytes x_conv x_acc x_feat (scan x_B)) /\
  preprocess x_o x_R 0 x_A = Ok x_PA /\ preprocess x_o x_R 0 x_B = Ok x_PB /\
  length x_PA = 5%nat /\ length x_PB = 8%nat /\ length (file_nets x_o 7 x_B) = 2%nat.
Proof.
  destruct link_example as (_ & _ & H1 & H2 & H3 & H4 & H5 & H6 & H7 & H8 & H9 & H10 & H11 & _).
  exact (conj H1 (conj H2 (conj H3 (conj H4 (conj H5 (conj H6 (conj H7 (conj H8 (conj H9 (conj H10 H11)))))))))).
Qed.
Print Assumptions C09_link_example.

(* the value-size guard of C09_preproc_same_compiled_db follows from the length of the lines
   (Proofs/TextSizes.v, Proofs/LinkSizes.v): if ParseIP returns 16-byte addresses and every line of the file
   is at most 2^24 bytes long (short_lineb), every record of the file - lines, range points, feature -
   has a value shorter than 2^32 bytes *)
From DnsV Require Import Proofs.LinkSizes.
Theorem C09_file_values_small : forall o v2 serial sort f,
  (forall s a, o_parse_ip o s = Some a -> length a = 16%nat) ->
  forallb short_lineb f = true ->
  kvs_ok (records bytes (convert_ln o v2 serial) (text_accum o v2 serial (rearrange_total sort)) (features v2) (scan f)).
Proof. exact file_kvs_ok. Qed.
Print Assumptions C09_file_values_small.
