(* C19 - Exported statistics and the query log tell the truth.
   This file holds only theorem statements closed by [exact]; proofs are in
   Proofs/SWindow.v, Proofs/CounterMap.v and Proofs/Counters.v.

   Window part (metrics/swindow.go, metrics/stats.go): histories are arbitrary lists
   of Add / cleaner tick / read events with non-decreasing timestamps ([mono]);
   L is the sample lifetime.  Counter part (dnsserver/handler.go): [serve q] is the
   handler model on an arbitrary response class q. *)
From Coq Require Import Permutation.
From DnsV Require Import Base.Bytes Model.SWindow Model.Stats Model.Counters
  Spec.Window Spec.Counters Proofs.SWindow Proofs.CounterMap Proofs.Counters.
Open Scope Z_scope.

(* what Samples() returns at t is exactly the values added at times s with t <= s + L,
   in insertion order - whatever ticks and reads happened in between *)
Theorem C19_window_exact : forall L h t,
  0 <= L -> mono (h ++ [WRead t]) -> read_after L h t = spec_samples L h t.
Proof. exact window_exact. Qed.
Print Assumptions C19_window_exact.

(* a sample is reported until it expires *)
Theorem C19_window_reports_live : forall L h t s v,
  0 <= L -> mono (h ++ [WRead t]) -> In (WAdd s v) h -> t <= s + L -> In v (read_after L h t).
Proof. exact window_reports_live. Qed.
Print Assumptions C19_window_reports_live.

(* every reported value was added and is not expired; the exported min and max are
   reported values; 0,0,0 is exported by the no-data branch only *)
Theorem C19_no_phantom_value : forall L h t,
  0 <= L -> mono (h ++ [WRead t]) ->
  (forall v, In v (read_after L h t) -> exists s, In (WAdd s v) h /\ s <= t <= s + L) /\
  (read_after L h t = [] -> export_triple (get_window (read_after L h t)) = (0, 0, 0)) /\
  (read_after L h t <> [] ->
     In (e_min (get_window (read_after L h t))) (read_after L h t) /\
     In (e_max (get_window (read_after L h t))) (read_after L h t)).
Proof. exact no_phantom_value. Qed.
Print Assumptions C19_no_phantom_value.

(* Stats.Get exports min / max / truncated average of exactly the live samples
   (keys present iff a sample was ever added), as long as their sum fits an int64 *)
Theorem C19_minmaxavg : forall L h t,
  0 <= L -> mono (h ++ [WRead t]) -> fits64 (list_sum (spec_samples L h t)) ->
  option_map export_triple (get_after L h t) =
  if has_add h then Some (spec_export (spec_samples L h t)) else None.
Proof. exact minmaxavg. Qed.
Print Assumptions C19_minmaxavg.

(* without the int64 hypothesis the exported average is not the average *)
Theorem C19_avg_overflow_refuted :
  let vals := [4611686018427387904; 4611686018427387904] in
  e_avg (get_window vals) <> Z.quot (list_sum vals) 2.
Proof. exact avg_overflow_witness. Qed.
Print Assumptions C19_avg_overflow_refuted.

(* per query: DNS_queries once; the type counter once (iff a reader was acquired, i.e.
   the query was handled at all) and no other type counter; no counter twice; at most
   one message written; outcome counters and the logger follow the response sent;
   one location counter and (cache on) one cache counter iff a location was found *)
Theorem C19_counters_once : forall q,
  let o := serve q in
  cnt KQueries (o_incs o) = 1%nat
  /\ cnt (KType (q_qtype q)) (o_incs o) = b2n (q_reader_ok q)
  /\ (forall t, t <> q_qtype q -> cnt (KType t) (o_incs o) = 0%nat)
  /\ (forall k, (cnt k (o_incs o) <= 1)%nat)
  /\ (length (o_writes o) <= 1)%nat
  /\ outcome_follows_sent o
  /\ loc_total (o_incs o) = b2n (located q)
  /\ cache_total (o_incs o) = b2n (located q && q_cache_on q).
Proof. exact counters_once. Qed.
Print Assumptions C19_counters_once.

(* which location counter: decided by loc.Mask first - true for every query *)
Theorem C19_location_counter_partial : forall q mask id0 id1,
  q_loc q = LocOk mask id0 id1 -> located q = true ->
  cnt (if (0 <? mask)%N then KLocEcs else id_class id0 id1) (o_incs (serve q)) = 1%nat.
Proof. exact location_counter. Qed.
Print Assumptions C19_location_counter_partial.

(* ... which is not the location class of the query: a resolver-map match of an IPv4
   client (mask 96 + prefix length, here the default location 0,1 through 0.0.0.0/0) is
   counted as DNS_location.ecs without any client-subnet option; DNS_location.default
   stays 0.  Observed witness: foo.example.com. A from 9.9.9.9 without EDNS. *)
Theorem C19_location_class_refuted :
  exists q, located q = true /\ q_loc q = LocOk 96 0 1 /\
            cnt (true_loc_class false 0 1) (o_incs (serve q)) = 0%nat /\
            cnt KLocEcs (o_incs (serve q)) = 1%nat.
Proof. exact location_class_refuted. Qed.
Print Assumptions C19_location_class_refuted.

(* any two interleavings of the same goroutine programs leave the same counters:
   the start value plus the sum of the increments *)
Theorem C19_counters_commute : forall ths tr1 tr2 m k,
  interleaving ths tr1 -> interleaving ths tr2 ->
  cget k (fst (crun m tr1)) = cget k (fst (crun m tr2)) /\
  cget k (fst (crun m tr1)) = cget k m + total k (concat ths).
Proof. exact counters_commute. Qed.
Print Assumptions C19_counters_commute.

Theorem C19_counters_permutation : forall tr1 tr2 m k,
  Permutation tr1 tr2 -> cget k (fst (crun m tr1)) = cget k (fst (crun m tr2)).
Proof. exact counters_permutation. Qed.
Print Assumptions C19_counters_permutation.

(* every export taken concurrently is the sum of the increments executed before it *)
Theorem C19_export_is_prefix_sum : forall tr m s,
  In s (snd (crun m tr)) ->
  exists pre post, tr = pre ++ OpExport :: post /\ forall k, cget k s = cget k m + total k pre.
Proof. exact export_is_prefix_sum. Qed.
Print Assumptions C19_export_is_prefix_sum.

(* queries served concurrently: each counter ends as the number of queries that bump it *)
Theorem C19_concurrent_queries_sum : forall qs tr k,
  interleaving (map query_prog qs) tr ->
  cget k (fst (crun [] tr)) = fold_right (fun q a => Z.of_nat (cnt k (o_incs (serve q))) + a) 0 qs.
Proof. exact concurrent_queries_sum. Qed.
Print Assumptions C19_concurrent_queries_sum.

(* the hypotheses are satisfiable on the decisive shapes *)
Example C19_history_example :
  let h := [WAdd 300 7; WAdd 1600 (-3); WTick 2000] in
  mono (h ++ [WRead 2200]) /\ read_after 1000 h 2200 = [-3] /\
  option_map export_triple (get_after 1000 h 2200) = Some (-3, -3, -3).
Proof. exact history_example. Qed.
Print Assumptions C19_history_example.

Example C19_counters_example :
  let q := mkQ true false 1 true true (LocOk 0 0 1) true CMiss false true true false false 0 false true 0 false in
  sent (serve q) = Some (RcodeNameError, true, 0%N) /\
  o_incs (serve q) = [KQueries; KType 1; KLocDefault; KCacheMissed; KRespAuth; KNxdomain] /\
  interleaving [[OpInc KQueries; OpExport]; [OpInc KQueries]] [OpInc KQueries; OpInc KQueries; OpExport].
Proof. exact counters_example. Qed.
Print Assumptions C19_counters_example.

(* ================================================================== C19 x C01: the counters follow the SERVED response
   (Model/ComposeMore.v, Proofs/LinkCountersServe.v, Proofs/LinkCountersSpec.v).
   [serve q] above is the handler model on an ARBITRARY description q of what happened.  Model/Serve.v is the model
   of what the same handler replies over a store.  [class_of sd b st q locr ecs max] computes the description from
   the very reader calls Model/Serve.serve makes (IsAuthoritative, the DS re-evaluation, FindAnswer, the zone-cut
   unpack) and from its outcome (number of answer records of the message written); [sd] holds what Model/Serve does
   not model: DO bit, loc.Mask, whether WriteMsg failed.  Cache off (Model/Compose.v puts the cache on top),
   AcquireReader and PackDomainName succeed (C19_class_of_fixed).
   [resp_class sd out]: the response class of a Serve outcome as the writes of the handler: a reply with rcode
   SERVFAIL is dns.HandleFailed's bare message, any other reply the composed response (rcode, AA, number of answer
   records - the number announced by the IPick items, which is the number after the draw: C11_served_addresses_sound,
   clause nlen (c_an y) = item_count (rs_an x)), ONoReply nothing. *)
Close Scope Z_scope.
Open Scope N_scope.
From DnsV Require Import Model.Store Model.LookupV1 Model.Serve Spec.Answer Spec.Rows.
From DnsV Require Import Proofs.Compile Proofs.ZoneCut Proofs.Referral Proofs.AnswerItems.
From DnsV Require Model.Compose Proofs.Compose.
From DnsV Require Import Model.ComposeMore Proofs.LinkWrsServe Proofs.LinkWrsServeExample.
From DnsV Require Import Proofs.LinkCountersServe Proofs.LinkCountersSpec Proofs.LinkCountersExample.

(* C19_counters_follow_serve.  For every store, backend, query, location result and max answer for which the reader
   does not panic (C13), with o the handler model's increments / log calls / writes on the description of that run:
   DNS_queries once, the query's type counter once and no other type counter, no counter twice, the writes ARE the
   response class of the Serve outcome, and
   - a composed reply x that was written: DNS_queries_nxdomain iff rcode 3, _refused iff 5, _badvers iff 16,
     _nodata iff rcode 0 with no answer record, _notauthoritative iff AA clear; the logger gets that message, once;
   - a bare SERVFAIL, no reply at all, or a failed WriteMsg: no outcome counter moves, nothing is logged as sent *)
Theorem C19_counters_follow_serve : forall sd b st q locr ecs max,
  Model.Serve.serve b st q locr ecs max <> OPanic -> Model.Serve.serve b st q locr ecs max <> OFuel ->
  let out := Model.Serve.serve b st q locr ecs max in
  let o := Model.Counters.serve (class_of sd b st q locr ecs max) in
  let l := o_incs o in
  cnt KQueries l = 1%nat /\
  cnt (KType (q_type q)) l = 1%nat /\
  (forall t, t <> q_type q -> cnt (KType t) l = 0%nat) /\
  (forall k, (cnt k l <= 1)%nat) /\
  resp_class sd out = Some (o_writes o) /\
  match out with
  | OReply x =>
      if (rs_rcode x =? 2) || s_write_err sd
      then cnt KNxdomain l = 0%nat /\ cnt KRefused l = 0%nat /\ cnt KBadvers l = 0%nat /\
           cnt KNodata l = 0%nat /\ cnt KNotAuthoritative l = 0%nat /\ nlog LogSent (o_logs o) = 0%nat
      else cnt KNxdomain l = b2n (rs_rcode x =? 3) /\
           cnt KRefused l = b2n (rs_rcode x =? 5) /\
           cnt KBadvers l = b2n (rs_rcode x =? 16) /\
           cnt KNodata l = b2n ((rs_rcode x =? 0) && (item_count (rs_an x) =? 0)) /\
           cnt KNotAuthoritative l = b2n (negb (rs_aa x)) /\
           o_logs o = [LogSent]
  | _ => cnt KNxdomain l = 0%nat /\ cnt KRefused l = 0%nat /\ cnt KBadvers l = 0%nat /\
         cnt KNodata l = 0%nat /\ cnt KNotAuthoritative l = 0%nat /\ nlog LogSent (o_logs o) = 0%nat
  end.
Proof. exact counters_follow_serve. Qed.
Print Assumptions C19_counters_follow_serve.

(* the adapter lemma behind it, for ANY reader (label-by-label or closest-key) and any announced number of sent
   answers: the writes of the handler model on the computed description are the response class of what
   Model/Serve.serve_with replies *)
Theorem C19_writes_are_serve_outcome : forall C (rd : reader C) sd c0 q locr ecs max nsent,
  match serve_with C rd c0 q locr ecs max with
  | OReply x =>
      o_writes (Model.Counters.serve (run_class C rd sd c0 q locr max nsent)) =
        [if rs_rcode x =? 2 then WrBare else WrComposed (rs_rcode x) (rs_aa x) nsent (negb (s_write_err sd))]
  | ONoReply => o_writes (Model.Counters.serve (run_class C rd sd c0 q locr max nsent)) = []
  | _ => True
  end.
Proof. exact writes_of_run. Qed.
Print Assumptions C19_writes_are_serve_outcome.

(* the fields of the description that Model/Serve does not decide *)
Theorem C19_class_of_fixed : forall sd b st q locr ecs max,
  q_reader_ok (class_of sd b st q locr ecs max) = true /\
  q_do (class_of sd b st q locr ecs max) = s_do sd /\
  q_qtype (class_of sd b st q locr ecs max) = q_type q /\
  q_edns_ok (class_of sd b st q locr ecs max) = edns_ok q /\
  q_pack_ok (class_of sd b st q locr ecs max) = true /\
  q_loc (class_of sd b st q locr ecs max) = loc_class sd locr /\
  q_cache_on (class_of sd b st q locr ecs max) = false /\
  q_sent_answers (class_of sd b st q locr ecs max) =
    (match Model.Serve.serve b st q locr ecs max with OReply x => item_count (rs_an x) | _ => 0 end) /\
  q_write_err (class_of sd b st q locr ecs max) = s_write_err sd.
Proof. exact class_of_fixed. Qed.
Print Assumptions C19_class_of_fixed.

(* C19_counters_by_spec: composed with C01 - the outcome counters as a function of what the data DECLARES.
   For every database form of Proofs/Compose.gen_declares (the rows of Spec/Rows in v1 / v2 key layout, guards of
   C01_response_is_spec(_v2); everything the modelled compilers produce from the text of a well-formed data file,
   C01_file_level - C12_gen_declares_meaning), a client located in L, a wire-valid query with EDNS version 0 or no
   OPT whose reply x was written, by response class of Spec/Answer.spec_response:
   - Refused (outside every zone): DNS_queries_refused and DNS_queries_notauthoritative once; nxdomain, nodata 0;
   - Referral (not DS): DNS_queries_nodata and DNS_queries_notauthoritative once (a referral has an empty answer
     section: counted as NODATA - observed on the real server, see the C19 report); nxdomain, refused 0;
   - Answer z nx ans soa (authoritative): DNS_queries_nxdomain is incremented iff nx, i.e. iff neither the name nor
     a covering wildcard has a visible record ([source_records L recs z n = []]); DNS_queries_nodata iff not nx
     and the declared records yield no answer record: [declared_count max ans] = selected non-address records +
     min(max, positive-weight A) + min(max, positive-weight AAAA) = 0 (in particular a name whose only addresses
     have weight 0 counts as NODATA, not NXDOMAIN); refused, notauthoritative 0;
   and in every class DNS_queries once, the type counter once, DNS_queries_badvers 0, the reply logged once. *)
Theorem C19_counters_by_spec : forall g L recs, Proofs.Compose.gen_declares g L recs ->
  forall sd q n ecs max x,
  wf_name n -> nlen (pack n) <= 255 -> lower_bytes (q_name q) = pack n ->
  (q_edns q = None \/ q_edns q = Some 0) ->
  Model.Serve.serve (Model.Compose.g_backend g) (Model.Compose.g_store g) q (Model.Serve.LocOk L) ecs max = OReply x ->
  s_write_err sd = false ->
  let o := Model.Counters.serve
             (class_of sd (Model.Compose.g_backend g) (Model.Compose.g_store g) q (Model.Serve.LocOk L) ecs max) in
  let l := o_incs o in
  cnt KQueries l = 1%nat /\ cnt (KType (q_type q)) l = 1%nat /\
  (forall t, t <> q_type q -> cnt (KType t) l = 0%nat) /\
  match spec_response L recs n (q_type q) with
  | Refused =>
      cnt KRefused l = 1%nat /\ cnt KNxdomain l = 0%nat /\ cnt KNodata l = 0%nat /\
      cnt KNotAuthoritative l = 1%nat /\ cnt KBadvers l = 0%nat /\ o_logs o = [LogSent]
  | Referral z nsr =>
      q_type q <> 43 ->
      cnt KRefused l = 0%nat /\ cnt KNxdomain l = 0%nat /\ cnt KNodata l = 1%nat /\
      cnt KNotAuthoritative l = 1%nat /\ cnt KBadvers l = 0%nat /\ o_logs o = [LogSent]
  | Answer z nx ans soa =>
      cnt KRefused l = 0%nat /\ cnt KNotAuthoritative l = 0%nat /\
      cnt KNxdomain l = b2n nx /\
      (nx = true <-> source_records L recs z n = []) /\
      cnt KNodata l = b2n (negb nx && (declared_count max ans =? 0)) /\
      cnt KBadvers l = 0%nat /\ o_logs o = [LogSent]
  end.
Proof. exact counters_follow_spec. Qed.
Print Assumptions C19_counters_by_spec.

Theorem C19_declared_count_meaning : forall max ans,
  declared_count max ans =
  nlen (filter (fun r => negb (is_addr_rec r)) ans) +
  N.min max (nlen (filter (fun r => 0 <? r_weight r) (of_type 1 ans))) +
  N.min max (nlen (filter (fun r => 0 <? r_weight r) (of_type 28 ans))).
Proof. reflexivity. Qed.
Print Assumptions C19_declared_count_meaning.

(* the same with the guards of C01_response_is_spec spelled out (label-by-label reader over the compiled store) *)
Theorem C19_counters_by_spec_v1 : forall b recs L, wf_recs recs -> Forall wf_ns_rdata recs -> length L = 2%nat ->
  b <> RDB2 -> wf_view L recs = true -> forall sd q n ecs max x,
  wf_name n -> nlen (pack n) <= 255 -> lower_bytes (q_name q) = pack n ->
  (q_edns q = None \/ q_edns q = Some 0) ->
  Model.Serve.serve b (store_v1 recs) q (Model.Serve.LocOk L) ecs max = OReply x ->
  s_write_err sd = false ->
  counters_by_spec L recs n q max
    (Model.Counters.serve (class_of sd b (store_v1 recs) q (Model.Serve.LocOk L) ecs max)).
Proof. exact counters_follow_spec_v1. Qed.
Print Assumptions C19_counters_by_spec_v1.

(* core, independent of the backend: any written reply that refines the spec (C01_response_refines_meaning) *)
Theorem C19_counters_by_refinement : forall sd L recs n q ecs max x o,
  Proofs.FileLevel.response_refines L recs n q ecs max x ->
  counters_follow sd q (OReply x) o -> s_write_err sd = false ->
  counters_by_spec L recs n q max o.
Proof. exact counters_by_refinement. Qed.
Print Assumptions C19_counters_by_refinement.

(* non-vacuity (record set e_recs of C11_served_addresses_example; client in ab found without ECS; no DO bit; write
   succeeds; e_cls q locr = class_of ... CDB (store_v1 e_recs) q locr None 2): ANY a.z. two answers, no outcome
   counter; A w.z. (only a weight-0 address) NODATA, not NXDOMAIN; A x.z. NXDOMAIN; A x.y. REFUSED and not
   authoritative; EDNS version 1 BADVERS; no location: no reply, no outcome counter, LogFailed *)
Example C19_counters_follow_example :
  o_incs (Model.Counters.serve (e_cls e_q1 (Model.Serve.LocOk e_L))) = [KQueries; KType 255; KLocResolver; KRespAuth] /\
  o_writes (Model.Counters.serve (e_cls e_q1 (Model.Serve.LocOk e_L))) = [WrComposed 0 true 2 true] /\
  o_incs (Model.Counters.serve (e_cls e_q2 (Model.Serve.LocOk e_L))) = [KQueries; KType 1; KLocResolver; KRespAuth; KNodata] /\
  spec_response e_L e_recs [[119]; [122]] 1 =
    Answer [[122]] false [mkRec [[119]; [122]] false None 1 10 0 [10; 0; 0; 9]] [mkRec [[122]] false None 6 60 0 e_soa] /\
  declared_count 2 [mkRec [[119]; [122]] false None 1 10 0 [10; 0; 0; 9]] = 0 /\
  o_incs (Model.Counters.serve (e_cls e_q4 (Model.Serve.LocOk e_L))) = [KQueries; KType 1; KLocResolver; KRespAuth; KNxdomain] /\
  spec_response e_L e_recs [[120]; [122]] 1 = Answer [[122]] true [] [mkRec [[122]] false None 6 60 0 e_soa] /\
  o_incs (Model.Counters.serve (e_cls e_q5 (Model.Serve.LocOk e_L))) =
    [KQueries; KType 1; KLocResolver; KRespRefused; KNotAuthoritative; KRefused] /\
  spec_response e_L e_recs [[120]; [121]] 1 = Refused /\
  o_incs (Model.Counters.serve (e_cls e_q6 (Model.Serve.LocOk e_L))) = [KQueries; KType 1; KNotAuthoritative; KBadvers] /\
  o_incs (Model.Counters.serve (e_cls e_q1 Model.Serve.LocNil)) = [KQueries; KType 255] /\
  o_logs (Model.Counters.serve (e_cls e_q1 Model.Serve.LocNil)) = [LogFailedReq] /\
  o_writes (Model.Counters.serve (e_cls e_q1 Model.Serve.LocNil)) = [] /\
  Model.Serve.serve CDB (store_v1 e_recs) e_q1 Model.Serve.LocNil None 2 = ONoReply.
Proof. exact counters_follow_example. Qed.
Print Assumptions C19_counters_follow_example.

(* ================================================================== C19 x C13 x C01: no side condition about the run
   (Proofs/LinkCountersNoPanic.v).  C19_counters_follow_serve above carries two hypotheses about the run (serve is
   neither OPanic nor OFuel).  C13_no_panic discharges them: the label-by-label readers (CDB, RocksDB v1 keys) never
   panic and never exhaust the supplied fuel for a wire-valid query name ([wire_name]: labels of 1..63 bytes, root
   label last, at most 255 octets) on ANY store; the closest-key reader (RocksDB v2 keys) on every store that
   satisfies the DECIDABLE key guard [wf_store_v2] (Spec/KeysV2.v: every key once; keys under the resource-record
   marker are marker ++ reversed name ++ two location bytes or have a third byte >= 64) for a two-byte location
   ([loc_wf]).  C13 and C19 speak about the same [Model/Serve.serve b st]: no adapter between reader instances is
   needed.  [counters_follow sd q out o] is literally the conclusion of C19_counters_follow_serve
   (C19_counters_follow_meaning). *)
From DnsV Require Import Spec.KeysV2 Proofs.NoPanic Proofs.NoPanicV2.
From DnsV Require Import Proofs.FileLevelExample Proofs.ComposeExample Proofs.LinkCountersNoPanic Proofs.LinkCountersNoPanicExample.

Theorem C19_counters_follow_meaning : forall sd q out o,
  counters_follow sd q out o <->
  (let l := o_incs o in
   cnt KQueries l = 1%nat /\
   cnt (KType (q_type q)) l = 1%nat /\
   (forall t, t <> q_type q -> cnt (KType t) l = 0%nat) /\
   (forall k, (cnt k l <= 1)%nat) /\
   resp_class sd out = Some (o_writes o) /\
   match out with
   | OReply x =>
       if (rs_rcode x =? 2) || s_write_err sd
       then cnt KNxdomain l = 0%nat /\ cnt KRefused l = 0%nat /\ cnt KBadvers l = 0%nat /\
            cnt KNodata l = 0%nat /\ cnt KNotAuthoritative l = 0%nat /\ nlog LogSent (o_logs o) = 0%nat
       else cnt KNxdomain l = b2n (rs_rcode x =? 3) /\
            cnt KRefused l = b2n (rs_rcode x =? 5) /\
            cnt KBadvers l = b2n (rs_rcode x =? 16) /\
            cnt KNodata l = b2n ((rs_rcode x =? 0) && (item_count (rs_an x) =? 0)) /\
            cnt KNotAuthoritative l = b2n (negb (rs_aa x)) /\
            o_logs o = [LogSent]
   | _ => cnt KNxdomain l = 0%nat /\ cnt KRefused l = 0%nat /\ cnt KBadvers l = 0%nat /\
          cnt KNodata l = 0%nat /\ cnt KNotAuthoritative l = 0%nat /\ nlog LogSent (o_logs o) = 0%nat
   end).
Proof. intros. apply iff_refl. Qed.
Print Assumptions C19_counters_follow_meaning.

(* C19_counters_follow_serve_wf: label-by-label readers - EVERY store (no guard at all), every wire-valid query,
   every location result, ECS option, max answer and side condition *)
Theorem C19_counters_follow_serve_wf : forall sd b st q locr ecs max,
  b <> RDB2 -> wire_name (q_name q) = true ->
  counters_follow sd q (Model.Serve.serve b st q locr ecs max)
                  (Model.Counters.serve (class_of sd b st q locr ecs max)).
Proof. exact counters_follow_serve_wf. Qed.
Print Assumptions C19_counters_follow_serve_wf.

(* closest-key reader: every store with well-formed keys *)
Theorem C19_counters_follow_serve_wf_v2 : forall sd st q locr ecs max,
  wf_store_v2 st = true -> wire_name (q_name q) = true -> loc_wf locr ->
  counters_follow sd q (Model.Serve.serve RDB2 st q locr ecs max)
                  (Model.Counters.serve (class_of sd RDB2 st q locr ecs max)).
Proof. exact counters_follow_serve_wf_v2. Qed.
Print Assumptions C19_counters_follow_serve_wf_v2.

(* the three readers in one statement *)
Theorem C19_counters_follow_serve_wf_any : forall sd b st q locr ecs max,
  (b = RDB2 -> wf_store_v2 st = true /\ loc_wf locr) -> wire_name (q_name q) = true ->
  counters_follow sd q (Model.Serve.serve b st q locr ecs max)
                  (Model.Counters.serve (class_of sd b st q locr ecs max)).
Proof. exact counters_follow_serve_wf_any. Qed.
Print Assumptions C19_counters_follow_serve_wf_any.

(* the guards C13 asks of the store hold for every database form of gen_declares - the row-level compilation in
   the v2 layout (C13_compiled_store_wf) and EVERY dump of a RocksDB the modelled compilers produce with v2 keys from
   the text of a well-formed data file (new: the name keys are reversed names of declared owners, every other key
   is foreign - \000o_features has third byte 95) ... *)
Theorem C19_gen_declares_guard : forall g L recs, Proofs.Compose.gen_declares g L recs ->
  Model.Compose.g_backend g = RDB2 ->
  wf_store_v2 (Model.Compose.g_store g) = true /\ loc_wf (Model.Serve.LocOk L).
Proof. exact gen_declares_guard. Qed.
Print Assumptions C19_gen_declares_guard.

(* ... the name guard of the C01 theorems implies C13's, and a located query is always answered *)
Theorem C19_wire_of_pack : forall (n : name) l, wf_name n -> nlen (pack n) <= 255 -> lower_bytes l = pack n ->
  wire_name l = true.
Proof. exact wire_of_pack. Qed.
Print Assumptions C19_wire_of_pack.
Theorem C19_located_query_is_answered : forall b st q loc ecs max,
  Model.Serve.serve b st q (Model.Serve.LocOk loc) ecs max <> ONoReply.
Proof. exact serve_located_replies. Qed.
Print Assumptions C19_located_query_is_answered.

(* C19_counters_by_spec_total: C19_counters_by_spec without any hypothesis about the run.  For every database form
   of gen_declares, a client located in L, every query under the name guard of the C01 theorems with EDNS version 0
   or no OPT, when WriteMsg succeeds: the handler DOES write a reply x, x refines Spec/Answer.spec_response of the
   declared records, and the counters are those the response class prescribes ([counters_by_spec]: the conclusion
   of C19_counters_by_spec).  Remaining hypotheses: the data (gen_declares), the query's name and EDNS version,
   s_write_err = false - nothing about serve's outcome *)
Theorem C19_counters_by_spec_total : forall g L recs, Proofs.Compose.gen_declares g L recs ->
  forall sd q n ecs max,
  wf_name n -> nlen (pack n) <= 255 -> lower_bytes (q_name q) = pack n ->
  (q_edns q = None \/ q_edns q = Some 0) ->
  s_write_err sd = false ->
  exists x,
    Model.Serve.serve (Model.Compose.g_backend g) (Model.Compose.g_store g) q (Model.Serve.LocOk L) ecs max = OReply x /\
    Proofs.FileLevel.response_refines L recs n q ecs max x /\
    counters_by_spec L recs n q max
      (Model.Counters.serve (class_of sd (Model.Compose.g_backend g) (Model.Compose.g_store g) q (Model.Serve.LocOk L) ecs max)).
Proof. exact counters_by_spec_total. Qed.
Print Assumptions C19_counters_by_spec_total.

Theorem C19_counters_by_spec_meaning : forall L recs n q max o,
  counters_by_spec L recs n q max o <->
  (let l := o_incs o in
   cnt KQueries l = 1%nat /\ cnt (KType (q_type q)) l = 1%nat /\
   (forall t, t <> q_type q -> cnt (KType t) l = 0%nat) /\
   match spec_response L recs n (q_type q) with
   | Refused =>
       cnt KRefused l = 1%nat /\ cnt KNxdomain l = 0%nat /\ cnt KNodata l = 0%nat /\
       cnt KNotAuthoritative l = 1%nat /\ cnt KBadvers l = 0%nat /\ o_logs o = [LogSent]
   | Referral z nsr =>
       q_type q <> 43 ->
       cnt KRefused l = 0%nat /\ cnt KNxdomain l = 0%nat /\ cnt KNodata l = 1%nat /\
       cnt KNotAuthoritative l = 1%nat /\ cnt KBadvers l = 0%nat /\ o_logs o = [LogSent]
   | Answer z nx ans soa =>
       cnt KRefused l = 0%nat /\ cnt KNotAuthoritative l = 0%nat /\
       cnt KNxdomain l = b2n nx /\
       (nx = true <-> source_records L recs z n = []) /\
       cnt KNodata l = b2n (negb nx && (declared_count max ans =? 0)) /\
       cnt KBadvers l = 0%nat /\ o_logs o = [LogSent]
   end).
Proof. intros. apply iff_refl. Qed.
Print Assumptions C19_counters_by_spec_meaning.

(* non-vacuity on concrete compiled databases (Proofs/ComposeExample.v: y_g2 = the v2-keyed RocksDB store compiled
   from the five declared records of the data file of C01_file_level_example, 3 keys; y_g1 = the CDB of that file's
   text): the guards hold; TXT Foo.example.com gets the wildcard's text (one answer, no outcome counter), A
   no.example.com is NODATA (covered by the wildcard, which has no A record - not NXDOMAIN), TXT Foo.org REFUSED; and
   the unconditional statements for these two databases *)
Example C19_counters_no_panic_example :
  Model.Compose.g_backend y_g2 = RDB2 /\ wf_store_v2 (Model.Compose.g_store y_g2) = true /\
  (length (Model.Compose.g_store y_g2) = 3)%nat /\
  wire_name (q_name x_q1) = true /\ wire_name (q_name n_q3) = true /\ wire_name (q_name n_q4) = true /\
  loc_wf (Model.Serve.LocOk [0; 0]) /\
  o_incs (Model.Counters.serve (class_of n_sd RDB2 (Model.Compose.g_store y_g2) x_q1 (Model.Serve.LocOk [0; 0]) None 1)) =
    [KQueries; KType 16; KLocEmpty; KRespAuth] /\
  o_writes (Model.Counters.serve (class_of n_sd RDB2 (Model.Compose.g_store y_g2) x_q1 (Model.Serve.LocOk [0; 0]) None 1)) =
    [WrComposed 0 true 1 true] /\
  o_incs (Model.Counters.serve (class_of n_sd RDB2 (Model.Compose.g_store y_g2) n_q3 (Model.Serve.LocOk [0; 0]) None 1)) =
    [KQueries; KType 1; KLocEmpty; KRespAuth; KNodata] /\
  o_incs (Model.Counters.serve (class_of n_sd RDB2 (Model.Compose.g_store y_g2) n_q4 (Model.Serve.LocOk [0; 0]) None 1)) =
    [KQueries; KType 16; KLocEmpty; KRespRefused; KNotAuthoritative; KRefused] /\
  (forall sd q locr ecs max, wire_name (q_name q) = true -> loc_wf locr ->
     counters_follow sd q (Model.Serve.serve RDB2 (Model.Compose.g_store y_g2) q locr ecs max)
                     (Model.Counters.serve (class_of sd RDB2 (Model.Compose.g_store y_g2) q locr ecs max))) /\
  (forall sd q n ecs max, wf_name n -> nlen (pack n) <= 255 -> lower_bytes (q_name q) = pack n ->
     (q_edns q = None \/ q_edns q = Some 0) -> s_write_err sd = false ->
     exists x, Model.Serve.serve CDB (Model.Compose.g_store y_g1) q (Model.Serve.LocOk x_L) ecs max = OReply x /\
               counters_by_spec x_L x_recs n q max
                 (Model.Counters.serve (class_of sd CDB (Model.Compose.g_store y_g1) q (Model.Serve.LocOk x_L) ecs max))).
Proof. exact counters_no_panic_example. Qed.
Print Assumptions C19_counters_no_panic_example.

(* Why scan and drop of a cleaner tick must be one critical section (the shape the
   free-running harness class cleaner-race looks for).  Alone, scanning the expired
   prefix and dropping that many samples later is the tick ... *)
Theorem C19_split_tick_alone : forall now w, drop_n (scan now w) w = tick now w.
Proof. exact split_tick_alone. Qed.
Print Assumptions C19_split_tick_alone.

(* ... but with an export (Samples) of another goroutine between the scan and the drop, a
   live sample is removed: the next read differs from what the history prescribes.
   Witness: lifetime 1000, adds (t=0, 9) and (t=1500, 5), tick and export at 2000. *)
Theorem C19_split_tick_refuted :
  exists (L : Z) (h : list wevent) (t : Z),
    (0 <= L)%Z /\ mono (h ++ [WRead t]) /\
    snd (samples t (split_tick_with_export t t (exec L h))) <> spec_samples L h t.
Proof. exact split_tick_refuted. Qed.
Print Assumptions C19_split_tick_refuted.
