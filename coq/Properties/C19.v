(* C19 - Exported statistics and the query log tell the truth.
   This file holds only theorem statements closed by [exact]; proofs are in
   Proofs/SWindow.v, Proofs/CounterMap.v and Proofs/Counters.v.

   Window part (metrics/swindow.go, metrics/stats.go): histories are arbitrary lists
   of Add / cleaner tick / read events with non-decreasing timestamps ([mono]);
   L is the sample lifetime.  Counter part (dnsserver/handler.go): [serve q] is the
   handler model on an arbitrary response class q. *)
From Coq Require Import Permutation.
From DnsV Require Import Base.Bytes Model.SWindow Model.Stats Model.Counters
  Spec.Window Spec.Counters Proofs.SWindow Proofs.CounterMap Proofs.Counters.
Open Scope Z_scope.

(* what Samples() returns at t is exactly the values added at times s with t <= s + L,
   in insertion order - whatever ticks and reads happened in between *)
Theorem C19_window_exact : forall L h t,
  0 <= L -> mono (h ++ [WRead t]) -> read_after L h t = spec_samples L h t.
Proof. exact window_exact. Qed.
Print Assumptions C19_window_exact.

(* a sample is reported until it expires *)
Theorem C19_window_reports_live : forall L h t s v,
  0 <= L -> mono (h ++ [WRead t]) -> In (WAdd s v) h -> t <= s + L -> In v (read_after L h t).
Proof. exact window_reports_live. Qed.
Print Assumptions C19_window_reports_live.

(* every reported value was added and is not expired; the exported min and max are
   reported values; 0,0,0 is exported by the no-data branch only *)
Theorem C19_no_phantom_value : forall L h t,
  0 <= L -> mono (h ++ [WRead t]) ->
  (forall v, In v (read_after L h t) -> exists s, In (WAdd s v) h /\ s <= t <= s + L) /\
  (read_after L h t = [] -> export_triple (get_window (read_after L h t)) = (0, 0, 0)) /\
  (read_after L h t <> [] ->
     In (e_min (get_window (read_after L h t))) (read_after L h t) /\
     In (e_max (get_window (read_after L h t))) (read_after L h t)).
Proof. exact no_phantom_value. Qed.
Print Assumptions C19_no_phantom_value.

(* Stats.Get exports min / max / truncated average of exactly the live samples
   (keys present iff a sample was ever added), as long as their sum fits an int64 *)
Theorem C19_minmaxavg : forall L h t,
  0 <= L -> mono (h ++ [WRead t]) -> fits64 (list_sum (spec_samples L h t)) ->
  option_map export_triple (get_after L h t) =
  if has_add h then Some (spec_export (spec_samples L h t)) else None.
Proof. exact minmaxavg. Qed.
Print Assumptions C19_minmaxavg.

(* without the int64 hypothesis the exported average is not the average *)
Theorem C19_avg_overflow_refuted :
  let vals := [4611686018427387904; 4611686018427387904] in
  e_avg (get_window vals) <> Z.quot (list_sum vals) 2.
Proof. exact avg_overflow_witness. Qed.
Print Assumptions C19_avg_overflow_refuted.

(* per query: DNS_queries once; the type counter once (iff a reader was acquired, i.e.
   the query was handled at all) and no other type counter; no counter twice; at most
   one message written; outcome counters and the logger follow the response sent;
   one location counter and (cache on) one cache counter iff a location was found *)
Theorem C19_counters_once : forall q,
  let o := serve q in
  cnt KQueries (o_incs o) = 1%nat
  /\ cnt (KType (q_qtype q)) (o_incs o) = b2n (q_reader_ok q)
  /\ (forall t, t <> q_qtype q -> cnt (KType t) (o_incs o) = 0%nat)
  /\ (forall k, (cnt k (o_incs o) <= 1)%nat)
  /\ (length (o_writes o) <= 1)%nat
  /\ outcome_follows_sent o
  /\ loc_total (o_incs o) = b2n (located q)
  /\ cache_total (o_incs o) = b2n (located q && q_cache_on q).
Proof. exact counters_once. Qed.
Print Assumptions C19_counters_once.

(* which location counter: decided by loc.Mask first - true for every query *)
Theorem C19_location_counter_partial : forall q mask id0 id1,
  q_loc q = LocOk mask id0 id1 -> located q = true ->
  cnt (if (0 <? mask)%N then KLocEcs else id_class id0 id1) (o_incs (serve q)) = 1%nat.
Proof. exact location_counter. Qed.
Print Assumptions C19_location_counter_partial.

(* ... which is not the location class of the query: a resolver-map match of an IPv4
   client (mask 96 + prefix length, here the default location 0,1 through 0.0.0.0/0) is
   counted as DNS_location.ecs without any client-subnet option; DNS_location.default
   stays 0.  Observed witness: foo.example.com. A from 9.9.9.9 without EDNS. *)
Theorem C19_location_class_refuted :
  exists q, located q = true /\ q_loc q = LocOk 96 0 1 /\
            cnt (true_loc_class false 0 1) (o_incs (serve q)) = 0%nat /\
            cnt KLocEcs (o_incs (serve q)) = 1%nat.
Proof. exact location_class_refuted. Qed.
Print Assumptions C19_location_class_refuted.

(* any two interleavings of the same goroutine programs leave the same counters:
   the start value plus the sum of the increments *)
Theorem C19_counters_commute : forall ths tr1 tr2 m k,
  interleaving ths tr1 -> interleaving ths tr2 ->
  cget k (fst (crun m tr1)) = cget k (fst (crun m tr2)) /\
  cget k (fst (crun m tr1)) = cget k m + total k (concat ths).
Proof. exact counters_commute. Qed.
Print Assumptions C19_counters_commute.

Theorem C19_counters_permutation : forall tr1 tr2 m k,
  Permutation tr1 tr2 -> cget k (fst (crun m tr1)) = cget k (fst (crun m tr2)).
Proof. exact counters_permutation. Qed.
Print Assumptions C19_counters_permutation.

(* every export taken concurrently is the sum of the increments executed before it *)
Theorem C19_export_is_prefix_sum : forall tr m s,
  In s (snd (crun m tr)) ->
  exists pre post, tr = pre ++ OpExport :: post /\ forall k, cget k s = cget k m + total k pre.
Proof. exact export_is_prefix_sum. Qed.
Print Assumptions C19_export_is_prefix_sum.

(* queries served concurrently: each counter ends as the number of queries that bump it *)
Theorem C19_concurrent_queries_sum : forall qs tr k,
  interleaving (map query_prog qs) tr ->
  cget k (fst (crun [] tr)) = fold_right (fun q a => Z.of_nat (cnt k (o_incs (serve q))) + a) 0 qs.
Proof. exact concurrent_queries_sum. Qed.
Print Assumptions C19_concurrent_queries_sum.

(* the hypotheses are satisfiable on the decisive shapes *)
Example C19_history_example :
  let h := [WAdd 300 7; WAdd 1600 (-3); WTick 2000] in
  mono (h ++ [WRead 2200]) /\ read_after 1000 h 2200 = [-3] /\
  option_map export_triple (get_after 1000 h 2200) = Some (-3, -3, -3).
Proof. exact history_example. Qed.
Print Assumptions C19_history_example.

Example C19_counters_example :
  let q := mkQ true false 1 true true (LocOk 0 0 1) true CMiss false true true false false 0 false true 0 false in
  sent (serve q) = Some (RcodeNameError, true, 0%N) /\
  o_incs (serve q) = [KQueries; KType 1; KLocDefault; KCacheMissed; KRespAuth; KNxdomain] /\
  interleaving [[OpInc KQueries; OpExport]; [OpInc KQueries]] [OpInc KQueries; OpInc KQueries; OpExport].
Proof. exact counters_example. Qed.
Print Assumptions C19_counters_example.
