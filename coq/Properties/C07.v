(* C07 - Compilation is a deterministic, lossless function of the data file.
   Only statements closed by [exact]; proofs are in Proofs/CompilePipe.v (and, for
   ExecuteBatch, Proofs/Batch.v of C15).  The codec is a parameter:
     conv l       Codec.ConvertLn on line l        accum f   Codec.Acc.MarshalMap after the lines f
     feature      Codec.Features.MarshalMap
     records f    = flat_map conv f ++ accum f ++ feature, what the line-by-line codec emits
     spec_compile f k = the values records f holds for key k
   vals db k = what a reader gets for key k; all equalities are Permutation = multiset equality.
   sort_ok sort: sort returns a sorted permutation (sort.Slice); kvs_ok: values shorter than 2^32.
   Goroutine schedules: any stream that is a permutation of the records (C07_stream_is_permutation
   shows every stream of the parallel parser is one), any sort_ok sort, any order of the batches. *)
From DnsV Require Import Model.Compile Spec.MapOfLists Proofs.MultiValue Proofs.Batch Proofs.CompilePipe.
Open Scope N_scope.

(* every stream the worker pool can deliver (lines in any order, each line's records together,
   accumulator fed in any order and marshalled in any order, feature record last) is a
   permutation of the codec's records - if the accumulator ignores the order of the lines *)
Theorem C07_stream_is_permutation : forall line conv accum feature,
  (forall p f, Permutation p f -> Permutation (accum p) (accum f)) ->
  forall f s, is_stream line conv accum feature f s -> Permutation s (records line conv accum feature f).
Proof. exact stream_is_permutation. Qed.
Print Assumptions C07_stream_is_permutation.

(* builder: any stream, any sort, any minimum bucket size >= 1, any number of buckets >= 1 *)
Theorem C07_builder_lossless : forall line conv accum feature sort, sort_ok sort ->
  forall min_size nb f stream,
  1 <= min_size -> (1 <= nb)%nat -> feature <> [] -> accepted line conv f = true ->
  kvs_ok (records line conv accum feature f) -> Permutation stream (records line conv accum feature f) ->
  exists db, compile_builder line conv sort min_size nb f stream = Ok db /\ store_ok db /\
             forall k, Permutation (vals db k) (spec_compile line conv accum feature f k).
Proof. exact builder_lossless. Qed.
Print Assumptions C07_builder_lossless.

(* createBuckets on the sorted array: consecutive ranges from 0 to the end (chain), at most nb,
   none empty, their concatenation is the array, and no boundary lies between two equal keys
   (chain_cons: key_at (e - 1) <> key_at e at every inner boundary e) *)
Theorem C07_buckets_ok : forall (sorted : list kv) min_size nb, 1 <= min_size -> (1 <= nb)%nat -> sorted <> [] ->
  exists bks, create_buckets min_size nb (map fst sorted) = Ok bks /\ (length bks <= nb)%nat /\
    chain (map fst sorted) (nlen sorted) 0 bks /\
    let pieces := map (fun b => slice sorted (fst b) (snd b)) bks in
    concat pieces = sorted /\ Forall (fun p => p <> []) pieces.
Proof. exact buckets_ok. Qed.
Print Assumptions C07_buckets_ok.

(* batches: any batch size (<= 0 means 100000), the batches executed in any order *)
Theorem C07_batches_lossless : forall line conv accum feature sort, sort_ok sort ->
  forall bs f stream order,
  accepted line conv f = true -> kvs_ok (records line conv accum feature f) ->
  Permutation stream (records line conv accum feature f) -> Permutation order (batches bs stream) ->
  exists db, compile_batches line conv sort f order = Ok db /\ store_ok db /\
             forall k, Permutation (vals db k) (spec_compile line conv accum feature f k).
Proof. exact batches_lossless. Qed.
Print Assumptions C07_batches_lossless.

(* CDB: the Put sequence is the stream; a key's values are its values in the stream *)
Theorem C07_cdb_lossless : forall line conv accum feature f stream,
  accepted line conv f = true -> Permutation stream (records line conv accum feature f) ->
  compile_cdb line conv f stream = Ok stream /\
  forall k, Permutation (vals_of k stream) (spec_compile line conv accum feature f k).
Proof. exact cdb_lossless. Qed.
Print Assumptions C07_cdb_lossless.

(* any two RocksDB compilations of one file (builder or batches, any parameters, any schedule)
   hold the same multiset of values under every key *)
Theorem C07_setting_independent : forall line conv accum feature f db1 db2,
  feature <> [] -> kvs_ok (records line conv accum feature f) ->
  rdb_compilation line conv accum feature f db1 -> rdb_compilation line conv accum feature f db2 ->
  forall k, Permutation (vals db1 k) (vals db2 k).
Proof. exact setting_independent. Qed.
Print Assumptions C07_setting_independent.

(* a line the codec rejects fails every compiler under every setting *)
Theorem C07_reject_is_total : forall line (conv : line -> result (list kv)) f,
  (exists l e, In l f /\ conv l = Err e) ->
  (forall sort min_size nb stream, exists e, compile_builder line conv sort min_size nb f stream = Err e) /\
  (forall sort order, exists e, compile_batches line conv sort f order = Err e) /\
  (forall stream, exists e, compile_cdb line conv f stream = Err e).
Proof. exact reject_is_total. Qed.
Print Assumptions C07_reject_is_total.

(* the hypotheses hold for a concrete codec, file and settings; the bucket split of the example
   moves a boundary (3,6 -> 3,7) because equal keys meet at offset 6 *)
Example C07_example :
  let f := [1; 2; 3; 4; 6; 1] in
  let stream := records N ex_conv ex_accum ex_feature f in
  sort_ok kv_isort /\ accepted N ex_conv f = true /\ kvs_ok stream /\ ex_feature <> [] /\
  (forall p q, Permutation p q -> Permutation (ex_accum p) (ex_accum q)) /\
  (exists db, compile_builder N ex_conv kv_isort 2 3 f stream = Ok db /\
              vals db [1] = [[1]; [3]; [1]] /\ vals db [7] = [[3; 3]; [6; 6]] /\ vals db [5] = []) /\
  create_buckets 2 3 (map fst (kv_isort stream)) = Ok [(0, 3); (3, 7); (7, 10)] /\
  (exists db, compile_batches N ex_conv kv_isort f (rev (batches 3 stream)) = Ok db /\
              vals db [1] = [[1]; [1]; [3]] /\ vals db [0] = [[4]; [6]; [2]]) /\
  (exists e, compile_builder N ex_conv kv_isort 2 3 [1; 9; 2] stream = Err e).
Proof. exact compile_example. Qed.
Print Assumptions C07_example.

(* ---- on the BYTES of the data file.  read_file (Model/LineReader.v) is the line reader of parse():
   bufio.ScanLines tokens (split at LF, one trailing CR dropped), leading BLANKS removed - nothing
   else, in particular no TAB in front and no byte at the end of the line -, lines shorter than two
   bytes and lines starting with '#' skipped; conv is applied to exactly these lines; reader_fails: the
   scanner's token limit, see below.
   file_records conv accum feature data = records of (read_file data). *)
From DnsV Require Import Model.LineReader Proofs.LineReader.

Theorem C07_file_builder_lossless : forall conv accum feature sort, sort_ok sort -> forall min_size nb data stream,
  reader_fails data = false -> 1 <= min_size -> (1 <= nb)%nat -> feature <> [] -> accepted bytes conv (read_file data) = true ->
  kvs_ok (file_records conv accum feature data) -> Permutation stream (file_records conv accum feature data) ->
  exists db, compile_file_builder conv sort min_size nb data stream = Ok db /\ store_ok db /\
             forall k, Permutation (vals db k) (vals_of k (file_records conv accum feature data)).
Proof. exact file_builder_lossless. Qed.
Print Assumptions C07_file_builder_lossless.

Theorem C07_file_batches_lossless : forall conv accum feature sort, sort_ok sort -> forall bs data stream order,
  reader_fails data = false -> accepted bytes conv (read_file data) = true -> kvs_ok (file_records conv accum feature data) ->
  Permutation stream (file_records conv accum feature data) -> Permutation order (batches bs stream) ->
  exists db, compile_file_batches conv sort data order = Ok db /\ store_ok db /\
             forall k, Permutation (vals db k) (vals_of k (file_records conv accum feature data)).
Proof. exact file_batches_lossless. Qed.
Print Assumptions C07_file_batches_lossless.

Theorem C07_file_cdb_lossless : forall conv accum feature data stream,
  reader_fails data = false -> accepted bytes conv (read_file data) = true -> Permutation stream (file_records conv accum feature data) ->
  compile_file_cdb conv data stream = Ok stream /\
  forall k, Permutation (vals_of k stream) (vals_of k (file_records conv accum feature data)).
Proof. exact file_cdb_lossless. Qed.
Print Assumptions C07_file_cdb_lossless.

(* a scanner line that, with its leading blanks removed, is kept and rejected by the codec - e.g. a
   record line with a TAB in front - fails every compiler under every setting *)
Theorem C07_file_reject_is_total : forall conv data raw e,
  In raw (scan_lines data) -> line_kept (trim_left_blanks raw) = true -> conv (trim_left_blanks raw) = Err e ->
  (forall sort min_size nb stream, exists e', compile_file_builder conv sort min_size nb data stream = Err e') /\
  (forall sort order, exists e', compile_file_batches conv sort data order = Err e') /\
  (forall stream, exists e', compile_file_cdb conv data stream = Err e').
Proof. exact file_reject_is_total. Qed.
Print Assumptions C07_file_reject_is_total.

(* the scanner's token limit (bufio.MaxScanTokenSize = 65536, Go standard library): reader_fails data
   says some line of data has 65536 bytes or more before its newline (a trailing CR counts, so does a
   last line without newline).  Then every compiler fails under every setting - nothing is compiled
   from the lines before it. *)
Theorem C07_file_reader_error_is_total : forall conv data, reader_fails data = true ->
  (forall sort min_size nb stream, compile_file_builder conv sort min_size nb data stream = Err E_READER) /\
  (forall sort order, compile_file_batches conv sort data order = Err E_READER) /\
  (forall stream, compile_file_cdb conv data stream = Err E_READER).
Proof. exact file_reader_error_is_total. Qed.
Print Assumptions C07_file_reader_error_is_total.

(* an over-long line makes the reader fail whatever precedes it (nothing, or any bytes ending in a
   newline) and whatever follows it; a file of fewer than 65536 bytes never does *)
Theorem C07_long_line_anywhere_fails : forall pre line post, ~ In 10 line -> max_scan_token_size <= nlen line ->
  reader_fails (line ++ post) = true /\ reader_fails (pre ++ 10 :: line ++ post) = true.
Proof. exact long_line_anywhere. Qed.
Print Assumptions C07_long_line_anywhere_fails.

Theorem C07_short_file_is_read : forall data n, nlen data + n < max_scan_token_size -> reader_overflow data n = false.
Proof. exact short_file_fits. Qed.
Print Assumptions C07_short_file_is_read.

(* the reader removes leading blanks and nothing else; a line not starting with a blank passes unchanged *)
Theorem C07_reader_trims_leading_blanks_only : forall l, exists n,
  l = repeat 32 n ++ trim_left_blanks l /\
  match trim_left_blanks l with c :: _ => c <> 32 | [] => True end.
Proof. exact trim_left_blanks_spec. Qed.
Print Assumptions C07_reader_trims_leading_blanks_only.

Theorem C07_reader_lines : forall data l, In l (read_file data) <->
  exists raw, In raw (scan_lines data) /\ l = trim_left_blanks raw /\ line_kept l = true.
Proof. exact read_file_in. Qed.
Print Assumptions C07_reader_lines.

(* blanks in front go, a TAB in front stays, white space at the end stays (blank, TAB, NBSP), CRLF
   loses the CR, short lines and comments are skipped, TAB + '#' is a record line *)
Example C07_reader_example :
  read_file [32; 32; 43; 97; 44; 49; 32; 9; 13; 10;  9; 43; 97; 44; 49; 10;  35; 120; 10; 32; 35; 120; 10;
             9; 35; 120; 10;  32; 32; 10; 9; 10; 90; 10; 13; 10;  39; 120; 44; 194; 160]
  = [[43; 97; 44; 49; 32; 9]; [9; 43; 97; 44; 49]; [9; 35; 120]; [39; 120; 44; 194; 160]].
Proof. exact read_file_example. Qed.
Print Assumptions C07_reader_example.
