(* C11 - Weighted address selection is bounded, sound and proportional.
   Statements only, each closed by [exact]; proofs are in Proofs/Wrs.v (closed
   under the global context) and Proofs/WrsReal.v (Coquelicot; depends on the
   axioms of the standard library's real numbers, listed by Print Assumptions).

   K, klt, kpos: any key type with a strict order (Go < on the float64 keys)
   in which a key that is not > 0 lies below every key that is (keys >= 0).
   A: the identity of a declared record (its index / TTL and address); the
   NoDup premises say that the candidates are distinct records. *)
From Coq Require Import Reals.
From DnsV Require Import Base.Bytes Model.Wrs Proofs.Wrs Proofs.WrsReal.
Open Scope N_scope.

Definition key_order (K : Type) (klt : K -> K -> bool) (kpos : K -> bool) : Prop :=
  (forall a, klt a a = false)
  /\ (forall a b c, klt a b = true -> klt b c = true -> klt a c = true)
  /\ (forall z a, kpos z = false -> kpos a = true -> klt z a = true).

(* bounded and sound: for every list of rows handed to Wrs.Add, every key
   assignment and every max >= 1 the records of a family are drawn from the
   declared rows of that family, without repetition, none has key 0, and their
   number is min(max, number of rows of the family with a positive key) *)
Theorem C11_bounded_sound :
  forall K klt kpos A, key_order K klt kpos ->
  forall (rows : list (row K A)) max q,
    (1 <= max)%Z -> q = TypeA \/ q = TypeAAAA -> NoDup (map rpay rows) ->
    exists res, records kpos (feed klt max rows) q = Ok res
      /\ (forall it, In it res -> exists r, In r rows /\ rq r = q /\ rkey r = fst it /\ rpay r = snd it)
      /\ NoDup (map snd res)
      /\ (forall it, In it res -> kpos (fst it) = true)
      /\ length res = Nat.min (Z.to_nat max)
                        (length (filter (fun r : row K A => (rq r =? q) && kpos (rkey r)) rows)).
Proof. intros K klt kpos A (H1 & H2 & H3). exact (bounded_sound K klt kpos A H1 H2 H3). Qed.
Print Assumptions C11_bounded_sound.

(* the invariant behind it: the returned records are the top ones - no row of
   the family that is not returned has a key above a returned one (so with
   max = 1 the served record has the largest key: the link to proportionality) *)
Theorem C11_topk_selected :
  forall K klt kpos A, key_order K klt kpos ->
  forall (rows : list (row K A)) max q res,
    (1 <= max)%Z -> q = TypeA \/ q = TypeAAAA -> NoDup (map rpay rows) ->
    records kpos (feed klt max rows) q = Ok res ->
    forall r it, In r rows -> rq r = q -> ~ In (rpay r) (map snd res) -> In it res ->
      klt (fst it) (rkey r) = false.
Proof. intros K klt kpos A (H1 & H2 & H3). exact (topk_selected K klt kpos A H1 H2 H3). Qed.
Print Assumptions C11_topk_selected.

(* MaxAnswers <= 0 stores nothing *)
Theorem C11_nonpositive_max_serves_nothing :
  forall K klt A max (cs : list (item K A)), (max <= 0)%Z -> run klt max cs = [].
Proof. exact run_nonpositive_max. Qed.
Print Assumptions C11_nonpositive_max_serves_nothing.

(* keyof u w: the key computed from draw u and weight w; assumed only: when it
   is > 0 (dk_pos: weight 0 -> only for u = 2^32-1; weight > 0 -> unless u = 0;
   observed on every Add of the correspondence run).
   A weight-0 record whose draw is not 2^32-1 is never in the answer of
   FindAnswer, while recordFound is reported (no NXDOMAIN). *)
Theorem C11_zero_weight_never_served_but_found :
  forall K klt kpos A, key_order K klt kpos ->
  forall keyof : N -> N -> K, (forall u w, u <= maxU32 -> kpos (keyof u w) = dk_pos (u, w)) ->
  forall q max (lv : list (drow A)) rest d,
    q = TypeA \/ q = TypeAAAA -> NoDup (map (dpay A) lv) ->
    In d lv -> dq A d = q -> dw A d = 0 -> du A d < maxU32 ->
    let res := find_answer klt kpos q max (map (to_row K A keyof) lv :: rest) in
    ~ In (dpay A d) (fst (fst res)) /\ snd res = true /\ nxdomain res = false.
Proof.
  intros K klt kpos A (H1 & H2 & H3) keyof Hk.
  exact (zero_weight_not_served_but_found K klt kpos A H1 H2 keyof Hk).
Qed.
Print Assumptions C11_zero_weight_never_served_but_found.

(* finding F18 (a): without the premise du < 2^32-1 the clause is false - the
   draw 2^32-1 makes a weight-0 record the answer *)
Theorem C11_zero_weight_never_served_refuted :
  forall K klt kpos A,
  forall keyof : N -> N -> K, (forall u w, u <= maxU32 -> kpos (keyof u w) = dk_pos (u, w)) ->
  forall a : A,
    exists (lv : list (drow A)) d, In d lv /\ dw A d = 0 /\ dq A d = TypeA /\
      In (dpay A d) (fst (fst (find_answer klt kpos TypeA 1 [map (to_row K A keyof) lv]))).
Proof. exact zero_weight_served_refuted. Qed.
Print Assumptions C11_zero_weight_never_served_refuted.

(* outside F18 (no draw is 0 or 2^32-1) the count is by weight:
   exactly min(max, number of positive-weight candidates) *)
Theorem C11_count_by_weight_outside_F18 :
  forall K klt kpos A, key_order K klt kpos ->
  forall keyof : N -> N -> K, (forall u w, u <= maxU32 -> kpos (keyof u w) = dk_pos (u, w)) ->
  forall (lv : list (drow A)) max q,
    (1 <= max)%Z -> q = TypeA \/ q = TypeAAAA -> NoDup (map (dpay A) lv) ->
    Forall (in_open_range A) lv ->
    exists res, records kpos (feed klt max (map (to_row K A keyof) lv)) q = Ok res
      /\ length res = Nat.min (Z.to_nat max)
                        (length (filter (fun d : drow A => (dq A d =? q) && (0 <? dw A d)) lv)).
Proof.
  intros K klt kpos A (H1 & H2 & H3) keyof Hk.
  exact (count_by_weight_outside_F18 K klt kpos A H1 H2 H3 keyof Hk).
Qed.
Print Assumptions C11_count_by_weight_outside_F18.

(* the whole bounded/sound clause at the level of weights, outside F18 *)
Theorem C11_bounded_sound_outside_F18 :
  forall K klt kpos A, key_order K klt kpos ->
  forall keyof : N -> N -> K, (forall u w, u <= maxU32 -> kpos (keyof u w) = dk_pos (u, w)) ->
  forall (lv : list (drow A)) max q,
    (1 <= max)%Z -> q = TypeA \/ q = TypeAAAA -> NoDup (map (dpay A) lv) ->
    Forall (in_open_range A) lv ->
    exists res, records kpos (feed klt max (map (to_row K A keyof) lv)) q = Ok res
      /\ (forall it, In it res -> exists d, In d lv /\ dq A d = q /\ dpay A d = snd it /\ 0 < dw A d)
      /\ NoDup (map snd res)
      /\ length res = Nat.min (Z.to_nat max)
                        (length (filter (fun d : drow A => (dq A d =? q) && (0 <? dw A d)) lv)).
Proof.
  intros K klt kpos A (H1 & H2 & H3) keyof Hk.
  exact (bounded_sound_outside_F18 K klt kpos A H1 H2 H3 keyof Hk).
Qed.
Print Assumptions C11_bounded_sound_outside_F18.

(* finding F18 (b): the draw 0 gives a positive-weight record key 0: the only
   candidate is dropped, so "exactly min(max, #positive-weight)" is false *)
Theorem C11_count_by_weight_refuted :
  forall K klt kpos A,
  forall keyof : N -> N -> K, (forall u w, u <= maxU32 -> kpos (keyof u w) = dk_pos (u, w)) ->
  forall a : A,
    exists (lv : list (drow A)) max, (1 <= max)%Z /\ NoDup (map (dpay A) lv) /\
      records kpos (feed klt max (map (to_row K A keyof) lv)) TypeA = Ok []
      /\ length (filter (fun d : drow A => (dq A d =? TypeA) && (0 <? dw A d)) lv) = 1%nat.
Proof. exact positive_weight_dropped_refuted. Qed.
Print Assumptions C11_count_by_weight_refuted.

(* additional section (one NS/MX target, Wrs{MaxAnswers: 1}): at most one A and
   one AAAA, each a declared visible record of the target with a positive key,
   exactly one when the family is wanted and has such a record *)
Theorem C11_additional_max_one :
  forall K klt kpos A, key_order K klt kpos ->
  forall want4 want6 (rows : list (row K A)) r6 r4 wt,
    additional klt kpos want4 want6 rows = (r6, r4, wt) ->
    length r4 = (if want4 then Nat.min 1 (length (filter (fun r : row K A => (rq r =? TypeA) && kpos (rkey r)) rows)) else 0%nat)
    /\ length r6 = (if want6 then Nat.min 1 (length (filter (fun r : row K A => (rq r =? TypeAAAA) && kpos (rkey r)) rows)) else 0%nat)
    /\ (forall a, In a r4 -> exists r, In r rows /\ rq r = TypeA /\ rpay r = a /\ kpos (rkey r) = true)
    /\ (forall a, In a r6 -> exists r, In r rows /\ rq r = TypeAAAA /\ rpay r = a /\ kpos (rkey r) = true).
Proof. intros K klt kpos A (H1 & H2 & H3). exact (additional_max_one K klt kpos A H1 H2 H3). Qed.
Print Assumptions C11_additional_max_one.

(* the whole additional section, want4/want6 computed by HasRecord for every
   NS/MX record (a target may be named by several records, or already have an
   address in the message): for every owner name and family the final message
   holds at most one such record more than before, and none more if it already
   held one: count_after <= max 1 count_before *)
Theorem C11_additional_section_one_per_family :
  forall K klt kpos A, key_order K klt kpos ->
  forall (targets : list (N * list (row K A))) msg es wt m,
    additional_section klt kpos msg targets = (es, wt, m) ->
    m = msg ++ map fst es
    /\ forall name q, q = TypeA \/ q = TypeAAAA ->
         (cnt m name q <= Nat.max 1 (cnt msg name q))%nat.
Proof. intros K klt kpos A (H1 & H2 & H3). exact (additional_section_one_per_family K klt kpos A H1 H2 H3). Qed.
Print Assumptions C11_additional_section_one_per_family.

(* the hypotheses are satisfiable (ranks) and the model computes non-trivially *)
Example C11_key_order_satisfiable : key_order N rk_lt rk_pos.
Proof. exact (conj rk_irrefl (conj rk_trans rk_zero_below)). Qed.
Print Assumptions C11_key_order_satisfiable.

Example C11_model_example :
  records rk_pos (feed rk_lt 3 [mkRow 1 5 10; mkRow 1 0 11; mkRow 28 4 20; mkRow 1 9 12; mkRow 1 2 13; mkRow 1 9 14; mkRow 1 7 15]) 1
  = Ok [(7, 15); (9, 14); (9, 12)].
Proof. exact wrs_example. Qed.
Print Assumptions C11_model_example.

(* proportionality, PARTIAL: the integral identity for natural-number weights
   (the weight field is a uint32) and the distribution function of a key.
   The reading as a probability (independent continuous uniform draws, exact
   Pow, the shared locked generator) is assumed, not proved: Proofs/WrsReal.v. *)
From Coquelicot Require Import Coquelicot.
Open Scope R_scope.
Theorem C11_proportional_partial :
  forall (ws : list nat) (i : nat),
    (i < length ws)%nat -> (1 <= nth i ws 0%nat)%nat ->
    RInt (fun x => INR (nth i ws 0%nat) * x ^ (nth i ws 0%nat - 1) * prodpow (others_of i ws) x) 0 1
    = INR (nth i ws 0%nat) / INR (list_sum ws).
Proof. exact proportional. Qed.
Print Assumptions C11_proportional_partial.

Theorem C11_key_cdf_set_partial :
  forall u x w, 0 <= u <= 1 -> 0 <= x <= 1 -> (1 <= w)%nat ->
    (wkey u w <= x <-> u <= x ^ w).
Proof. exact key_cdf_set. Qed.
Print Assumptions C11_key_cdf_set_partial.
