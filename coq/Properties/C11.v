(* C11 - Weighted address selection is bounded, sound and proportional.
   Statements only, each closed by [exact]; proofs are in Proofs/Wrs.v (closed
   under the global context) and Proofs/WrsReal.v (Coquelicot; depends on the
   axioms of the standard library's real numbers, listed by Print Assumptions).

   K, klt, kpos: any key type with a strict order (Go < on the float64 keys)
   in which a key that is not > 0 lies below every key that is (keys >= 0).
   A: the identity of a declared record (its index / TTL and address); the
   NoDup premises say that the candidates are distinct records. *)
From Coq Require Import Reals.
From DnsV Require Import Base.Bytes Model.Wrs Proofs.Wrs Proofs.WrsReal.
Open Scope N_scope.

Definition key_order (K : Type) (klt : K -> K -> bool) (kpos : K -> bool) : Prop :=
  (forall a, klt a a = false)
  /\ (forall a b c, klt a b = true -> klt b c = true -> klt a c = true)
  /\ (forall z a, kpos z = false -> kpos a = true -> klt z a = true).

(* bounded and sound: for every list of rows handed to Wrs.Add, every key
   assignment and every max >= 1 the records of a family are drawn from the
   declared rows of that family, without repetition, none has key 0, and their
   number is min(max, number of rows of the family with a positive key) *)
Theorem C11_bounded_sound :
  forall K klt kpos A, key_order K klt kpos ->
  forall (rows : list (row K A)) max q,
    (1 <= max)%Z -> q = TypeA \/ q = TypeAAAA -> NoDup (map rpay rows) ->
    exists res, records kpos (feed klt max rows) q = Ok res
      /\ (forall it, In it res -> exists r, In r rows /\ rq r = q /\ rkey r = fst it /\ rpay r = snd it)
      /\ NoDup (map snd res)
      /\ (forall it, In it res -> kpos (fst it) = true)
      /\ length res = Nat.min (Z.to_nat max)
                        (length (filter (fun r : row K A => (rq r =? q) && kpos (rkey r)) rows)).
Proof. intros K klt kpos A (H1 & H2 & H3). exact (bounded_sound K klt kpos A H1 H2 H3). Qed.
Print Assumptions C11_bounded_sound.

(* the invariant behind it: the returned records are the top ones - no row of
   the family that is not returned has a key above a returned one (so with
   max = 1 the served record has the largest key: the link to proportionality) *)
Theorem C11_topk_selected :
  forall K klt kpos A, key_order K klt kpos ->
  forall (rows : list (row K A)) max q res,
    (1 <= max)%Z -> q = TypeA \/ q = TypeAAAA -> NoDup (map rpay rows) ->
    records kpos (feed klt max rows) q = Ok res ->
    forall r it, In r rows -> rq r = q -> ~ In (rpay r) (map snd res) -> In it res ->
      klt (fst it) (rkey r) = false.
Proof. intros K klt kpos A (H1 & H2 & H3). exact (topk_selected K klt kpos A H1 H2 H3). Qed.
Print Assumptions C11_topk_selected.

(* MaxAnswers <= 0 stores nothing *)
Theorem C11_nonpositive_max_serves_nothing :
  forall K klt A max (cs : list (item K A)), (max <= 0)%Z -> run klt max cs = [].
Proof. exact run_nonpositive_max. Qed.
Print Assumptions C11_nonpositive_max_serves_nothing.

(* keyof u w: the key computed from draw u and weight w; assumed only: when it
   is > 0 (dk_pos: weight 0 -> only for u = 2^32-1; weight > 0 -> unless u = 0;
   observed on every Add of the correspondence run).
   A weight-0 record whose draw is not 2^32-1 is never in the answer of
   FindAnswer, while recordFound is reported (no NXDOMAIN). *)
Theorem C11_zero_weight_never_served_but_found :
  forall K klt kpos A, key_order K klt kpos ->
  forall keyof : N -> N -> K, (forall u w, u <= maxU32 -> kpos (keyof u w) = dk_pos (u, w)) ->
  forall q max (lv : list (drow A)) rest d,
    q = TypeA \/ q = TypeAAAA -> NoDup (map (dpay A) lv) ->
    In d lv -> dq A d = q -> dw A d = 0 -> du A d < maxU32 ->
    let res := find_answer klt kpos q max (map (to_row K A keyof) lv :: rest) in
    ~ In (dpay A d) (fst (fst res)) /\ snd res = true /\ nxdomain res = false.
Proof.
  intros K klt kpos A (H1 & H2 & H3) keyof Hk.
  exact (zero_weight_not_served_but_found K klt kpos A H1 H2 keyof Hk).
Qed.
Print Assumptions C11_zero_weight_never_served_but_found.

(* finding F18 (a): without the premise du < 2^32-1 the clause is false - the
   draw 2^32-1 makes a weight-0 record the answer *)
Theorem C11_zero_weight_never_served_refuted :
  forall K klt kpos A,
  forall keyof : N -> N -> K, (forall u w, u <= maxU32 -> kpos (keyof u w) = dk_pos (u, w)) ->
  forall a : A,
    exists (lv : list (drow A)) d, In d lv /\ dw A d = 0 /\ dq A d = TypeA /\
      In (dpay A d) (fst (fst (find_answer klt kpos TypeA 1 [map (to_row K A keyof) lv]))).
Proof. exact zero_weight_served_refuted. Qed.
Print Assumptions C11_zero_weight_never_served_refuted.

(* outside F18 (no draw is 0 or 2^32-1) the count is by weight:
   exactly min(max, number of positive-weight candidates) *)
Theorem C11_count_by_weight_outside_F18 :
  forall K klt kpos A, key_order K klt kpos ->
  forall keyof : N -> N -> K, (forall u w, u <= maxU32 -> kpos (keyof u w) = dk_pos (u, w)) ->
  forall (lv : list (drow A)) max q,
    (1 <= max)%Z -> q = TypeA \/ q = TypeAAAA -> NoDup (map (dpay A) lv) ->
    Forall (in_open_range A) lv ->
    exists res, records kpos (feed klt max (map (to_row K A keyof) lv)) q = Ok res
      /\ length res = Nat.min (Z.to_nat max)
                        (length (filter (fun d : drow A => (dq A d =? q) && (0 <? dw A d)) lv)).
Proof.
  intros K klt kpos A (H1 & H2 & H3) keyof Hk.
  exact (count_by_weight_outside_F18 K klt kpos A H1 H2 H3 keyof Hk).
Qed.
Print Assumptions C11_count_by_weight_outside_F18.

(* the whole bounded/sound clause at the level of weights, outside F18 *)
Theorem C11_bounded_sound_outside_F18 :
  forall K klt kpos A, key_order K klt kpos ->
  forall keyof : N -> N -> K, (forall u w, u <= maxU32 -> kpos (keyof u w) = dk_pos (u, w)) ->
  forall (lv : list (drow A)) max q,
    (1 <= max)%Z -> q = TypeA \/ q = TypeAAAA -> NoDup (map (dpay A) lv) ->
    Forall (in_open_range A) lv ->
    exists res, records kpos (feed klt max (map (to_row K A keyof) lv)) q = Ok res
      /\ (forall it, In it res -> exists d, In d lv /\ dq A d = q /\ dpay A d = snd it /\ 0 < dw A d)
      /\ NoDup (map snd res)
      /\ length res = Nat.min (Z.to_nat max)
                        (length (filter (fun d : drow A => (dq A d =? q) && (0 <? dw A d)) lv)).
Proof.
  intros K klt kpos A (H1 & H2 & H3) keyof Hk.
  exact (bounded_sound_outside_F18 K klt kpos A H1 H2 H3 keyof Hk).
Qed.
Print Assumptions C11_bounded_sound_outside_F18.

(* finding F18 (b): the draw 0 gives a positive-weight record key 0: the only
   candidate is dropped, so "exactly min(max, #positive-weight)" is false *)
Theorem C11_count_by_weight_refuted :
  forall K klt kpos A,
  forall keyof : N -> N -> K, (forall u w, u <= maxU32 -> kpos (keyof u w) = dk_pos (u, w)) ->
  forall a : A,
    exists (lv : list (drow A)) max, (1 <= max)%Z /\ NoDup (map (dpay A) lv) /\
      records kpos (feed klt max (map (to_row K A keyof) lv)) TypeA = Ok []
      /\ length (filter (fun d : drow A => (dq A d =? TypeA) && (0 <? dw A d)) lv) = 1%nat.
Proof. exact positive_weight_dropped_refuted. Qed.
Print Assumptions C11_count_by_weight_refuted.

(* additional section (one NS/MX target, Wrs{MaxAnswers: 1}): at most one A and
   one AAAA, each a declared visible record of the target with a positive key,
   exactly one when the family is wanted and has such a record *)
Theorem C11_additional_max_one :
  forall K klt kpos A, key_order K klt kpos ->
  forall want4 want6 (rows : list (row K A)) r6 r4 wt,
    additional klt kpos want4 want6 rows = (r6, r4, wt) ->
    length r4 = (if want4 then Nat.min 1 (length (filter (fun r : row K A => (rq r =? TypeA) && kpos (rkey r)) rows)) else 0%nat)
    /\ length r6 = (if want6 then Nat.min 1 (length (filter (fun r : row K A => (rq r =? TypeAAAA) && kpos (rkey r)) rows)) else 0%nat)
    /\ (forall a, In a r4 -> exists r, In r rows /\ rq r = TypeA /\ rpay r = a /\ kpos (rkey r) = true)
    /\ (forall a, In a r6 -> exists r, In r rows /\ rq r = TypeAAAA /\ rpay r = a /\ kpos (rkey r) = true).
Proof. intros K klt kpos A (H1 & H2 & H3). exact (additional_max_one K klt kpos A H1 H2 H3). Qed.
Print Assumptions C11_additional_max_one.

(* the whole additional section, want4/want6 computed by HasRecord for every
   NS/MX record (a target may be named by several records, or already have an
   address in the message): for every owner name and family the final message
   holds at most one such record more than before, and none more if it already
   held one: count_after <= max 1 count_before *)
Theorem C11_additional_section_one_per_family :
  forall K klt kpos A, key_order K klt kpos ->
  forall (targets : list (N * list (row K A))) msg es wt m,
    additional_section klt kpos msg targets = (es, wt, m) ->
    m = msg ++ map fst es
    /\ forall name q, q = TypeA \/ q = TypeAAAA ->
         (cnt m name q <= Nat.max 1 (cnt msg name q))%nat.
Proof. intros K klt kpos A (H1 & H2 & H3). exact (additional_section_one_per_family K klt kpos A H1 H2 H3). Qed.
Print Assumptions C11_additional_section_one_per_family.

(* the hypotheses are satisfiable (ranks) and the model computes non-trivially *)
Example C11_key_order_satisfiable : key_order N rk_lt rk_pos.
Proof. exact (conj rk_irrefl (conj rk_trans rk_zero_below)). Qed.
Print Assumptions C11_key_order_satisfiable.

Example C11_model_example :
  records rk_pos (feed rk_lt 3 [mkRow 1 5 10; mkRow 1 0 11; mkRow 28 4 20; mkRow 1 9 12; mkRow 1 2 13; mkRow 1 9 14; mkRow 1 7 15]) 1
  = Ok [(7, 15); (9, 14); (9, 12)].
Proof. exact wrs_example. Qed.
Print Assumptions C11_model_example.

(* proportionality, PARTIAL: the integral identity for natural-number weights
   (the weight field is a uint32) and the distribution function of a key.
   The reading as a probability (independent continuous uniform draws, exact
   Pow, the shared locked generator) is assumed, not proved: Proofs/WrsReal.v. *)
From Coquelicot Require Import Coquelicot.
Open Scope R_scope.
Theorem C11_proportional_partial :
  forall (ws : list nat) (i : nat),
    (i < length ws)%nat -> (1 <= nth i ws 0%nat)%nat ->
    RInt (fun x => INR (nth i ws 0%nat) * x ^ (nth i ws 0%nat - 1) * prodpow (others_of i ws) x) 0 1
    = INR (nth i ws 0%nat) / INR (list_sum ws).
Proof. exact proportional. Qed.
Print Assumptions C11_proportional_partial.

Theorem C11_key_cdf_set_partial :
  forall u x w, 0 <= u <= 1 -> 0 <= x <= 1 -> (1 <= w)%nat ->
    (wkey u w <= x <-> u <= x ^ w).
Proof. exact key_cdf_set. Qed.
Print Assumptions C11_key_cdf_set_partial.

(* ================================================================== C11 x C01: the weighted sample INSIDE the served answer
   (Model/ComposeMore.v, Proofs/LinkWrsServe.v).  Model/Serve.v writes an A / AAAA answer as an item
   [IPick owner ty cls cands n] (candidates in reader order, number served; no draw) and C01 characterises the
   candidates as the declared visible address records.  [realise K klt kpos keyof dr max x] runs the Wrs model above
   ([feed] = Wrs.Add for every candidate, [records] = Wrs.ARecord / AAAARecord) on EVERY pick of the response x under
   the key assignment [dr] (section, position of the pick, index of the candidate -> Uint32 draw; key =
   [keyof draw weight]; MaxAnswers = the query's max answer in the answer section, 1 in the additional section) and
   returns the response with plain records in all sections ([cresponse]: c_rcode, c_an, c_ns, c_ex ...).
   Vocabulary of C01 (Properties/C01.v): [recs] declared records, [spec_response], [wf_recs], [wf_ns_rdata],
   [wf_view], [wf_name], [store_v1]; [addr_records L recs t ty] (Spec/AnswerExtra): the declared, visible,
   non-wildcard records of family ty of the name t.
   [family_sound max fam chosen]: chosen are pairwise distinct records among fam (fam = chosen + rest as multisets),
   all of positive weight, exactly min(max, number of positive weights in fam) many.
   [rr_of_rec owner 1 r]: the record r as served (owner as queried, class IN, declared type, TTL, rdata).
   Outside F18 = no draw is 0 or 2^32-1 (C11_zero_weight_never_served_refuted, C11_count_by_weight_refuted). *)
Close Scope R_scope.
Open Scope N_scope.
From Coq Require Import Permutation.
From DnsV Require Import Model.Store Model.LookupV1 Model.Serve Spec.Answer Spec.Rows Spec.AnswerExtra.
From DnsV Require Import Proofs.Compile Proofs.ZoneCut Proofs.Referral Proofs.AnswerItems Proofs.V2Store.
From DnsV Require Model.Compose Proofs.Compose.
From DnsV Require Import Model.ComposeMore Proofs.LinkWrsServe Proofs.LinkWrsServeExample.

Theorem C11_family_sound_meaning : forall max fam chosen,
  family_sound max fam chosen <->
  ((exists rest, Permutation (chosen ++ rest) fam) /\
   List.Forall (fun r => 0 < r_weight r) chosen /\
   nlen chosen = N.min max (nlen (filter (fun r => 0 <? r_weight r) fam))).
Proof. intros. apply iff_refl. Qed.
Print Assumptions C11_family_sound_meaning.

(* C11_served_addresses_sound.  For every well-formed record set, location, query and max answer (the guards of
   C01_response_is_spec) and every key assignment outside the F18 corner draws, the realised response y satisfies,
   by response class of Spec/Answer.spec_response:
   - Answer z nx ans soa (authoritative): rcode 3 iff nx, and NOERROR whenever the spec selects any record for the
     name and type - in particular when only weight-0 addresses exist (then the answer has no address: count
     min(max, 0) = 0 - but the name is reported existing);  the answer section is: the selected non-address records
     in some order, then A records [chosen4], then AAAA records [chosen6], where chosen4 / chosen6 are pairwise
     distinct declared visible address records of the queried name (or covering wildcard) of that family
     ([of_type ty ans]), none of weight 0, exactly min(max, number with positive weight) of them; the number of
     answer records is the number Model/Serve announced ([item_count]); with an empty answer exactly one declared
     SOA in the authority section, else none;
   - Referral z nsr (not DS): NOERROR, empty answer, the NS records of the cut;
   - Refused: rcode 5 and three empty sections;
   - additional section (Answer and Referral): a list [chosen] of (target t, family ty, record r), one per record,
     each r a declared visible non-wildcard address record of t of family ty with positive weight, t the target of
     an NS / MX record (owner of an HTTPS record) of the answer or authority section, at most one per target and
     family (NoDup) and none for a (target, family) of which the answer or authority section already holds a record. *)
Theorem C11_served_addresses_sound :
  forall K klt kpos, key_order K klt kpos ->
  forall keyof : N -> N -> K, (forall u w, u <= maxU32 -> kpos (keyof u w) = dk_pos (u, w)) ->
  forall b recs L, wf_recs recs -> List.Forall wf_ns_rdata recs -> length L = 2%nat -> b <> RDB2 -> wf_view L recs = true ->
  forall q n ecs max x (dr : draws),
  wf_name n -> nlen (pack n) <= 255 -> lower_bytes (q_name q) = pack n -> (q_edns q = None \/ q_edns q = Some 0) ->
  serve b (store_v1 recs) q (LocOk L) ecs max = OReply x ->
  (forall s i j, 0 < dr s i j < maxU32) ->
  let y := realise K klt kpos keyof dr max x in
  let extras_ok :=
    exists chosen : list (bytes * N * record),
      c_ex y = map (fun c => mkRR (fst (fst c)) (snd (fst c)) (q_class q) (r_ttl (snd c)) (r_rdata (snd c))) chosen /\
      NoDup (map fst chosen) /\
      List.Forall (fun c => let t := fst (fst c) in let ty := snd (fst c) in let r := snd c in
                (ty = 1 \/ ty = 28) /\
                In r (addr_records L recs t ty) /\
                0 < r_weight r /\
                (exists it, In it (rs_an x ++ rs_ns x) /\ target_of it = Some t) /\
                (forall r', In r' (c_an y ++ c_ns y) -> (rr_owner r', rr_type r') <> (t, ty))) chosen in
  c_id y = q_id q /\ c_question y = question_of q /\ c_rcode y = rs_rcode x /\ c_aa y = rs_aa x /\
  match spec_response L recs n (q_type q) with
  | Refused => c_rcode y = 5 /\ c_an y = [] /\ c_ns y = [] /\ c_ex y = [] /\ nlen (c_an y) = item_count (rs_an x)
  | Referral z nsr =>
      q_type q <> 43 ->
      c_rcode y = 0 /\ c_an y = [] /\ nlen (c_an y) = item_count (rs_an x) /\
      (exists ord, Permutation ord nsr /\
                   c_ns y = map (fun r => mkRR (pack z) 2 (q_class q) (r_ttl r) (r_rdata r)) ord) /\
      extras_ok
  | Answer z nx ans soa =>
      c_rcode y = (if nx then 3 else 0) /\ (ans <> [] -> c_rcode y = 0) /\
      nlen (c_an y) = item_count (rs_an x) /\
      (exists others chosen4 chosen6,
         c_an y = map (rr_of_rec (q_name q) 1) (others ++ chosen4 ++ chosen6) /\
         Permutation others (filter (fun r => negb (is_addr_rec r)) ans) /\
         family_sound max (of_type 1 ans) chosen4 /\
         family_sound max (of_type 28 ans) chosen6) /\
      (match c_an y with
       | nil => exists r, In r soa /\ c_ns y = (mkRR (pack z) 6 1 (r_ttl r) (r_rdata r) :: nil)
       | _ => c_ns y = []
       end) /\
      extras_ok
  end.
Proof. intros K klt kpos (H1 & H2 & H3). exact (served_addresses_sound_v1 K klt kpos H1 H2 H3). Qed.
Print Assumptions C11_served_addresses_sound.

(* [served_addresses_sound L recs n q ecs max x y] (used below) is literally that conclusion *)
Theorem C11_served_addresses_sound_meaning : forall L recs n q ecs max x y,
  served_addresses_sound L recs n q ecs max x y <->
  (let extras_ok := extras_realised_sound L recs (q_class q) (rs_an x) (rs_ns x) y in
   c_id y = q_id q /\ c_question y = question_of q /\ c_rcode y = rs_rcode x /\ c_aa y = rs_aa x /\
   match spec_response L recs n (q_type q) with
   | Refused => c_rcode y = 5 /\ c_an y = [] /\ c_ns y = [] /\ c_ex y = [] /\ nlen (c_an y) = item_count (rs_an x)
   | Referral z nsr =>
       q_type q <> 43 ->
       c_rcode y = 0 /\ c_an y = [] /\ nlen (c_an y) = item_count (rs_an x) /\
       (exists ord, Permutation ord nsr /\ c_ns y = map (ns_rr (pack z) (q_class q)) ord) /\
       extras_ok
   | Answer z nx ans soa =>
       c_rcode y = (if nx then 3 else 0) /\ (ans <> [] -> c_rcode y = 0) /\
       nlen (c_an y) = item_count (rs_an x) /\
       (exists others chosen4 chosen6,
          c_an y = map (rr_of_rec (q_name q) 1) (others ++ chosen4 ++ chosen6) /\
          Permutation others (filter (fun r => negb (is_addr_rec r)) ans) /\
          family_sound max (of_type 1 ans) chosen4 /\
          family_sound max (of_type 28 ans) chosen6) /\
       (match c_an y with
        | nil => exists r, In r soa /\ c_ns y = (soa_rr (pack z) r :: nil)
        | _ => c_ns y = []
        end) /\
       extras_ok
   end).
Proof. intros. apply iff_refl. Qed.
Print Assumptions C11_served_addresses_sound_meaning.

(* the same for the closest-key reader over the v2-keyed store (C01_response_is_spec_v2) *)
Theorem C11_served_addresses_sound_v2 :
  forall K klt kpos, key_order K klt kpos ->
  forall keyof : N -> N -> K, (forall u w, u <= maxU32 -> kpos (keyof u w) = dk_pos (u, w)) ->
  forall recs L, wf_recs recs -> List.Forall wf_ns_rdata recs -> length L = 2%nat -> wf_view L recs = true ->
  forall q n ecs max x (dr : draws),
  wf_name n -> nlen (pack n) <= 255 -> lower_bytes (q_name q) = pack n -> (q_edns q = None \/ q_edns q = Some 0) ->
  serve RDB2 (store_v2 recs) q (LocOk L) ecs max = OReply x ->
  (forall s i j, 0 < dr s i j < maxU32) ->
  served_addresses_sound L recs n q ecs max x (realise K klt kpos keyof dr max x).
Proof. intros K klt kpos (H1 & H2 & H3). exact (served_addresses_sound_v2 K klt kpos H1 H2 H3). Qed.
Print Assumptions C11_served_addresses_sound_v2.

(* ... and for every database form of Proofs/Compose.gen_declares (C12_gen_declares_meaning): the two row-level
   compilations and EVERYTHING the modelled compilers produce from the text of a well-formed data file whose
   declared records are recs - CDB from any record stream, RocksDB by builder or batches, v1 or v2 keys
   (C01_file_level) *)
Theorem C11_served_addresses_sound_file_level :
  forall K klt kpos, key_order K klt kpos ->
  forall keyof : N -> N -> K, (forall u w, u <= maxU32 -> kpos (keyof u w) = dk_pos (u, w)) ->
  forall g L recs, Proofs.Compose.gen_declares g L recs ->
  forall q n ecs max x (dr : draws),
  wf_name n -> nlen (pack n) <= 255 -> lower_bytes (q_name q) = pack n -> (q_edns q = None \/ q_edns q = Some 0) ->
  serve (Model.Compose.g_backend g) (Model.Compose.g_store g) q (LocOk L) ecs max = OReply x ->
  (forall s i j, 0 < dr s i j < maxU32) ->
  served_addresses_sound L recs n q ecs max x (realise K klt kpos keyof dr max x).
Proof. intros K klt kpos (H1 & H2 & H3). exact (served_addresses_sound_gen K klt kpos H1 H2 H3). Qed.
Print Assumptions C11_served_addresses_sound_file_level.

(* the core, independent of the backend: ANY response that refines the spec (C01_response_refines_meaning) realises
   soundly *)
Theorem C11_realise_refines :
  forall K klt kpos, key_order K klt kpos ->
  forall keyof : N -> N -> K, (forall u w, u <= maxU32 -> kpos (keyof u w) = dk_pos (u, w)) ->
  forall L recs n q ecs max x (dr : draws),
  Proofs.FileLevel.response_refines L recs n q ecs max x ->
  (forall s i j, 0 < dr s i j < maxU32) ->
  served_addresses_sound L recs n q ecs max x (realise K klt kpos keyof dr max x).
Proof. intros K klt kpos (H1 & H2 & H3). exact (realise_refines K klt kpos H1 H2 H3). Qed.
Print Assumptions C11_realise_refines.

(* the additional section in the counting form of C11_additional_section_one_per_family, on the realised message:
   for every owner name and family the whole message holds at most one such record more than answer + authority,
   and none more if they already hold one *)
Theorem C11_served_additional_one_per_family : forall L recs qc an ns y,
  extras_realised_sound L recs qc an ns y ->
  forall t ty, (kcount t ty (c_an y ++ c_ns y ++ c_ex y) <= Nat.max 1 (kcount t ty (c_an y ++ c_ns y)))%nat.
Proof. exact realised_one_per_family. Qed.
Print Assumptions C11_served_additional_one_per_family.

(* non-vacuity (ranks as keys, the key of a record = its draw): zone z. with NS n.z. (two visible addresses, one
   for the client's location ab); a.z. with A records of weights 1, 0, 2, 5 and a weight-0 AAAA; w.z. with a
   weight-0 A only.  ANY a.z. with max answer 2 serves the two positive-weight A records with the largest keys and
   no AAAA; A w.z. is NOERROR with an empty answer and the SOA; NS z. gets ONE address of n.z. in the additional
   section; the draws are in the open range.
   The values e_recs, e_q1..3, e_x1 (the Serve outcome with its IPick), e_y1..3 (the realised responses) are spelled
   out in Proofs/LinkWrsServeExample.v (list literals do not parse here after the Coquelicot import) *)
Example C11_served_addresses_example :
  wf_view e_L e_recs = true /\
  lower_bytes (q_name e_q1) = pack e_n1 /\
  serve CDB (store_v1 e_recs) e_q1 (LocOk e_L) None 2 = OReply e_x1 /\
  (forall x, serve CDB (store_v1 e_recs) e_q1 (LocOk e_L) None 2 = OReply x ->
     realise N rk_lt rk_pos draw_key e_dr 2 x = e_y1) /\
  (forall x, serve CDB (store_v1 e_recs) e_q2 (LocOk e_L) None 2 = OReply x ->
     realise N rk_lt rk_pos draw_key e_dr 2 x = e_y2) /\
  (forall x, serve CDB (store_v1 e_recs) e_q3 (LocOk e_L) None 2 = OReply x ->
     realise N rk_lt rk_pos draw_key e_dr 2 x = e_y3) /\
  (forall s i j, 0 < e_dr s i j < maxU32).
Proof. exact served_addresses_example. Qed.
Print Assumptions C11_served_addresses_example.

Example C11_draw_key_satisfiable : forall u w, u <= maxU32 -> rk_pos (draw_key u w) = dk_pos (u, w).
Proof. exact draw_key_pos. Qed.
Print Assumptions C11_draw_key_satisfiable.

(* one Wrs per pick versus Go's one Wrs per target.  db.AdditionalSectionForRecords uses ONE Wrs{MaxAnswers: 1} per
   NS / MX target for both families ([additional] above: rows of a family are added only if the family is wanted,
   the AAAA record is emitted before the A record); [realise] runs one Wrs per IPick, i.e. per family.  They agree:
   the realised AAAA pick and A pick of a target t (candidates c6 / c4 with draws d6 / d4) ARE what [additional]
   returns on the target's rows, so C11_additional_max_one speaks about the realised records verbatim *)
Theorem C11_served_target_is_wrs_additional :
  forall K klt kpos (keyof : N -> N -> K) d6 d4 t qc c6 c4 (want4 want6 : bool) r6 r4 wt,
  Model.Wrs.additional klt kpos want4 want6 (pick_rows K keyof d6 28 c6 ++ pick_rows K keyof d4 1 c4) = (r6, r4, wt) ->
  (if want6 then realise_pick K klt kpos keyof 1 d6 t 28 qc c6 else nil) =
    map (fun p : payload => mkRR t 28 qc (cand_ttl (snd p)) (cand_addr (snd p))) r6 /\
  (if want4 then realise_pick K klt kpos keyof 1 d4 t 1 qc c4 else nil) =
    map (fun p : payload => mkRR t 1 qc (cand_ttl (snd p)) (cand_addr (snd p))) r4.
Proof. exact pick_pair_is_additional. Qed.
Print Assumptions C11_served_target_is_wrs_additional.

(* the range hypothesis of C11_served_addresses_sound is needed - finding F18 inside the served answer: ANY a.z.
   of C11_served_addresses_example (e_x1: candidates of weights 1, 0, 2, 5, max answer 2) with the draw 2^32-1 for
   the weight-0 candidate: its key is Pow(1, +Inf) = 1, the largest, and the realised answer e_y18 holds the
   weight-0 address 10.0.0.2 (and 10.0.0.4) *)
Theorem C11_served_zero_weight_refuted :
  realise N rk_lt rk_pos draw_key e_dr18 2 e_x1 = e_y18 /\
  In (mkRec ((97 :: nil) :: (122 :: nil) :: nil) false None 1 10 0 (10 :: 0 :: 0 :: 2 :: nil)) e_recs /\
  In (mkRR (q_name e_q1) 1 1 10 (10 :: 0 :: 0 :: 2 :: nil)) (c_an e_y18) /\
  (forall s i j, e_dr18 s i j <= maxU32).
Proof. exact served_zero_weight_refuted. Qed.
Print Assumptions C11_served_zero_weight_refuted.

(* COMPLETENESS of the additional section of a referral (the glue), Proofs/LinkWrsGlue.v: C01_referral_glue gives the
   glue exactly (a fold of [glue_step] over the NS targets); realised with max 1 per family and target it holds, for
   every NS record r of the cut and each family ty, EXACTLY min(1, number of positive weights) address records of the
   target: one iff the target has a declared visible non-wildcard address record of that family with positive weight
   ([has_pos_addr L recs t ty] = existsb (0 <? weight) (addr_records L recs t ty)), none otherwise.  [kcount t ty l]:
   the number of records of l with owner t and type ty.  Guards: those of C01_referral_glue *)
From DnsV Require Import Proofs.LinkWrsGlue Proofs.LinkWrsGlueExample.

Theorem C11_has_pos_addr_meaning : forall L recs t ty,
  has_pos_addr L recs t ty = true <-> exists r, In r (addr_records L recs t ty) /\ 0 < r_weight r.
Proof. exact has_pos_addr_spec. Qed.
Print Assumptions C11_has_pos_addr_meaning.

Theorem C11_referral_glue_exact :
  forall K klt kpos, key_order K klt kpos ->
  forall keyof : N -> N -> K, (forall u w, u <= maxU32 -> kpos (keyof u w) = dk_pos (u, w)) ->
  forall b recs L, wf_recs recs -> List.Forall wf_ns_rdata recs ->
  length L = 2%nat -> b <> RDB2 -> wf_view L recs = true -> forall q n z ecs max x (dr : draws),
  wf_name n -> nlen (pack n) <= 255 -> lower_bytes (q_name q) = pack n ->
  (q_edns q = None \/ q_edns q = Some 0) -> q_type q <> 43 ->
  zone_cut L recs n = Some z -> authoritative L recs z = false ->
  serve b (store_v1 recs) q (LocOk L) ecs max = OReply x ->
  (forall s i j, 0 < dr s i j < maxU32) ->
  forall r ty, In r (of_type 2 (own_records L recs z)) -> ty = 1 \/ ty = 28 ->
  kcount (r_rdata r) ty (c_ex (realise K klt kpos keyof dr max x)) =
    if has_pos_addr L recs (r_rdata r) ty then 1%nat else 0%nat.
Proof. intros K klt kpos (H1 & H2 & H3). exact (referral_glue_exact_v1 K klt kpos H1 H2 H3). Qed.
Print Assumptions C11_referral_glue_exact.

Theorem C11_referral_glue_exact_v2 :
  forall K klt kpos, key_order K klt kpos ->
  forall keyof : N -> N -> K, (forall u w, u <= maxU32 -> kpos (keyof u w) = dk_pos (u, w)) ->
  forall recs L, wf_recs recs -> List.Forall wf_ns_rdata recs ->
  length L = 2%nat -> wf_view L recs = true -> forall q n z ecs max x (dr : draws),
  wf_name n -> nlen (pack n) <= 255 -> lower_bytes (q_name q) = pack n ->
  (q_edns q = None \/ q_edns q = Some 0) -> q_type q <> 43 ->
  zone_cut L recs n = Some z -> authoritative L recs z = false ->
  serve RDB2 (store_v2 recs) q (LocOk L) ecs max = OReply x ->
  (forall s i j, 0 < dr s i j < maxU32) ->
  forall r ty, In r (of_type 2 (own_records L recs z)) -> ty = 1 \/ ty = 28 ->
  kcount (r_rdata r) ty (c_ex (realise K klt kpos keyof dr max x)) =
    if has_pos_addr L recs (r_rdata r) ty then 1%nat else 0%nat.
Proof. intros K klt kpos (H1 & H2 & H3). exact (referral_glue_exact_v2 K klt kpos H1 H2 H3). Qed.
Print Assumptions C11_referral_glue_exact_v2.

(* non-vacuity: z. delegates s.z. to a.s.z. (A of weight 1, AAAA of weight 0) and to b.o. (no address); A w.s.z.
   is a referral whose realised additional section g_y holds the one A record of a.s.z. and nothing else
   (values in Proofs/LinkWrsGlueExample.v) *)
Example C11_referral_glue_example :
  wf_view e_L g_recs = true /\ lower_bytes (q_name g_q) = pack g_n /\
  zone_cut e_L g_recs g_n = Some g_z /\ authoritative e_L g_recs g_z = false /\
  (forall x, serve CDB (store_v1 g_recs) g_q (LocOk e_L) None 2 = OReply x ->
     realise N rk_lt rk_pos draw_key e_dr 2 x = g_y) /\
  has_pos_addr e_L g_recs (1 :: 97 :: 1 :: 115 :: 1 :: 122 :: 0 :: nil) 1 = true /\
  has_pos_addr e_L g_recs (1 :: 97 :: 1 :: 115 :: 1 :: 122 :: 0 :: nil) 28 = false /\
  has_pos_addr e_L g_recs (1 :: 98 :: 1 :: 111 :: 0 :: nil) 1 = false /\
  kcount (1 :: 97 :: 1 :: 115 :: 1 :: 122 :: 0 :: nil) 1 (c_ex g_y) = 1%nat /\
  kcount (1 :: 97 :: 1 :: 115 :: 1 :: 122 :: 0 :: nil) 28 (c_ex g_y) = 0%nat /\
  kcount (1 :: 98 :: 1 :: 111 :: 0 :: nil) 1 (c_ex g_y) = 0%nat.
Proof. exact referral_glue_example. Qed.
Print Assumptions C11_referral_glue_example.

(* THE WHOLE ADDITIONAL-SECTION LOOP (Proofs/LinkWrsAdditional.v).  Model/Serve's loop over the NS / MX targets, as C01
   characterises it over the declared records ([glue_step]: want4 / want6 from HasRecord on the message built so far,
   the candidates of the wanted families, one pick per family), realised, IS [additional_section] above - C11's model of
   db.AdditionalSectionForRecords (one Wrs{MaxAnswers: 1} per target, want4 / want6 from HasRecord on the message as a
   list of (name, type)) - so C11_additional_section_one_per_family and C11_additional_max_one apply to the realised
   additional section verbatim.  Vocabulary: owner names are numbers in Model/Wrs.v: [code] is ANY injective coding
   (one exists: C11_name_code_injective); [msg_code code m0]: the (name, type) list of the message before the loop;
   [trows ... m0 ts]: for every target of ts in order, (code of the target, its rows: the AAAA candidates, then the A
   candidates glue_step collects - none for a family not wanted - keyed by the draws [realise] uses: position of
   the pick in the additional section, index of the candidate); [gtriples ... m0 ts]: (target, family, payload) of the
   realised records; [triple_rr qc]: such a triple as a record (owner, type, class qc, TTL and address of the
   candidate); [enc code]: the triple with its name coded. *)
From DnsV Require Import Proofs.Glue Proofs.LinkWrsAdditional.

Theorem C11_name_code_injective : forall a b : bytes, gcode a = gcode b -> a = b.
Proof. exact gcode_inj. Qed.
Print Assumptions C11_name_code_injective.

(* core: any response whose additional section is the glue fold over targets ts of a message (an, ns, no additional
   records yet) - C01_referral_glue for referrals *)
Theorem C11_served_additional_is_wrs_additional_section :
  forall K klt kpos, key_order K klt kpos ->
  forall keyof : N -> N -> K, (forall u w, u <= maxU32 -> kpos (keyof u w) = dk_pos (u, w)) ->
  forall code : bytes -> N, (forall a b, code a = code b -> a = b) ->
  forall recs L qc an ns ts (x : response) (dr : draws) max,
  rs_ex x = m_ex (fold_left (glue_step recs L qc) ts (mkMsg an ns nil)) ->
  (forall s i j, 0 < dr s i j < maxU32) ->
  let m0 := mkMsg an ns nil in
  let tr := gtriples recs L qc K klt kpos keyof (dr sec_ex) m0 ts in
  c_ex (realise K klt kpos keyof dr max x) = map (triple_rr qc) tr /\
  exists wt mN',
    Model.Wrs.additional_section klt kpos (msg_code code m0) (trows recs L qc K keyof code (dr sec_ex) m0 ts) =
      (map (enc code) tr, wt, mN').
Proof. intros K klt kpos (H1 & H2 & H3). exact (realised_additional_is_wrs K klt kpos H1 H2 H3). Qed.
Print Assumptions C11_served_additional_is_wrs_additional_section.

(* composed with C01_referral_glue: the realised glue of a referral is what [additional_section] returns for the NS
   targets of the cut *)
Theorem C11_referral_additional_is_wrs_additional_section :
  forall K klt kpos, key_order K klt kpos ->
  forall keyof : N -> N -> K, (forall u w, u <= maxU32 -> kpos (keyof u w) = dk_pos (u, w)) ->
  forall code : bytes -> N, (forall a b, code a = code b -> a = b) ->
  forall b recs L, wf_recs recs -> List.Forall wf_ns_rdata recs ->
  length L = 2%nat -> b <> RDB2 -> wf_view L recs = true -> forall q n z ecs max x (dr : draws),
  wf_name n -> nlen (pack n) <= 255 -> lower_bytes (q_name q) = pack n ->
  (q_edns q = None \/ q_edns q = Some 0) -> q_type q <> 43 ->
  zone_cut L recs n = Some z -> authoritative L recs z = false ->
  serve b (store_v1 recs) q (LocOk L) ecs max = OReply x ->
  (forall s i j, 0 < dr s i j < maxU32) ->
  let m0 := mkMsg nil (map (ns_item (pack z) (q_class q)) (ns_of_cut recs L z)) nil in
  let ts := map r_rdata (ns_of_cut recs L z) in
  let tr := gtriples recs L (q_class q) K klt kpos keyof (dr sec_ex) m0 ts in
  c_ex (realise K klt kpos keyof dr max x) = map (triple_rr (q_class q)) tr /\
  exists wt mN',
    Model.Wrs.additional_section klt kpos (msg_code code m0) (trows recs L (q_class q) K keyof code (dr sec_ex) m0 ts) =
      (map (enc code) tr, wt, mN').
Proof. intros K klt kpos (H1 & H2 & H3). exact (referral_additional_is_wrs_v1 K klt kpos H1 H2 H3). Qed.
Print Assumptions C11_referral_additional_is_wrs_additional_section.

(* the adapter behind it: the two HasRecord views agree before the loop and after every step
   ([agree code m msgN]: HasRecord on the coded list = HasRecord on Model/Serve's message, for every name and type) *)
Theorem C11_additional_loop_simulation :
  forall recs L qc K klt kpos, key_order K klt kpos ->
  forall keyof : N -> N -> K, (forall u w, u <= maxU32 -> kpos (keyof u w) = dk_pos (u, w)) ->
  forall code : bytes -> N, (forall a b, code a = code b -> a = b) ->
  forall ds : nat -> nat -> N, (forall i j, 0 < ds i j < maxU32) ->
  forall ts m msgN, agree code m msgN ->
  exists wt mN',
    Model.Wrs.additional_section klt kpos msgN (trows recs L qc K keyof code ds m ts) =
      (map (enc code) (gtriples recs L qc K klt kpos keyof ds m ts), wt, mN') /\
    agree code (fold_left (glue_step recs L qc) ts m) mN'.
Proof. intros recs L qc K klt kpos (H1 & H2 & H3). exact (glue_is_additional_section recs L qc K klt kpos H1 H2 H3). Qed.
Print Assumptions C11_additional_loop_simulation.

Theorem C11_agree_meaning : forall code m msgN,
  agree code m msgN <-> (forall t ty, Model.Wrs.has_record msgN (code t) ty = LookupV1.has_record m t ty).
Proof. intros. apply iff_refl. Qed.
Print Assumptions C11_agree_meaning.

(* non-vacuity, on the referral of C11_referral_glue_example (values in Proofs/LinkWrsGlueExample.v): two targets;
   the loop over the coded message returns one record - candidate 0 of the A pick of a.s.z. - and that is the realised
   additional section *)
Example C11_referral_additional_section_example :
  gtriples g_recs e_L 1 N rk_lt rk_pos draw_key (e_dr sec_ex) g_m0 g_ts = g_tr /\
  fst (Model.Wrs.additional_section rk_lt rk_pos (msg_code gcode g_m0)
         (trows g_recs e_L 1 N draw_key gcode (e_dr sec_ex) g_m0 g_ts)) = (map (enc gcode) g_tr, false) /\
  c_ex g_y = map (triple_rr 1) g_tr.
Proof. exact (conj (proj1 (proj2 referral_additional_section_example))
               (conj (proj1 (proj2 (proj2 referral_additional_section_example)))
                     (proj1 (proj2 (proj2 (proj2 referral_additional_section_example)))))). Qed.
Print Assumptions C11_referral_additional_section_example.
