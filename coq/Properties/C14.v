(* C14 - Serving and reloading concurrently is free of data races.
   Only statements closed by [exact]; proofs are in Proofs/Locks.v and Proofs/Pool.v.

   Part 1 (lockset).  [accesses] is the table Gen/Access.v that the translator gotab
   regenerates from the Go sources at every run; [roles_of], [overlap], the exceptions and
   [finding_class] are in Model/Locks.v.  The table is finite and is the stated bound.
   The full statement

     C14_lockset : forall a b, In a accesses -> In b accesses -> conflicting a b = true ->
       concurrent_roles a b = true ->
       common_lock a b = true \/ ordered_by_channel a b = true \/ listed_exception a b = true

   is FALSE on the unchanged tree (two refutations below); the strongest true statement is
   C14_lockset_outside_finding.

   Part 2 (pool).  Model/Pool.v: interleaving model of the iterator pool, CatchWithPrimary and
   the reload lock for any number n of workers. *)
From Coq Require Import List String NArith Bool.
From DnsV Require Import Model.AccessTypes Gen.Access Model.Locks Proofs.Locks Model.Pool Proofs.Pool.
Import ListNotations.
Open Scope string_scope.
Open Scope nat_scope.

(* every method of a tracked type and every function with an access to a field (or captured
   local) has a role (a function missing from the role map gets role Unknown, overlaps
   everything, and fails this).  Accesses to package-level variables (a_global) by functions
   outside the role map need no entry: they get role AnyGo, which overlaps everything but Init. *)
Theorem C14_roles_total :
  (forall f, In f functions -> has_role f = true) /\
  (forall a, In a accesses -> a_global a = false -> has_role (a_func a) = true).
Proof. exact roles_total_ok. Qed.
Print Assumptions C14_roles_total.

(* callers of methods documented as requiring a lock (dropExpired) hold it, exclusively *)
Theorem C14_callers_hold_locks : forall c, In c calls -> call_ok c = true.
Proof. exact callers_hold_locks. Qed.
Print Assumptions C14_callers_hold_locks.

(* the table covers fields of the tracked struct types, goroutine-captured locals AND the
   package-level variables of the scanned packages (a write outside package initialisation
   needs a common package-level mutex with every read).
   lockset condition for every pair of accesses outside the two known findings: same field, at
   least one write, roles that can overlap => the same mutex of the same object is held by
   both and not both in shared mode, or the accesses are ordered by a channel close / send ->
   receive, or the type is a listed goroutine-confined exception (rdb.Context) *)
Theorem C14_lockset_outside_finding : forall a b, In a accesses -> In b accesses ->
  finding_class a b = false -> conflicting a b = true -> concurrent_roles a b = true ->
  common_lock a b = true \/ ordered_by_channel a b = true \/ listed_exception a b = true.
Proof. exact lockset_outside_finding. Qed.
Print Assumptions C14_lockset_outside_finding.

(* refutation 1 (F11): IteratorPool.get reads pool.enabled with no lock, concurrently with a
   write under pool.l in disable / enable *)
Theorem C14_lockset_refuted :
  exists a b, In a accesses /\ In b accesses /\
    a_owner a = "rdb.IteratorPool" /\ a_field a = "enabled" /\ a_func a = "rdb.IteratorPool.get" /\
    a_kind a = Read /\ a_kind b = Write /\
    conflicting a b = true /\ concurrent_roles a b = true /\
    common_lock a b = false /\ ordered_by_channel a b = false /\ listed_exception a b = false.
Proof. exact lockset_refuted_pool_enabled. Qed.
Print Assumptions C14_lockset_refuted.

(* refutation 2 (F29): the watcher goroutine reads dbConfig.Path with no lock, concurrently
   with the write in Reload under reloadMu *)
Theorem C14_lockset_refuted_dbpath :
  exists a b, In a accesses /\ In b accesses /\
    a_owner a = "dnsserver.FBDNSDB" /\ a_field a = "dbConfig.Path" /\
    a_func a = "dnsserver.FBDNSDB.watchDBAndReload" /\
    a_kind a = Read /\ a_kind b = Write /\
    conflicting a b = true /\ concurrent_roles a b = true /\
    common_lock a b = false /\ ordered_by_channel a b = false /\ listed_exception a b = false.
Proof. exact lockset_refuted_dbconfig_path. Qed.
Print Assumptions C14_lockset_refuted_dbpath.

(* the lock structure Model/Pool.v assumes is the one in the table (get / put lock-free,
   disable / enable entirely under pool.l, Reload under reloadMu, AcquireReader under RLock) *)
Theorem C14_pool_model_tie : pool_model_tie = true.
Proof. exact pool_model_tie_ok. Qed.
Print Assumptions C14_pool_model_tie.

(* conservation, for every n, every schedule, with or without catch-up failures: iterators
   created = destroyed + pooled + held (pooled and ephemeral separately), at most cap pooled
   alive, none held or pooled while the pool is drained, everything ephemeral freed at rest.
   Counting model: iterators have no identity, "exactly once" is the counting identity. *)
Theorem C14_pool_conservation : forall mf n s, reachable mf n s ->
  idle s + acq s + ready s + wait s + hp s + he s = n /\
  cp s = dp s + chan s + hp s /\
  ce s = fe s + he s /\
  chan s + hp s <= cap /\
  (drained s -> hp s = 0 /\ chan s = 0) /\
  (final s -> ce s = fe s /\ chan s <= cap /\
              ((enabled s = true /\ cp s = dp s + cap) \/ (mf = true /\ enabled s = false /\ cp s = dp s))).
Proof. exact pool_conservation. Qed.
Print Assumptions C14_pool_conservation.

(* no deadlock, for every n: in every reachable state either nothing is in progress or some
   operation in progress can step.  PARTIAL: CatchWithPrimary returns nil (false otherwise,
   next theorem); one helper goroutine; RWMutex writer preference not modelled. *)
Theorem C14_no_deadlock_partial : forall n s, reachable false n s ->
  final s \/ exists l, progress_label l = true /\ step false l s <> None.
Proof. exact no_deadlock_partial. Qed.
Print Assumptions C14_no_deadlock_partial.

(* if CatchWithPrimary returns an error, a worker that read the stale enabled = true blocks on
   the drained channel with nothing in progress (until a later reload succeeds) *)
Theorem C14_no_deadlock_refuted_if_catchup_fails :
  exists s, reachable true 1 s /\ ~ final s /\ wait s = 1 /\ enabled s = false /\ chan s = 0 /\
            forall l, progress_label l = true -> step true l s = None.
Proof. exact no_deadlock_refuted_if_catchup_fails. Qed.
Print Assumptions C14_no_deadlock_refuted_if_catchup_fails.

(* a non-trivial run of the model (two workers, pooled and ephemeral iterators, one catch-up) *)
Example C14_pool_example :
  exists s, run false example_trace (init 2) = Some s /\ final s /\
            cp s = 30 /\ dp s = 15 /\ ce s = 1 /\ fe s = 1 /\ chan s = 15 /\ idle s = 2.
Proof. exact pool_example. Qed.
Print Assumptions C14_pool_example.
