(* C10 - EDNS Client Subnet is echoed faithfully with a truthful scope.
   Only theorem statements closed by [exact]; proofs are in Proofs/Ecs.v, the model
   (db/location.go FindLocation / EcsLocation, dnsserver/handler.go OPT and ECS
   attachment per reply path, coredns edns.Version / SizeAndDo, miekg EDNS0_SUBNET
   unpack and pack) in Model/Ecs.v and Model/Location.v.

   [serve fm8 fmM gl ev q] is the handler on query [q]: [fm8] / [fmM] are the results
   of FindMap for the query name (map types 8 and M), [gl] is GetLocationByMap, [ev]
   is everything else the handler finds out (cache entry, served or not, rcode).
   [no_backend_error ev]: IsAuthoritative does not fail (otherwise dns.HandleFailed
   writes a bare SERVFAIL without OPT).  [badvers q]: the query's EDNS version is not 0.
   [wf_ecs e]: the option is one miekg/dns Unpack accepts (family 0 with source 0,
   family 1 with source <= 32 and an IPv4 address, family 2 with source <= 128 and an
   address below 2^128).  [wf_client c]: the IPNets the handler builds (address below 2^128
   under a 128-bit mask, or an IPv4 address under a 32-bit mask).
   Lengths of declared subnets are in 128-bit terms (IPv4: 96 + length).

   'address unchanged': in the reply object the address is the query's address
   (C10_ecs_iff_and_unchanged); what a client parses from the wire is that address
   cut to the source prefix length (C10_wire_view), which is the same address for a
   well-formed option (no bits beyond the source prefix; miekg's pack zeroes them). *)
From DnsV Require Import Base.Bytes Base.Ip Spec.Lpm Model.Rearranger Model.Location Model.Ecs Proofs.Ecs.
Open Scope N_scope.

(* a reply carries an OPT record exactly when the query did - on every path *)
Theorem C10_opt_iff : forall fm8 fmM gl ev q r, no_backend_error ev ->
  serve fm8 fmM gl ev q = Reply r ->
  is_some (r_edns r) = is_some (q_edns q).
Proof. exact opt_iff. Qed.
Print Assumptions C10_opt_iff.

(* EDNS version 0: ECS option iff the query had one; it is the only option of the
   reply; family, source prefix length and address are the query's *)
Theorem C10_ecs_iff_and_unchanged : forall fm8 fmM gl ev q r,
  badvers q = false -> no_backend_error ev ->
  serve fm8 fmM gl ev q = Reply r ->
  match query_ecs q, reply_ecs r with
  | None, None => True
  | Some e, Some e' =>
      e_fam e' = e_fam e /\ e_src e' = e_src e /\ e_addr e' = e_addr e /\
      (exists o, r_edns r = Some o /\ ed_opts o = [OEcs e'])
  | _, _ => False
  end.
Proof. exact ecs_iff_and_unchanged. Qed.
Print Assumptions C10_ecs_iff_and_unchanged.

(* finding F21: for all queries the 'iff' is false - an EDNS version 1 query with ECS
   1.2.3.0/24 gets BADVERS with an OPT record and no client-subnet option *)
Theorem C10_ecs_iff_refuted : exists fm8 fmM gl ev q r,
  no_backend_error ev /\ serve fm8 fmM gl ev q = Reply r /\
  r_rcode r = 16 /\ is_some (r_edns r) = true /\
  is_some (query_ecs q) = true /\ is_some (reply_ecs r) = false.
Proof. exact ecs_iff_refuted. Qed.
Print Assumptions C10_ecs_iff_refuted.

(* ... and that shape (version != 0 and an ECS option in the query) is the only one *)
Theorem C10_ecs_iff_outside_finding : forall fm8 fmM gl ev q r,
  ~ (badvers q = true /\ query_ecs q <> None) -> no_backend_error ev ->
  serve fm8 fmM gl ev q = Reply r ->
  is_some (reply_ecs r) = is_some (query_ecs q).
Proof. exact ecs_iff_outside_finding. Qed.
Print Assumptions C10_ecs_iff_outside_finding.

(* what a client parses: family, source and scope as written; address cut to the source prefix *)
Theorem C10_wire_view : forall e w, wire_view e = Some w ->
  e_fam w = e_fam e /\ e_src w = e_src e /\ e_scope w = e_scope e /\
  ((e_fam e = 1 \/ e_fam e = 2) -> e_addr w = clean_mask (e_addr e) (ecs_plen e)).
Proof. exact wire_view_unchanged. Qed.
Print Assumptions C10_wire_view.

(* the scope: with GetLocationByMap = longest-prefix match over the declared subnets
   [nets m] (C03's theorem, here the hypothesis [Hgl] for the driver at hand: the
   family, address and prefix length a driver searches with are cfam / search_addr /
   eff_plen of the IPNet it is given),
     [expected_scope m8 e] =
       0                         if the family is neither 1 nor 2, or the name has no '8' map
       len - 96 (family 1) / len (family 2)
                                 where (loc, len) = lpm (nets m8) (family of the client
                                 prefix) (address) (source length, +96 for family 1),
                                 loc <> \000\000
       24 (family 1) / 48 (family 2)  if no declared subnet matches
   and the scope never exceeds 32 / 128 *)
Theorem C10_scope_truthful : forall nets premask fm8 fmM gl,
  (forall m c, wf_client c -> exists r, gl m c = Ok r /\
     hit_of r = lpm (nets m) (cfam c) (search_addr premask c) (eff_plen c)) ->
  forall ev q r e mo8 moM rip,
  fm8 = Ok mo8 -> fmM = Ok moM -> q_rip q = Some rip -> rip < two128 ->
  badvers q = false -> no_backend_error ev ->
  query_ecs q = Some e -> wf_ecs e ->
  serve fm8 fmM gl ev q = Reply r ->
  exists e', reply_ecs r = Some e' /\
    e_scope e' = expected_scope nets (map_of mo8) e /\
    (e_fam e = 1 -> e_scope e' <= 32) /\ (e_fam e = 2 -> e_scope e' <= 128).
Proof. exact scope_truthful. Qed.
Print Assumptions C10_scope_truthful.

(* lpm is what the property calls the declared subnet that decides: declared,
   of the client's family, containing the address, not longer than the client's
   prefix, and no such subnet is longer *)
Theorem C10_lpm_is_longest_declared : forall S f a p loc len, lpm S f a p = Some (loc, len) ->
  (exists s, In s S /\ eligible f a p s = true /\ s_loc s = loc /\ s_len s = len) /\
  (forall s, In s S -> eligible f a p s = true -> s_len s <= len).
Proof. exact lpm_is_longest_declared. Qed.
Print Assumptions C10_lpm_is_longest_declared.

Theorem C10_lpm_none : forall S f a p, lpm S f a p = None ->
  forall s, In s S -> eligible f a p s = false.
Proof. exact lpm_none. Qed.
Print Assumptions C10_lpm_none.

(* the location handed to the cache key and to the answer lookup ([r_loc]): the one
   the client subnet yields; the resolver's ([resolver_decides]: longest-prefix match
   of the resolver address in the name's M map) when there is no ECS option, its
   family is not 1 or 2, the name has no '8' map, or no subnet with a location matches *)
Theorem C10_fallback_to_resolver : forall nets premask fm8 fmM gl,
  (forall m c, wf_client c -> exists r, gl m c = Ok r /\
     hit_of r = lpm (nets m) (cfam c) (search_addr premask c) (eff_plen c)) ->
  forall ev q r mo8 moM rip,
  fm8 = Ok mo8 -> fmM = Ok moM -> q_rip q = Some rip -> rip < two128 ->
  badvers q = false -> no_backend_error ev ->
  (forall e, query_ecs q = Some e -> wf_ecs e) ->
  serve fm8 fmM gl ev q = Reply r ->
  r_loc r = match query_ecs q with
            | Some e => if id_eqb (ecs_decides nets (map_of mo8) e) (0, 0)
                        then resolver_decides nets (map_of moM) rip
                        else ecs_decides nets (map_of mo8) e
            | None => resolver_decides nets (map_of moM) rip
            end.
Proof. exact fallback_to_resolver. Qed.
Print Assumptions C10_fallback_to_resolver.

(* when the two lookups do not fail every query is answered *)
Theorem C10_always_replies : forall nets premask fm8 fmM gl,
  (forall m c, wf_client c -> exists r, gl m c = Ok r /\
     hit_of r = lpm (nets m) (cfam c) (search_addr premask c) (eff_plen c)) ->
  forall ev q mo8 moM rip,
  fm8 = Ok mo8 -> fmM = Ok moM -> q_rip q = Some rip -> rip < two128 ->
  (forall e, query_ecs q = Some e -> wf_ecs e) ->
  exists r, serve fm8 fmM gl ev q = Reply r.
Proof. exact always_replies. Qed.
Print Assumptions C10_always_replies.

(* connection to C03: a driver for which C03's theorem holds in the shape of
   Proofs/Location.v cdb_is_lpm (the result of GetLocationByMap on the IPNet
   (a, bits, ones) is the longest-prefix match of the network address
   clean_mask a plen at plen = ones resp. 96 + ones) satisfies the hypothesis of
   C10_scope_truthful, C10_fallback_to_resolver and C10_always_replies with
   premask = true.  [c03_client_plen] and [c03_lpm_result] are literal copies of
   client_plen and lpm_result there. *)
Theorem C10_c03_shape_suffices : forall (nets : mapid -> list subnet) (gl : mapid -> client -> result (option bytes * N)),
  (forall m a bits ones plen, a < two128 -> c03_client_plen a bits ones plen ->
     gl m (mkClient (Some a) bits ones) =
     Ok (c03_lpm_result (lpm (nets m) (fam (clean_mask a plen)) (clean_mask a plen) plen))) ->
  forall m c, wf_client c -> exists r, gl m c = Ok r /\
    hit_of r = lpm (nets m) (cfam c) (search_addr true c) (eff_plen c).
Proof. exact c03_shape_suffices. Qed.
Print Assumptions C10_c03_shape_suffices.

(* options that miekg/dns unpacks are well-formed *)
Theorem C10_unpacked_ecs_wf : forall f s sc ab e, wf_bytes ab -> unpack_ecs f s sc ab = Some e -> wf_ecs e.
Proof. exact unpack_ecs_wf. Qed.
Print Assumptions C10_unpacked_ecs_wf.

(* non-vacuity: a backend that satisfies the hypothesis, and the scopes / deciding
   locations it gives for concrete queries (see Proofs/Ecs.v for the declared subnets) *)
Example C10_example : forall premask,
  scope_loc (ex_serve premask (101, 49) (ex_query 1 24 9 (first_v4 + 167838208))) =
    Some (1, 24, 16, first_v4 + 167838208, (1, 2)) /\
  scope_loc (ex_serve premask (101, 49) (ex_query 1 12 0 (first_v4 + 167838208))) =
    Some (1, 12, 8, first_v4 + 167838208, (1, 1)) /\
  scope_loc (ex_serve premask (101, 49) (ex_query 1 24 0 (first_v4 + 3221225984))) =
    Some (1, 24, 0, first_v4 + 3221225984, (1, 3)) /\
  scope_loc (ex_serve premask (101, 49) (ex_query 2 48 0 (536939960 * 2 ^ 96 + 2 ^ 80))) =
    Some (2, 48, 32, 536939960 * 2 ^ 96 + 2 ^ 80, (1, 5)) /\
  scope_loc (ex_serve premask (101, 49) (ex_query 2 120 0 (first_v4 + 167838208))) =
    Some (2, 120, 112, first_v4 + 167838208, (1, 2)) /\
  scope_loc (ex_serve premask (101, 49) (ex_query 2 80 0 (first_v4 + 167838208))) =
    Some (2, 80, 0, first_v4 + 167838208, (1, 4)) /\
  scope_loc (ex_serve premask (101, 50) (ex_query 1 8 0 (first_v4 + 184549376))) =
    Some (1, 8, 24, first_v4 + 184549376, (0, 1)) /\
  scope_loc (ex_serve premask (101, 50) (ex_query 2 48 0 (536939960 * 2 ^ 96))) =
    Some (2, 48, 48, 536939960 * 2 ^ 96, (0, 1)) /\
  scope_loc (ex_serve premask (0, 0) (ex_query 1 24 17 (first_v4 + 167838208))) =
    Some (1, 24, 0, first_v4 + 167838208, (0, 1)) /\
  scope_loc (ex_serve premask (101, 49) (ex_query 0 0 5 first_v4)) =
    Some (0, 0, 0, first_v4, (0, 1)) /\
  (forall m c, wf_client c -> exists r, gl_lpm ex_nets premask m c = Ok r /\
     hit_of r = lpm (ex_nets m) (cfam c) (search_addr premask c) (eff_plen c)) /\
  wf_ecs (mkEcs 1 24 9 (first_v4 + 167838208)).
Proof. exact ecs_example. Qed.
Print Assumptions C10_example.

(* ==================================================================================
   C10 x C03: the hypothesis [gl = longest-prefix match] of C10_scope_truthful /
   C10_fallback_to_resolver / C10_always_replies discharged by the C03 driver theorems
   (Proofs/LinkEcsLpm.v, Proofs/LinkRdbDb.v, Proofs/LinkRdbModel.v).
   ================================================================================== *)
From DnsV Require Import Model.Compile Proofs.Batch Proofs.CompilePipe.
From DnsV Require Import Proofs.Location Proofs.Rearranger Proofs.LinkEcsLpm Proofs.LinkRdbDb Proofs.LinkRdbModel.

(* ---- CDB backend, both prefix-set modes: [gl] is cdb_get_location on the database
   compiled from the data file f (C03_cdb_is_lpm).  No hypothesis about the driver is
   left; the guards are C03's on the data file: map kinds M / 8, addresses below 2^128,
   the subnet set of every map well-formed (wf_subnets, trivially true for a map
   without subnets). *)
Theorem C10_scope_truthful_cdb : forall sep f db fm8 fmM,
  wf_kinds f = true -> wf_addrs f = true -> (forall m, wf_subnets (nets_of f m)) -> cdb_db f = Some db ->
  forall ev q r e mo8 moM rip,
  fm8 = Ok mo8 -> fmM = Ok moM -> q_rip q = Some rip -> rip < two128 ->
  badvers q = false -> no_backend_error ev ->
  query_ecs q = Some e -> wf_ecs e ->
  serve fm8 fmM (cdb_get_location sep db) ev q = Reply r ->
  exists e', reply_ecs r = Some e' /\
    e_scope e' = expected_scope (nets_of f) (map_of mo8) e /\
    (e_fam e = 1 -> e_scope e' <= 32) /\ (e_fam e = 2 -> e_scope e' <= 128).
Proof. exact scope_truthful_cdb. Qed.
Print Assumptions C10_scope_truthful_cdb.

Theorem C10_fallback_to_resolver_cdb : forall sep f db fm8 fmM,
  wf_kinds f = true -> wf_addrs f = true -> (forall m, wf_subnets (nets_of f m)) -> cdb_db f = Some db ->
  forall ev q r mo8 moM rip,
  fm8 = Ok mo8 -> fmM = Ok moM -> q_rip q = Some rip -> rip < two128 ->
  badvers q = false -> no_backend_error ev ->
  (forall e, query_ecs q = Some e -> wf_ecs e) ->
  serve fm8 fmM (cdb_get_location sep db) ev q = Reply r ->
  r_loc r = match query_ecs q with
            | Some e => if id_eqb (ecs_decides (nets_of f) (map_of mo8) e) (0, 0)
                        then resolver_decides (nets_of f) (map_of moM) rip
                        else ecs_decides (nets_of f) (map_of mo8) e
            | None => resolver_decides (nets_of f) (map_of moM) rip
            end.
Proof. exact fallback_to_resolver_cdb. Qed.
Print Assumptions C10_fallback_to_resolver_cdb.

Theorem C10_always_replies_cdb : forall sep f db fm8 fmM,
  wf_kinds f = true -> wf_addrs f = true -> (forall m, wf_subnets (nets_of f m)) -> cdb_db f = Some db ->
  forall ev q mo8 moM rip,
  fm8 = Ok mo8 -> fmM = Ok moM -> q_rip q = Some rip -> rip < two128 ->
  (forall e, query_ecs q = Some e -> wf_ecs e) ->
  exists r, serve fm8 fmM (cdb_get_location sep db) ev q = Reply r.
Proof. exact always_replies_cdb. Qed.
Print Assumptions C10_always_replies_cdb.

(* ---- RocksDB backend (both key layouts use the same range points): [gl] is
   rdb_get_location (C03_rdb_driver_is_lpm).  The hypothesis that stays is the
   database-contents hypothesis of that theorem, for every map:
     rdb_holds_points sort nets db  =  for every map m the range-point records of m in
     db are exactly the records of the points Rearrange returns for nets m
   (spelled out in C03_rdb_holds_points_unfold; derived from the compiled store in
   C03_rdb_db_from_compile and for C03's database model in C03_rdb_model_db_holds_points). *)
Theorem C10_scope_truthful_rdb : forall sort nets db fm8 fmM,
  sort_spec sort -> (forall m, wf_subnets (nets m)) -> rdb_holds_points sort nets db ->
  forall ev q r e mo8 moM rip,
  fm8 = Ok mo8 -> fmM = Ok moM -> q_rip q = Some rip -> rip < two128 ->
  badvers q = false -> no_backend_error ev ->
  query_ecs q = Some e -> wf_ecs e ->
  serve fm8 fmM (rdb_get_location db) ev q = Reply r ->
  exists e', reply_ecs r = Some e' /\
    e_scope e' = expected_scope nets (map_of mo8) e /\
    (e_fam e = 1 -> e_scope e' <= 32) /\ (e_fam e = 2 -> e_scope e' <= 128).
Proof. exact scope_truthful_rdb. Qed.
Print Assumptions C10_scope_truthful_rdb.

Theorem C10_fallback_to_resolver_rdb : forall sort nets db fm8 fmM,
  sort_spec sort -> (forall m, wf_subnets (nets m)) -> rdb_holds_points sort nets db ->
  forall ev q r mo8 moM rip,
  fm8 = Ok mo8 -> fmM = Ok moM -> q_rip q = Some rip -> rip < two128 ->
  badvers q = false -> no_backend_error ev ->
  (forall e, query_ecs q = Some e -> wf_ecs e) ->
  serve fm8 fmM (rdb_get_location db) ev q = Reply r ->
  r_loc r = match query_ecs q with
            | Some e => if id_eqb (ecs_decides nets (map_of mo8) e) (0, 0)
                        then resolver_decides nets (map_of moM) rip
                        else ecs_decides nets (map_of mo8) e
            | None => resolver_decides nets (map_of moM) rip
            end.
Proof. exact fallback_to_resolver_rdb. Qed.
Print Assumptions C10_fallback_to_resolver_rdb.

Theorem C10_always_replies_rdb : forall sort nets db fm8 fmM,
  sort_spec sort -> (forall m, wf_subnets (nets m)) -> rdb_holds_points sort nets db ->
  forall ev q mo8 moM rip,
  fm8 = Ok mo8 -> fmM = Ok moM -> q_rip q = Some rip -> rip < two128 ->
  (forall e, query_ecs q = Some e -> wf_ecs e) ->
  exists r, serve fm8 fmM (rdb_get_location db) ev q = Reply r.
Proof. exact always_replies_rdb. Qed.
Print Assumptions C10_always_replies_rdb.

(* ---- RocksDB, database-contents hypothesis discharged (1): the database model of C03
   (rdb_db: features, map records, range points of every map, equal keys merged) of a
   data file - no hypothesis on the database *)
Theorem C10_scope_truthful_rdb_file : forall sort v2 f db fm8 fmM, sort_spec sort ->
  wf_kinds f = true -> (forall m, wf_subnets (nets_of f m)) -> rdb_db sort v2 f = Ok db ->
  forall ev q r e mo8 moM rip,
  fm8 = Ok mo8 -> fmM = Ok moM -> q_rip q = Some rip -> rip < two128 ->
  badvers q = false -> no_backend_error ev ->
  query_ecs q = Some e -> wf_ecs e ->
  serve fm8 fmM (rdb_get_location db) ev q = Reply r ->
  exists e', reply_ecs r = Some e' /\
    e_scope e' = expected_scope (nets_of f) (map_of mo8) e /\
    (e_fam e = 1 -> e_scope e' <= 32) /\ (e_fam e = 2 -> e_scope e' <= 128).
Proof. exact scope_truthful_rdb_file. Qed.
Print Assumptions C10_scope_truthful_rdb_file.

Theorem C10_fallback_to_resolver_rdb_file : forall sort v2 f db fm8 fmM, sort_spec sort ->
  wf_kinds f = true -> (forall m, wf_subnets (nets_of f m)) -> rdb_db sort v2 f = Ok db ->
  forall ev q r mo8 moM rip,
  fm8 = Ok mo8 -> fmM = Ok moM -> q_rip q = Some rip -> rip < two128 ->
  badvers q = false -> no_backend_error ev ->
  (forall e, query_ecs q = Some e -> wf_ecs e) ->
  serve fm8 fmM (rdb_get_location db) ev q = Reply r ->
  r_loc r = match query_ecs q with
            | Some e => if id_eqb (ecs_decides (nets_of f) (map_of mo8) e) (0, 0)
                        then resolver_decides (nets_of f) (map_of moM) rip
                        else ecs_decides (nets_of f) (map_of mo8) e
            | None => resolver_decides (nets_of f) (map_of moM) rip
            end.
Proof. exact fallback_to_resolver_rdb_file. Qed.
Print Assumptions C10_fallback_to_resolver_rdb_file.

(* ---- RocksDB, database-contents hypothesis discharged (2): any compilation in the
   sense of C07 (builder or batches, any setting, any schedule) of a file f under a
   codec whose accumulator emits the range points of the maps [ids] and whose other
   records are not keyed like range points ([rp_codec], Proofs/LinkRdbDb.v; see
   C03_rdb_db_from_compile); [dbl] lists the store (what an iterator sees) *)
Theorem C10_scope_truthful_rdb_compiled :
  forall line conv accum feature sort nets ids,
  sort_spec sort -> (forall m, wf_subnets (nets m)) -> NoDup ids -> (forall m, ~ In m ids -> nets m = []) ->
  forall f (db : store) dbl fm8 fmM, rp_codec line conv accum feature sort nets ids f ->
  feature <> [] -> kvs_ok (records line conv accum feature f) ->
  rdb_compilation line conv accum feature f db -> lists_store dbl db ->
  forall ev q r e mo8 moM rip,
  fm8 = Ok mo8 -> fmM = Ok moM -> q_rip q = Some rip -> rip < two128 ->
  badvers q = false -> no_backend_error ev ->
  query_ecs q = Some e -> wf_ecs e ->
  serve fm8 fmM (rdb_get_location dbl) ev q = Reply r ->
  exists e', reply_ecs r = Some e' /\
    e_scope e' = expected_scope nets (map_of mo8) e /\
    (e_fam e = 1 -> e_scope e' <= 32) /\ (e_fam e = 2 -> e_scope e' <= 128).
Proof. exact scope_truthful_rdb_compiled. Qed.
Print Assumptions C10_scope_truthful_rdb_compiled.

Theorem C10_fallback_to_resolver_rdb_compiled :
  forall line conv accum feature sort nets ids,
  sort_spec sort -> (forall m, wf_subnets (nets m)) -> NoDup ids -> (forall m, ~ In m ids -> nets m = []) ->
  forall f (db : store) dbl fm8 fmM, rp_codec line conv accum feature sort nets ids f ->
  feature <> [] -> kvs_ok (records line conv accum feature f) ->
  rdb_compilation line conv accum feature f db -> lists_store dbl db ->
  forall ev q r mo8 moM rip,
  fm8 = Ok mo8 -> fmM = Ok moM -> q_rip q = Some rip -> rip < two128 ->
  badvers q = false -> no_backend_error ev ->
  (forall e, query_ecs q = Some e -> wf_ecs e) ->
  serve fm8 fmM (rdb_get_location dbl) ev q = Reply r ->
  r_loc r = match query_ecs q with
            | Some e => if id_eqb (ecs_decides nets (map_of mo8) e) (0, 0)
                        then resolver_decides nets (map_of moM) rip
                        else ecs_decides nets (map_of mo8) e
            | None => resolver_decides nets (map_of moM) rip
            end.
Proof. exact fallback_to_resolver_rdb_compiled. Qed.
Print Assumptions C10_fallback_to_resolver_rdb_compiled.

(* ---- RocksDB, database-contents hypothesis discharged (3): the codec is the real one
   (Model/Accum.v: C09's line codec with NoRnetOutput, the accumulator of rdb initCodec =
   SubnetRanger.MarshalMap over C03's Rearrange, the features record) - no hypothesis about the
   codec is left (rp_codec is C03_rp_codec_rdb).  Guards: well-formed file without '!' lines,
   C03's wf_subnets for every map, values shorter than 2^32 bytes (C07). *)
From DnsV Require Model.Text Model.Preproc Proofs.FileLevel.
From DnsV Require Import Model.Accum Proofs.AccumLink.

Theorem C10_scope_truthful_rdb_compiled_closed : forall sort, sort_spec sort -> forall o serial v2 f,
  Proofs.FileLevel.wf_file o serial f = true -> no_rp_lines o serial f = true ->
  (forall m, wf_subnets (file_nets (Proofs.FileLevel.parsed o serial f) m)) ->
  kvs_ok (flat_map (recs_of bytes (Proofs.FileLevel.conv_line o serial false v2)) f) ->
  forall (db : store) dbl fm8 fmM,
  rdb_compilation bytes (Proofs.FileLevel.conv_line o serial true v2) (accum_rdb sort o serial) [Model.Preproc.feature_kv v2] f db ->
  lists_store dbl db ->
  forall ev q r e mo8 moM rip,
  fm8 = Ok mo8 -> fmM = Ok moM -> q_rip q = Some rip -> rip < two128 ->
  badvers q = false -> no_backend_error ev ->
  query_ecs q = Some e -> wf_ecs e ->
  serve fm8 fmM (rdb_get_location dbl) ev q = Reply r ->
  exists e', reply_ecs r = Some e' /\
    e_scope e' = expected_scope (file_nets (Proofs.FileLevel.parsed o serial f)) (map_of mo8) e /\
    (e_fam e = 1 -> e_scope e' <= 32) /\ (e_fam e = 2 -> e_scope e' <= 128).
Proof. exact scope_truthful_rdb_compiled_closed. Qed.
Print Assumptions C10_scope_truthful_rdb_compiled_closed.

Theorem C10_fallback_to_resolver_rdb_compiled_closed : forall sort, sort_spec sort -> forall o serial v2 f,
  Proofs.FileLevel.wf_file o serial f = true -> no_rp_lines o serial f = true ->
  (forall m, wf_subnets (file_nets (Proofs.FileLevel.parsed o serial f) m)) ->
  kvs_ok (flat_map (recs_of bytes (Proofs.FileLevel.conv_line o serial false v2)) f) ->
  forall (db : store) dbl fm8 fmM,
  rdb_compilation bytes (Proofs.FileLevel.conv_line o serial true v2) (accum_rdb sort o serial) [Model.Preproc.feature_kv v2] f db ->
  lists_store dbl db ->
  forall ev q r mo8 moM rip,
  fm8 = Ok mo8 -> fmM = Ok moM -> q_rip q = Some rip -> rip < two128 ->
  badvers q = false -> no_backend_error ev ->
  (forall e, query_ecs q = Some e -> wf_ecs e) ->
  serve fm8 fmM (rdb_get_location dbl) ev q = Reply r ->
  r_loc r = match query_ecs q with
            | Some e => if id_eqb (ecs_decides (file_nets (Proofs.FileLevel.parsed o serial f)) (map_of mo8) e) (0, 0)
                        then resolver_decides (file_nets (Proofs.FileLevel.parsed o serial f)) (map_of moM) rip
                        else ecs_decides (file_nets (Proofs.FileLevel.parsed o serial f)) (map_of mo8) e
            | None => resolver_decides (file_nets (Proofs.FileLevel.parsed o serial f)) (map_of moM) rip
            end.
Proof. exact fallback_to_resolver_rdb_compiled_closed. Qed.
Print Assumptions C10_fallback_to_resolver_rdb_compiled_closed.

(* ---- FindLocation on the compiled database, all three drivers (Model/Handler.client_location =
   find_client_location over FindMap / GetLocationByMap of the driver): whenever FindMap is the map
   choice over the file's M / 8 lines and GetLocationByMap is longest-prefix match over its % lines -
   both PROVED of every compiled database in C03_map_choice_compiled_* , C03_cdb_compiled_is_lpm and
   C03_rdb_compiled_is_lpm_closed - it returns the location Spec/ClientLocation.client_view names (ECS
   first, resolver as fall-back) and the request's option with the scope Spec/ClientLocation.scope_view.
   Composed with the answer readers in C01_file_level_client. *)
From DnsV Require Model.Handler Spec.ClientLocation.
From DnsV Require Import Proofs.ClientSpecLink Proofs.ClientFileLevel.

Theorem C10_client_location_is_view : forall rs lb dbl cq (n : list bytes) rip,
  (forall kind, kind = 77 \/ kind = 56 ->
     Model.Handler.find_map lb dbl [0; kind] (pack_labels n) =
     Ok (option_map mapid_bytes (map_choice (Spec.ClientLocation.declared_maps rs) kind n))) ->
  (forall m c, wf_client c -> exists r, Model.Handler.get_location lb dbl m c = Ok r /\
     hit_of r = lpm (file_nets rs m) (cfam c) (search_addr true c) (eff_plen c)) ->
  q_rip cq = Some rip -> rip < two128 -> (forall e, query_ecs cq = Some e -> wf_ecs e) ->
  exists loc, Model.Handler.client_location lb dbl (Spec.Rows.pack n) cq =
                Ok (option_map (fun e => set_scope e (Spec.ClientLocation.scope_view rs n (ecs_in_of e))) (query_ecs cq), loc) /\
              l_loc loc = Spec.ClientLocation.client_view rs n rip (option_map ecs_in_of (query_ecs cq)).
Proof. exact client_location_is_view. Qed.
Print Assumptions C10_client_location_is_view.
