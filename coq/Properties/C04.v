(* C04 - A client sees its own location's records plus untagged ones, nothing else.
   Only statements closed by [exact]; proofs are in Proofs/. *)
From DnsV Require Import Base.Bytes Spec.Answer Proofs.Answer.
Open Scope N_scope.

(* the response prescribed for a client in location L depends only on the records visible
   to L: any edit of records tagged with other locations leaves it unchanged *)
Theorem C04_foreign_edit_invisible_spec : forall L recs recs' q qtype,
  same_view L recs recs' -> spec_response L recs q qtype = spec_response L recs' q qtype.
Proof. exact spec_response_same_view. Qed.
Print Assumptions C04_foreign_edit_invisible_spec.

(* adding records of other locations is such an edit *)
Theorem C04_adding_foreign_keeps_view : forall L recs extra,
  forallb (fun r => negb (visible L r)) extra = true -> same_view L recs (recs ++ extra).
Proof. exact same_view_foreign. Qed.
Print Assumptions C04_adding_foreign_keeps_view.
