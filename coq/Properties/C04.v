(* C04 - A client sees its own location's records plus untagged ones, nothing else.
   Only statements closed by [exact]; proofs are in Proofs/.
   [same_view L recs recs'] : the records visible to location L (tagged L or untagged) coincide.
   [store_v1 recs] : the v1-keyed store the records compile to (Spec/Rows row layout, rows under
   a key in file order).  [serve] : the model of ServeDNSWithRCODE (Model/Serve.v). *)
From DnsV Require Import Base.Bytes Model.Store Model.LookupV1 Model.Serve Spec.Answer Spec.Rows.
From DnsV Require Import Proofs.Answer Proofs.Compile Proofs.Reads.
From DnsV Require Import Proofs.ZoneCut Proofs.V2Store Proofs.V2Corollaries.
Open Scope N_scope.

(* CDB and RocksDB with v1 keys: for every pair of record sets with the same view for L, every
   query, echoed ECS and max-answer, the served outcome for a client mapped to L is the same *)
Theorem C04_foreign_edit_invisible_v1 : forall b recs recs' L q ecs max,
  b <> RDB2 -> wf_locs recs -> wf_locs recs' -> length L = 2%nat -> same_view L recs recs' ->
  serve b (store_v1 recs) q (LocOk L) ecs max = serve b (store_v1 recs') q (LocOk L) ecs max.
Proof. exact foreign_edit_invisible_v1. Qed.
Print Assumptions C04_foreign_edit_invisible_v1.

(* the same at the level of stores: the v1 reader consults only keys L ++ name and 00 ++ name *)
Theorem C04_v1_reads_only_own_and_untagged_keys : forall b st st' L q ecs max,
  b <> RDB2 -> agree_on L st st' ->
  serve b st q (LocOk L) ecs max = serve b st' q (LocOk L) ecs max.
Proof. exact serve_v1_reads_only_visible. Qed.
Print Assumptions C04_v1_reads_only_own_and_untagged_keys.

(* the response the SPEC prescribes for a client in L depends only on the records visible to L *)
Theorem C04_foreign_edit_invisible_spec : forall L recs recs' q qtype,
  same_view L recs recs' -> spec_response L recs q qtype = spec_response L recs' q qtype.
Proof. exact spec_response_same_view. Qed.
Print Assumptions C04_foreign_edit_invisible_spec.

(* adding records of other locations is an edit that keeps the view *)
Theorem C04_adding_foreign_keeps_view : forall L recs extra,
  forallb (fun r => negb (visible L r)) extra = true -> same_view L recs (recs ++ extra).
Proof. exact same_view_foreign. Qed.
Print Assumptions C04_adding_foreign_keeps_view.

(* RocksDB with v2 keys (closest-key reader).  Its SeekForPrev probes DO land on keys of other
   locations; by seek_skip_sound (C02) they cannot influence the result: through
   C02_v2_equals_v1 the outcome equals that of the v1 reader, which reads only the client's and the
   untagged keys.  Guards of C02_v2_equals_v1: well-formed records and view on both sides, the
   lower-cased query name is a wire-valid name [pack n] *)
Theorem C04_foreign_edit_invisible_v2 : forall recs recs' L q n ecs max,
  wf_recs recs -> wf_recs recs' -> length L = 2%nat ->
  wf_view L recs = true -> wf_view L recs' = true -> same_view L recs recs' ->
  wf_name n -> nlen (pack n) <= 255 -> lower_bytes (q_name q) = pack n ->
  serve RDB2 (store_v2 recs) q (LocOk L) ecs max = serve RDB2 (store_v2 recs') q (LocOk L) ecs max.
Proof. exact foreign_edit_invisible_v2. Qed.
Print Assumptions C04_foreign_edit_invisible_v2.

(* non-trivial instance: a foreign (location ef) A record and NS at the queried name change nothing
   for a client in location ab, while the located record for ab is served *)
Example C04_example :
  let own := mkRec [[119]; [122]] false (Some [97; 98]) 1 60 1 [10; 0; 0; 1] in
  let apex := [mkRec [[122]] false None 6 60 0 [0; 0; 0; 0; 0; 1; 0; 0; 0; 2; 0; 0; 0; 3; 0; 0; 0; 4; 0; 0; 0; 5];
               mkRec [[122]] false None 2 60 0 [1; 110; 0]] in
  let foreign := [mkRec [[119]; [122]] false (Some [101; 102]) 1 60 1 [10; 9; 9; 9];
                  mkRec [[119]; [122]] false (Some [101; 102]) 2 60 0 [1; 120; 0]] in
  let q := mkQ 1 [1; 119; 1; 122; 0] 1 1 None in
  same_view [97; 98] (own :: apex) (own :: apex ++ foreign) /\
  serve CDB (store_v1 (own :: apex ++ foreign)) q (LocOk [97; 98]) None 1 =
    OReply (mkResp 1 (Some ([1; 119; 1; 122; 0], 1, 1)) 0 true
              [IPick [1; 119; 1; 122; 0] 1 1 [(60, 1, [10; 0; 0; 1])] 1] [] [] None).
Proof. vm_compute. split; reflexivity. Qed.
Print Assumptions C04_example.
