(* C15 - RocksDB multi-value store behaves like a map of lists.
   This file holds only theorem statements closed by [exact]; the proofs are in
   Proofs/MultiValue.v, Proofs/MapOfLists.v, Proofs/KeyOrder.v, Proofs/Batch.v.

   Vocabulary: okv v = the value is shorter than 2^32 bytes; store_ok s = every stored
   value is a non-empty sequence of framed values (invariant, holds for the empty store and is
   preserved by every operation); abs s k = what ForEach reads under k; sort_ok sort = sort
   returns a permutation sorted by bytes.Compare (all that is assumed about sort.Slice);
   kvs_ok l / op_ok o = the added values are okv. *)
From DnsV Require Import Model.Batch Spec.MapOfLists Proofs.MultiValue Proofs.MapOfLists Proofs.KeyOrder Proofs.Batch.
From Coq Require Import Permutation Sorted.
Open Scope N_scope.

(* the framing round trips: what was appended is read back in order, nothing else *)
Theorem C15_chunks_roundtrip : forall ws vs, Forall okv ws -> Forall okv vs ->
  for_each_data (append_values (append_values [] ws) vs) = (ws ++ vs, 0) /\
  find_data (append_values (append_values [] ws) vs) =
    match ws ++ vs with [] => Err E_EOF | v :: _ => Ok v end /\
  (forall v, okv v -> read_next_chunk (append_values [] (v :: vs)) = Ok (v, append_values [] vs)).
Proof. exact chunks_roundtrip. Qed.
Print Assumptions C15_chunks_roundtrip.

(* delValue removes exactly one value equal to v - the first - and fails with ErrNXVal iff there is none *)
Theorem C15_del_removes_one : forall vs v, Forall okv vs ->
  del_value (append_values [] vs) v =
    match remove_first v vs with
    | Some vs' => Ok (append_values [] vs')
    | None => Err E_NXVAL
    end /\
  (remove_first v vs = None <-> ~ In v vs) /\
  (forall vs', remove_first v vs = Some vs' -> exists a b, vs = a ++ v :: b /\ vs' = a ++ b /\ ~ In v a).
Proof. exact del_removes_one. Qed.
Print Assumptions C15_del_removes_one.

(* on arbitrary bytes the codec loops stay within their fuel and never index out of range *)
Theorem C15_codec_total : forall data value,
  (match del_value data value with
   | Ok d => nlen d + 4 <= nlen data
   | Err e => e = E_UEOF \/ e = E_NXVAL
   end) /\
  (snd (for_each_data data) = 0 \/ snd (for_each_data data) = E_UEOF) /\
  (match read_next_chunk data with
   | Ok (v, rest) => 4 + nlen v + nlen rest = nlen data
   | Err e => e = E_EOF \/ e = E_UEOF
   end).
Proof. exact codec_total. Qed.
Print Assumptions C15_codec_total.

(* one operation: the abstraction commutes with Add / Del / ExecuteBatch / Backup+Restore, the
   failure flag is the specification's, the error is ErrNXKey or ErrNXVal, and an operation that
   fails leaves the store as it was *)
Theorem C15_step_refines : forall sort s o, sort_ok sort -> store_ok s -> op_ok o ->
  let s' := fst (model_step sort s o) in
  let e := snd (model_step sort s o) in
  store_ok s' /\
  smap_eq (abs s') (fst (spec_step sort (abs s) o)) /\
  snd (spec_step sort (abs s) o) = failed e /\
  (e = 0 \/ e = E_NXKEY \/ e = E_NXVAL) /\
  (e <> 0 -> s' = s).
Proof. exact step_refines. Qed.
Print Assumptions C15_step_refines.

(* Del fails exactly when the key (ErrNXKey) or the value (ErrNXVal) is absent *)
Theorem C15_del_fails_iff_absent : forall s k v, store_ok s ->
  match del s k v with
  | Ok s' => store_ok s' /\ exists m', m_del (abs s) k v = Some m' /\ smap_eq (abs s') m'
  | Err e => m_del (abs s) k v = None /\
             ((e = E_NXKEY /\ abs s k = []) \/ (e = E_NXVAL /\ abs s k <> []))
  end.
Proof. exact del_refines. Qed.
Print Assumptions C15_del_fails_iff_absent.

(* the property over all histories of Add / Del / batch / reopen / backup (any number, into one
   backup directory) / restore (of the latest backup) / one-shot backup+restore from the empty
   store: same map, same latest snapshot, same failures (a restore without any backup is the
   only other error), reads yield precisely the values present *)
Theorem C15_refines_map_of_lists : forall sort, sort_ok sort -> forall ops, Forall op_ok ops ->
  let r := model_brun sort (empty_store, None) ops in
  let sp := spec_brun sort (m_empty, None) ops in
  store_ok (fst (fst r)) /\
  smap_eq (abs (fst (fst r))) (fst (fst sp)) /\
  (match snd (fst r), spec_restored (fst sp) with
   | Some b, Some bm => store_ok b /\ smap_eq (abs b) bm
   | None, None => True
   | _, _ => False
   end) /\
  map failed (snd r) = snd sp /\
  Forall (fun e => e = 0 \/ e = E_NXKEY \/ e = E_NXVAL \/ e = E_OTHER) (snd r) /\
  (forall k, rdb_for_each (fst (fst r)) k = (m_for_each (fst (fst sp)) k, 0) /\
             rdb_find (fst (fst r)) k = match m_find (fst (fst sp)) k with Some v => Ok v | None => Err E_EOF end).
Proof. exact refines_map_of_lists_b. Qed.
Print Assumptions C15_refines_map_of_lists.

(* in the specification a restore yields the map as of the LATEST backup, whatever happened since
   (only OBackup changes the snapshot), and with cont the history goes on from that map.  In the
   model the same holds by definition (C15_refines_map_of_lists keeps the two snapshots related):
   that the backup engine really restores the latest of several backups in one directory is the
   differential part - every restored copy is read completely and compared with that map *)
Theorem C15_backup_restore_yields_latest_backup : forall ord ops m0 b0 cont,
  Forall (fun o => o <> OBackup) ops ->
  let m := fst (fst (spec_bstep ord (m0, b0) OBackup)) in
  let st := fst (spec_brun ord (m0, b0) (OBackup :: ops)) in
  m = m0 /\ spec_restored st = Some m0 /\
  spec_bstep ord st (ORestore cont) = ((if cont then m0 else fst st, Some m0), false).
Proof. exact restore_yields_latest_backup. Qed.
Print Assumptions C15_backup_restore_yields_latest_backup.

(* a batch = all its additions then all its deletions, for every sorted permutation and any
   duplication of keys: exactly so with the additions in the order the sort left them (m1);
   against the order of the Batch.Add calls (m') every key keeps its surviving old values in
   place and holds the same values behind them; failure does not depend on any order *)
Theorem C15_batch_is_adds_then_dels : forall sort s adds dels, sort_ok sort -> store_ok s -> kvs_ok adds ->
  Permutation (sort adds) adds /\
  match execute_batch sort s adds dels with
  | Ok s' =>
      store_ok s' /\
      (exists m1, m_batch (abs s) (sort adds) dels = Some m1 /\ smap_eq (abs s') m1) /\
      (exists m', m_batch (abs s) adds dels = Some m' /\
         forall k, upto_new (length (remove_avail (vals_of k dels) (abs s k))) (m' k) (abs s' k))
  | Err e => e = E_NXVAL /\ m_batch (abs s) adds dels = None
  end.
Proof. exact batch_is_adds_then_dels. Qed.
Print Assumptions C15_batch_is_adds_then_dels.

(* the boolean relation Run/C15.v uses to compare a batch result with the plain reading is that relation *)
Theorem C15_upto_new_decided : forall p l1 l2, upto_new_b p l1 l2 = true <-> upto_new p l1 l2.
Proof. exact upto_new_b_iff. Qed.
Print Assumptions C15_upto_new_decided.

(* the deletions of a batch may be taken in any order *)
Theorem C15_batch_deletion_order_irrelevant : forall m adds dels dels', Permutation dels dels' ->
  match m_batch m adds dels, m_batch m adds dels' with
  | Some m1, Some m2 => smap_eq m1 m2
  | None, None => True
  | _, _ => False
  end.
Proof. exact m_batch_perm_dels. Qed.
Print Assumptions C15_batch_deletion_order_irrelevant.

(* if the sort keeps the order of the additions to each key, the batch is exactly adds then dels *)
Theorem C15_batch_exact_if_key_order_kept : forall sort s adds dels, sort_ok sort -> store_ok s -> kvs_ok adds ->
  (forall k, vals_of k (sort adds) = vals_of k adds) ->
  match execute_batch sort s adds dels with
  | Ok s' => exists m', m_batch (abs s) adds dels = Some m' /\ smap_eq (abs s') m'
  | Err e => m_batch (abs s) adds dels = None
  end.
Proof. exact batch_exact_if_key_order_kept. Qed.
Print Assumptions C15_batch_exact_if_key_order_kept.

(* ... which does not hold for every admissible sort: two additions to one key can come out swapped *)
Theorem C15_batch_exact_order_refuted :
  exists sort, sort_ok sort /\
  exists adds s', execute_batch sort empty_store adds [] = Ok s' /\
  exists m', m_batch (abs empty_store) adds [] = Some m' /\ abs s' [97] <> m' [97].
Proof. exact batch_exact_order_refuted. Qed.
Print Assumptions C15_batch_exact_order_refuted.

(* a session boundary / backup+restore is the identity on the model (by definition: durability is
   the differential part, every key is read after every boundary) *)
Theorem C15_reopen_is_identity : forall sort s ord m,
  model_step sort s OReopen = (s, 0) /\ spec_step ord m OReopen = (m, false) /\
  model_step sort s OBackupRestore = (s, 0) /\ spec_step ord m OBackupRestore = (m, false).
Proof. exact boundary_is_identity. Qed.
Print Assumptions C15_reopen_is_identity.

(* a batch that fails changes nothing *)
Theorem C15_failed_batch_noop : forall sort s adds dels, sort_ok sort -> store_ok s -> kvs_ok adds ->
  snd (model_step sort s (OBatch adds dels)) <> 0 ->
  fst (model_step sort s (OBatch adds dels)) = s /\
  snd (model_step sort s (OBatch adds dels)) = E_NXVAL /\
  m_batch (abs s) adds dels = None /\
  fst (spec_step sort (abs s) (OBatch adds dels)) = abs s.
Proof. exact failed_batch_noop. Qed.
Print Assumptions C15_failed_batch_noop.

(* integrate consumes both pair lists, whatever bytes are stored: its internal error, the model's
   fuel error and the Panic outcome are unreachable; getAffectedKeys ends within its fuel *)
Theorem C15_integrate_consumes_all : forall sort s adds dels, sort_ok sort ->
  (forall e, execute_batch sort s adds dels = Err e -> e = E_UEOF \/ e = E_NXVAL) /\
  (forall keys, affected_keys (sort adds) (sort dels) = Some keys ->
     forall out a2 d2,
       integrate_loop (map (fun k => (k, get_or_nil s k)) keys) (sort adds) (sort dels) = Ok (out, a2, d2) ->
       a2 = [] /\ d2 = []) /\
  affected_keys (sort adds) (sort dels) <> None.
Proof. exact integrate_consumes_all. Qed.
Print Assumptions C15_integrate_consumes_all.

(* getAffectedKeys returns the keys of the batch, each once, strictly increasing *)
Theorem C15_affected_keys : forall a d, SS a -> SS d ->
  exists ks, affected_keys a d = Some ks /\ StronglySorted klt ks /\
             (forall k, In k ks <-> In k (keysof a ++ keysof d)).
Proof. exact affected_keys_spec. Qed.
Print Assumptions C15_affected_keys.

(* the hypotheses are satisfiable: two different admissible sorts, a concrete history *)
Example C15_sort_ok_inhabited : sort_ok kv_isort /\ sort_ok kv_rsort.
Proof. exact (conj sort_ok_isort sort_ok_rsort). Qed.
Print Assumptions C15_sort_ok_inhabited.

Example C15_history_example :
  (snd (model_run kv_isort empty_store example_ops) = [0; 0; E_NXVAL; 0; E_NXVAL; E_NXKEY; 0] /\
   map (abs (fst (model_run kv_isort empty_store example_ops))) [[97]; [98]; [99]] = [[[3]]; [[2]]; []]) /\
  Forall op_ok example_ops.
Proof. exact (conj history_example history_example_ok). Qed.
Print Assumptions C15_history_example.
