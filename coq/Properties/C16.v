(* C16 - A written CDB file returns every value, in order, and nothing else.
   This file holds only theorem statements closed by [exact]; proofs are in
   Proofs/CdbTable.v (probing invariant), Proofs/CdbFind.v (reader), Proofs/Cdb.v
   (writer as a whole), Proofs/CdbText.v (dump / make text), Proofs/CdbBytes.v, CdbRead.v,
   CdbRefine.v (flat byte image: layout, byte-level reads, refinement of the reader and of Dump).
   All theorems hold for an ARBITRARY hash function H (so every pattern of table and
   start-slot collisions, full-hash collisions and probe wrap-around is covered) under
   the guard fits32 (file size < 2^32; beyond it uint32 positions wrap in the Go code). *)
From DnsV Require Import Base.Bytes Spec.Cdb Model.Cdb Proofs.Cdb Proofs.CdbText Proofs.CdbRefine.
Open Scope N_scope.

(* the writer terminates with an image (no table ever lacks a free slot) *)
Theorem C16_write_ok : forall (H : bytes -> N) kvs, fits32 kvs -> exists img, write H kvs = Ok img.
Proof. exact write_ok. Qed.
Print Assumptions C16_write_ok.

(* FindStart then FindNext until EOF returns exactly the values written under the key, in
   insertion order, then EOF; for a key never written: EOF at once (spec_vals = []) *)
Theorem C16_lookup_exact : forall (H : bytes -> N) kvs img k,
  fits32 kvs -> write H kvs = Ok img -> find_all H img k = Ok (spec_vals kvs k).
Proof. exact lookup_exact. Qed.
Print Assumptions C16_lookup_exact.

(* Make reads back exactly the pairs Dump printed *)
Theorem C16_parse_dump : forall kvs, fits32 kvs -> parse_text (dump_text kvs) = Ok kvs.
Proof. exact parse_dump. Qed.
Print Assumptions C16_parse_dump.

(* Dump then Make reproduces the image (structured level: records with their positions and
   the 256 slot tables with their positions, i.e. everything [serialize] writes) *)
Theorem C16_dump_make : forall (H : bytes -> N) kvs img,
  fits32 kvs -> write H kvs = Ok img -> make H (dump img) = Ok img.
Proof. exact dump_make. Qed.
Print Assumptions C16_dump_make.

(* byte level: the reader that follows cdb.go read by read (u32 little endian numbers at
   byte offsets, slice bounds, uint32 arithmetic), run on the serialised file, returns
   exactly the values written under the key, then EOF.  H k < 2^32 because hashes are
   stored in 4 bytes. *)
Theorem C16_serialize_read : forall (H : bytes -> N) kvs img,
  (forall k, H k < 4294967296) -> fits32 kvs -> write H kvs = Ok img ->
  forall key, bfind_all H (serialize img) key = Ok (spec_vals kvs key).
Proof. exact serialize_read. Qed.
Print Assumptions C16_serialize_read.

(* byte level: Dump (stream reader: eod from the first header word, records while pos < eod)
   prints exactly the structured dump of the records written *)
Theorem C16_serialize_dump : forall (H : bytes -> N) kvs img,
  fits32 kvs -> write H kvs = Ok img -> bdump (serialize img) = Ok (dump img).
Proof. exact serialize_dump. Qed.
Print Assumptions C16_serialize_dump.

(* byte level: dumping the file and rebuilding it from the dump reproduces the file *)
Theorem C16_dump_make_bytes : forall (H : bytes -> N) kvs img,
  fits32 kvs -> write H kvs = Ok img ->
  exists text, bdump (serialize img) = Ok text /\ bmake H text = Ok (serialize img).
Proof. exact bytes_dump_make. Qed.
Print Assumptions C16_dump_make_bytes.

(* the hypotheses are satisfiable for non-trivial values (real cdb hash, repeated key,
   empty key, empty value, identical pair twice, absent key) *)
Example C16_lookup_example :
  let kvs := [([1], [10]); ([2], [20]); ([1], []); ([], [30]); ([1], [10])] in
  fits32 kvs /\
  match write cdb_hash kvs with
  | Ok img => find_all cdb_hash img [1] = Ok [[10]; []; [10]] /\ find_all cdb_hash img [3] = Ok []
  | Err _ => False
  end.
Proof. exact lookup_exact_example. Qed.
Print Assumptions C16_lookup_example.
