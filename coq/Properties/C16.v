(* C16 - A written CDB file returns every value, in order, and nothing else.
   This file holds only theorem statements closed by [exact]; proofs are in
   Proofs/CdbTable.v (probing invariant), Proofs/CdbFind.v (reader), Proofs/Cdb.v
   (writer as a whole), Proofs/CdbText.v (dump / make text), Proofs/CdbBytes.v, CdbRead.v,
   CdbRefine.v (flat byte image: layout, byte-level reads, refinement of the reader and of Dump).
   All theorems hold for an ARBITRARY hash function H (so every pattern of table and
   start-slot collisions, full-hash collisions and probe wrap-around is covered) under
   the guard fits32 (file size < 2^32; beyond it uint32 positions wrap in the Go code). *)
From DnsV Require Import Base.Bytes Spec.Cdb Model.Cdb Proofs.Cdb Proofs.CdbText Proofs.CdbRefine.
Open Scope N_scope.

(* the writer terminates with an image (no table ever lacks a free slot) *)
Theorem C16_write_ok : forall (H : bytes -> N) kvs, fits32 kvs -> exists img, write H kvs = Ok img.
Proof. exact write_ok. Qed.
Print Assumptions C16_write_ok.

(* FindStart then FindNext until EOF returns exactly the values written under the key, in
   insertion order, then EOF; for a key never written: EOF at once (spec_vals = []) *)
Theorem C16_lookup_exact : forall (H : bytes -> N) kvs img k,
  fits32 kvs -> write H kvs = Ok img -> find_all H img k = Ok (spec_vals kvs k).
Proof. exact lookup_exact. Qed.
Print Assumptions C16_lookup_exact.

(* Make reads back exactly the pairs Dump printed *)
Theorem C16_parse_dump : forall kvs, fits32 kvs -> parse_text (dump_text kvs) = Ok kvs.
Proof. exact parse_dump. Qed.
Print Assumptions C16_parse_dump.

(* Dump then Make reproduces the image (structured level: records with their positions and
   the 256 slot tables with their positions, i.e. everything [serialize] writes) *)
Theorem C16_dump_make : forall (H : bytes -> N) kvs img,
  fits32 kvs -> write H kvs = Ok img -> make H (dump img) = Ok img.
Proof. exact dump_make. Qed.
Print Assumptions C16_dump_make.

(* byte level: the reader that follows cdb.go read by read (u32 little endian numbers at
   byte offsets, slice bounds, uint32 arithmetic), run on the serialised file, returns
   exactly the values written under the key, then EOF.  H k < 2^32 because hashes are
   stored in 4 bytes. *)
Theorem C16_serialize_read : forall (H : bytes -> N) kvs img,
  (forall k, H k < 4294967296) -> fits32 kvs -> write H kvs = Ok img ->
  forall key, bfind_all H (serialize img) key = Ok (spec_vals kvs key).
Proof. exact serialize_read. Qed.
Print Assumptions C16_serialize_read.

(* byte level: Dump (stream reader: eod from the first header word, records while pos < eod)
   prints exactly the structured dump of the records written *)
Theorem C16_serialize_dump : forall (H : bytes -> N) kvs img,
  fits32 kvs -> write H kvs = Ok img -> bdump (serialize img) = Ok (dump img).
Proof. exact serialize_dump. Qed.
Print Assumptions C16_serialize_dump.

(* byte level: dumping the file and rebuilding it from the dump reproduces the file *)
Theorem C16_dump_make_bytes : forall (H : bytes -> N) kvs img,
  fits32 kvs -> write H kvs = Ok img ->
  exists text, bdump (serialize img) = Ok text /\ bmake H text = Ok (serialize img).
Proof. exact bytes_dump_make. Qed.
Print Assumptions C16_dump_make_bytes.

(* the hypotheses are satisfiable for non-trivial values (real cdb hash, repeated key,
   empty key, empty value, identical pair twice, absent key) *)
Example C16_lookup_example :
  let kvs := [([1], [10]); ([2], [20]); ([1], []); ([], [30]); ([1], [10])] in
  fits32 kvs /\
  match write cdb_hash kvs with
  | Ok img => find_all cdb_hash img [1] = Ok [[10]; []; [10]] /\ find_all cdb_hash img [3] = Ok []
  | Err _ => False
  end.
Proof. exact lookup_exact_example. Qed.
Print Assumptions C16_lookup_example.

(* ================================================================== C16 x C01: the CDB backend down to the file bytes
   (Model/ComposeMore.v, Proofs/LinkCdbBytes.v).
   C01_file_level_cdb (Properties/C01.v) serves from ANY store that gives, for a key, its values in the order of the
   Put sequence; C16_serialize_read says the byte-level reader on the written file returns exactly these.  Composed:
   [serve_fn b g] is Model/Serve's handler over the label-by-label reader with the store interface replaced by a
   function g : key -> rows (same text as LookupV1 / Serve.reader_v1 with [get st] replaced by g;
   C16_serve_fn_is_serve); [cdb_get H data] is the CDB driver's ForEach on a file image: FindStart / FindNext until
   EOF of the byte-level reader [bfind_all H data].  Vocabulary of C01_file_level: [wf_file], [side_ok], [records]
   (C07's record stream), [compile_cdb] (the Put sequence kvs), [declared_file], [loc_okb], [wf_view], [wf_name],
   [response_refines] (the conclusion of C01_response_is_spec, C01_response_refines_meaning). *)
From Coq Require Import Permutation.
From DnsV Require Import Model.Store Model.LookupV1 Model.Serve Spec.Answer Spec.Rows Spec.MapOfLists Spec.Declared.
From DnsV Require Import Proofs.Compile Proofs.ZoneCut Proofs.FileLevel Proofs.FileLevelExample.
From DnsV Require Import Model.Compile Proofs.Batch Proofs.CompilePipe.
From DnsV Require Import Model.ComposeMore Proofs.LinkCdbBytes Proofs.LinkCdbBytesExample.

(* C16_served_from_cdb_bytes.  For a well-formed data file f, any Put stream the CDB compiler produces (a permutation
   of C07's records; C07_cdb_lossless), the file image img the writer builds from it under ANY hash H < 2^32 (so
   every collision pattern), and a client located in L: the handler whose reads are the byte-level reader on
   [serialize img] answers every wire-valid query as Spec/Answer.spec_response prescribes for the records the file
   DECLARES.  Guards: those of C01_file_level_cdb, file size < 2^32 (fits32) *)
Theorem C16_served_from_cdb_bytes : forall o serial nornet accum feature f,
  wf_file o serial f = true -> side_ok accum feature f ->
  forall stream kvs (H : bytes -> N) img L,
  Permutation stream (records bytes (conv_line o serial nornet false) accum feature f) ->
  compile_cdb bytes (conv_line o serial nornet false) f stream = Ok kvs ->
  (forall k, H k < 4294967296) -> Spec.Cdb.fits32 kvs -> Model.Cdb.write H kvs = Ok img ->
  loc_okb L = true -> wf_view L (declared_file o serial f) = true ->
  forall q n ecs max x, wf_name n -> nlen (pack n) <= 255 -> lower_bytes (q_name q) = pack n ->
  (q_edns q = None \/ q_edns q = Some 0) ->
  serve_fn CDB (cdb_get H (Model.Cdb.serialize img)) q (LocOk L) ecs max = OReply x ->
  response_refines L (declared_file o serial f) n q ecs max x.
Proof. exact served_from_cdb_bytes. Qed.
Print Assumptions C16_served_from_cdb_bytes.

(* the adapters.  (1) the handler over a function that agrees with a store's [get] is Model/Serve's handler over
   that store; over the store's own [get] by computation *)
Theorem C16_serve_fn_is_serve : forall b g st, b <> RDB2 -> (forall k, g k = get st k) ->
  forall q locr ecs max, serve_fn b g q locr ecs max = serve b st q locr ecs max.
Proof. exact serve_fn_store. Qed.
Print Assumptions C16_serve_fn_is_serve.

(* (2) the driver's ForEach on the written file returns the values put under the key, in Put order *)
Theorem C16_cdb_get_written : forall (H : bytes -> N) kvs img,
  (forall k, H k < 4294967296) -> Spec.Cdb.fits32 kvs -> Model.Cdb.write H kvs = Ok img ->
  forall k, cdb_get H (Model.Cdb.serialize img) k = vals_of k kvs.
Proof. exact cdb_get_written. Qed.
Print Assumptions C16_cdb_get_written.

(* (3) through Model/Serve's own store interface: the Model/Store.store obtained by reading every written key back
   from the image (each key once) IS the per-key value sequences store C01_file_level_cdb asks for
   (cf. C01_store_of_rows), for every key - written or not *)
Theorem C16_store_of_image_rows : forall (H : bytes -> N) kvs img,
  (forall k, H k < 4294967296) -> Spec.Cdb.fits32 kvs -> Model.Cdb.write H kvs = Ok img ->
  (forall k, get (store_of_image H (Model.Cdb.serialize img) (map fst kvs)) k = vals_of k kvs) /\
  NoDup (map fst (store_of_image H (Model.Cdb.serialize img) (map fst kvs))).
Proof. intros H kvs img HH Hf Hw. exact (conj (store_of_image_rows H kvs img HH Hf Hw) (store_of_image_nodup H _ _)). Qed.
Print Assumptions C16_store_of_image_rows.

Theorem C16_served_from_cdb_image_store : forall o serial nornet accum feature f,
  wf_file o serial f = true -> side_ok accum feature f ->
  forall stream kvs (H : bytes -> N) img L,
  Permutation stream (records bytes (conv_line o serial nornet false) accum feature f) ->
  compile_cdb bytes (conv_line o serial nornet false) f stream = Ok kvs ->
  (forall k, H k < 4294967296) -> Spec.Cdb.fits32 kvs -> Model.Cdb.write H kvs = Ok img ->
  loc_okb L = true -> wf_view L (declared_file o serial f) = true ->
  forall q n ecs max x, wf_name n -> nlen (pack n) <= 255 -> lower_bytes (q_name q) = pack n ->
  (q_edns q = None \/ q_edns q = Some 0) ->
  serve CDB (store_of_image H (Model.Cdb.serialize img) (map fst kvs)) q (LocOk L) ecs max = OReply x ->
  response_refines L (declared_file o serial f) n q ecs max x.
Proof. exact served_from_cdb_image_store. Qed.
Print Assumptions C16_served_from_cdb_image_store.

(* non-vacuity: the data file of C01_file_level_example, its reversed Put stream of 11 pairs, written with the real
   cdb hash into an image of 2679 bytes (= file_size); TXT Foo.example.com and A www.example.com (location ab) are
   answered from the BYTES as C01_file_level_example shows for the abstract store; and the general statement holds
   for this image *)
Example C16_served_from_cdb_bytes_example :
  compile_cdb bytes (conv_line x_o 7 false false) x_file y_stream = Ok y_stream /\
  Spec.Cdb.fits32 y_stream /\
  exists img, Model.Cdb.write y_hash y_stream = Ok img /\ Model.Cdb.serialize img = y_data /\
    nlen y_data = 2679 /\ Spec.Cdb.file_size y_stream = 2679 /\ length y_stream = 11%nat /\
    serve_fn CDB (cdb_get y_hash y_data) x_q1 (LocOk x_L) None 1 =
      OReply (mkResp 1 (Some (q_name x_q1, 16, 1)) 0 true
                [IRR (mkRR (q_name x_q1) 16 1 120 [5; 104; 101; 108; 108; 111])] [] [] None) /\
    serve_fn CDB (cdb_get y_hash y_data) x_q2 (LocOk x_L) None 1 =
      OReply (mkResp 2 (Some (q_name x_q2, 1, 1)) 0 true
                [IPick (q_name x_q2) 1 1 [(300, 1, [10; 0; 0; 2])] 1] [] [] None) /\
    serve CDB (store_of_image y_hash y_data (map fst y_stream)) x_q2 (LocOk x_L) None 1 =
      OReply (mkResp 2 (Some (q_name x_q2, 1, 1)) 0 true
                [IPick (q_name x_q2) 1 1 [(300, 1, [10; 0; 0; 2])] 1] [] [] None) /\
    forall q n ecs max x, wf_name n -> nlen (pack n) <= 255 -> lower_bytes (q_name q) = pack n ->
      (q_edns q = None \/ q_edns q = Some 0) ->
      serve_fn CDB (cdb_get y_hash (Model.Cdb.serialize img)) q (LocOk x_L) ecs max = OReply x ->
      response_refines x_L x_recs n q ecs max x.
Proof. exact cdb_bytes_example. Qed.
Print Assumptions C16_served_from_cdb_bytes_example.
