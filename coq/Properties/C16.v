(* C16 - placeholder while the proofs are being written *)
From DnsV Require Import Base.Bytes Model.Cdb.
Open Scope N_scope.
Example C16_cdb_hash_sample : cdb_hash [97] = 177604.
Proof. vm_compute. reflexivity. Qed.
Print Assumptions C16_cdb_hash_sample.
