(* C12 - The response cache is invisible.
   Statements only; proofs are in Proofs/Cache.v (sequential histories, Model/Cache.v) and
   Proofs/Reload*.v (schedules with queries in flight, Model/Reload.v).

   Finding F6: a query that computed its answer on the old generation inserts it into the LRU
   after Reload purged it; queries that start after the reload returned are served the stale
   entry (C12_no_stale_after_reload_refuted). *)
From DnsV Require Import Base.Bytes Model.Cache Proofs.Cache
  Model.Reload Proofs.Reload Proofs.ReloadBase Proofs.ReloadFlags Proofs.ReloadVis Proofs.ReloadStale
  Proofs.ReloadMain Proofs.ReloadWitness.
Open Scope N_scope.

(* Sequential part.  For EVERY response computation serve_core that (a) depends on the name as
   asked only through its lower-cased form, up to the relation beq (= equality up to the letter
   case of owner names) and (b) does not depend on the random draws when the answer is not
   weighted; for every way [finish] of adding the request specific parts (id, RD/CD, question,
   OPT with ECS) that respects beq; for every EDNS version test [badvers] answered at once from the
   request alone (before location lookup and cache); for every cache size, WRSTimeout, clock readings, and every
   history of queries (any requester, type, class, name, letter case, EDNS/ECS), successful and
   failed reloads: every non-weighted query receives, with the cache, a response equivalent to
   the one it receives without it.  [both] pairs the two runs (weighted?, cached, uncached);
   rnd' maps the random draws of the cached handler to those of the uncached one (any function).
   hist_ok ... wf_key: location, qtype and qclass of every question are 16-bit numbers. *)
Theorem C12_cached_equals_uncached :
  forall (content body response : Type) (lower : bytes -> bytes) (locate : content -> request -> N)
    (serve_core : content -> key -> bytes -> N -> body) (weightedf refusedf : content -> key -> bool)
    (finish : body -> request -> N -> response)
    (badvers : request -> bool) (badvers_reply : request -> response)
    (beq : body -> body -> Prop) (req : response -> response -> Prop),
  (forall b, beq b b) -> (forall a, req a a) ->
  (forall b1 b2 r l, beq b1 b2 -> req (finish b1 r l) (finish b2 r l)) ->
  (forall g k a1 a2 rnd, lower a1 = lower a2 -> beq (serve_core g k a1 rnd) (serve_core g k a2 rnd)) ->
  (forall g k a r1 r2, weightedf g k = false -> serve_core g k a r1 = serve_core g k a r2) ->
  forall cfg rnd' h g,
  hist_ok content lower locate wf_key g h ->
  Forall (fun x => let '(w, a, b) := x in w = false -> req a b)
         (both content body response lower locate serve_core weightedf refusedf finish badvers badvers_reply cfg rnd' g [] h).
Proof. exact cache_invisible. Qed.
Print Assumptions C12_cached_equals_uncached.

(* the cached responses of [both] are exactly those of the cached run of the model *)
Theorem C12_both_is_cached_run :
  forall (content body response : Type) lower locate serve_core weightedf refusedf finish badvers badvers_reply cfg rnd' h g c,
  map (fun x => snd (fst x)) (both content body response lower locate serve_core weightedf refusedf finish badvers badvers_reply cfg rnd' g c h) =
  flat_map (fun o => match o with Some (r, _) => [r] | None => [] end)
           (crun content body response lower locate serve_core weightedf refusedf finish badvers badvers_reply cfg (g, c) h).
Proof. intros; apply both_cached. Qed.
Print Assumptions C12_both_is_cached_run.

(* the cache key "[aaa bbb]|qtype|qclass|name" determines location, qtype, qclass and name *)
Theorem C12_key_injective :
  forall k1 k2, wf_key k1 -> wf_key k2 -> key_string k1 = key_string k2 -> k1 = k2.
Proof. exact key_string_injective. Qed.
Print Assumptions C12_key_injective.

(* non-vacuity: a concrete serve_core, a history with a first asker in mixed case, a hit that
   carries this case, another location, a weighted answer, an unsupported EDNS version on a cached key, a reload and an expiry *)
Example C12_example :
  map (fun o => match o with Some (r, oc) => Some (fst (fst r), oc) | None => None end)
      (crun N bytes (bytes * N * N) ex_lower (fun _ r => q_from r) ex_core ex_weighted (fun _ _ => false) ex_finish
            (fun r => q_extra r =? 99) (fun r => ([66], q_extra r, 0)) (mkCC true 2 0) (4, []) ex_hist) =
  [Some ([87; 119; 87; 4], OMiss); Some ([87; 119; 87; 4], OHit); Some ([119; 119; 119; 4], OMiss);
   Some ([119; 4; 4], OMiss); Some ([66], OOff); None; Some ([119; 119; 119; 5], OMiss); Some ([119; 119; 119; 5], OExpired)] /\
  hist_ok N ex_lower (fun _ r => q_from r) wf_key 4 ex_hist.
Proof. exact cache_example. Qed.
Print Assumptions C12_example.

(* Schedule part (Model/Reload.v; vocabulary as in Properties/C05.v).  Once a reload has
   returned, no query that takes the read lock afterwards is served anything computed from an
   older generation - REFUTED (F6): cdb, cache on, query 0 is parked before its cache insert on
   generation 1 (epoch 0), a full reload to generation 2 (epoch 1) completes including the purge,
   query 0 inserts, query 1 starts afterwards and is served the entry of epoch 0. *)
Theorem C12_no_stale_after_reload_refuted :
  exists cfg d p0 sched i j r q l g,
    let st := run nof nof cfg (init cfg d p0) sched in
    rat st i r /\ qat st j q /\ r_pc r = RDone None /\ q_pc q <> QStart /\ r_unlock_at r < q_acq_at q /\
    q_resp q = Some l /\ In g l /\ g_epoch g < r_epoch r.
Proof. exact no_stale_refuted. Qed.
Print Assumptions C12_no_stale_after_reload_refuted.

(* It holds on every schedule in which no query inserts an entry containing a read older than the
   last purge (the flag st_f6 is raised exactly by such an insert: Model/Reload.v q_step,
   QBeforeInsert), for all schedules, both drivers, any reloads. *)
Theorem C12_no_stale_after_reload_outside_finding :
  forall refusedf weightedf cfg d p0 sched i j r q l,
  let st := run refusedf weightedf cfg (init cfg d p0) sched in
  st_f6 st = false ->
  rat st i r -> qat st j q -> r_pc r = RDone None -> q_pc q <> QStart -> r_unlock_at r < q_acq_at q ->
  q_resp q = Some l -> forall g, In g l -> r_epoch r <= g_epoch g.
Proof. exact no_stale_outside. Qed.
Print Assumptions C12_no_stale_after_reload_outside_finding.

(* ================================================================ COMPOSITION: the cache over the database handler
   Model/Compose.v puts Model/Cache.v on top of Model/Serve.v (C01 / C02 / C13) without changing either:
   thin adapters only.  Proofs: Proofs/Compose.v; non-vacuity: Proofs/ComposeExample.v.

   Vocabulary (Model/Compose.v; the file's header says which projection is used where types differ).
   [gen] : a generation = backend, database (key -> rows), and FindLocation on it, [g_loc : request -> locres].
   [query_of r] : the Serve.query of a Cache.request (q_asked = name on the wire as asked, q_extra = id +
     65536 * (0 | 1 + EDNS version)); [request_of] is its inverse for 16-bit ids.
   [locate g r] : the location as the number in the cache key, 65536 when FindLocation fails; [loc_of_num] back
     to two bytes; [located g r] : FindLocation succeeded.
   [core max g k a _] := Serve.serve on g for the canonical request (id 0, OPT version 0, no ECS) of name a
     (as asked), the key's type, class and location - Cache.serve_core, the message put into the LRU;
   [finish b r _ ecs] := patch b (query_of r) ecs : SetReply (this request's id and question) + OPT with the
     ECS option - Cache.finish.  The written response is a FUNCTION of the ECS option FindLocation returned
     (wresponse = option ecsval -> Serve.outcome), because that option depends on the generation and Cache.finish
     does not see the generation; Serve.serve uses it nowhere but in the OPT.
   [weightedf] : some address family offered more than one candidate (Wrs.WeightedAnswer) in the answer or for
     a target of the additional section; [refusedf] : REFUSED or SERVFAIL (both return before lru.Add).
   [handle max cfg g c now r] : the whole handler = Cache.serve of this instance, preceded by "FindLocation
     failed: no reply" (after the EDNS version test, before the cache); [htrace cfg (g0, []) h] : for every
     query of the history h (events of Model/Cache: queries, reloads, failed reloads) the generation in force,
     the max answer it arrives with, the request, the response written and hit / miss / expired / off.
   max (max answer) is the listener's (C20): in a history it is the third component of a query event
     (EQuery now max r - Cache's per-query draws, which Serve.v does not have), so queries of listeners
     configured differently may share the cache; [hist_max m h] : all queries of h arrive with max answer m.

   Weighted answers.  Serve.v has no random draw: a weighted selection is an item IPick (candidate list, number
   served) and C01 compares it as a candidate set (C11 owns the draw).  At this level a cached weighted answer
   (possible only with WRSTimeout > 0) is the same candidate set, so the statements below hold for weighted
   answers as well; what they say about them is "the frozen draw is one of the draws the statement admits",
   NOT that the cache redraws.  C12_cached_equals_uncached excludes them (w = false) and so does its instance
   C12_cached_equals_uncached_handler. *)
From DnsV Require Import Model.Store Model.LookupV1 Model.Serve Spec.Answer Spec.Rows Proofs.ZoneCut Proofs.Referral.
From DnsV Require Import Proofs.Compile Proofs.V2Store Model.Compile Proofs.Batch Proofs.CompilePipe Spec.MapOfLists.
From DnsV Require Import Spec.Declared Proofs.FileLevel Proofs.FileLevelExample.
From Coq Require Import Permutation.
From DnsV Require Import Model.Compose Proofs.Compose Proofs.ComposeExample.

(* ADAPTER LEMMAS.  (1) Serve.serve depends on id, EDNS presence and the ECS option only through the final
   patch: it is the canonical outcome re-addressed to the request (EDNS version 0 or no OPT; other versions
   are answered before anything else: C13_badvers) *)
Theorem C12_serve_factors : forall b st q locr ecs max,
  (q_edns q = None \/ q_edns q = Some 0) ->
  Serve.serve b st q locr ecs max =
  patch (Serve.serve b st (canon (q_name q) (q_type q) (q_class q)) locr None max) q ecs.
Proof. exact serve_factor. Qed.
Print Assumptions C12_serve_factors.

(* (2) hence the UNCACHED handler of Model/Cache for this instance is Serve.serve, for every request that has a
   location or an unsupported EDNS version *)
Theorem C12_uncached_handler_is_serve : forall max g r ecs, (badvers r = true \/ located g r = true) ->
  Cache.serve_plain gen body wresponse lower_bytes locate (core max) finish badvers badvers_reply g 0 r ecs =
  Serve.serve (g_backend g) (g_store g) (query_of r) (g_loc g r) ecs max.
Proof. exact plain_is_serve. Qed.
Print Assumptions C12_uncached_handler_is_serve.

(* (3) requests and queries: the request built from a query is read back as that query *)
Theorem C12_request_roundtrip : forall from q, q_id q < 65536 -> query_of (request_of from q) = q.
Proof. exact query_of_request_of. Qed.
Print Assumptions C12_request_roundtrip.

(* (4) location numbers and bytes *)
Theorem C12_location_roundtrip : forall g r, located g r = true ->
  g_loc g r = LocOk (loc_of_num (locate g r)) /\ locate g r < 65536.
Proof. exact located_loc. Qed.
Print Assumptions C12_location_roundtrip.

(* (5) on the domain of C12_cached_equals_uncached (every key well formed, i.e. every request located), all
   queries arriving with one max answer, the run of [handle] IS the cached run Cache.crun of Model/Cache for
   this instance *)
Theorem C12_handler_is_cache_model : forall max cfg h g c,
  hist_max max h ->
  Cache.hist_ok gen lower_bytes locate wf_key g h ->
  map (fun x => (snd (fst x), snd x)) (htrace cfg (g, c) h) =
  flat_map (fun o => match o with Some x => [x] | None => [] end)
    (crun gen body wresponse lower_bytes locate (core max) (weightedf max) (refusedf max)
          finish badvers badvers_reply cfg (g, c) h).
Proof. exact htrace_is_crun. Qed.
Print Assumptions C12_handler_is_cache_model.

(* C12_cached_equals_uncached APPLIED to the real handler.  Its hypothesis (a) is false of Serve.serve for
   "equal up to the letter case of owner names" (C12_case_variant_not_owner_case below), so the relation is
   the one that holds: the cached and the uncached response are what the handler computes for two
   spellings, equal up to letter case, of one name (same generation, key, request) - or are equal.
   Hypothesis (b) holds trivially (no draws in Serve.v). *)
Theorem C12_cached_equals_uncached_handler : forall max cfg rnd' h g,
  Cache.hist_ok gen lower_bytes locate wf_key g h ->
  Forall (fun x => let '(w, a, b) := x in w = false ->
            a = b \/ exists g k a1 a2 r l, lower_bytes a1 = lower_bytes a2 /\
                       a = finish (core max g k a1 0) r l /\ b = finish (core max g k a2 0) r l)
    (both gen body wresponse lower_bytes locate (core max) (weightedf max) (refusedf max)
          finish badvers badvers_reply cfg rnd' g [] h).
Proof. exact cached_equals_uncached_handler. Qed.
Print Assumptions C12_cached_equals_uncached_handler.

(* The same by the invariant of C12 ("every entry is serve_core of the current generation at its key"),
   which says WHICH generation, key and request: for every history (queries of located and unlocated
   clients, any EDNS, any max answers, reloads, failed reloads; any cache size, WRSTimeout, clock readings),
   every response of the cache-enabled handler is
   - nothing, when FindLocation fails (and the EDNS version is supported), or
   - the response Serve.serve gives, on the generation in force, to the same request with the name spelled
     [a], equal to the name asked up to letter case, arriving with a max answer [mx'], re-addressed to this
     request's question (a BADVERS reply has none); on a miss, an expired entry or with the cache off, [a]
     is the name asked itself and [mx'] this query's max answer. *)
Theorem C12_cached_is_case_variant_of_uncached : forall cfg h g0,
  hist_wire h ->
  Forall (fun x => let '(g, mx, r, f, o) := x in
    (badvers r = false /\ located g r = false /\ f = (fun _ => ONoReply)) \/
    ((badvers r = true \/ located g r = true) /\
     exists a mx', lower_bytes a = lower_bytes (q_asked r) /\ (o <> OHit -> a = q_asked r /\ mx' = mx) /\
       forall ecs, f ecs =
         requestion (Serve.serve (g_backend g) (g_store g) (query_of (recase r a)) (g_loc g r) ecs mx')
                    (match req_edns r with Some (Npos _) => None | _ => question_of (query_of r) end)))
    (htrace cfg (g0, []) h).
Proof. exact cached_is_case_variant. Qed.
Print Assumptions C12_cached_is_case_variant_of_uncached.

(* [hist_wire h] : type and class of every question are 16-bit numbers *)
Theorem C12_hist_wire_meaning : forall h, hist_wire h <->
  Forall (fun ev => match ev with EQuery _ _ _ r => q_qtype r < 65536 /\ q_qclass r < 65536 | _ => True end) h.
Proof. intros. unfold hist_wire. tauto. Qed.
Print Assumptions C12_hist_wire_meaning.
Theorem C12_hist_max_meaning : forall m h, hist_max m h <->
  Forall (fun ev => match ev with EQuery _ _ mx _ => mx = m | _ => True end) h.
Proof. intros. unfold hist_max. tauto. Qed.
Print Assumptions C12_hist_max_meaning.

(* [gen_declares g L recs] : the database of generation g is a compiled form of the records recs and the
   guards of the matching C01 theorem hold for a client located in L - the hypotheses of
   C01_response_is_spec (row-level compilation, v1 keys for CDB / RocksDB-v1), C01_response_is_spec_v2,
   C01_file_level_cdb, C01_file_level_rdb_v1, C01_file_level_rdb_v2 (ANY database the modelled
   compilers produce from the text of a well-formed data file whose declared records are recs) *)
Theorem C12_gen_declares_meaning : forall g L recs, gen_declares g L recs <->
  (g_backend g <> RDB2 /\ g_store g = store_v1 recs /\
   wf_recs recs /\ Forall wf_ns_rdata recs /\ length L = 2%nat /\ wf_view L recs = true) \/
  (g_backend g = RDB2 /\ g_store g = store_v2 recs /\
   wf_recs recs /\ Forall wf_ns_rdata recs /\ length L = 2%nat /\ wf_view L recs = true) \/
  (exists o serial nornet accum feature f stream kvs,
     g_backend g = CDB /\ recs = declared_file o serial f /\
     wf_file o serial f = true /\ side_ok accum feature f /\
     Permutation stream (records bytes (conv_line o serial nornet false) accum feature f) /\
     compile_cdb bytes (conv_line o serial nornet false) f stream = Ok kvs /\
     (forall k, get (g_store g) k = vals_of k kvs) /\
     loc_okb L = true /\ wf_view L recs = true) \/
  (exists o serial nornet accum feature f db,
     g_backend g = RDB1 /\ recs = declared_file o serial f /\
     wf_file o serial f = true /\ side_ok accum feature f /\ feature <> [] /\
     kvs_ok (records bytes (conv_line o serial nornet false) accum feature f) /\
     rdb_compilation bytes (conv_line o serial nornet false) accum feature f db /\ rdb_dump db (g_store g) /\
     loc_okb L = true /\ wf_view L recs = true) \/
  (exists o serial nornet accum feature f db,
     g_backend g = RDB2 /\ recs = declared_file o serial f /\
     wf_file o serial f = true /\ side_ok accum feature f /\ feature <> [] /\
     kvs_ok (records bytes (conv_line o serial nornet true) accum feature f) /\
     rdb_compilation bytes (conv_line o serial nornet true) accum feature f db /\ rdb_dump db (g_store g) /\
     length L = 2%nat /\ wf_view L recs = true).
Proof. exact gen_declares_meaning. Qed.
Print Assumptions C12_gen_declares_meaning.

(* [refines_variant L recs n q ecs a mx x] : the reply x echoes q's id and question and is otherwise what
   C01_response_is_spec prescribes (C01_response_refines_meaning) for the same question with the name
   spelled a, equal to q's up to letter case, arriving with max answer mx: the owner names of the answer
   section are spelled a.  [refines_mod_case L recs n q ecs max x] : for some such a, with max answer max *)
Theorem C12_refines_mod_case_meaning : forall L recs n q ecs max x,
  (refines_mod_case L recs n q ecs max x <-> exists a, refines_variant L recs n q ecs a max x) /\
  forall a mx,
  (refines_variant L recs n q ecs a mx x <->
   lower_bytes a = lower_bytes (q_name q) /\ rs_question x = question_of q /\
   response_refines L recs n (mkQ (q_id q) a (q_type q) (q_class q) (q_edns q)) ecs mx
     (mkResp (rs_id x) (Some (a, q_type q, q_class q)) (rs_rcode x) (rs_aa x) (rs_an x) (rs_ns x) (rs_ex x) (rs_opt x))).
Proof. intros. unfold refines_mod_case, refines_variant. split; [tauto|intros; tauto]. Qed.
Print Assumptions C12_refines_mod_case_meaning.

(* C12_cached_handler_is_spec.  For EVERY sequential history of queries (located or not, any EDNS), reloads
   and failed reloads, every cache configuration and clock, all queries arriving with max answer [max]:
   whatever the cache-ENABLED handler writes for a query with a supported EDNS version refines
   Spec/Answer.spec_response of the records DECLARED by the generation it is served from (the one in force
   when the query is asked), for the client's location in that generation - modulo the letter case of owner
   names; exactly (response_refines) unless the response is a cache hit.  A reply implies the client was
   located.  Generations are arbitrary stores: the statement is per query, under the premise that the
   generation in force is a compiled form of recs ([gen_declares]) - so it covers a fixed compiled store as
   well as reloads between databases compiled from well-formed files by any pipeline, and says nothing for
   a generation that is neither.
   By the cache invariant of C12 (Proofs/Compose.history_written), C12_key_injective, the adapter lemmas
   above and C01_response_is_spec(_v2) / C01_file_level. *)
Theorem C12_cached_handler_is_spec : forall max cfg h g0,
  hist_wire h -> hist_max max h ->
  Forall (fun x => let '(g, mx, r, f, o) := x in
    mx = max /\
    forall recs ecs y n,
      let L := loc_of_num (locate g r) in
      gen_declares g L recs ->
      (req_edns r = None \/ req_edns r = Some 0) ->
      wf_name n -> nlen (pack n) <= 255 -> lower_bytes (q_asked r) = pack n ->
      f ecs = OReply y ->
      located g r = true /\
      refines_mod_case L recs n (query_of r) ecs max y /\
      (o <> OHit -> response_refines L recs n (query_of r) ecs max y))
    (htrace cfg (g0, []) h).
Proof. exact cached_handler_is_spec. Qed.
Print Assumptions C12_cached_handler_is_spec.

(* queries arriving with ANY max answers (listeners configured differently share the cache, and its key does
   not hold the max answer): the same, except that a hit is only known to be what the statement prescribes
   for SOME max answer mx' - that of the query the entry was computed for (C12_max_answer_shared_through_cache
   shows that it need not be this query's) *)
Theorem C12_cached_handler_is_spec_any_max : forall cfg h g0,
  hist_wire h ->
  Forall (fun x => let '(g, mx, r, f, o) := x in
    forall recs ecs y n,
      let L := loc_of_num (locate g r) in
      gen_declares g L recs ->
      (req_edns r = None \/ req_edns r = Some 0) ->
      wf_name n -> nlen (pack n) <= 255 -> lower_bytes (q_asked r) = pack n ->
      f ecs = OReply y ->
      located g r = true /\
      (exists a mx', refines_variant L recs n (query_of r) ecs a mx' y) /\
      (o <> OHit -> response_refines L recs n (query_of r) ecs mx y))
    (htrace cfg (g0, []) h).
Proof. exact cached_handler_is_spec_any_max. Qed.
Print Assumptions C12_cached_handler_is_spec_any_max.

(* the same over ONE compiled store: a history without reload is served from g0 throughout *)
Theorem C12_cached_handler_is_spec_fixed_store : forall max cfg h g0 recs,
  hist_wire h -> hist_max max h ->
  Forall (fun ev => match ev with EReload _ _ => False | _ => True end) h ->
  Forall (fun x => let '(g, mx, r, f, o) := x in
    g = g0 /\ mx = max /\
    forall ecs y n,
      let L := loc_of_num (locate g0 r) in
      gen_declares g0 L recs ->
      (req_edns r = None \/ req_edns r = Some 0) ->
      wf_name n -> nlen (pack n) <= 255 -> lower_bytes (q_asked r) = pack n ->
      f ecs = OReply y ->
      located g0 r = true /\
      refines_mod_case L recs n (query_of r) ecs max y /\
      (o <> OHit -> response_refines L recs n (query_of r) ecs max y))
    (htrace cfg (g0, []) h).
Proof. exact cached_handler_is_spec_fixed. Qed.
Print Assumptions C12_cached_handler_is_spec_fixed_store.

(* non-vacuity: generation 1 = the six-line data file of C01_file_level_example as a reversed CDB stream
   (gen_declares by C01_file_level_cdb's hypotheses), generation 2 = its declared records in v2 keys;
   client 1 is located in ab by generation 1 and nowhere by generation 2, client 9 has no location.
   TXT Foo.example.com (miss), TXT foo.example.com with OPT (HIT: id 2, question foo, owner Foo, OPT with
   the ECS option), A www (one candidate: cached), client 9 (no reply), EDNS version 1 (BADVERS), reload,
   TXT FOO (miss on generation 2), A www (NODATA + SOA: generation 2 locates the client elsewhere), hit,
   expiry.  Entries: (cache outcome, (id, rcode, owners of the answer, size of authority, OPT)). *)
Example C12_cached_handler_example :
  hist_wire y_hist /\ hist_max 1 y_hist /\ gen_declares y_g1 x_L x_recs /\ gen_declares y_g2 [0; 0] x_recs /\
  map (fun x => (snd x, digest (snd (fst x) (Some [7; 7])))) (htrace y_cfg (y_g1, []) y_hist) =
  [(OMiss, Some (1, 0, [y_Foo], 0, None));
   (OHit, Some (2, 0, [y_Foo], 0, Some (Some [7; 7])));
   (OMiss, Some (3, 0, [y_www], 0, None));
   (OOff, None);
   (OOff, Some (5, 16, [], 0, Some None));
   (OMiss, Some (6, 0, [y_FOO], 0, None));
   (OMiss, Some (7, 0, [], 1, None));
   (OHit, Some (8, 0, [], 1, None));
   (OExpired, Some (9, 0, [], 1, None))] /\
  (exists x, snd (fst (nth 1 (htrace y_cfg (y_g1, []) y_hist) (y_g1, 0, mkReq 0 [] 0 0 0, fun _ => ONoReply, OOff))) None = OReply x /\
             rs_question x = Some (y_foo, 16, 1) /\
             rs_an x = [IRR (LookupV1.mkRR y_Foo 16 1 120 [5; 104; 101; 108; 108; 111])]) /\
  spec_response x_L x_recs x_n1 16 =
    Answer [x_example; x_com] false [nth 4 x_recs (mkRec [] false None 0 0 0 [])] [nth 0 x_recs (mkRec [] false None 0 0 0 [])] /\
  lower_bytes y_foo = pack x_n1 /\ lower_bytes y_Foo = lower_bytes y_foo.
Proof. exact cached_handler_example. Qed.
Print Assumptions C12_cached_handler_example.

(* "modulo owner case" cannot be sharpened to "equal after lower-casing owner names": z. SOA + NS, m.z. MX 10
   m.z. and ONE address.  ANY M.z. gets an additional A record for the MX target m.z. (db.HasRecord compares the
   target with the owner M.z. as asked, case-sensitively); ANY m.z. finds the address in the answer and adds
   none.  Neither is weighted; with the cache the second asker is served the first one's message (additional
   record included), without it none.  Both replies refine the statement (additional section of an
   authoritative answer: soundness only).  Reproduced on the real server, all three backends (C13 harness in
   replay mode, data file Zz / &z::ns.z / @m.z::m.z:10 / +m.z:192.0.2.7, cache on, ANY M.z. then ANY m.z.:
   the hit carries the additional A record, the uncached handler writes none).  An observation about
   handler.go + db/utils.go (HasRecord), not a refutation of C12_cached_equals_uncached: it shows that the
   theorem's hypothesis (a) fails for the owner-case relation when the real handler is plugged in. *)
Example C12_case_variant_not_owner_case :
  map (fun x => (snd x, extras (snd (fst x) None))) (htrace y_cfg (z_g, []) z_hist) =
    [(OMiss, [IPick z_mz 1 1 [(30, 1, [192; 0; 2; 7])] 1]);
     (OHit, [IPick z_mz 1 1 [(30, 1, [192; 0; 2; 7])] 1])] /\
  extras (plain_serve 1 z_g (mkReq 1 z_mz 255 1 (extra_of 2 None)) None) = [] /\
  weightedf 1 z_g (mkKey 0 255 1 z_mz) = false /\
  lower_bytes z_Mz = lower_bytes z_mz.
Proof. exact case_variant_not_owner_case. Qed.
Print Assumptions C12_case_variant_not_owner_case.

(* the cache key does not hold the max answer: z. SOA + NS, w.z. with two A records, WRSTimeout 60 (so the
   weighted answer is cached).  A w.z. arrives with max answer 2 (two addresses served), then with max
   answer 1: the hit serves two addresses, the uncached handler one.  Model level (Serve.v + Cache.v);
   a property of handler.go's cache key, visible only with WRSTimeout > 0 and listeners whose max answers
   differ. *)
Example C12_max_answer_shared_through_cache :
  map (fun x => (snd (fst (fst (fst x))), snd x, served (snd (fst x) None))) (htrace w_cfg (w_g, []) w_hist) =
    [(2, OMiss, 2); (1, OHit, 2)] /\
  served (plain_serve 1 w_g (mkReq 1 w_wz 1 1 (extra_of 2 None)) None) = 1 /\
  weightedf 1 w_g (mkKey 0 1 1 w_wz) = true.
Proof. exact max_answer_shared_through_cache. Qed.
Print Assumptions C12_max_answer_shared_through_cache.

(* What remains outside (stated, not hidden).
   * [weightedf] / [refusedf] of this instance are evaluated on the lower-cased name; that the real flags
     (computed for the name as asked) agree is not proved (it does not enter any statement above: they only
     decide what is inserted).
   * that an answer with at most one candidate per family does not depend on the max answer (>= 1) is not
     proved; it would turn the mx' of C12_cached_handler_is_spec_any_max into the query's own for
     non-weighted answers.
   * FindLocation ([g_loc], C03 / C10), the ECS option it returns (an argument of every response) and the
     draw among candidates (C11) stay parameters; concurrency (finding F6 above) is outside the sequential
     semantics; inherited from C01: DS at or below a delegation, order inside sections, completeness of the
     additional section of authoritative answers. *)

(* with the cache switched off (the uncached handler) no response is a hit, so C12_cached_handler_is_spec
   gives the exact refinement [response_refines] for every query *)
Theorem C12_cache_off_no_hit : forall max cfg g c now r,
  cc_enabled cfg = false -> snd (handle max cfg g c now r) <> OHit.
Proof. exact cache_off_no_hit. Qed.
Print Assumptions C12_cache_off_no_hit.
