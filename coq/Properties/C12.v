(* C12 - The response cache is invisible.
   Statements only; proofs are in Proofs/Cache.v (sequential histories, Model/Cache.v) and
   Proofs/Reload*.v (schedules with queries in flight, Model/Reload.v).

   Finding F6: a query that computed its answer on the old generation inserts it into the LRU
   after Reload purged it; queries that start after the reload returned are served the stale
   entry (C12_no_stale_after_reload_refuted). *)
From DnsV Require Import Base.Bytes Model.Cache Proofs.Cache
  Model.Reload Proofs.Reload Proofs.ReloadBase Proofs.ReloadFlags Proofs.ReloadVis Proofs.ReloadStale
  Proofs.ReloadMain Proofs.ReloadWitness.
Open Scope N_scope.

(* Sequential part.  For EVERY response computation serve_core that (a) depends on the name as
   asked only through its lower-cased form, up to the relation beq (= equality up to the letter
   case of owner names) and (b) does not depend on the random draws when the answer is not
   weighted; for every way [finish] of adding the request specific parts (id, RD/CD, question,
   OPT with ECS) that respects beq; for every EDNS version test [badvers] answered at once from the
   request alone (before location lookup and cache); for every cache size, WRSTimeout, clock readings, and every
   history of queries (any requester, type, class, name, letter case, EDNS/ECS), successful and
   failed reloads: every non-weighted query receives, with the cache, a response equivalent to
   the one it receives without it.  [both] pairs the two runs (weighted?, cached, uncached);
   rnd' maps the random draws of the cached handler to those of the uncached one (any function).
   hist_ok ... wf_key: location, qtype and qclass of every question are 16-bit numbers. *)
Theorem C12_cached_equals_uncached :
  forall (content body response : Type) (lower : bytes -> bytes) (locate : content -> request -> N)
    (serve_core : content -> key -> bytes -> N -> body) (weightedf refusedf : content -> key -> bool)
    (finish : body -> request -> N -> response)
    (badvers : request -> bool) (badvers_reply : request -> response)
    (beq : body -> body -> Prop) (req : response -> response -> Prop),
  (forall b, beq b b) -> (forall a, req a a) ->
  (forall b1 b2 r l, beq b1 b2 -> req (finish b1 r l) (finish b2 r l)) ->
  (forall g k a1 a2 rnd, lower a1 = lower a2 -> beq (serve_core g k a1 rnd) (serve_core g k a2 rnd)) ->
  (forall g k a r1 r2, weightedf g k = false -> serve_core g k a r1 = serve_core g k a r2) ->
  forall cfg rnd' h g,
  hist_ok content lower locate wf_key g h ->
  Forall (fun x => let '(w, a, b) := x in w = false -> req a b)
         (both content body response lower locate serve_core weightedf refusedf finish badvers badvers_reply cfg rnd' g [] h).
Proof. exact cache_invisible. Qed.
Print Assumptions C12_cached_equals_uncached.

(* the cached responses of [both] are exactly those of the cached run of the model *)
Theorem C12_both_is_cached_run :
  forall (content body response : Type) lower locate serve_core weightedf refusedf finish badvers badvers_reply cfg rnd' h g c,
  map (fun x => snd (fst x)) (both content body response lower locate serve_core weightedf refusedf finish badvers badvers_reply cfg rnd' g c h) =
  flat_map (fun o => match o with Some (r, _) => [r] | None => [] end)
           (crun content body response lower locate serve_core weightedf refusedf finish badvers badvers_reply cfg (g, c) h).
Proof. intros; apply both_cached. Qed.
Print Assumptions C12_both_is_cached_run.

(* the cache key "[aaa bbb]|qtype|qclass|name" determines location, qtype, qclass and name *)
Theorem C12_key_injective :
  forall k1 k2, wf_key k1 -> wf_key k2 -> key_string k1 = key_string k2 -> k1 = k2.
Proof. exact key_string_injective. Qed.
Print Assumptions C12_key_injective.

(* non-vacuity: a concrete serve_core, a history with a first asker in mixed case, a hit that
   carries this case, another location, a weighted answer, an unsupported EDNS version on a cached key, a reload and an expiry *)
Example C12_example :
  map (fun o => match o with Some (r, oc) => Some (fst (fst r), oc) | None => None end)
      (crun N bytes (bytes * N * N) ex_lower (fun _ r => q_from r) ex_core ex_weighted (fun _ _ => false) ex_finish
            (fun r => q_extra r =? 99) (fun r => ([66], q_extra r, 0)) (mkCC true 2 0) (4, []) ex_hist) =
  [Some ([87; 119; 87; 4], OMiss); Some ([87; 119; 87; 4], OHit); Some ([119; 119; 119; 4], OMiss);
   Some ([119; 4; 4], OMiss); Some ([66], OOff); None; Some ([119; 119; 119; 5], OMiss); Some ([119; 119; 119; 5], OExpired)] /\
  hist_ok N ex_lower (fun _ r => q_from r) wf_key 4 ex_hist.
Proof. exact cache_example. Qed.
Print Assumptions C12_example.

(* Schedule part (Model/Reload.v; vocabulary as in Properties/C05.v).  Once a reload has
   returned, no query that takes the read lock afterwards is served anything computed from an
   older generation - REFUTED (F6): cdb, cache on, query 0 is parked before its cache insert on
   generation 1 (epoch 0), a full reload to generation 2 (epoch 1) completes including the purge,
   query 0 inserts, query 1 starts afterwards and is served the entry of epoch 0. *)
Theorem C12_no_stale_after_reload_refuted :
  exists cfg d p0 sched i j r q l g,
    let st := run nof nof cfg (init cfg d p0) sched in
    rat st i r /\ qat st j q /\ r_pc r = RDone None /\ q_pc q <> QStart /\ r_unlock_at r < q_acq_at q /\
    q_resp q = Some l /\ In g l /\ g_epoch g < r_epoch r.
Proof. exact no_stale_refuted. Qed.
Print Assumptions C12_no_stale_after_reload_refuted.

(* It holds on every schedule in which no query inserts an entry containing a read older than the
   last purge (the flag st_f6 is raised exactly by such an insert: Model/Reload.v q_step,
   QBeforeInsert), for all schedules, both drivers, any reloads. *)
Theorem C12_no_stale_after_reload_outside_finding :
  forall refusedf weightedf cfg d p0 sched i j r q l,
  let st := run refusedf weightedf cfg (init cfg d p0) sched in
  st_f6 st = false ->
  rat st i r -> qat st j q -> r_pc r = RDone None -> q_pc q <> QStart -> r_unlock_at r < q_acq_at q ->
  q_resp q = Some l -> forall g, In g l -> r_epoch r <= g_epoch g.
Proof. exact no_stale_outside. Qed.
Print Assumptions C12_no_stale_after_reload_outside_finding.
