(* C01 - Served answers are exactly what the data file declares.
   Only statements closed by [exact]; proofs are in Proofs/.

   Vocabulary.  [recs] : the declared records (Spec/Answer.record: owner labels lower-cased,
   wildcard flag, location tag, type, ttl, weight, rdata).  [store_v1 recs] : the v1-keyed store
   they compile to (Spec/Rows: key = loc2 ++ packed owner, row = type ch [loc] ttl ttd [weight]
   rdata; rows of a key in file order).  [serve b st q (LocOk L) ecs max] : the model of
   ServeDNSWithRCODE for a client the server located in L.  [zone_cut], [authoritative],
   [source_records], [covering_wildcard] : the declarative reading of the statement (Spec/Answer).
   Guards: [wf_recs] (fields fit their widths, labels 1..63 bytes and lower case, tags are two
   bytes other than 00), [wf_view] (every name with a visible SOA has a visible NS), [wf_name n]
   with [lower_bytes (q_name q) = pack n] (n is the lower-cased query name), no OPT or EDNS
   version 0.  Backends: CDB and RocksDB with v1 keys (b <> RDB2). *)
From DnsV Require Import Base.Bytes Model.Store Model.LookupV1 Model.Serve Spec.Answer Spec.Rows.
From DnsV Require Import Proofs.Answer Proofs.Compile Proofs.ZoneCut Proofs.Refused Proofs.NxDomain Proofs.SoaAuth Proofs.AnswerItems Proofs.Referral Proofs.Glue.
From DnsV Require Import Proofs.V2Store Proofs.V2Corollaries.
From Coq Require Import Permutation.
From DnsV Require Import Spec.AnswerExtra Proofs.AuthSections.
From DnsV Require Import Proofs.V2Store Proofs.AuthSectionsV2.
Open Scope N_scope.

(* REFUSED exactly for names outside every zone visible to the client *)
Theorem C01_refused_iff_outside_zones : forall b recs L, wf_recs recs -> length L = 2%nat -> b <> RDB2 ->
  wf_view L recs = true -> forall q n ecs max,
  wf_name n -> lower_bytes (q_name q) = pack n -> (q_edns q = None \/ q_edns q = Some 0) ->
  (zone_cut L recs n = None <-> serve b (store_v1 recs) q (LocOk L) ecs max = refused_reply q ecs).
Proof. exact refused_iff_outside_zones_v1. Qed.
Print Assumptions C01_refused_iff_outside_zones.

(* at or below a delegation (the closest visible NS has no visible SOA; any type but DS): a
   non-authoritative NOERROR reply with an empty answer section whose authority section is exactly
   the NS records of the cut (owner = the cut, class = the query's class, declared TTL and target).
   [wf_ns_rdata]: the rdata of NS records is one uncompressed wire name *)
Theorem C01_referral_at_or_below_delegation : forall b recs L, wf_recs recs -> Forall wf_ns_rdata recs ->
  length L = 2%nat -> b <> RDB2 -> wf_view L recs = true -> forall q n z ecs max x,
  wf_name n -> nlen (pack n) <= 255 -> lower_bytes (q_name q) = pack n ->
  (q_edns q = None \/ q_edns q = Some 0) -> q_type q <> 43 ->
  zone_cut L recs n = Some z -> authoritative L recs z = false ->
  serve b (store_v1 recs) q (LocOk L) ecs max = OReply x ->
  rs_aa x = false /\ rs_rcode x = 0 /\ rs_an x = [] /\
  rs_ns x = map (ns_item (pack z) (q_class q)) (filter is_ns (ordered_at recs L z)) /\
  Permutation (filter is_ns (ordered_at recs L z)) (of_type 2 (own_records L recs z)).
Proof. exact referral_v1. Qed.
Print Assumptions C01_referral_at_or_below_delegation.

(* the additional section of that referral (glue), as a function of the declared records: for every
   NS record of the authority section in order, and each address family for which the message has no
   record of that target yet, the non-wildcard address records stored under the lower-cased target
   (client's location first, then untagged: [at_keys]) are the candidates and one of positive weight is
   served ([glue_step]); nothing else is added *)
Theorem C01_referral_glue : forall b recs L, wf_recs recs -> Forall wf_ns_rdata recs ->
  length L = 2%nat -> b <> RDB2 -> wf_view L recs = true -> forall q n z ecs max x,
  wf_name n -> nlen (pack n) <= 255 -> lower_bytes (q_name q) = pack n ->
  (q_edns q = None \/ q_edns q = Some 0) -> q_type q <> 43 ->
  zone_cut L recs n = Some z -> authoritative L recs z = false ->
  serve b (store_v1 recs) q (LocOk L) ecs max = OReply x ->
  rs_ex x = m_ex (fold_left (glue_step recs L (q_class q)) (map r_rdata (ns_of_cut recs L z))
                            (mkMsg [] (map (ns_item (pack z) (q_class q)) (ns_of_cut recs L z)) [])).
Proof. exact referral_glue_v1. Qed.
Print Assumptions C01_referral_glue.

(* inside an authoritative zone: NXDOMAIN exactly when neither the name nor a covering wildcard
   (nearest ancestor inside the zone, across wild-safe labels only) has a visible record *)
Theorem C01_nxdomain_iff_nothing : forall b recs L, wf_recs recs -> length L = 2%nat -> b <> RDB2 ->
  wf_view L recs = true -> forall q n z ecs max x,
  wf_name n -> nlen (pack n) <= 255 -> lower_bytes (q_name q) = pack n ->
  (q_edns q = None \/ q_edns q = Some 0) ->
  zone_cut L recs n = Some z -> authoritative L recs z = true ->
  serve b (store_v1 recs) q (LocOk L) ecs max = OReply x ->
  (rs_rcode x = 3 <-> source_records L recs z n = []).
Proof. exact nxdomain_iff_nothing_v1. Qed.
Print Assumptions C01_nxdomain_iff_nothing.

(* inside an authoritative zone the reply has AA set, and an empty answer section comes with
   exactly one visible SOA record of the zone apex in the authority section *)
Theorem C01_empty_auth_has_soa : forall b recs L, wf_recs recs -> length L = 2%nat -> b <> RDB2 ->
  wf_view L recs = true -> forall q n z ecs max x,
  wf_name n -> nlen (pack n) <= 255 -> lower_bytes (q_name q) = pack n ->
  (q_edns q = None \/ q_edns q = Some 0) ->
  zone_cut L recs n = Some z -> authoritative L recs z = true ->
  serve b (store_v1 recs) q (LocOk L) ecs max = OReply x ->
  rs_aa x = true /\
  (item_count (rs_an x) = 0 ->
   exists r, In r (of_type 6 (own_records L recs z)) /\ rs_ns x = [soa_item (pack z) r]).
Proof. exact empty_auth_has_soa_v1. Qed.
Print Assumptions C01_empty_auth_has_soa.

(* inside an authoritative zone the answer section is exactly [answer_of]: the declared records of
   the queried type (or CNAME; every type for ANY) among the name's own visible records, else among
   those of the covering wildcard - owner = the name as queried, class IN, declared TTL and rdata;
   A / AAAA records as the candidate list (ttl, weight, address) with the number served,
   min(max-answer, number of positive weights).  [src_ordered] lists the spec's [source_records]
   in the order the reader meets them (records tagged with the client's location first) *)
Theorem C01_answer_exactly_declared : forall b recs L, wf_recs recs -> length L = 2%nat -> b <> RDB2 ->
  wf_view L recs = true -> forall q n z ecs max x,
  wf_name n -> nlen (pack n) <= 255 -> lower_bytes (q_name q) = pack n ->
  (q_edns q = None \/ q_edns q = Some 0) ->
  zone_cut L recs n = Some z -> authoritative L recs z = true ->
  serve b (store_v1 recs) q (LocOk L) ecs max = OReply x ->
  rs_an x = answer_of (q_name q) (q_type q) max (src_ordered recs L z n) /\
  Permutation (src_ordered recs L z n) (source_records L recs z n).
Proof. exact answer_exactly_declared_v1. Qed.
Print Assumptions C01_answer_exactly_declared.

(* scope of wildcards (a property of the spec the theorems above refine to): records of a wildcard
   answer only a name without visible records of its own ([source_records]); the covering wildcard
   is a strict ancestor with visible wildcard records, reached across wild-safe labels only,
   without passing the zone apex, and it is the nearest such ancestor *)
Theorem C01_wildcard_scope : forall L recs apex n a,
  covering_wildcard L recs apex n = Some a ->
  exists labs, labs <> [] /\ n = labs ++ a /\ Forall (fun l => wildsafe_label l = true) labs /\
    nonempty (wild_records L recs a) = true /\
    (forall k, (k < length labs)%nat -> name_eqb (skipn k n) apex = false) /\
    (forall k, (0 < k < length labs)%nat -> nonempty (wild_records L recs (skipn k n)) = false).
Proof. exact covering_wildcard_scope. Qed.
Print Assumptions C01_wildcard_scope.

(* the zone-cut walk of IsAuthoritative computes the spec's zone cut *)
Theorem C01_zone_walk : forall b recs L, wf_recs recs -> length L = 2%nat ->
  forall n fuel, wf_name n -> wf_view L recs = true -> (length (pack n) < fuel)%nat ->
  is_auth_v1 b (store_v1 recs) fuel (pack n) L false false =
    Val (match zone_cut L recs n with
         | Some z => mkAuth true (authoritative L recs z) (pack z) false
         | None => mkAuth false false [0] false
         end).
Proof. exact is_auth_walk. Qed.
Print Assumptions C01_zone_walk.

(* compile . decode: the row stored for a record decodes to the record's type, ttl, weight and rdata *)
Theorem C01_row_roundtrip : forall r wild, wf_rec r ->
  extract_rr (row_of r) wild = Val (if Bool.eqb wild (r_wild r) then Some (head_of r) else None) /\
  slice_from (row_of r) (h_off (head_of r)) = Val (r_rdata r).
Proof. exact extract_row_of. Qed.
Print Assumptions C01_row_roundtrip.

(* get on the compiled store returns the rows declared for that key, in file order *)
Theorem C01_get_compiled : forall recs k,
  get (store_v1 recs) k = map row_of (filter (fun r => bytes_eqb (key_v1 r) k) recs).
Proof. exact get_compiled. Qed.
Print Assumptions C01_get_compiled.

(* properties of the spec itself *)
Theorem C01_zone_cut_sound : forall L recs n z,
  zone_cut L recs n = Some z ->
  ancestor_or_self z n /\ nonempty (of_type 2 (own_records L recs z)) = true.
Proof. exact zone_cut_sound. Qed.
Print Assumptions C01_zone_cut_sound.

(* authoritative answers, remaining sections.  (1) A NON-EMPTY answer comes with an empty authority
   section (the code adds NS for referrals only).  (2) The additional section is sound: every record
   of it - taken at its position [pre ++ i :: post] - is an address pick [IPick t ty class cands 1] of
   family A (1) or AAAA (28) whose owner t is the target of an NS / MX record (or the owner of an HTTPS
   record) of the answer or authority section ([target_of]), whose (owner, type) is in no section of
   the message built so far ([has_record ... = false]: nothing already in the message is repeated,
   hence at most one record per family and target), of which exactly one candidate of positive weight
   is served ([npick 1 cands = 1]; WHICH one is C11's), and whose candidates are exactly the declared,
   visible, non-wildcard address records of the lower-cased target (Spec/AnswerExtra.addr_records) *)
Theorem C01_auth_answer_additional_sound : forall b recs L, wf_recs recs -> length L = 2%nat -> b <> RDB2 ->
  wf_view L recs = true -> forall q n z ecs max x,
  wf_name n -> nlen (pack n) <= 255 -> lower_bytes (q_name q) = pack n ->
  (q_edns q = None \/ q_edns q = Some 0) ->
  zone_cut L recs n = Some z -> authoritative L recs z = true ->
  serve b (store_v1 recs) q (LocOk L) ecs max = OReply x ->
  (item_count (rs_an x) <> 0 -> rs_ns x = []) /\
  forall pre i post, rs_ex x = pre ++ i :: post ->
    exists t ty cands,
      i = IPick t ty (q_class q) cands 1 /\ (ty = 1 \/ ty = 28) /\
      (exists it, In it (rs_an x ++ rs_ns x) /\ target_of it = Some t) /\
      has_record (mkMsg (rs_an x) (rs_ns x) pre) t ty = false /\
      npick 1 cands = 1 /\
      exists rs, cands = map cand_of rs /\ Permutation rs (addr_records L recs t ty).
Proof. exact auth_answer_additional_sound_v1. Qed.
Print Assumptions C01_auth_answer_additional_sound.

(* [extras_sound recs L class an ns ex] (used below) is that same clause for every record of ex *)
Theorem C01_extras_sound_meaning : forall recs L qc an ns ex, extras_sound recs L qc an ns ex ->
  forall pre i post, ex = pre ++ i :: post ->
    exists t ty cands,
      i = IPick t ty qc cands 1 /\ (ty = 1 \/ ty = 28) /\
      (exists it, In it (an ++ ns) /\ target_of it = Some t) /\
      has_record (mkMsg an ns pre) t ty = false /\
      npick 1 cands = 1 /\
      exists rs, cands = map cand_of rs /\ Permutation rs (addr_records L recs t ty).
Proof. exact extras_sound_meaning. Qed.
Print Assumptions C01_extras_sound_meaning.

(* C01 in one statement, for the label-by-label reader (CDB, RocksDB v1 keys) over the compiled store:
   whatever serve replies refines what Spec/Answer.spec_response prescribes for the declared records,
   the lower-cased query name n and the query type, in every response class:
   - Refused: rcode 5, AA clear, all three sections empty;
   - Referral z nsr (any type but DS, which the statement leaves open): rcode 0, AA clear, empty answer,
     authority = the records nsr as NS items of owner z and the query's class, in some order; sound glue;
   - Answer z nx ans soa: AA set, rcode 3 iff nx, answer = the records ans in some order as
     [answer_items] (owner as queried, class IN, declared TTL and rdata; addresses as candidate lists
     with the number served, min(max-answer, positive weights)); with an empty answer exactly one of the
     SOA records soa in the authority section, otherwise an empty authority section; sound additional
     section;
   and in every class the reply echoes ID and question and carries OPT (with the ECS option
   FindLocation returned) exactly when the query had one.
   Left open, as in Spec/Answer: order inside a section (the existential permutations), which
   candidates are drawn (C11), completeness of the additional section of an authoritative answer
   (for referrals C01_referral_glue gives it exactly), DS at or below a delegation *)
Theorem C01_response_is_spec : forall b recs L, wf_recs recs -> Forall wf_ns_rdata recs -> length L = 2%nat ->
  b <> RDB2 -> wf_view L recs = true -> forall q n ecs max x,
  wf_name n -> nlen (pack n) <= 255 -> lower_bytes (q_name q) = pack n ->
  (q_edns q = None \/ q_edns q = Some 0) ->
  serve b (store_v1 recs) q (LocOk L) ecs max = OReply x ->
  rs_id x = q_id q /\ rs_question x = question_of q /\
  match spec_response L recs n (q_type q) with
  | Refused =>
      rs_rcode x = 5 /\ rs_aa x = false /\ rs_an x = [] /\ rs_ns x = [] /\ rs_ex x = [] /\ rs_opt x = opt_of q ecs
  | Referral z nsr =>
      q_type q <> 43 ->
      rs_rcode x = 0 /\ rs_aa x = false /\ rs_an x = [] /\
      (exists ord, Permutation ord nsr /\ rs_ns x = map (ns_item (pack z) (q_class q)) ord) /\
      extras_sound recs L (q_class q) (rs_an x) (rs_ns x) (rs_ex x) /\ rs_opt x = opt_of q ecs
  | Answer z nx ans soa =>
      rs_rcode x = (if nx then 3 else 0) /\ rs_aa x = true /\
      (exists ord, Permutation ord ans /\ rs_an x = answer_items (q_name q) max ord) /\
      (if item_count (rs_an x) =? 0 then exists r, In r soa /\ rs_ns x = [soa_item (pack z) r] else rs_ns x = []) /\
      extras_sound recs L (q_class q) (rs_an x) (rs_ns x) (rs_ex x) /\ rs_opt x = opt_of q ecs
  end.
Proof. exact response_is_spec_v1. Qed.
Print Assumptions C01_response_is_spec.

(* ---------------------------------------------------------------- the closest-key reader (RocksDB v2 keys)
   C02_v2_equals_v1 (Properties/C02.v): under the guards used here the handler over the v2-keyed
   store [store_v2 recs] returns exactly the outcome of the handler over the v1-keyed store, so every
   clause above holds for the third backend as well (same statements, serve RDB2 (store_v2 recs)) *)
Theorem C01_refused_iff_outside_zones_v2 : forall recs L, wf_recs recs -> length L = 2%nat ->
  wf_view L recs = true -> forall q n ecs max,
  wf_name n -> nlen (pack n) <= 255 -> lower_bytes (q_name q) = pack n -> (q_edns q = None \/ q_edns q = Some 0) ->
  (zone_cut L recs n = None <-> serve RDB2 (store_v2 recs) q (LocOk L) ecs max = refused_reply q ecs).
Proof. exact refused_iff_outside_zones_v2. Qed.
Print Assumptions C01_refused_iff_outside_zones_v2.

Theorem C01_referral_at_or_below_delegation_v2 : forall recs L, wf_recs recs -> length L = 2%nat ->
  wf_view L recs = true -> Forall wf_ns_rdata recs -> forall q n z ecs max x,
  wf_name n -> nlen (pack n) <= 255 -> lower_bytes (q_name q) = pack n ->
  (q_edns q = None \/ q_edns q = Some 0) -> q_type q <> 43 ->
  zone_cut L recs n = Some z -> authoritative L recs z = false ->
  serve RDB2 (store_v2 recs) q (LocOk L) ecs max = OReply x ->
  rs_aa x = false /\ rs_rcode x = 0 /\ rs_an x = [] /\
  rs_ns x = map (ns_item (pack z) (q_class q)) (filter is_ns (ordered_at recs L z)) /\
  Permutation (filter is_ns (ordered_at recs L z)) (of_type 2 (own_records L recs z)).
Proof. exact referral_v2. Qed.
Print Assumptions C01_referral_at_or_below_delegation_v2.

Theorem C01_referral_glue_v2 : forall recs L, wf_recs recs -> length L = 2%nat ->
  wf_view L recs = true -> Forall wf_ns_rdata recs -> forall q n z ecs max x,
  wf_name n -> nlen (pack n) <= 255 -> lower_bytes (q_name q) = pack n ->
  (q_edns q = None \/ q_edns q = Some 0) -> q_type q <> 43 ->
  zone_cut L recs n = Some z -> authoritative L recs z = false ->
  serve RDB2 (store_v2 recs) q (LocOk L) ecs max = OReply x ->
  rs_ex x = m_ex (fold_left (glue_step recs L (q_class q)) (map r_rdata (ns_of_cut recs L z))
                            (mkMsg [] (map (ns_item (pack z) (q_class q)) (ns_of_cut recs L z)) [])).
Proof. exact referral_glue_v2. Qed.
Print Assumptions C01_referral_glue_v2.

Theorem C01_nxdomain_iff_nothing_v2 : forall recs L, wf_recs recs -> length L = 2%nat ->
  wf_view L recs = true -> forall q n z ecs max x,
  wf_name n -> nlen (pack n) <= 255 -> lower_bytes (q_name q) = pack n ->
  (q_edns q = None \/ q_edns q = Some 0) ->
  zone_cut L recs n = Some z -> authoritative L recs z = true ->
  serve RDB2 (store_v2 recs) q (LocOk L) ecs max = OReply x ->
  (rs_rcode x = 3 <-> source_records L recs z n = []).
Proof. exact nxdomain_iff_nothing_v2. Qed.
Print Assumptions C01_nxdomain_iff_nothing_v2.

Theorem C01_empty_auth_has_soa_v2 : forall recs L, wf_recs recs -> length L = 2%nat ->
  wf_view L recs = true -> forall q n z ecs max x,
  wf_name n -> nlen (pack n) <= 255 -> lower_bytes (q_name q) = pack n ->
  (q_edns q = None \/ q_edns q = Some 0) ->
  zone_cut L recs n = Some z -> authoritative L recs z = true ->
  serve RDB2 (store_v2 recs) q (LocOk L) ecs max = OReply x ->
  rs_aa x = true /\
  (item_count (rs_an x) = 0 ->
   exists r, In r (of_type 6 (own_records L recs z)) /\ rs_ns x = [soa_item (pack z) r]).
Proof. exact empty_auth_has_soa_v2. Qed.
Print Assumptions C01_empty_auth_has_soa_v2.

Theorem C01_answer_exactly_declared_v2 : forall recs L, wf_recs recs -> length L = 2%nat ->
  wf_view L recs = true -> forall q n z ecs max x,
  wf_name n -> nlen (pack n) <= 255 -> lower_bytes (q_name q) = pack n ->
  (q_edns q = None \/ q_edns q = Some 0) ->
  zone_cut L recs n = Some z -> authoritative L recs z = true ->
  serve RDB2 (store_v2 recs) q (LocOk L) ecs max = OReply x ->
  rs_an x = answer_of (q_name q) (q_type q) max (src_ordered recs L z n) /\
  Permutation (src_ordered recs L z n) (source_records L recs z n).
Proof. exact answer_exactly_declared_v2. Qed.
Print Assumptions C01_answer_exactly_declared_v2.

(* the candidates db.AdditionalSectionForRecords offers for a target t and a family ty - the
   non-wildcard rows of that type under the two keys probed for the lower-cased target ([at_keys],
   used by C01_referral_glue) - are exactly the declared, visible, non-wildcard address records of
   that name (Spec/AnswerExtra.addr_records) *)
Theorem C01_glue_candidates_declared : forall recs L, wf_recs recs -> length L = 2%nat -> forall t ty,
  Permutation (filter (fun r => negb (r_wild r) && (r_type r =? ty) && true) (at_keys recs L (lower_bytes t)))
              (addr_records L recs t ty).
Proof. exact cands_perm. Qed.
Print Assumptions C01_glue_candidates_declared.

(* the same two statements for the closest-key reader over the v2-keyed store (through C02) *)
Theorem C01_auth_answer_additional_sound_v2 : forall recs L, wf_recs recs -> length L = 2%nat ->
  wf_view L recs = true -> forall q n z ecs max x,
  wf_name n -> nlen (pack n) <= 255 -> lower_bytes (q_name q) = pack n ->
  (q_edns q = None \/ q_edns q = Some 0) ->
  zone_cut L recs n = Some z -> authoritative L recs z = true ->
  serve RDB2 (store_v2 recs) q (LocOk L) ecs max = OReply x ->
  (item_count (rs_an x) <> 0 -> rs_ns x = []) /\
  forall pre i post, rs_ex x = pre ++ i :: post ->
    exists t ty cands,
      i = IPick t ty (q_class q) cands 1 /\ (ty = 1 \/ ty = 28) /\
      (exists it, In it (rs_an x ++ rs_ns x) /\ target_of it = Some t) /\
      has_record (mkMsg (rs_an x) (rs_ns x) pre) t ty = false /\
      npick 1 cands = 1 /\
      exists rs, cands = map cand_of rs /\ Permutation rs (addr_records L recs t ty).
Proof. exact auth_answer_additional_sound_v2. Qed.
Print Assumptions C01_auth_answer_additional_sound_v2.

Theorem C01_response_is_spec_v2 : forall recs L, wf_recs recs -> Forall wf_ns_rdata recs -> length L = 2%nat ->
  wf_view L recs = true -> forall q n ecs max x,
  wf_name n -> nlen (pack n) <= 255 -> lower_bytes (q_name q) = pack n ->
  (q_edns q = None \/ q_edns q = Some 0) ->
  serve RDB2 (store_v2 recs) q (LocOk L) ecs max = OReply x ->
  rs_id x = q_id q /\ rs_question x = question_of q /\
  match spec_response L recs n (q_type q) with
  | Refused =>
      rs_rcode x = 5 /\ rs_aa x = false /\ rs_an x = [] /\ rs_ns x = [] /\ rs_ex x = [] /\ rs_opt x = opt_of q ecs
  | Referral z nsr =>
      q_type q <> 43 ->
      rs_rcode x = 0 /\ rs_aa x = false /\ rs_an x = [] /\
      (exists ord, Permutation ord nsr /\ rs_ns x = map (ns_item (pack z) (q_class q)) ord) /\
      extras_sound recs L (q_class q) (rs_an x) (rs_ns x) (rs_ex x) /\ rs_opt x = opt_of q ecs
  | Answer z nx ans soa =>
      rs_rcode x = (if nx then 3 else 0) /\ rs_aa x = true /\
      (exists ord, Permutation ord ans /\ rs_an x = answer_items (q_name q) max ord) /\
      (if item_count (rs_an x) =? 0 then exists r, In r soa /\ rs_ns x = [soa_item (pack z) r] else rs_ns x = []) /\
      extras_sound recs L (q_class q) (rs_an x) (rs_ns x) (rs_ex x) /\ rs_opt x = opt_of q ecs
  end.
Proof. exact response_is_spec_v2. Qed.
Print Assumptions C01_response_is_spec_v2.

(* C01_served_is_declared_partial.  C01_response_is_spec above is the whole statement for the v1 reader
   (CDB, RocksDB v1 keys) over the compiled store; the theorems before it show each clause separately
   (REFUSED, referral with exact glue, NXDOMAIN, AA and SOA-on-empty-answer, exact answer section,
   authority and additional section of authoritative answers, zone-cut walk, row and key round trips).
   Still partial because: (a) the closest-key (v2) reader is covered through C02's simulation
   (the _v2 theorems above, incl. C01_response_is_spec_v2), not by a direct proof; (b) DS at or below a delegation is unconstrained by the statement and
   not characterised; (c) [store_v1 recs] is the row-level compiler of Spec/Rows - that the real
   compilers write exactly these rows is C07's statement and is compared on every check run
   (Run/Core.v: compile_ok); (d) guards: records with labels of 1..63 lower-case bytes and two-byte
   location tags (wf_recs), NS rdata a single uncompressed name (wf_ns_rdata, referral clause only),
   a visible SOA comes with a visible NS (wf_view), EDNS version 0 or no OPT.  The differential run
   checks all clauses on every generated file, query, client and backend (Run/Core.v: spec_c01_obs). *)

(* the additional section of an authoritative answer is not vacuous: www.z. MX 10 M.z. (target written
   in upper case); m.z. has an untagged address, one tagged with the client's location ab, a wildcard
   address and an AAAA tagged with another location: the two visible non-wildcard A records are the
   candidates (client's location first), one is served; nothing for AAAA *)
Example C01_example_additional :
  let recs := [mkRec [[122]] false None 6 60 0 [0; 0; 0; 0; 0; 1; 0; 0; 0; 2; 0; 0; 0; 3; 0; 0; 0; 4; 0; 0; 0; 5];
               mkRec [[122]] false None 2 60 0 [1; 110; 1; 122; 0];
               mkRec [[119]; [122]] false None 15 60 0 [0; 10; 1; 77; 1; 122; 0];
               mkRec [[109]; [122]] false None 1 30 1 [192; 0; 2; 7];
               mkRec [[109]; [122]] false (Some [97; 98]) 1 40 2 [192; 0; 2; 8];
               mkRec [[109]; [122]] true None 1 50 1 [192; 0; 2; 9];
               mkRec [[109]; [122]] false (Some [99; 100]) 28 40 2 [1; 2; 3; 4; 5; 6; 7; 8; 9; 10; 11; 12; 13; 14; 15; 16]] in
  let q := mkQ 1 [1; 87; 1; 122; 0] 15 1 None in
  let n := [[119]; [122]] in
  lower_bytes (q_name q) = pack n /\ wf_view [97; 98] recs = true /\
  zone_cut [97; 98] recs n = Some [[122]] /\ authoritative [97; 98] recs [[122]] = true /\
  map cand_of (addr_records [97; 98] recs [1; 77; 1; 122; 0] 1) = [(30, 1, [192; 0; 2; 7]); (40, 2, [192; 0; 2; 8])] /\
  addr_records [97; 98] recs [1; 77; 1; 122; 0] 28 = [] /\
  serve CDB (store_v1 recs) q (LocOk [97; 98]) None 1 =
    OReply (mkResp 1 (Some ([1; 87; 1; 122; 0], 15, 1)) 0 true
              [IRR (mkRR [1; 87; 1; 122; 0] 15 1 60 [0; 10; 1; 77; 1; 122; 0])] []
              [IPick [1; 77; 1; 122; 0] 1 1 [(40, 2, [192; 0; 2; 8]); (30, 1, [192; 0; 2; 7])] 1] None).
Proof. vm_compute. repeat split; reflexivity. Qed.
Print Assumptions C01_example_additional.

(* the hypotheses are satisfiable with non-trivial values: a zone z. with a wildcard; the name
   a.b.z. has no records of its own and is covered across the wild-safe labels a and b: NOERROR *)
Example C01_example :
  let recs := [mkRec [[122]] false None 6 60 0 [0; 0; 0; 0; 0; 1; 0; 0; 0; 2; 0; 0; 0; 3; 0; 0; 0; 4; 0; 0; 0; 5];
               mkRec [[122]] false None 2 60 0 [1; 110; 0];
               mkRec [[122]] true None 16 60 0 [1; 119]] in
  let q := mkQ 1 [1; 65; 1; 98; 1; 122; 0] 16 1 None in
  let n := [[97]; [98]; [122]] in
  lower_bytes (q_name q) = pack n /\ wf_view [0; 0] recs = true /\
  zone_cut [0; 0] recs n = Some [[122]] /\ authoritative [0; 0] recs [[122]] = true /\
  source_records [0; 0] recs [[122]] n = [mkRec [[122]] true None 16 60 0 [1; 119]] /\
  serve CDB (store_v1 recs) q (LocOk [0; 0]) None 1 =
    OReply (mkResp 1 (Some ([1; 65; 1; 98; 1; 122; 0], 16, 1)) 0 true
              [IRR (mkRR [1; 65; 1; 98; 1; 122; 0] 16 1 60 [1; 119])] [] [] None).
Proof. vm_compute. repeat split; reflexivity. Qed.
Print Assumptions C01_example.
