(* C01 - Served answers are exactly what the data file declares.
   Only statements closed by [exact]; proofs are in Proofs/. *)
From DnsV Require Import Base.Bytes Spec.Answer Proofs.Answer.
Open Scope N_scope.

(* the zone cut the spec selects is the queried name or an ancestor, and has a visible NS *)
Theorem C01_zone_cut_sound : forall L recs n z,
  zone_cut L recs n = Some z ->
  ancestor_or_self z n /\ nonempty (of_type 2 (own_records L recs z)) = true.
Proof. exact zone_cut_sound. Qed.
Print Assumptions C01_zone_cut_sound.

(* REFUSED is prescribed exactly when no ancestor-or-self of the name has a visible NS *)
Theorem C01_refused_iff_outside_zones_spec : forall L recs n,
  zone_cut L recs n = None ->
  forall z, ancestor_or_self z n -> nonempty (of_type 2 (own_records L recs z)) = false.
Proof. exact zone_cut_none. Qed.
Print Assumptions C01_refused_iff_outside_zones_spec.
