(* C01 - Served answers are exactly what the data file declares.
   Only statements closed by [exact]; proofs are in Proofs/.

   Vocabulary.  [recs] : the declared records (Spec/Answer.record: owner labels lower-cased,
   wildcard flag, location tag, type, ttl, weight, rdata).  [store_v1 recs] : the v1-keyed store
   they compile to (Spec/Rows: key = loc2 ++ packed owner, row = type ch [loc] ttl ttd [weight]
   rdata; rows of a key in file order).  [serve b st q (LocOk L) ecs max] : the model of
   ServeDNSWithRCODE for a client the server located in L.  [zone_cut], [authoritative],
   [source_records], [covering_wildcard] : the declarative reading of the statement (Spec/Answer).
   Guards: [wf_recs] (fields fit their widths, labels 1..63 bytes and lower case, tags are two
   bytes other than 00), [wf_view] (every name with a visible SOA has a visible NS), [wf_name n]
   with [lower_bytes (q_name q) = pack n] (n is the lower-cased query name), no OPT or EDNS
   version 0.  Backends: CDB and RocksDB with v1 keys (b <> RDB2). *)
From DnsV Require Import Base.Bytes Model.Store Model.LookupV1 Model.Serve Spec.Answer Spec.Rows.
From DnsV Require Import Proofs.Answer Proofs.Compile Proofs.ZoneCut Proofs.Refused Proofs.NxDomain Proofs.SoaAuth Proofs.AnswerItems Proofs.Referral Proofs.Glue.
From DnsV Require Import Proofs.V2Store Proofs.V2Corollaries.
From Coq Require Import Permutation.
From DnsV Require Import Spec.AnswerExtra Proofs.AuthSections.
From DnsV Require Import Proofs.V2Store Proofs.AuthSectionsV2.
Open Scope N_scope.

(* REFUSED exactly for names outside every zone visible to the client *)
Theorem C01_refused_iff_outside_zones : forall b recs L, wf_recs recs -> length L = 2%nat -> b <> RDB2 ->
  wf_view L recs = true -> forall q n ecs max,
  wf_name n -> lower_bytes (q_name q) = pack n -> (q_edns q = None \/ q_edns q = Some 0) ->
  (zone_cut L recs n = None <-> serve b (store_v1 recs) q (LocOk L) ecs max = refused_reply q ecs).
Proof. exact refused_iff_outside_zones_v1. Qed.
Print Assumptions C01_refused_iff_outside_zones.

(* at or below a delegation (the closest visible NS has no visible SOA; any type but DS): a
   non-authoritative NOERROR reply with an empty answer section whose authority section is exactly
   the NS records of the cut (owner = the cut, class = the query's class, declared TTL and target).
   [wf_ns_rdata]: the rdata of NS records is one uncompressed wire name *)
Theorem C01_referral_at_or_below_delegation : forall b recs L, wf_recs recs -> Forall wf_ns_rdata recs ->
  length L = 2%nat -> b <> RDB2 -> wf_view L recs = true -> forall q n z ecs max x,
  wf_name n -> nlen (pack n) <= 255 -> lower_bytes (q_name q) = pack n ->
  (q_edns q = None \/ q_edns q = Some 0) -> q_type q <> 43 ->
  zone_cut L recs n = Some z -> authoritative L recs z = false ->
  serve b (store_v1 recs) q (LocOk L) ecs max = OReply x ->
  rs_aa x = false /\ rs_rcode x = 0 /\ rs_an x = [] /\
  rs_ns x = map (ns_item (pack z) (q_class q)) (filter is_ns (ordered_at recs L z)) /\
  Permutation (filter is_ns (ordered_at recs L z)) (of_type 2 (own_records L recs z)).
Proof. exact referral_v1. Qed.
Print Assumptions C01_referral_at_or_below_delegation.

(* the additional section of that referral (glue), as a function of the declared records: for every
   NS record of the authority section in order, and each address family for which the message has no
   record of that target yet, the non-wildcard address records stored under the lower-cased target
   (client's location first, then untagged: [at_keys]) are the candidates and one of positive weight is
   served ([glue_step]); nothing else is added *)
Theorem C01_referral_glue : forall b recs L, wf_recs recs -> Forall wf_ns_rdata recs ->
  length L = 2%nat -> b <> RDB2 -> wf_view L recs = true -> forall q n z ecs max x,
  wf_name n -> nlen (pack n) <= 255 -> lower_bytes (q_name q) = pack n ->
  (q_edns q = None \/ q_edns q = Some 0) -> q_type q <> 43 ->
  zone_cut L recs n = Some z -> authoritative L recs z = false ->
  serve b (store_v1 recs) q (LocOk L) ecs max = OReply x ->
  rs_ex x = m_ex (fold_left (glue_step recs L (q_class q)) (map r_rdata (ns_of_cut recs L z))
                            (mkMsg [] (map (ns_item (pack z) (q_class q)) (ns_of_cut recs L z)) [])).
Proof. exact referral_glue_v1. Qed.
Print Assumptions C01_referral_glue.

(* inside an authoritative zone: NXDOMAIN exactly when neither the name nor a covering wildcard
   (nearest ancestor inside the zone, across wild-safe labels only) has a visible record *)
Theorem C01_nxdomain_iff_nothing : forall b recs L, wf_recs recs -> length L = 2%nat -> b <> RDB2 ->
  wf_view L recs = true -> forall q n z ecs max x,
  wf_name n -> nlen (pack n) <= 255 -> lower_bytes (q_name q) = pack n ->
  (q_edns q = None \/ q_edns q = Some 0) ->
  zone_cut L recs n = Some z -> authoritative L recs z = true ->
  serve b (store_v1 recs) q (LocOk L) ecs max = OReply x ->
  (rs_rcode x = 3 <-> source_records L recs z n = []).
Proof. exact nxdomain_iff_nothing_v1. Qed.
Print Assumptions C01_nxdomain_iff_nothing.

(* inside an authoritative zone the reply has AA set, and an empty answer section comes with
   exactly one visible SOA record of the zone apex in the authority section *)
Theorem C01_empty_auth_has_soa : forall b recs L, wf_recs recs -> length L = 2%nat -> b <> RDB2 ->
  wf_view L recs = true -> forall q n z ecs max x,
  wf_name n -> nlen (pack n) <= 255 -> lower_bytes (q_name q) = pack n ->
  (q_edns q = None \/ q_edns q = Some 0) ->
  zone_cut L recs n = Some z -> authoritative L recs z = true ->
  serve b (store_v1 recs) q (LocOk L) ecs max = OReply x ->
  rs_aa x = true /\
  (item_count (rs_an x) = 0 ->
   exists r, In r (of_type 6 (own_records L recs z)) /\ rs_ns x = [soa_item (pack z) r]).
Proof. exact empty_auth_has_soa_v1. Qed.
Print Assumptions C01_empty_auth_has_soa.

(* inside an authoritative zone the answer section is exactly [answer_of]: the declared records of
   the queried type (or CNAME; every type for ANY) among the name's own visible records, else among
   those of the covering wildcard - owner = the name as queried, class IN, declared TTL and rdata;
   A / AAAA records as the candidate list (ttl, weight, address) with the number served,
   min(max-answer, number of positive weights).  [src_ordered] lists the spec's [source_records]
   in the order the reader meets them (records tagged with the client's location first) *)
Theorem C01_answer_exactly_declared : forall b recs L, wf_recs recs -> length L = 2%nat -> b <> RDB2 ->
  wf_view L recs = true -> forall q n z ecs max x,
  wf_name n -> nlen (pack n) <= 255 -> lower_bytes (q_name q) = pack n ->
  (q_edns q = None \/ q_edns q = Some 0) ->
  zone_cut L recs n = Some z -> authoritative L recs z = true ->
  serve b (store_v1 recs) q (LocOk L) ecs max = OReply x ->
  rs_an x = answer_of (q_name q) (q_type q) max (src_ordered recs L z n) /\
  Permutation (src_ordered recs L z n) (source_records L recs z n).
Proof. exact answer_exactly_declared_v1. Qed.
Print Assumptions C01_answer_exactly_declared.

(* scope of wildcards (a property of the spec the theorems above refine to): records of a wildcard
   answer only a name without visible records of its own ([source_records]); the covering wildcard
   is a strict ancestor with visible wildcard records, reached across wild-safe labels only,
   without passing the zone apex, and it is the nearest such ancestor *)
Theorem C01_wildcard_scope : forall L recs apex n a,
  covering_wildcard L recs apex n = Some a ->
  exists labs, labs <> [] /\ n = labs ++ a /\ Forall (fun l => wildsafe_label l = true) labs /\
    nonempty (wild_records L recs a) = true /\
    (forall k, (k < length labs)%nat -> name_eqb (skipn k n) apex = false) /\
    (forall k, (0 < k < length labs)%nat -> nonempty (wild_records L recs (skipn k n)) = false).
Proof. exact covering_wildcard_scope. Qed.
Print Assumptions C01_wildcard_scope.

(* the zone-cut walk of IsAuthoritative computes the spec's zone cut *)
Theorem C01_zone_walk : forall b recs L, wf_recs recs -> length L = 2%nat ->
  forall n fuel, wf_name n -> wf_view L recs = true -> (length (pack n) < fuel)%nat ->
  is_auth_v1 b (store_v1 recs) fuel (pack n) L false false =
    Val (match zone_cut L recs n with
         | Some z => mkAuth true (authoritative L recs z) (pack z) false
         | None => mkAuth false false [0] false
         end).
Proof. exact is_auth_walk. Qed.
Print Assumptions C01_zone_walk.

(* compile . decode: the row stored for a record decodes to the record's type, ttl, weight and rdata *)
Theorem C01_row_roundtrip : forall r wild, wf_rec r ->
  extract_rr (row_of r) wild = Val (if Bool.eqb wild (r_wild r) then Some (head_of r) else None) /\
  slice_from (row_of r) (h_off (head_of r)) = Val (r_rdata r).
Proof. exact extract_row_of. Qed.
Print Assumptions C01_row_roundtrip.

(* get on the compiled store returns the rows declared for that key, in file order *)
Theorem C01_get_compiled : forall recs k,
  get (store_v1 recs) k = map row_of (filter (fun r => bytes_eqb (key_v1 r) k) recs).
Proof. exact get_compiled. Qed.
Print Assumptions C01_get_compiled.

(* properties of the spec itself *)
Theorem C01_zone_cut_sound : forall L recs n z,
  zone_cut L recs n = Some z ->
  ancestor_or_self z n /\ nonempty (of_type 2 (own_records L recs z)) = true.
Proof. exact zone_cut_sound. Qed.
Print Assumptions C01_zone_cut_sound.

(* authoritative answers, remaining sections.  (1) A NON-EMPTY answer comes with an empty authority
   section (the code adds NS for referrals only).  (2) The additional section is sound: every record
   of it - taken at its position [pre ++ i :: post] - is an address pick [IPick t ty class cands 1] of
   family A (1) or AAAA (28) whose owner t is the target of an NS / MX record (or the owner of an HTTPS
   record) of the answer or authority section ([target_of]), whose (owner, type) is in no section of
   the message built so far ([has_record ... = false]: nothing already in the message is repeated,
   hence at most one record per family and target), of which exactly one candidate of positive weight
   is served ([npick 1 cands = 1]; WHICH one is C11's), and whose candidates are exactly the declared,
   visible, non-wildcard address records of the lower-cased target (Spec/AnswerExtra.addr_records) *)
Theorem C01_auth_answer_additional_sound : forall b recs L, wf_recs recs -> length L = 2%nat -> b <> RDB2 ->
  wf_view L recs = true -> forall q n z ecs max x,
  wf_name n -> nlen (pack n) <= 255 -> lower_bytes (q_name q) = pack n ->
  (q_edns q = None \/ q_edns q = Some 0) ->
  zone_cut L recs n = Some z -> authoritative L recs z = true ->
  serve b (store_v1 recs) q (LocOk L) ecs max = OReply x ->
  (item_count (rs_an x) <> 0 -> rs_ns x = []) /\
  forall pre i post, rs_ex x = pre ++ i :: post ->
    exists t ty cands,
      i = IPick t ty (q_class q) cands 1 /\ (ty = 1 \/ ty = 28) /\
      (exists it, In it (rs_an x ++ rs_ns x) /\ target_of it = Some t) /\
      has_record (mkMsg (rs_an x) (rs_ns x) pre) t ty = false /\
      npick 1 cands = 1 /\
      exists rs, cands = map cand_of rs /\ Permutation rs (addr_records L recs t ty).
Proof. exact auth_answer_additional_sound_v1. Qed.
Print Assumptions C01_auth_answer_additional_sound.

(* [extras_sound recs L class an ns ex] (used below) is that same clause for every record of ex *)
Theorem C01_extras_sound_meaning : forall recs L qc an ns ex, extras_sound recs L qc an ns ex ->
  forall pre i post, ex = pre ++ i :: post ->
    exists t ty cands,
      i = IPick t ty qc cands 1 /\ (ty = 1 \/ ty = 28) /\
      (exists it, In it (an ++ ns) /\ target_of it = Some t) /\
      has_record (mkMsg an ns pre) t ty = false /\
      npick 1 cands = 1 /\
      exists rs, cands = map cand_of rs /\ Permutation rs (addr_records L recs t ty).
Proof. exact extras_sound_meaning. Qed.
Print Assumptions C01_extras_sound_meaning.

(* C01 in one statement, for the label-by-label reader (CDB, RocksDB v1 keys) over the compiled store:
   whatever serve replies refines what Spec/Answer.spec_response prescribes for the declared records,
   the lower-cased query name n and the query type, in every response class:
   - Refused: rcode 5, AA clear, all three sections empty;
   - Referral z nsr (any type but DS, which the statement leaves open): rcode 0, AA clear, empty answer,
     authority = the records nsr as NS items of owner z and the query's class, in some order; sound glue;
   - Answer z nx ans soa: AA set, rcode 3 iff nx, answer = the records ans in some order as
     [answer_items] (owner as queried, class IN, declared TTL and rdata; addresses as candidate lists
     with the number served, min(max-answer, positive weights)); with an empty answer exactly one of the
     SOA records soa in the authority section, otherwise an empty authority section; sound additional
     section;
   and in every class the reply echoes ID and question and carries OPT (with the ECS option
   FindLocation returned) exactly when the query had one.
   Left open, as in Spec/Answer: order inside a section (the existential permutations), which
   candidates are drawn (C11), completeness of the additional section of an authoritative answer
   (for referrals C01_referral_glue gives it exactly), DS at or below a delegation *)
Theorem C01_response_is_spec : forall b recs L, wf_recs recs -> Forall wf_ns_rdata recs -> length L = 2%nat ->
  b <> RDB2 -> wf_view L recs = true -> forall q n ecs max x,
  wf_name n -> nlen (pack n) <= 255 -> lower_bytes (q_name q) = pack n ->
  (q_edns q = None \/ q_edns q = Some 0) ->
  serve b (store_v1 recs) q (LocOk L) ecs max = OReply x ->
  rs_id x = q_id q /\ rs_question x = question_of q /\
  match spec_response L recs n (q_type q) with
  | Refused =>
      rs_rcode x = 5 /\ rs_aa x = false /\ rs_an x = [] /\ rs_ns x = [] /\ rs_ex x = [] /\ rs_opt x = opt_of q ecs
  | Referral z nsr =>
      q_type q <> 43 ->
      rs_rcode x = 0 /\ rs_aa x = false /\ rs_an x = [] /\
      (exists ord, Permutation ord nsr /\ rs_ns x = map (ns_item (pack z) (q_class q)) ord) /\
      extras_sound recs L (q_class q) (rs_an x) (rs_ns x) (rs_ex x) /\ rs_opt x = opt_of q ecs
  | Answer z nx ans soa =>
      rs_rcode x = (if nx then 3 else 0) /\ rs_aa x = true /\
      (exists ord, Permutation ord ans /\ rs_an x = answer_items (q_name q) max ord) /\
      (if item_count (rs_an x) =? 0 then exists r, In r soa /\ rs_ns x = [soa_item (pack z) r] else rs_ns x = []) /\
      extras_sound recs L (q_class q) (rs_an x) (rs_ns x) (rs_ex x) /\ rs_opt x = opt_of q ecs
  end.
Proof. exact response_is_spec_v1. Qed.
Print Assumptions C01_response_is_spec.

(* ---------------------------------------------------------------- the closest-key reader (RocksDB v2 keys)
   C02_v2_equals_v1 (Properties/C02.v): under the guards used here the handler over the v2-keyed
   store [store_v2 recs] returns exactly the outcome of the handler over the v1-keyed store, so every
   clause above holds for the third backend as well (same statements, serve RDB2 (store_v2 recs)) *)
Theorem C01_refused_iff_outside_zones_v2 : forall recs L, wf_recs recs -> length L = 2%nat ->
  wf_view L recs = true -> forall q n ecs max,
  wf_name n -> nlen (pack n) <= 255 -> lower_bytes (q_name q) = pack n -> (q_edns q = None \/ q_edns q = Some 0) ->
  (zone_cut L recs n = None <-> serve RDB2 (store_v2 recs) q (LocOk L) ecs max = refused_reply q ecs).
Proof. exact refused_iff_outside_zones_v2. Qed.
Print Assumptions C01_refused_iff_outside_zones_v2.

Theorem C01_referral_at_or_below_delegation_v2 : forall recs L, wf_recs recs -> length L = 2%nat ->
  wf_view L recs = true -> Forall wf_ns_rdata recs -> forall q n z ecs max x,
  wf_name n -> nlen (pack n) <= 255 -> lower_bytes (q_name q) = pack n ->
  (q_edns q = None \/ q_edns q = Some 0) -> q_type q <> 43 ->
  zone_cut L recs n = Some z -> authoritative L recs z = false ->
  serve RDB2 (store_v2 recs) q (LocOk L) ecs max = OReply x ->
  rs_aa x = false /\ rs_rcode x = 0 /\ rs_an x = [] /\
  rs_ns x = map (ns_item (pack z) (q_class q)) (filter is_ns (ordered_at recs L z)) /\
  Permutation (filter is_ns (ordered_at recs L z)) (of_type 2 (own_records L recs z)).
Proof. exact referral_v2. Qed.
Print Assumptions C01_referral_at_or_below_delegation_v2.

Theorem C01_referral_glue_v2 : forall recs L, wf_recs recs -> length L = 2%nat ->
  wf_view L recs = true -> Forall wf_ns_rdata recs -> forall q n z ecs max x,
  wf_name n -> nlen (pack n) <= 255 -> lower_bytes (q_name q) = pack n ->
  (q_edns q = None \/ q_edns q = Some 0) -> q_type q <> 43 ->
  zone_cut L recs n = Some z -> authoritative L recs z = false ->
  serve RDB2 (store_v2 recs) q (LocOk L) ecs max = OReply x ->
  rs_ex x = m_ex (fold_left (glue_step recs L (q_class q)) (map r_rdata (ns_of_cut recs L z))
                            (mkMsg [] (map (ns_item (pack z) (q_class q)) (ns_of_cut recs L z)) [])).
Proof. exact referral_glue_v2. Qed.
Print Assumptions C01_referral_glue_v2.

Theorem C01_nxdomain_iff_nothing_v2 : forall recs L, wf_recs recs -> length L = 2%nat ->
  wf_view L recs = true -> forall q n z ecs max x,
  wf_name n -> nlen (pack n) <= 255 -> lower_bytes (q_name q) = pack n ->
  (q_edns q = None \/ q_edns q = Some 0) ->
  zone_cut L recs n = Some z -> authoritative L recs z = true ->
  serve RDB2 (store_v2 recs) q (LocOk L) ecs max = OReply x ->
  (rs_rcode x = 3 <-> source_records L recs z n = []).
Proof. exact nxdomain_iff_nothing_v2. Qed.
Print Assumptions C01_nxdomain_iff_nothing_v2.

Theorem C01_empty_auth_has_soa_v2 : forall recs L, wf_recs recs -> length L = 2%nat ->
  wf_view L recs = true -> forall q n z ecs max x,
  wf_name n -> nlen (pack n) <= 255 -> lower_bytes (q_name q) = pack n ->
  (q_edns q = None \/ q_edns q = Some 0) ->
  zone_cut L recs n = Some z -> authoritative L recs z = true ->
  serve RDB2 (store_v2 recs) q (LocOk L) ecs max = OReply x ->
  rs_aa x = true /\
  (item_count (rs_an x) = 0 ->
   exists r, In r (of_type 6 (own_records L recs z)) /\ rs_ns x = [soa_item (pack z) r]).
Proof. exact empty_auth_has_soa_v2. Qed.
Print Assumptions C01_empty_auth_has_soa_v2.

Theorem C01_answer_exactly_declared_v2 : forall recs L, wf_recs recs -> length L = 2%nat ->
  wf_view L recs = true -> forall q n z ecs max x,
  wf_name n -> nlen (pack n) <= 255 -> lower_bytes (q_name q) = pack n ->
  (q_edns q = None \/ q_edns q = Some 0) ->
  zone_cut L recs n = Some z -> authoritative L recs z = true ->
  serve RDB2 (store_v2 recs) q (LocOk L) ecs max = OReply x ->
  rs_an x = answer_of (q_name q) (q_type q) max (src_ordered recs L z n) /\
  Permutation (src_ordered recs L z n) (source_records L recs z n).
Proof. exact answer_exactly_declared_v2. Qed.
Print Assumptions C01_answer_exactly_declared_v2.

(* the candidates db.AdditionalSectionForRecords offers for a target t and a family ty - the
   non-wildcard rows of that type under the two keys probed for the lower-cased target ([at_keys],
   used by C01_referral_glue) - are exactly the declared, visible, non-wildcard address records of
   that name (Spec/AnswerExtra.addr_records) *)
Theorem C01_glue_candidates_declared : forall recs L, wf_recs recs -> length L = 2%nat -> forall t ty,
  Permutation (filter (fun r => negb (r_wild r) && (r_type r =? ty) && true) (at_keys recs L (lower_bytes t)))
              (addr_records L recs t ty).
Proof. exact cands_perm. Qed.
Print Assumptions C01_glue_candidates_declared.

(* the same two statements for the closest-key reader over the v2-keyed store (through C02) *)
Theorem C01_auth_answer_additional_sound_v2 : forall recs L, wf_recs recs -> length L = 2%nat ->
  wf_view L recs = true -> forall q n z ecs max x,
  wf_name n -> nlen (pack n) <= 255 -> lower_bytes (q_name q) = pack n ->
  (q_edns q = None \/ q_edns q = Some 0) ->
  zone_cut L recs n = Some z -> authoritative L recs z = true ->
  serve RDB2 (store_v2 recs) q (LocOk L) ecs max = OReply x ->
  (item_count (rs_an x) <> 0 -> rs_ns x = []) /\
  forall pre i post, rs_ex x = pre ++ i :: post ->
    exists t ty cands,
      i = IPick t ty (q_class q) cands 1 /\ (ty = 1 \/ ty = 28) /\
      (exists it, In it (rs_an x ++ rs_ns x) /\ target_of it = Some t) /\
      has_record (mkMsg (rs_an x) (rs_ns x) pre) t ty = false /\
      npick 1 cands = 1 /\
      exists rs, cands = map cand_of rs /\ Permutation rs (addr_records L recs t ty).
Proof. exact auth_answer_additional_sound_v2. Qed.
Print Assumptions C01_auth_answer_additional_sound_v2.

Theorem C01_response_is_spec_v2 : forall recs L, wf_recs recs -> Forall wf_ns_rdata recs -> length L = 2%nat ->
  wf_view L recs = true -> forall q n ecs max x,
  wf_name n -> nlen (pack n) <= 255 -> lower_bytes (q_name q) = pack n ->
  (q_edns q = None \/ q_edns q = Some 0) ->
  serve RDB2 (store_v2 recs) q (LocOk L) ecs max = OReply x ->
  rs_id x = q_id q /\ rs_question x = question_of q /\
  match spec_response L recs n (q_type q) with
  | Refused =>
      rs_rcode x = 5 /\ rs_aa x = false /\ rs_an x = [] /\ rs_ns x = [] /\ rs_ex x = [] /\ rs_opt x = opt_of q ecs
  | Referral z nsr =>
      q_type q <> 43 ->
      rs_rcode x = 0 /\ rs_aa x = false /\ rs_an x = [] /\
      (exists ord, Permutation ord nsr /\ rs_ns x = map (ns_item (pack z) (q_class q)) ord) /\
      extras_sound recs L (q_class q) (rs_an x) (rs_ns x) (rs_ex x) /\ rs_opt x = opt_of q ecs
  | Answer z nx ans soa =>
      rs_rcode x = (if nx then 3 else 0) /\ rs_aa x = true /\
      (exists ord, Permutation ord ans /\ rs_an x = answer_items (q_name q) max ord) /\
      (if item_count (rs_an x) =? 0 then exists r, In r soa /\ rs_ns x = [soa_item (pack z) r] else rs_ns x = []) /\
      extras_sound recs L (q_class q) (rs_an x) (rs_ns x) (rs_ex x) /\ rs_opt x = opt_of q ecs
  end.
Proof. exact response_is_spec_v2. Qed.
Print Assumptions C01_response_is_spec_v2.

(* C01_served_is_declared_partial.  C01_response_is_spec above is the whole statement for the v1 reader
   (CDB, RocksDB v1 keys) over the compiled store; the theorems before it show each clause separately
   (REFUSED, referral with exact glue, NXDOMAIN, AA and SOA-on-empty-answer, exact answer section,
   authority and additional section of authoritative answers, zone-cut walk, row and key round trips).
   Still partial because: (a) the closest-key (v2) reader is covered through C02's simulation
   (the _v2 theorems above, incl. C01_response_is_spec_v2), not by a direct proof; (b) DS at or below a delegation is unconstrained by the statement and
   not characterised; (c) [store_v1 recs] is the row-level compiler of Spec/Rows - that the real
   compilers write exactly these rows is C07's statement and is compared on every check run
   (Run/Core.v: compile_ok); (d) guards: records with labels of 1..63 lower-case bytes and two-byte
   location tags (wf_recs), NS rdata a single uncompressed name (wf_ns_rdata, referral clause only),
   a visible SOA comes with a visible NS (wf_view), EDNS version 0 or no OPT.  The differential run
   checks all clauses on every generated file, query, client and backend (Run/Core.v: spec_c01_obs). *)

(* the additional section of an authoritative answer is not vacuous: www.z. MX 10 M.z. (target written
   in upper case); m.z. has an untagged address, one tagged with the client's location ab, a wildcard
   address and an AAAA tagged with another location: the two visible non-wildcard A records are the
   candidates (client's location first), one is served; nothing for AAAA *)
Example C01_example_additional :
  let recs := [mkRec [[122]] false None 6 60 0 [0; 0; 0; 0; 0; 1; 0; 0; 0; 2; 0; 0; 0; 3; 0; 0; 0; 4; 0; 0; 0; 5];
               mkRec [[122]] false None 2 60 0 [1; 110; 1; 122; 0];
               mkRec [[119]; [122]] false None 15 60 0 [0; 10; 1; 77; 1; 122; 0];
               mkRec [[109]; [122]] false None 1 30 1 [192; 0; 2; 7];
               mkRec [[109]; [122]] false (Some [97; 98]) 1 40 2 [192; 0; 2; 8];
               mkRec [[109]; [122]] true None 1 50 1 [192; 0; 2; 9];
               mkRec [[109]; [122]] false (Some [99; 100]) 28 40 2 [1; 2; 3; 4; 5; 6; 7; 8; 9; 10; 11; 12; 13; 14; 15; 16]] in
  let q := mkQ 1 [1; 87; 1; 122; 0] 15 1 None in
  let n := [[119]; [122]] in
  lower_bytes (q_name q) = pack n /\ wf_view [97; 98] recs = true /\
  zone_cut [97; 98] recs n = Some [[122]] /\ authoritative [97; 98] recs [[122]] = true /\
  map cand_of (addr_records [97; 98] recs [1; 77; 1; 122; 0] 1) = [(30, 1, [192; 0; 2; 7]); (40, 2, [192; 0; 2; 8])] /\
  addr_records [97; 98] recs [1; 77; 1; 122; 0] 28 = [] /\
  serve CDB (store_v1 recs) q (LocOk [97; 98]) None 1 =
    OReply (mkResp 1 (Some ([1; 87; 1; 122; 0], 15, 1)) 0 true
              [IRR (mkRR [1; 87; 1; 122; 0] 15 1 60 [0; 10; 1; 77; 1; 122; 0])] []
              [IPick [1; 77; 1; 122; 0] 1 1 [(40, 2, [192; 0; 2; 8]); (30, 1, [192; 0; 2; 7])] 1] None).
Proof. vm_compute. repeat split; reflexivity. Qed.
Print Assumptions C01_example_additional.

(* the hypotheses are satisfiable with non-trivial values: a zone z. with a wildcard; the name
   a.b.z. has no records of its own and is covered across the wild-safe labels a and b: NOERROR *)
Example C01_example :
  let recs := [mkRec [[122]] false None 6 60 0 [0; 0; 0; 0; 0; 1; 0; 0; 0; 2; 0; 0; 0; 3; 0; 0; 0; 4; 0; 0; 0; 5];
               mkRec [[122]] false None 2 60 0 [1; 110; 0];
               mkRec [[122]] true None 16 60 0 [1; 119]] in
  let q := mkQ 1 [1; 65; 1; 98; 1; 122; 0] 16 1 None in
  let n := [[97]; [98]; [122]] in
  lower_bytes (q_name q) = pack n /\ wf_view [0; 0] recs = true /\
  zone_cut [0; 0] recs n = Some [[122]] /\ authoritative [0; 0] recs [[122]] = true /\
  source_records [0; 0] recs [[122]] n = [mkRec [[122]] true None 16 60 0 [1; 119]] /\
  serve CDB (store_v1 recs) q (LocOk [0; 0]) None 1 =
    OReply (mkResp 1 (Some ([1; 65; 1; 98; 1; 122; 0], 16, 1)) 0 true
              [IRR (mkRR [1; 65; 1; 98; 1; 122; 0] 16 1 60 [1; 119])] [] [] None).
Proof. vm_compute. repeat split; reflexivity. Qed.
Print Assumptions C01_example.

(* ================================================================ FILE LEVEL: from the text of a data file
   to the served responses (composition of C09's codec, C07's pipelines, C15's multi-value store reads,
   C02's reader simulation and C01_response_is_spec).

   Vocabulary (Spec/Declared.v, Proofs/FileLevel.v).
   [parse_line o serial l] : C09's model of Codec.DecodeLn on one text line ([o]: net.ParseIP & co.).
   [declared r] : the DNS records a parsed line DECLARES, written from the documented meaning of the 17
     line types, independently of the compiler model: Z SOA; . SOA + NS + address of x.ns.dom; & NS +
     address; + A / AAAA by family with weight; = address + PTR; @ MX + address of x.mx.dom; S SRV +
     address; C CNAME; ^ PTR; ' TXT (strings of <= 127 bytes); : generic; B / H SVCB / HTTPS; % M 8 ! nothing.
   [declared_file o serial f] : the declared records of all lines of f, in file order.
   [wf_file o serial f] (decidable): every line parses and passes [dns_okb]: labels of at most 63 bytes,
     NS targets of at most 255 octets, TTL / weight / type fit their fields, a generic line does not
     declare A, AAAA or NS, a = line has a parsable address.
   [conv_line o serial nornet v2] : Codec.ConvertLn = DecodeLn then MarshalMap (Model/Text.convert) - the
     codec C07's pipelines are instantiated with; [accum], [feature] : Codec.Acc.MarshalMap and
     Codec.Features.MarshalMap, any functions whose keys are [foreign_keyb] ([side_ok]): the key families
     \000% \000M \0008 \000\000\000! \000/ \0004 \0006 \000o_features.
   [rdb_compilation ... f db] (C07): db is the RocksDB database compileBuilder / compileBatches produce for
     f under SOME sort, bucket parameters, batch size, stream and batch order.  [rdb_dump db st] : the
     list st enumerates db (every present key once, with the chunks ReadNextChunk yields).
   [loc_okb L] : L is two bytes other than \000% \000M \0008 \000/ \0004 \0006 \000o (v1 keys only: a
     name key L ++ name must not fall into a foreign family; see Proofs/FileLevel.v).
   [response_refines L recs n q ecs max x] : the conclusion of C01_response_is_spec. *)
From DnsV Require Import Model.Compile Proofs.Batch Proofs.CompilePipe.
From DnsV Require Model.Text.
From DnsV Require Import Spec.Declared Proofs.DeclaredLink Proofs.DeclaredWf Proofs.ReadsNames Proofs.SpecPerm Proofs.FileLevel Proofs.FileLevelExample.

(* [response_refines] is literally the conclusion of C01_response_is_spec *)
Theorem C01_response_refines_meaning : forall L recs n q ecs max x,
  response_refines L recs n q ecs max x <->
  (rs_id x = q_id q /\ rs_question x = question_of q /\
   match spec_response L recs n (q_type q) with
   | Refused =>
       rs_rcode x = 5 /\ rs_aa x = false /\ rs_an x = [] /\ rs_ns x = [] /\ rs_ex x = [] /\ rs_opt x = opt_of q ecs
   | Referral z nsr =>
       q_type q <> 43 ->
       rs_rcode x = 0 /\ rs_aa x = false /\ rs_an x = [] /\
       (exists ord, Permutation ord nsr /\ rs_ns x = map (ns_item (pack z) (q_class q)) ord) /\
       extras_sound recs L (q_class q) (rs_an x) (rs_ns x) (rs_ex x) /\ rs_opt x = opt_of q ecs
   | Answer z nx ans soa =>
       rs_rcode x = (if nx then 3 else 0) /\ rs_aa x = true /\
       (exists ord, Permutation ord ans /\ rs_an x = answer_items (q_name q) max ord) /\
       (if item_count (rs_an x) =? 0 then exists r, In r soa /\ rs_ns x = [soa_item (pack z) r] else rs_ns x = []) /\
       extras_sound recs L (q_class q) (rs_an x) (rs_ns x) (rs_ex x) /\ rs_opt x = opt_of q ecs
   end).
Proof. intros. unfold response_refines. tauto. Qed.
Print Assumptions C01_response_refines_meaning.

(* LINK C09 -> Spec/Rows: for every line type that declares records, the key/value pairs the codec emits
   for the line are EXACTLY (as a list) the rows Spec/Rows prescribes for its declared records, in the v1
   and in the v2 key layout ([rows_of v2] = rows_of_v2 / rows_of_v1) *)
Theorem C01_convert_is_rows_of : forall v2 nornet r, dns_okb r = true -> served r = true ->
  Model.Text.convert v2 nornet r = rows_of v2 (declared r).
Proof. exact convert_is_rows_of. Qed.
Print Assumptions C01_convert_is_rows_of.

(* ... and the other line types (% M 8 !) declare nothing and emit only keys under \000% \000M \0008 \000\000\000! *)
Theorem C01_unserved_lines : forall v2 nornet r, served r = false ->
  declared r = [] /\ forallb (fun kv => aux_keyb (fst kv)) (Model.Text.convert v2 nornet r) = true.
Proof. exact convert_unserved. Qed.
Print Assumptions C01_unserved_lines.

(* the declared records of a well-formed file satisfy the guards of the C01 / C02 theorems *)
Theorem C01_declared_wf : forall rs, Forall (fun r => dns_okb r = true) rs ->
  wf_recs (flat_map declared rs) /\ Forall wf_ns_rdata (flat_map declared rs).
Proof. exact declared_file_wf. Qed.
Print Assumptions C01_declared_wf.

(* foreign keys never meet name keys.  v1 layout: for a client location L with [loc_okb L], no key
   L ++ name or \000\000 ++ name of a wire-valid name is in a foreign family.  v2 layout: the foreign
   families are foreign in the sense of C02's [v2_store], and no name key \000o ++ reversed name ++ loc is *)
Theorem C01_foreign_keys_v1 : forall L z, loc_okb L = true -> pname z ->
  foreign_keyb (L ++ z) = false /\ foreign_keyb (loc0 ++ z) = false.
Proof. exact probed_not_foreign. Qed.
Print Assumptions C01_foreign_keys_v1.
Theorem C01_foreign_keys_v2 : (forall k, foreign_keyb k = true -> Proofs.SeekSkip.foreign k) /\
  (forall y ly, Proofs.RevOrder.name_ok y -> foreign_keyb (Proofs.RevOrder.bkey y ly) = false).
Proof. exact (conj foreign_v2 bkey_not_foreign). Qed.
Print Assumptions C01_foreign_keys_v2.

(* the label-by-label reader consults the store only under L ++ name and \000\000 ++ name for wire-valid
   packed names: two stores that agree there give the same outcome, whatever else they hold *)
Theorem C01_v1_reads_name_keys_only : forall b st st' L q n ecs max,
  b <> RDB2 -> agree_names L st st' ->
  Proofs.RevOrder.name_ok n -> nlen (pack n) <= 255 -> lower_bytes (q_name q) = pack n ->
  serve b st q (LocOk L) ecs max = serve b st' q (LocOk L) ecs max.
Proof. exact serve_v1_reads_names. Qed.
Print Assumptions C01_v1_reads_name_keys_only.

(* the statement does not depend on the order of the declared records (the compilers keep the rows of a
   key only as a multiset), and any store holding the rows of every relevant key as a multiset holds
   them row for row for SOME order of the records *)
Theorem C01_spec_order_independent : forall L recs recs' n q ecs max x, Permutation recs recs' ->
  response_refines L recs' n q ecs max x -> response_refines L recs n q ecs max x.
Proof. exact response_refines_perm. Qed.
Print Assumptions C01_spec_order_independent.
Theorem C01_reorder : forall (key : record -> bytes) (Pk : bytes -> bool) (recs : list record) (g : bytes -> list row),
  (forall k, Pk k = true -> Permutation (g k) (map row_of (filter (fun r => bytes_eqb (key r) k) recs))) ->
  exists recs', Permutation recs recs' /\
    forall k, Pk k = true -> g k = map row_of (filter (fun r => bytes_eqb (key r) k) recs').
Proof. exact reorder. Qed.
Print Assumptions C01_reorder.

(* pipeline-independent core: ANY store that holds under every key the multiset of values the codec
   emits for the file ([spec_compile], C07's oracle) serves what the file declares.  v1 reader: *)
Theorem C01_file_store_v1 : forall o serial nornet accum feature f,
  wf_file o serial f = true -> side_ok accum feature f ->
  forall b (st : Model.Store.store) L,
  (forall k, Permutation (get st k) (spec_compile bytes (conv_line o serial nornet false) accum feature f k)) ->
  b <> RDB2 -> loc_okb L = true -> wf_view L (declared_file o serial f) = true ->
  forall q n ecs max x, wf_name n -> nlen (pack n) <= 255 -> lower_bytes (q_name q) = pack n ->
  (q_edns q = None \/ q_edns q = Some 0) ->
  serve b st q (LocOk L) ecs max = OReply x -> response_refines L (declared_file o serial f) n q ecs max x.
Proof. exact file_store_v1. Qed.
Print Assumptions C01_file_store_v1.
(* v2 reader (SeekForPrev sees every key: each once, none without values) *)
Theorem C01_file_store_v2 : forall o serial nornet accum feature f,
  wf_file o serial f = true -> side_ok accum feature f ->
  forall (st : Model.Store.store) L,
  Proofs.Ctx.uniq st -> (forall k v, In (k, v) st -> v <> []) ->
  (forall k, Permutation (get st k) (spec_compile bytes (conv_line o serial nornet true) accum feature f k)) ->
  length L = 2%nat -> wf_view L (declared_file o serial f) = true ->
  forall q n ecs max x, wf_name n -> nlen (pack n) <= 255 -> lower_bytes (q_name q) = pack n ->
  (q_edns q = None \/ q_edns q = Some 0) ->
  serve RDB2 st q (LocOk L) ecs max = OReply x -> response_refines L (declared_file o serial f) n q ecs max x.
Proof. exact file_store_v2. Qed.
Print Assumptions C01_file_store_v2.

(* every RocksDB compilation has a dump (so the hypothesis [rdb_dump db st] below is satisfiable for
   every db C07 produces): the enumeration over the keys of the codec's records *)
Theorem C01_rdb_dump_exists : forall (line : Type) conv accum feature (f : list line) db,
  feature <> [] -> kvs_ok (records line conv accum feature f) -> rdb_compilation line conv accum feature f db ->
  rdb_dump db (dump_of_keys db (map fst (records line conv accum feature f))).
Proof. exact rdb_dump_exists. Qed.
Print Assumptions C01_rdb_dump_exists.

(* C01_file_level.  For a well-formed data file f, EVERY database the modelled compilers can produce from
   its text - RocksDB by the builder (any sort, bucket size, bucket count, record stream) or in batches
   (any batch size, stream, batch order), with v1 or v2 keys; CDB from any record stream - served by the
   matching reader to a client located in L answers every wire-valid query as Spec/Answer.spec_response
   prescribes for the records the file DECLARES.  Guards besides wf_file: values shorter than 2^32 (C07),
   the accumulator / feature records under foreign keys, wf_view (a visible SOA comes with a visible NS),
   no OPT or EDNS version 0, and for v1 keys [loc_okb L]. *)
Theorem C01_file_level_rdb_v1 : forall o serial nornet accum feature f,
  wf_file o serial f = true -> side_ok accum feature f ->
  forall db st L,
  feature <> [] -> kvs_ok (records bytes (conv_line o serial nornet false) accum feature f) ->
  rdb_compilation bytes (conv_line o serial nornet false) accum feature f db -> rdb_dump db st ->
  loc_okb L = true -> wf_view L (declared_file o serial f) = true ->
  forall q n ecs max x, wf_name n -> nlen (pack n) <= 255 -> lower_bytes (q_name q) = pack n ->
  (q_edns q = None \/ q_edns q = Some 0) ->
  serve RDB1 st q (LocOk L) ecs max = OReply x -> response_refines L (declared_file o serial f) n q ecs max x.
Proof. exact file_level_rdb_v1. Qed.
Print Assumptions C01_file_level_rdb_v1.

Theorem C01_file_level_rdb_v2 : forall o serial nornet accum feature f,
  wf_file o serial f = true -> side_ok accum feature f ->
  forall db st L,
  feature <> [] -> kvs_ok (records bytes (conv_line o serial nornet true) accum feature f) ->
  rdb_compilation bytes (conv_line o serial nornet true) accum feature f db -> rdb_dump db st ->
  length L = 2%nat -> wf_view L (declared_file o serial f) = true ->
  forall q n ecs max x, wf_name n -> nlen (pack n) <= 255 -> lower_bytes (q_name q) = pack n ->
  (q_edns q = None \/ q_edns q = Some 0) ->
  serve RDB2 st q (LocOk L) ecs max = OReply x -> response_refines L (declared_file o serial f) n q ecs max x.
Proof. exact file_level_rdb_v2. Qed.
Print Assumptions C01_file_level_rdb_v2.

(* CDB: [st] is any store giving, for a key, its values in the order of the Put sequence (C16);
   Proofs/Compile.store_of of the sequence is one (C01_store_of_rows) *)
Theorem C01_file_level_cdb : forall o serial nornet accum feature f,
  wf_file o serial f = true -> side_ok accum feature f ->
  forall stream kvs st L,
  Permutation stream (records bytes (conv_line o serial nornet false) accum feature f) ->
  compile_cdb bytes (conv_line o serial nornet false) f stream = Ok kvs ->
  (forall k, get st k = vals_of k kvs) ->
  loc_okb L = true -> wf_view L (declared_file o serial f) = true ->
  forall q n ecs max x, wf_name n -> nlen (pack n) <= 255 -> lower_bytes (q_name q) = pack n ->
  (q_edns q = None \/ q_edns q = Some 0) ->
  serve CDB st q (LocOk L) ecs max = OReply x -> response_refines L (declared_file o serial f) n q ecs max x.
Proof. exact file_level_cdb. Qed.
Print Assumptions C01_file_level_cdb.
Theorem C01_store_of_rows : forall kvs k, get (store_of kvs) k = vals_of k kvs.
Proof. exact store_of_rows. Qed.
Print Assumptions C01_store_of_rows.

(* the three backends in one statement *)
Theorem C01_file_level : forall o serial nornet accum feature1 feature2 f L,
  wf_file o serial f = true -> side_ok accum feature1 f -> side_ok accum feature2 f ->
  feature1 <> [] -> feature2 <> [] ->
  kvs_ok (records bytes (conv_line o serial nornet false) accum feature1 f) ->
  kvs_ok (records bytes (conv_line o serial nornet true) accum feature2 f) ->
  loc_okb L = true -> wf_view L (declared_file o serial f) = true ->
  forall q n ecs max x, wf_name n -> nlen (pack n) <= 255 -> lower_bytes (q_name q) = pack n ->
  (q_edns q = None \/ q_edns q = Some 0) ->
  (forall stream kvs st, Permutation stream (records bytes (conv_line o serial nornet false) accum feature1 f) ->
     compile_cdb bytes (conv_line o serial nornet false) f stream = Ok kvs -> (forall k, get st k = vals_of k kvs) ->
     serve CDB st q (LocOk L) ecs max = OReply x -> response_refines L (declared_file o serial f) n q ecs max x) /\
  (forall db st, rdb_compilation bytes (conv_line o serial nornet false) accum feature1 f db -> rdb_dump db st ->
     serve RDB1 st q (LocOk L) ecs max = OReply x -> response_refines L (declared_file o serial f) n q ecs max x) /\
  (forall db st, rdb_compilation bytes (conv_line o serial nornet true) accum feature2 f db -> rdb_dump db st ->
     serve RDB2 st q (LocOk L) ecs max = OReply x -> response_refines L (declared_file o serial f) n q ecs max x).
Proof.
  intros o serial nornet accum feature1 feature2 f L WF S1 S2 N1 N2 K1 K2 HL V q n ecs max x Hn Hl Hq He.
  split; [|split].
  - intros stream kvs st P C G Hs. exact (file_level_cdb o serial nornet accum feature1 f WF S1 stream kvs st L P C G HL V q n ecs max x Hn Hl Hq He Hs).
  - intros db st C D Hs. exact (file_level_rdb_v1 o serial nornet accum feature1 f WF S1 db st L N1 K1 C D HL V q n ecs max x Hn Hl Hq He Hs).
  - intros db st C D Hs. exact (file_level_rdb_v2 o serial nornet accum feature2 f WF S2 db st L N2 K2 C D (loc_okb_len L HL) V q n ecs max x Hn Hl Hq He Hs).
Qed.
Print Assumptions C01_file_level.

(* the hypotheses hold and the statement is not vacuous: a six-line file (zone Z + &, a located +, a
   wildcard ', a % subnet and an M map), compiled by the builder with v2 keys into 9 keys (3 name keys,
   6 foreign ones) and served by the closest-key reader, and as a reversed CDB stream served by the
   label-by-label reader: TXT Foo.example.com gets the wildcard's text, A www.example.com from location
   ab the located address; for every query the reply refines spec_response of the 5 declared records *)
Example C01_file_level_example :
  wf_file x_o 7 x_file = true /\
  side_ok x_accum [Model.Preproc.feature_kv true] x_file /\ side_ok x_accum [Model.Preproc.feature_kv false] x_file /\
  kvs_ok (records bytes (conv_line x_o 7 false true) x_accum [Model.Preproc.feature_kv true] x_file) /\
  loc_okb x_L = true /\ wf_view x_L (declared_file x_o 7 x_file) = true /\
  wf_name x_n1 /\ lower_bytes (q_name x_q1) = pack x_n1 /\ wf_name x_n2 /\ lower_bytes (q_name x_q2) = pack x_n2 /\
  declared_file x_o 7 x_file = x_recs /\
  spec_response x_L x_recs x_n1 16 = Answer [x_example; x_com] false [nth 4 x_recs (mkRec [] false None 0 0 0 [])] [nth 0 x_recs (mkRec [] false None 0 0 0 [])] /\
  spec_response x_L x_recs x_n2 1 = Answer [x_example; x_com] false [nth 3 x_recs (mkRec [] false None 0 0 0 [])] [nth 0 x_recs (mkRec [] false None 0 0 0 [])] /\
  (exists db st,
     compile_builder bytes (conv_line x_o 7 false true) kv_isort 1 2 x_file
       (records bytes (conv_line x_o 7 false true) x_accum [Model.Preproc.feature_kv true] x_file) = Ok db /\
     rdb_dump db st /\ (length st = 9)%nat /\
     serve RDB2 st x_q1 (LocOk x_L) None 1 =
       OReply (mkResp 1 (Some (q_name x_q1, 16, 1)) 0 true
                 [IRR (mkRR (q_name x_q1) 16 1 120 [5; 104; 101; 108; 108; 111])] [] [] None) /\
     serve RDB2 st x_q2 (LocOk x_L) None 1 =
       OReply (mkResp 2 (Some (q_name x_q2, 1, 1)) 0 true
                 [IPick (q_name x_q2) 1 1 [(300, 1, [10; 0; 0; 2])] 1] [] [] None) /\
     forall q n ecs max x, wf_name n -> nlen (pack n) <= 255 -> lower_bytes (q_name q) = pack n ->
       (q_edns q = None \/ q_edns q = Some 0) -> serve RDB2 st q (LocOk x_L) ecs max = OReply x ->
       response_refines x_L x_recs n q ecs max x) /\
  (let stream := rev (records bytes (conv_line x_o 7 false false) x_accum [Model.Preproc.feature_kv false] x_file) in
   compile_cdb bytes (conv_line x_o 7 false false) x_file stream = Ok stream /\
   serve CDB (store_of stream) x_q1 (LocOk x_L) None 1 =
     OReply (mkResp 1 (Some (q_name x_q1, 16, 1)) 0 true
               [IRR (mkRR (q_name x_q1) 16 1 120 [5; 104; 101; 108; 108; 111])] [] [] None) /\
   forall q n ecs max x, wf_name n -> nlen (pack n) <= 255 -> lower_bytes (q_name q) = pack n ->
     (q_edns q = None \/ q_edns q = Some 0) -> serve CDB (store_of stream) q (LocOk x_L) ecs max = OReply x ->
     response_refines x_L x_recs n q ecs max x).
Proof. exact file_level_example. Qed.
Print Assumptions C01_file_level_example.

(* What remains outside these theorems (stated, not hidden).
   * [parse_line] / [convert] are C09's MODEL of Codec.DecodeLn / MarshalMap and [compile_builder] /
     [compile_batches] / [compile_cdb] C07's model of the compilers; their tie to the Go code is the
     correspondence run of C09 / C07 (and, for the dumps, Run/Core.v compile_ok), not a theorem.
   * [accum] and [feature] are parameters constrained by [side_ok] only: that Codec.Acc.MarshalMap emits
     nothing but prefix-set and range-point records is read off data.go:603-740 and is what C03 x C07
     (Proofs/LinkRdbDb.v) assume of it; Features.MarshalMap is the single \000o_features record
     (Model/Preproc.feature_kv, used in the example).
   * [rdb_dump db st] / [get st k = vals_of k kvs] : that an iterator over the real RocksDB / lookups in the
     real CDB file yield this store is C15 / C16 (ReadNextChunk loop; FindStart / FindNext order).
   * the client location L is an input ([LocOk L]; C03 owns FindLocation); for v1 keys L must not be one of
     the seven two-byte markers ([loc_okb]) - \000% is a real collision (see Proofs/FileLevel.v), the other
     six are excluded for the simplicity of the proof.
   * inherited from C01_response_is_spec: DS at or below a delegation, order inside sections, the weighted
     draw (C11), completeness of the additional section of authoritative answers. *)

(* the side records of the modelled codec satisfy [side_ok]: an accumulator that marshals records of the
   unserved line types (Model/Preproc.compile hands the Rearranger's range points to convert) together
   with the features record of Model/Preproc *)
Theorem C01_side_ok_unserved : forall v2 nornet' (pts : list bytes -> list Model.Text.record) f,
  Forall (fun r => served r = false) (pts f) ->
  side_ok (fun f => flat_map (Model.Text.convert v2 nornet') (pts f)) [Model.Preproc.feature_kv v2] f.
Proof. exact side_ok_unserved. Qed.
Print Assumptions C01_side_ok_unserved.

(* [loc_okb] is needed for v1 keys: the short key of the subnet line %ab,0.0.0.0/8,\001x is
   \000% ++ the packed name x. - for a client located in \000% the label-by-label reader would read the
   subnet's value as a row of the name x *)
Theorem C01_loc_guard_needed :
  let r := Model.Text.RNet [97; 98] (Model.Text.v4pre ++ [0; 0; 0; 0]) 104 [1; 120] in
  In ([0; 37] ++ pack [[120]], [97; 98]) (Model.Text.convert false false r) /\
  pname (pack [[120]]) /\ loc_okb [0; 37] = false.
Proof. exact loc_guard_needed. Qed.
Print Assumptions C01_loc_guard_needed.

(* ==================================================================================
   C01_file_level with the CONCRETE accumulator (Model/Accum.v, Proofs/AccumLink.v).
   The accumulator is no longer a parameter: it is what Codec.Acc.MarshalMap emits in the
   configuration of each compiler -
     cdb.CreateCDB          prefix-set records \000/ \0004 \0006 (Accum.marshalPrefixSets), % lines emit
                            their own \000% records (NoRnetOutput = false), features record of v1 keys;
     rdb initCodec          NoPrefixSets, NoRnetOutput, Ranger enabled: the range-point records
                            \000\000\000! map ip16 mlen -> location of Rearranger.Rearrange for every map
                            with subnet lines (SubnetRanger.MarshalMap; C03's model of Rearrange, sort.Slice
                            abstract), features record of the key layout.
   [side_ok] holds of both unconditionally, so C01_file_level needs no hypothesis about it; the
   guard kvs_ok (C07: values shorter than 2^32 bytes) is left on the records of the LINES only.
   ================================================================================== *)
From DnsV Require Import Model.Accum Proofs.AccumLink.

Theorem C01_side_ok_rdb : forall sort o serial v2 f,
  side_ok (accum_rdb sort o serial) [Model.Preproc.feature_kv v2] f.
Proof. exact side_ok_rdb. Qed.
Print Assumptions C01_side_ok_rdb.
Theorem C01_side_ok_cdb : forall o serial f, side_ok (accum_cdb o serial) [Model.Preproc.feature_kv false] f.
Proof. exact side_ok_cdb. Qed.
Print Assumptions C01_side_ok_cdb.

Theorem C01_file_level_closed : forall (sort : list Model.Rearranger.point -> list Model.Rearranger.point) o serial f,
  wf_file o serial f = true ->
  kvs_ok (flat_map (recs_of bytes (conv_line o serial false false)) f) ->
  kvs_ok (flat_map (recs_of bytes (conv_line o serial false true)) f) ->
  forall L, loc_okb L = true -> wf_view L (declared_file o serial f) = true ->
  forall q n ecs max x, wf_name n -> nlen (pack n) <= 255 -> lower_bytes (q_name q) = pack n ->
  (q_edns q = None \/ q_edns q = Some 0) ->
  (forall stream kvs st,
     Permutation stream (records bytes (conv_line o serial false false) (accum_cdb o serial) [Model.Preproc.feature_kv false] f) ->
     compile_cdb bytes (conv_line o serial false false) f stream = Ok kvs -> (forall k, get st k = vals_of k kvs) ->
     serve CDB st q (LocOk L) ecs max = OReply x -> response_refines L (declared_file o serial f) n q ecs max x) /\
  (forall db st,
     rdb_compilation bytes (conv_line o serial true false) (accum_rdb sort o serial) [Model.Preproc.feature_kv false] f db ->
     rdb_dump db st ->
     serve RDB1 st q (LocOk L) ecs max = OReply x -> response_refines L (declared_file o serial f) n q ecs max x) /\
  (forall db st,
     rdb_compilation bytes (conv_line o serial true true) (accum_rdb sort o serial) [Model.Preproc.feature_kv true] f db ->
     rdb_dump db st ->
     serve RDB2 st q (LocOk L) ecs max = OReply x -> response_refines L (declared_file o serial f) n q ecs max x).
Proof. exact file_level_closed. Qed.
Print Assumptions C01_file_level_closed.

(* ==================================================================================
   C01_file_level_client: the client location is no longer an oracle input.
   [handle lb b dbl st q cq enc max] (Model/Handler.v) is the handler with its OWN location lookup:
   FindLocation (Model/Ecs.find_client_location: ECS map '8', then resolver map 'M'; FindMap and
   GetLocationByMap of the driver [lb] over the database, Model/Location.v) and then serve (Model/Serve.v)
   for the location id FindLocation returned, echoing the option it returned - both over the SAME
   compiled database ([dbl]: key -> stored bytes, what the location lookup reads; [st]: key -> rows,
   what the answer readers read).  [q] / [cq] are the two views of the request (question, EDNS version /
   OPT options, resolver address).
   The statement: the reply refines Spec/Answer.spec_response for the records the file DECLARES and
   the location Spec/ClientLocation.client_view prescribes for this client, read off the file's
   M / 8 / % lines (exact-name map before nearest wildcard map; ECS longest-prefix match in the family
   of the client prefix, else resolver longest-prefix match; none: \000\000 = untagged records only):
     [view_of rs n rip cq]     = that location as two bytes
     [echo_view rs n enc cq]   = the request's ECS option with the scope Spec/ClientLocation.scope_view
   for every database the C07 compilers produce from the text, under the real codec configuration of
   each backend (Model/Accum.v).  Guards, all on the data file and decidable unless said otherwise:
     wf_file          every line parses and passes Spec/Declared.dns_okb
     loc_file_okb     % lines: 16-byte address, length <= 128, two-byte location and map ids; M / 8
                      lines: labels <= 63 bytes, two-byte map id; no '!' line (subnets as % lines); no
                      record tagged with the location \000% (its v1 key would fall among the subnet keys)
     maps_once        no two M / 8 lines for the same (kind, name, wildcard): with two, FindMap returns the
                      first chunk / first CDB record, which depends on the compiler's schedule
     wf_subnets       C03's guard for every map - it excludes finding F20 (IPv6 subnets of length 1..95
                      containing ::ffff:0:0; needed for RocksDB only, kept for all three for one statement)
     subnet_locs_okb  (v1 keys only) no % line names one of the seven marker locations (FileLevel.loc_okb)
     kvs_ok           (C07) values shorter than 2^32 bytes, on the lines' records
     wf_view          (C01) a visible SOA comes with a visible NS, for the location at hand
   and on the request: wire-valid name, no OPT or EDNS version 0 (BADVERS is findings F21 / F22 and does
   not look at the location), a resolver address below 2^128, ECS options as miekg/dns unpacks them.
   ================================================================================== *)
From DnsV Require Model.Location Model.Ecs Model.Handler Spec.ClientLocation Proofs.Ecs Proofs.Rearranger Proofs.LinkRdbDb.
From DnsV Require Import Proofs.ClientDbFacts Proofs.ClientLink Proofs.ClientFileLevel.

Theorem C01_file_level_client_cdb : forall o serial f,
  wf_file o serial f = true -> loc_file_okb o serial f = true -> maps_once (parsed o serial f) ->
  (forall m, Proofs.Location.wf_subnets (Spec.ClientLocation.declared_subnets (parsed o serial f) m)) ->
  forall (q : query) (cq : Model.Ecs.query) (n : name) rip (enc : Model.Ecs.ecs -> ecsval) max,
  wf_name n -> nlen (pack n) <= 255 -> lower_bytes (q_name q) = pack n ->
  (q_edns q = None \/ q_edns q = Some 0) ->
  Model.Ecs.q_rip cq = Some rip -> rip < Base.Ip.two128 ->
  (forall e, Model.Ecs.query_ecs cq = Some e -> Proofs.Ecs.wf_ecs e) ->
  wf_view (view_of (parsed o serial f) n rip cq) (declared_file o serial f) = true ->
  forall sep stream kvs st x,
  kvs_ok (flat_map (recs_of bytes (conv_line o serial false false)) f) ->
  subnet_locs_okb o serial f = true ->
  Permutation stream (records bytes (conv_line o serial false false) (accum_cdb o serial) [Model.Preproc.feature_kv false] f) ->
  compile_cdb bytes (conv_line o serial false false) f stream = Ok kvs -> (forall k, get st k = vals_of k kvs) ->
  Model.Handler.handle (Model.Location.BCdb sep) CDB kvs st q cq enc max = OReply x ->
  response_refines (view_of (parsed o serial f) n rip cq) (declared_file o serial f) n q
                   (echo_view (parsed o serial f) n enc cq) max x.
Proof. exact file_level_client_cdb. Qed.
Print Assumptions C01_file_level_client_cdb.

Theorem C01_file_level_client_rdb_v1 : forall sort, Proofs.Rearranger.sort_spec sort -> forall o serial f,
  wf_file o serial f = true -> loc_file_okb o serial f = true -> maps_once (parsed o serial f) ->
  (forall m, Proofs.Location.wf_subnets (Spec.ClientLocation.declared_subnets (parsed o serial f) m)) ->
  forall (q : query) (cq : Model.Ecs.query) (n : name) rip (enc : Model.Ecs.ecs -> ecsval) max,
  wf_name n -> nlen (pack n) <= 255 -> lower_bytes (q_name q) = pack n ->
  (q_edns q = None \/ q_edns q = Some 0) ->
  Model.Ecs.q_rip cq = Some rip -> rip < Base.Ip.two128 ->
  (forall e, Model.Ecs.query_ecs cq = Some e -> Proofs.Ecs.wf_ecs e) ->
  wf_view (view_of (parsed o serial f) n rip cq) (declared_file o serial f) = true ->
  forall db st dbl x,
  kvs_ok (flat_map (recs_of bytes (conv_line o serial false false)) f) ->
  subnet_locs_okb o serial f = true ->
  rdb_compilation bytes (conv_line o serial true false) (accum_rdb sort o serial) [Model.Preproc.feature_kv false] f db ->
  rdb_dump db st -> Proofs.LinkRdbDb.lists_store dbl db ->
  Model.Handler.handle Model.Location.BV1 RDB1 dbl st q cq enc max = OReply x ->
  response_refines (view_of (parsed o serial f) n rip cq) (declared_file o serial f) n q
                   (echo_view (parsed o serial f) n enc cq) max x.
Proof. exact file_level_client_rdb_v1. Qed.
Print Assumptions C01_file_level_client_rdb_v1.

Theorem C01_file_level_client_rdb_v2 : forall sort, Proofs.Rearranger.sort_spec sort -> forall o serial f,
  wf_file o serial f = true -> loc_file_okb o serial f = true -> maps_once (parsed o serial f) ->
  (forall m, Proofs.Location.wf_subnets (Spec.ClientLocation.declared_subnets (parsed o serial f) m)) ->
  forall (q : query) (cq : Model.Ecs.query) (n : name) rip (enc : Model.Ecs.ecs -> ecsval) max,
  wf_name n -> nlen (pack n) <= 255 -> lower_bytes (q_name q) = pack n ->
  (q_edns q = None \/ q_edns q = Some 0) ->
  Model.Ecs.q_rip cq = Some rip -> rip < Base.Ip.two128 ->
  (forall e, Model.Ecs.query_ecs cq = Some e -> Proofs.Ecs.wf_ecs e) ->
  wf_view (view_of (parsed o serial f) n rip cq) (declared_file o serial f) = true ->
  forall db st dbl x,
  kvs_ok (flat_map (recs_of bytes (conv_line o serial false true)) f) ->
  rdb_compilation bytes (conv_line o serial true true) (accum_rdb sort o serial) [Model.Preproc.feature_kv true] f db ->
  rdb_dump db st -> Proofs.LinkRdbDb.lists_store dbl db ->
  Model.Handler.handle Model.Location.BV2 RDB2 dbl st q cq enc max = OReply x ->
  response_refines (view_of (parsed o serial f) n rip cq) (declared_file o serial f) n q
                   (echo_view (parsed o serial f) n enc cq) max x.
Proof. exact file_level_client_rdb_v2. Qed.
Print Assumptions C01_file_level_client_rdb_v2.

(* the three backends in one statement *)
Theorem C01_file_level_client : forall sort, Proofs.Rearranger.sort_spec sort -> forall o serial f,
  wf_file o serial f = true -> loc_file_okb o serial f = true -> maps_once (parsed o serial f) ->
  (forall m, Proofs.Location.wf_subnets (Spec.ClientLocation.declared_subnets (parsed o serial f) m)) ->
  subnet_locs_okb o serial f = true ->
  kvs_ok (flat_map (recs_of bytes (conv_line o serial false false)) f) ->
  kvs_ok (flat_map (recs_of bytes (conv_line o serial false true)) f) ->
  forall (q : query) (cq : Model.Ecs.query) (n : name) rip (enc : Model.Ecs.ecs -> ecsval) max x,
  wf_name n -> nlen (pack n) <= 255 -> lower_bytes (q_name q) = pack n ->
  (q_edns q = None \/ q_edns q = Some 0) ->
  Model.Ecs.q_rip cq = Some rip -> rip < Base.Ip.two128 ->
  (forall e, Model.Ecs.query_ecs cq = Some e -> Proofs.Ecs.wf_ecs e) ->
  wf_view (view_of (parsed o serial f) n rip cq) (declared_file o serial f) = true ->
  (forall sep stream kvs st,
     Permutation stream (records bytes (conv_line o serial false false) (accum_cdb o serial) [Model.Preproc.feature_kv false] f) ->
     compile_cdb bytes (conv_line o serial false false) f stream = Ok kvs -> (forall k, get st k = vals_of k kvs) ->
     Model.Handler.handle (Model.Location.BCdb sep) CDB kvs st q cq enc max = OReply x ->
     response_refines (view_of (parsed o serial f) n rip cq) (declared_file o serial f) n q (echo_view (parsed o serial f) n enc cq) max x) /\
  (forall db st dbl,
     rdb_compilation bytes (conv_line o serial true false) (accum_rdb sort o serial) [Model.Preproc.feature_kv false] f db ->
     rdb_dump db st -> Proofs.LinkRdbDb.lists_store dbl db ->
     Model.Handler.handle Model.Location.BV1 RDB1 dbl st q cq enc max = OReply x ->
     response_refines (view_of (parsed o serial f) n rip cq) (declared_file o serial f) n q (echo_view (parsed o serial f) n enc cq) max x) /\
  (forall db st dbl,
     rdb_compilation bytes (conv_line o serial true true) (accum_rdb sort o serial) [Model.Preproc.feature_kv true] f db ->
     rdb_dump db st -> Proofs.LinkRdbDb.lists_store dbl db ->
     Model.Handler.handle Model.Location.BV2 RDB2 dbl st q cq enc max = OReply x ->
     response_refines (view_of (parsed o serial f) n rip cq) (declared_file o serial f) n q (echo_view (parsed o serial f) n enc cq) max x).
Proof.
  intros sort Hs o serial f WF LOK ONCE Hw LS K1 K2 q cq n rip enc max x Hn Hl Hq He Hr Hlt Hecs V. split; [|split].
  - intros sep stream kvs st P C G H.
    exact (file_level_client_cdb o serial f WF LOK ONCE Hw q cq n rip enc max Hn Hl Hq He Hr Hlt Hecs V sep stream kvs st x K1 LS P C G H).
  - intros db st dbl C D Hls H.
    exact (file_level_client_rdb_v1 sort Hs o serial f WF LOK ONCE Hw q cq n rip enc max Hn Hl Hq He Hr Hlt Hecs V db st dbl x K1 LS C D Hls H).
  - intros db st dbl C D Hls H.
    exact (file_level_client_rdb_v2 sort Hs o serial f WF LOK ONCE Hw q cq n rip enc max Hn Hl Hq He Hr Hlt Hecs V db st dbl x K2 C D Hls H).
Qed.
Print Assumptions C01_file_level_client.

(* the spec's location and scope in the vocabulary of the C03 / C10 theorems *)
Theorem C01_client_view_is_c10_decides : forall rs n rip cq,
  Spec.ClientLocation.client_view rs n rip (option_map Proofs.ClientSpecLink.ecs_in_of (Model.Ecs.query_ecs cq)) =
  Proofs.Ecs.decides (file_nets rs) (Spec.ClientLocation.name_map rs 56 n) (Spec.ClientLocation.name_map rs 77 n) cq rip.
Proof. exact Proofs.ClientSpecLink.client_view_decides. Qed.
Print Assumptions C01_client_view_is_c10_decides.
Theorem C01_scope_view_is_c10_scope : forall rs n e,
  Spec.ClientLocation.scope_view rs n (Proofs.ClientSpecLink.ecs_in_of e) =
  Proofs.Ecs.expected_scope (file_nets rs) (Spec.ClientLocation.name_map rs 56 n) e.
Proof. exact Proofs.ClientSpecLink.scope_view_expected. Qed.
Print Assumptions C01_scope_view_is_c10_scope.
(* the location named is \000\000 or the location of a subnet line *)
Theorem C01_client_view_in : forall rs n rip e,
  Spec.ClientLocation.client_view rs n rip e = (0, 0) \/
  In (Spec.ClientLocation.client_view rs n rip e) (Proofs.ClientSpecLink.subnet_locs rs).
Proof. exact Proofs.ClientSpecLink.client_view_in. Qed.
Print Assumptions C01_client_view_in.
(* on such a database FindLocation returns exactly that location and that option *)
Theorem C01_handle_is_serve : forall rs lb b dbl st q cq enc max (n : name) rip,
  (forall kind, kind = 77 \/ kind = 56 ->
     Model.Handler.find_map lb dbl [0; kind] (Model.Location.pack_labels n) =
     Ok (option_map Model.Rearranger.mapid_bytes (Spec.Lpm.map_choice (Spec.ClientLocation.declared_maps rs) kind n))) ->
  (forall m c, Proofs.Ecs.wf_client c -> exists r, Model.Handler.get_location lb dbl m c = Ok r /\
     Model.Ecs.hit_of r = Spec.Lpm.lpm (file_nets rs m) (Model.Ecs.cfam c) (Model.Ecs.search_addr true c) (Model.Ecs.eff_plen c)) ->
  lower_bytes (q_name q) = pack n ->
  Model.Ecs.q_rip cq = Some rip -> rip < Base.Ip.two128 -> (forall e, Model.Ecs.query_ecs cq = Some e -> Proofs.Ecs.wf_ecs e) ->
  Model.Handler.handle lb b dbl st q cq enc max = serve b st q (LocOk (view_of rs n rip cq)) (echo_view rs n enc cq) max.
Proof. exact handle_is_serve. Qed.
Print Assumptions C01_handle_is_serve.

(* the hypotheses hold and the composed statement is not vacuous (Proofs/ClientExample.v): a twelve-line
   file - zone example.com; www with an address tagged ab, one tagged cd and an untagged one; resolver map
   m1 (example.com and, as wildcard map, the names below it) with 10.0.0.0/8 -> ab and nested
   10.1.0.0/16 -> cd; client-subnet map e1 (names below example.com) with 192.168.0.0/16 -> cd and nested
   192.168.1.0/24 -> ab - compiled by the builder with v2 keys (24 records; insertion sort as sort.Slice)
   and as a reversed CDB stream, and served by the handler WITH ITS OWN LOOKUP:
     resolver 10.1.2.3, no OPT                      -> cd (longest match in m1)    : 10.0.0.3 and the untagged 10.0.0.9
     resolver 8.8.8.8, ECS 192.168.1.0/24           -> ab (longest match in e1), scope 24 : 10.0.0.2 and 10.0.0.9
     resolver 10.9.9.9, ECS 172.16.0.0/12           -> no subnet of e1: scope 24 (default), resolver decides: ab
     resolver 8.8.8.8, no OPT                       -> \000\000 : the untagged 10.0.0.9 only
   and for every request the reply refines spec_response for client_view *)
From DnsV Require Import Base.Ip Model.Rearranger Model.Location Model.Ecs Model.Handler Spec.ClientLocation.
From DnsV Require Import Proofs.Location Proofs.Rearranger Proofs.Ecs Proofs.LinkRdbDb Proofs.ClientSpecLink Proofs.ClientExample.
Example C01_file_level_client_example :
  (* the guards on the file *)
  wf_file y_o 7 y_file = true /\ loc_file_okb y_o 7 y_file = true /\ subnet_locs_okb y_o 7 y_file = true /\
  maps_once y_rs /\ (forall m, wf_subnets (declared_subnets y_rs m)) /\ sort_spec isort /\
  kvs_ok (flat_map (recs_of bytes (conv_line y_o 7 false true)) y_file) /\
  kvs_ok (flat_map (recs_of bytes (conv_line y_o 7 false false)) y_file) /\
  wf_name y_n /\ lower_bytes y_qname = pack y_n /\
  (* what the spec reads off the M / 8 / % lines for the four clients *)
  view_of y_rs y_n (y_ip4 10 1 2 3) y_c1 = [99; 100] /\ view_of y_rs y_n (y_ip4 8 8 8 8) y_c2 = [97; 98] /\
  view_of y_rs y_n (y_ip4 10 9 9 9) y_c3 = [97; 98] /\ view_of y_rs y_n (y_ip4 8 8 8 8) y_c4 = [0; 0] /\
  echo_view y_rs y_n y_enc y_c2 = Some [1; 24; 24] /\ echo_view y_rs y_n y_enc y_c3 = Some [1; 12; 24] /\
  wf_view [99; 100] (declared_file y_o 7 y_file) = true /\ wf_view [97; 98] (declared_file y_o 7 y_file) = true /\
  wf_view [0; 0] (declared_file y_o 7 y_file) = true /\
  (* RocksDB, v2 keys, builder: the handler with its own lookup *)
  (exists db st dbl,
     compile_builder bytes (conv_line y_o 7 true true) kv_isort 1 2 y_file y_R2 = Ok db /\
     rdb_dump db st /\ lists_store dbl db /\ (length y_R2 = 24)%nat /\
     handle BV2 RDB2 dbl st y_q0 y_c1 y_enc 8 = y_reply 1 [(300, 1, [10; 0; 0; 3]); (300, 1, [10; 0; 0; 9])] 2 None /\
     handle BV2 RDB2 dbl st y_q1 y_c2 y_enc 8 = y_reply 2 [(300, 1, [10; 0; 0; 2]); (300, 1, [10; 0; 0; 9])] 2 (Some (Some [1; 24; 24])) /\
     handle BV2 RDB2 dbl st y_q1 y_c3 y_enc 8 = y_reply 2 [(300, 1, [10; 0; 0; 2]); (300, 1, [10; 0; 0; 9])] 2 (Some (Some [1; 12; 24])) /\
     handle BV2 RDB2 dbl st y_q0 y_c4 y_enc 8 = y_reply 1 [(300, 1, [10; 0; 0; 9])] 1 None /\
     forall q cq n rip enc max x, wf_name n -> nlen (pack n) <= 255 -> lower_bytes (q_name q) = pack n ->
       (Serve.q_edns q = None \/ Serve.q_edns q = Some 0) -> q_rip cq = Some rip -> rip < two128 ->
       (forall e, query_ecs cq = Some e -> wf_ecs e) ->
       wf_view (view_of y_rs n rip cq) (declared_file y_o 7 y_file) = true ->
       handle BV2 RDB2 dbl st q cq enc max = OReply x ->
       response_refines (view_of y_rs n rip cq) (declared_file y_o 7 y_file) n q (echo_view y_rs n enc cq) max x) /\
  (* CDB: the stream reversed, per-family prefix sets *)
  (let stream := rev y_Rc in
   compile_cdb bytes (conv_line y_o 7 false false) y_file stream = Ok stream /\
   handle (BCdb true) CDB stream (store_of stream) y_q1 y_c2 y_enc 8 =
     y_reply 2 [(300, 1, [10; 0; 0; 2]); (300, 1, [10; 0; 0; 9])] 2 (Some (Some [1; 24; 24])) /\
   forall q cq n rip enc max x, wf_name n -> nlen (pack n) <= 255 -> lower_bytes (q_name q) = pack n ->
     (Serve.q_edns q = None \/ Serve.q_edns q = Some 0) -> q_rip cq = Some rip -> rip < two128 ->
     (forall e, query_ecs cq = Some e -> wf_ecs e) ->
     wf_view (view_of y_rs n rip cq) (declared_file y_o 7 y_file) = true ->
     handle (BCdb true) CDB stream (store_of stream) q cq enc max = OReply x ->
     response_refines (view_of y_rs n rip cq) (declared_file y_o 7 y_file) n q (echo_view y_rs n enc cq) max x).
Proof. exact client_example. Qed.
Print Assumptions C01_file_level_client_example.

(* What remains outside C01_file_level_closed / C01_file_level_client (stated, not hidden).
   * closed here: the accumulator (GAP 1) and the client location (GAP 2) are no longer parameters.
   * [parse_line] / [convert] (C09), the compilers (C07), Rearrange / FindMap / GetLocationByMap (C03),
     FindLocation (C10) and serve (C01 / C02) are MODELS; their tie to the Go code is the correspondence run
     of each property, not a theorem.  sort.Slice is abstract (sort_spec).
   * [rdb_dump db st], [lists_store dbl db], [get st k = vals_of k kvs]: that the iterators / lookups of the
     real RocksDB and CDB files yield these two views of one database is C15 / C16.
   * preprocessed input (dnsrocks-preproc: '!' range-point lines instead of '%' lines) is outside
     [loc_file_okb]; the link preprocessed file = raw file is C09 x C03 (Proofs/LinkPreprocRearranger.v).
   * RocksDB and IPv6 subnets of length 1..95 containing ::ffff:0:0 are outside wf_subnets (finding F20; the
     CDB clause would hold without that conjunct of the guard); BADVERS replies (EDNS version <> 0) are
     findings F21 / F22 and outside [q_edns q = None \/ q_edns q = Some 0].
   * inherited from C01_response_is_spec: DS at or below a delegation, order inside sections, the weighted
     draw (C11), completeness of the additional section of authoritative answers. *)

(* the guard [maps_once] is needed: two M lines for one name with different maps put two map records under
   one key; two CDB streams of the SAME file (the codec's order and its reverse - both are Put sequences the
   parallel parser can produce) locate the same client (resolver 10.1.2.3, name example.com) in ab and in cd *)
Theorem C01_maps_once_needed :
  wf_file y_o 7 z_file = true /\ loc_file_okb y_o 7 z_file = true /\ subnet_locs_okb y_o 7 z_file = true /\
  (forall m, wf_subnets (declared_subnets (parsed y_o 7 z_file) m)) /\
  ~ maps_once (parsed y_o 7 z_file) /\
  compile_cdb bytes (conv_line y_o 7 false false) z_file z_Rc = Ok z_Rc /\
  compile_cdb bytes (conv_line y_o 7 false false) z_file (rev z_Rc) = Ok (rev z_Rc) /\
  found_loc (client_location (BCdb true) z_Rc (pack [y_example; y_com]) y_c1) = Some (97, 98) /\
  found_loc (client_location (BCdb true) (rev z_Rc) (pack [y_example; y_com]) y_c1) = Some (99, 100).
Proof. exact maps_once_needed. Qed.
Print Assumptions C01_maps_once_needed.
