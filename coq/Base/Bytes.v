(* Bytes: byte strings as lists of N (each < 256 when well formed), the
   vocabulary shared by every model. No axioms, stdlib only. *)
From Coq Require Export List NArith ZArith Bool Lia.
Export ListNotations.
Open Scope N_scope.

Definition byte := N.
Definition bytes := list N.

Definition is_byte (b : N) : bool := b <? 256.
Definition wf_bytes (l : bytes) : Prop := Forall (fun b => b < 256) l.
Definition wf_bytesb (l : bytes) : bool := forallb is_byte l.

Fixpoint bytes_eqb (a b : bytes) : bool :=
  match a, b with
  | [], [] => true
  | x :: a', y :: b' => (x =? y) && bytes_eqb a' b'
  | _, _ => false
  end.

(* result type used by every model function that can fail *)
Inductive result (A : Type) : Type :=
| Ok : A -> result A
| Err : N -> result A.   (* small error enum, meaning fixed per model *)
Arguments Ok {A} _.
Arguments Err {A} _.

Definition rbind {A B} (r : result A) (f : A -> result B) : result B :=
  match r with Ok a => f a | Err e => Err e end.

(* lexicographic comparison = Go bytes.Compare = RocksDB bytewise comparator *)
Fixpoint bcmp (a b : bytes) : comparison :=
  match a, b with
  | [], [] => Eq
  | [], _ :: _ => Lt
  | _ :: _, [] => Gt
  | x :: a', y :: b' =>
      match x ?= y with
      | Eq => bcmp a' b'
      | c => c
      end
  end.

Definition bleb (a b : bytes) : bool := match bcmp a b with Gt => false | _ => true end.
Definition bltb (a b : bytes) : bool := match bcmp a b with Lt => true | _ => false end.

Fixpoint is_prefix (p l : bytes) : bool :=
  match p, l with
  | [], _ => true
  | x :: p', y :: l' => (x =? y) && is_prefix p' l'
  | _ :: _, [] => false
  end.

(* fixed width integers *)
Definition u16be (n : N) : bytes := [(n / 256) mod 256; n mod 256].
Definition u32be (n : N) : bytes :=
  [(n / 16777216) mod 256; (n / 65536) mod 256; (n / 256) mod 256; n mod 256].
Definition u32le (n : N) : bytes :=
  [n mod 256; (n / 256) mod 256; (n / 65536) mod 256; (n / 16777216) mod 256].
Definition u64be (n : N) : bytes := u32be (n / 4294967296) ++ u32be (n mod 4294967296).

Definition rd_u16be (l : bytes) : option N :=
  match l with a :: b :: _ => Some (a * 256 + b) | _ => None end.
Definition rd_u32be (l : bytes) : option N :=
  match l with a :: b :: c :: d :: _ => Some (((a * 256 + b) * 256 + c) * 256 + d) | _ => None end.
Definition rd_u32le (l : bytes) : option N :=
  match l with a :: b :: c :: d :: _ => Some (((d * 256 + c) * 256 + b) * 256 + a) | _ => None end.

(* indices of the elements of l that satisfy p: used by Run files to report mismatching cases *)
Fixpoint bad_idx_from {A} (p : A -> bool) (i : N) (l : list A) : list N :=
  match l with
  | [] => []
  | x :: l' => if p x then bad_idx_from p (i + 1) l' else i :: bad_idx_from p (i + 1) l'
  end.
Definition bad_idx {A} (p : A -> bool) (l : list A) : list N := bad_idx_from p 0 l.

Definition nlen {A} (l : list A) : N := N.of_nat (length l).
