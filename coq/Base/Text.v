(* Text: the few byte-string library functions (Go package bytes / sort / net.IP.To4)
   that both Model/Svcb.v and Spec/SvcbWire.v are written with.  Definitions only;
   their lemmas are in Proofs/Svcb.v.  No axioms, stdlib only. *)
From DnsV Require Export Base.Bytes.
Open Scope N_scope.

(* bytes.Contains(s, [c]) *)
Fixpoint has_byte (c : N) (s : bytes) : bool :=
  match s with [] => false | x :: t => (x =? c) || has_byte c t end.

(* bytes.Split(s, [c]): always at least one piece; Split of the empty string is one empty piece *)
Fixpoint split_on (c : N) (s : bytes) : list bytes :=
  match s with
  | [] => [[]]
  | x :: t =>
    if x =? c then [] :: split_on c t
    else match split_on c t with h :: r => (x :: h) :: r | [] => [[x]] end
  end.

(* bytes.SplitN(s, [c], 2): None when c does not occur, else (before first c, after it) *)
Fixpoint cut_at (c : N) (s : bytes) : option (bytes * bytes) :=
  match s with
  | [] => None
  | x :: t =>
    if x =? c then Some ([], t)
    else match cut_at c t with Some (a, b) => Some (x :: a, b) | None => None end
  end.

(* bytes.Trim(s, string(c)) for a single ASCII byte c *)
Fixpoint trim_left (c : N) (s : bytes) : bytes :=
  match s with [] => [] | x :: t => if x =? c then trim_left c t else s end.
Fixpoint trim_right (c : N) (s : bytes) : bytes :=
  match s with
  | [] => []
  | x :: t => match trim_right c t with
              | [] => if x =? c then [] else [x]
              | y :: r => x :: y :: r
              end
  end.
Definition trim_byte (c : N) (s : bytes) : bytes := trim_right c (trim_left c s).

(* pieces written one after the other with c before every piece but the first *)
Fixpoint join (c : N) (l : list bytes) : bytes :=
  match l with
  | [] => []
  | x :: t => match t with [] => x | _ :: _ => x ++ c :: join c t end
  end.

(* sort.SliceStable with less(i,j) = f(l[i]) < f(l[j]): the stable sort is unique,
   insertion from the right computes it *)
Fixpoint insert_by {A} (f : A -> N) (x : A) (l : list A) : list A :=
  match l with
  | [] => [x]
  | y :: t => if f x <=? f y then x :: y :: t else y :: insert_by f x t
  end.
Definition sort_by {A} (f : A -> N) (l : list A) : list A := fold_right (insert_by f) [] l.

Fixpoint strictly_inc (l : list N) : bool :=
  match l with
  | [] => true
  | a :: t => match t with [] => true | b :: _ => (a <? b) && strictly_inc t end
  end.

(* net.IP.To4: a 4-byte slice is returned as is; a 16-byte slice whose first ten
   bytes are zero and whose bytes 10, 11 are 0xff gives its last four bytes *)
Definition ip_to4 (a : bytes) : option bytes :=
  if (length a =? 4)%nat then Some a
  else if (length a =? 16)%nat && forallb (N.eqb 0) (firstn 10 a)
          && (nth 10 a 0 =? 255) && (nth 11 a 0 =? 255)
       then Some (skipn 12 a)
       else None.

Definition v4_prefix : bytes := [0;0;0;0;0;0;0;0;0;0;255;255].

(* big-endian number of a 2-byte chunk *)
Definition be16 (c : bytes) : N := match c with a :: b :: _ => a * 256 + b | _ => 0 end.

(* strconv decimal digits *)
Definition is_digit (c : N) : bool := (48 <=? c) && (c <=? 57).

Fixpoint all_some {A} (l : list (option A)) : option (list A) :=
  match l with
  | [] => Some []
  | None :: _ => None
  | Some x :: t => match all_some t with Some r => Some (x :: r) | None => None end
  end.
