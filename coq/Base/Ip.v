(* Ip: vocabulary shared by the location properties (C03, C10): 128-bit addresses
   as N, subnets as AddLocation / the % line give them, the IPv4-mapped range.
   Definitions only, no axioms. *)
From DnsV Require Import Base.Bytes.
Open Scope N_scope.

Definition two128 : N := 2 ^ 128.
Definition first_v6 : N := 0.
Definition first_v4 : N := 65535 * 2 ^ 32.          (* ::ffff:0:0 *)
Definition after_v4 : N := 2 ^ 48.                  (* ::1:0:0:0 *)
Definition very_last : N := 2 ^ 128 - 1.

Definition locid := (N * N)%type.                   (* two bytes *)
Definition mapid := (N * N)%type.
Definition id_eqb (a b : N * N) : bool := (fst a =? fst b) && (snd a =? snd b).

(* a declared subnet: network address (16 bytes as a number; IPv4 is v6-mapped),
   prefix length in 128-bit terms (IPv4: +96), location *)
Record subnet := mkSubnet { s_addr : N; s_len : N; s_loc : locid }.

(* number of addresses of a block of prefix length len *)
Definition blk_size (len : N) : N := 2 ^ (128 - len).

(* Go: ip.To4() != nil on a 16-byte address *)
Definition is_v4 (a : N) : bool := (first_v4 <=? a) && (a <? after_v4).
