(* Run/C11: evaluation of the Wrs model and of the property on harness cases.
   Three kinds of cases:
     KUnit  scripted draws, a sequence of Wrs.Add on the real code; V4/V6 and the
            counters after every Add, the output of ARecord/AAAARecord at the end
     KE2E   one DNS response of a real FBDNSDB (cdb / rocksdb v1 / v2) for an
            A, AAAA, ANY, MX or NS query with a max-answer setting
     KConc  many goroutines on the REAL shared locked generator (draws are not
            scripted): every distinct outcome of an address selection (direct
            Wrs.Add/ARecord, or a query through FBDNSDB) with its candidates,
            the number of recovered panics, and the number of repeated values
            among the 63-bit draws taken concurrently from the locked source
     KChi   counts of served addresses over many draws (support only; decides
            only when grossly off)
   Imports nothing that needs real numbers. *)
From DnsV Require Import Base.Bytes Model.Wrs.
Open Scope N_scope.

Inductive kind := KUnit | KE2E | KChi | KConc.

(* a candidate of a unit case: record type, scripted draw, weight, rank of its
   float64 key among all keys of the case (0 <-> the key is 0.0), key == 0.0 *)
Record cand := mkCand { cq : N; cu : N; cw : N; crank : N; czero : bool }.

(* observation after one Add: error?, V4 as (rank, id), V4Count, V6, V6Count *)
Record step := mkStep { s_err : bool; s_v4 : list (N * N); s_c4 : N; s_v6 : list (N * N); s_c6 : N }.

(* one name of an end-to-end response: effective maximum, wanted families, the
   declared records visible to the client (family, weight, id) and the ids served *)
Record group := mkGroup { g_max : Z; g_want4 : bool; g_want6 : bool;
                          g_cands : list (N * N * N); g_got4 : list N; g_got6 : list N }.

Record case := mk {
  ckind : kind;
  cmax : Z;
  ccands : list cand;
  csteps : list step;
  cout4 : list N; cout6 : list N; cweighted : bool;
  ckeys_agree : bool;               (* stored float keys = keys recomputed by the harness *)
  cqtype : N;                       (* KE2E: query type *)
  cgroups : list group;
  crcode : N;
  cmsg : list (N * N);              (* KE2E additional: (owner id, type) of answer ++ authority *)
  ctargets : list (N * list (N * N * N));  (* NS/MX targets in processing order, visible records *)
  cextra : list (N * N * N);        (* additional section: (owner id, type, record id) *)
  cmsgids : list N;                 (* every record of the message, equal records -> equal number *)
  cchi_w : list N; cchi_obs : list N;
  cpanics : N;                      (* KConc: selections / draws that panicked *)
  cdups : N                         (* KConc: repeated values among the concurrent 63-bit draws *)
}.

(* ---- helpers ---- *)
Definition pair_eqb (a b : N * N) : bool := (fst a =? fst b) && (snd a =? snd b).
Fixpoint list_eqb {X} (e : X -> X -> bool) (a b : list X) : bool :=
  match a, b with
  | [], [] => true
  | x :: a', y :: b' => e x y && list_eqb e a' b'
  | _, _ => false
  end.
Fixpoint memN (x : N) (l : list N) : bool :=
  match l with [] => false | y :: t => (x =? y) || memN x t end.
Fixpoint nodupN (l : list N) : bool :=
  match l with [] => true | x :: t => negb (memN x t) && nodupN t end.
(* same elements (b is duplicate free and as long as a, every element of b in a) *)
Definition same_set (a b : list N) : bool :=
  (length a =? length b)%nat && nodupN b && forallb (fun x => memN x a) b.
Definition natmin (a : Z) (b : nat) : nat := Nat.min (Z.to_nat a) b.

Fixpoint index_from {X} (i : N) (l : list X) : list (N * X) :=
  match l with [] => [] | x :: t => (i, x) :: index_from (i + 1) t end.

(* ---- KUnit: correspondence ---- *)
Definition wst := wrs N N.

Definition state_matches (w : wst) (s : step) : bool :=
  list_eqb pair_eqb (v4 w) (s_v4 s) && (v4count w =? s_c4 s)
  && list_eqb pair_eqb (v6 w) (s_v6 s) && (v6count w =? s_c6 s).

Fixpoint sim (w : wst) (cs : list (N * cand)) (ss : list step) : option wst :=
  match cs, ss with
  | [], [] => Some w
  | (i, c) :: cs', s :: ss' =>
      match add rk_lt w (cq c) (crank c, i) with
      | Ok w' => if negb (s_err s) && state_matches w' s then sim w' cs' ss' else None
      | Err _ => if s_err s && state_matches w s then sim w cs' ss' else None
      end
  | _, _ => None
  end.

Definition recs (w : wst) (q : N) : list N :=
  match records rk_pos w q with Ok l => map snd l | Err _ => [] end.

(* the observed keys behave like (u/M)^(1/w) with Go's corner conventions:
   zero exactly when dk_pos says so, rank 0 <-> zero, and the float order is the
   exact rational order wherever the latter is cheap to evaluate *)
Definition dk (c : cand) : dkey := (cu c, cw c).
Definition corner_ok (c : cand) : bool :=
  Bool.eqb (czero c) (negb (dk_pos (dk c))) && Bool.eqb (crank c =? 0) (czero c).
(* The float64 keys against the exact keys (u/M)^(1/w).  Claimed only for pairs
   whose exact keys are separated by more than a relative 2^-40 (9.1e-13):
   then the float64 keys must be strictly ordered the same way.  Pairs closer
   than that (e.g. (2^32-2, weight 1) and (2^32-3, weight 2): the exact keys
   differ by a relative 2.7e-20, the float64 keys are equal) carry no claim:
   the model runs on the observed ranks in any case.
   Why 2^-40 is safe: x = fl(u * fl(1/M)) has relative error <= 2*2^-53, the
   exponent fl(1/w) <= 2^-53, which moves x^(1/w) by at most
   (2 + ln M) * 2^-53 < 25 * 2^-53 relative (|ln x| <= ln M = 22.2 for u >= 1,
   1/w <= 1); math.Pow is taken to be accurate to a few ulp.  2^-40 is more
   than 300 times that sum.
   Separation is decided in N by a sufficient condition, using
   (1+2^-40)^n <= 1/(1 - n*2^-40) for n < 2^40:
     weights <= 8:   k_a * (1+2^-40) < k_b  <-  (k_a/k_b)^(w1*w2) < 1 - w1*w2*2^-40, i.e.
                     u1^w2 * M^w1 * 2^40 < u2^w1 * M^w2 * (2^40 - w1*w2)
     equal weights w (any size < 2^40):
                     u1 * 2^40 < u2 * (2^40 - w).
   Equal exact keys (same draw and weight, or both at a corner) must be equal floats. *)
Definition two40 : N := 1099511627776.
Definition dk_sep (a b : dkey) : bool :=
  let (u1, w1) := dk_norm a in
  let (u2, w2) := dk_norm b in
  if w1 =? w2 then u1 * two40 <? u2 * (two40 - w1)
  else if (w1 <=? 8) && (w2 <=? 8) then
    u1 ^ w2 * maxU32 ^ w1 * two40 <? u2 ^ w1 * maxU32 ^ w2 * (two40 - w1 * w2)
  else false.
Definition dk_same (a b : dkey) : bool :=
  let (u1, w1) := dk_norm a in
  let (u2, w2) := dk_norm b in (u1 =? u2) && ((w1 =? w2) || (u1 =? 0) || (u1 =? maxU32)).
Definition order_pair_ok (a b : cand) : bool :=
  (if dk_sep (dk a) (dk b) then crank a <? crank b else true)
  && (if dk_same (dk a) (dk b) then crank a =? crank b else true).
Definition order_ok (cs : list cand) : bool :=
  forallb (fun a => forallb (order_pair_ok a) cs) cs.

Definition is_addr_c (c : cand) : bool := (cq c =? TypeA) || (cq c =? TypeAAAA).

Definition unit_model_ok (c : case) : bool :=
  let addrs := filter is_addr_c (ccands c) in
  ckeys_agree c && forallb corner_ok addrs && order_ok addrs &&
  match sim (wrs_new (cmax c)) (index_from 0 (ccands c)) (csteps c) with
  | None => false
  | Some w => same_set (recs w TypeA) (cout4 c) && same_set (recs w TypeAAAA) (cout6 c)
              && Bool.eqb (weighted w) (cweighted c)
  end.

(* ---- KUnit: the property on the observation (independent of the model) ----
   for each family: the served ids are distinct candidates of that family, none
   has weight 0, and there are exactly min(max, #positive-weight candidates) *)
Definition fam_ids (q : N) (p : cand -> bool) (cs : list cand) : list N :=
  map fst (filter (fun ic => (cq (snd ic) =? q) && p (snd ic)) (index_from 0 cs)).

Definition unit_family_ok (c : case) (q : N) (out : list N) : bool :=
  nodupN out
  && forallb (fun i => memN i (fam_ids q (fun c => 0 <? cw c) (ccands c))) out
  && Nat.eqb (length out) (natmin (cmax c) (length (fam_ids q (fun c => 0 <? cw c) (ccands c)))).

Definition unit_spec_ok (c : case) : bool :=
  unit_family_ok c TypeA (cout4 c) && unit_family_ok c TypeAAAA (cout6 c).

(* ---- KE2E ---- *)
Definition gfam (q : N) (p : N -> bool) (g : group) : list N :=
  map (fun t => snd t) (filter (fun t => (fst (fst t) =? q) && p (snd (fst t))) (g_cands g)).

Definition group_family_ok (g : group) (q : N) (want : bool) (got : list N) : bool :=
  if want then
    nodupN got && forallb (fun i => memN i (gfam q (fun w => 0 <? w) g)) got
    && Nat.eqb (length got) (natmin (g_max g) (length (gfam q (fun w => 0 <? w) g)))
  else (length got =? 0)%nat.

Definition group_spec_ok (g : group) : bool :=
  group_family_ok g TypeA (g_want4 g) (g_got4 g) && group_family_ok g TypeAAAA (g_want6 g) (g_got6 g).

Definition is_addr_q (q : N) : bool := (q =? TypeA) || (q =? TypeAAAA) || (q =? TypeANY).

(* the name exists (has visible records) -> NOERROR, also when nothing is served.
   Additional section (NS/MX targets): per target and family at most one record,
   a visible positive-weight record of the target; exactly one if there is such
   a record and the answer/authority sections hold no address of that owner and
   family (g_want), none otherwise; no record of the message occurs twice. *)
Definition e2e_spec_ok (c : case) : bool :=
  forallb group_spec_ok (cgroups c)
  && (if is_addr_q (cqtype c) then
        match cgroups c with
        | [g] => if (length (g_cands g) =? 0)%nat then crcode c =? 3 else crcode c =? 0
        | _ => false
        end
      else (crcode c =? 0) && nodupN (cmsgids c)).

(* the model on a hypothetical key assignment (weight 0 -> key 0, else distinct
   positive keys): sizes of the answer / additional section and NXDOMAIN *)
Definition hyp_rows_of (cs : list (N * N * N)) : list (row N N) :=
  map (fun t => match t with (q, w, i) => mkRow q (if w =? 0 then 0 else i + 1) i end) cs.
Definition hyp_rows (g : group) : list (row N N) := hyp_rows_of (g_cands g).

Definition e2e_model_ok (c : case) : bool :=
  if is_addr_q (cqtype c) then
    match cgroups c with
    | [g] =>
        let r := find_answer rk_lt rk_pos (cqtype c) (g_max g) [hyp_rows g] in
        (length (fst (fst r)) =? length (g_got4 g) + length (g_got6 g))%nat
        && Bool.eqb (nxdomain r) (crcode c =? 3)
    | _ => false
    end
  else
    (* AdditionalSectionForRecords as written: want4/want6 from HasRecord over the
       message built so far; owners and types of the appended records, in order *)
    match additional_section rk_lt rk_pos (cmsg c)
            (map (fun t => (fst t, hyp_rows_of (snd t))) (ctargets c)) with
    | (es, _, _) => list_eqb pair_eqb (map fst es) (map fst (cextra c))
    end.

(* ---- KChi (support only): decides only when grossly off (p < 1e-6) ----
   sum_i (o_i*S - n*w_i)^2 / (S*n*w_i) <= T(df), evaluated without division;
   a weight-0 candidate must have count 0 *)
Definition chi_threshold (df : nat) : Z :=
  nth df [0; 24; 28; 31; 34; 36; 39; 41; 43; 45; 47; 49; 51; 53; 55]%Z 60%Z.

Definition zsum (l : list Z) : Z := fold_right Z.add 0%Z l.
Definition zprod (l : list Z) : Z := fold_right Z.mul 1%Z l.

Definition chi_ok (ws obs : list N) : bool :=
  let pairs := combine (map Z.of_N ws) (map Z.of_N obs) in
  let pos := filter (fun p => (0 <? fst p)%Z) pairs in
  let zero := filter (fun p => (fst p =? 0)%Z) pairs in
  let S := zsum (map fst pos) in
  let n := zsum (map snd pos) in
  let P := zprod (map fst pos) in
  (length ws =? length obs)%nat
  && forallb (fun p => (snd p =? 0)%Z) zero
  && ((n =? 0)%Z ||
      (zsum (map (fun p => let d := (snd p * S - n * fst p)%Z in d * d * (P / fst p))%Z pos)
       <=? chi_threshold (length pos - 1) * S * n * P)%Z).

(* ---- KConc: concurrent use of the shared generator ----
   The draws are whatever the real generator returns, so only draw-independent
   facts are checked.  They are exactly what C11_bounded_sound proves for EVERY
   key assignment (the theorem quantifies over all keys, i.e. over everything a
   generator can return): each outcome is a duplicate-free set of declared
   positive-weight records of size min(max, positives).  What the class adds is
   that concurrency does not take the code outside the sequential model: no
   panic (a panic inside Wrs.Add is recovered by the drivers' ForEach and would
   truncate the sample), and the locked source hands no 63-bit value out twice
   (more than 2 repeats among <= 3.2e6 draws has probability < 1e-20 for a
   sound generator; a natural single repeat has probability about 5e-7).
   cgroups holds one group per DISTINCT outcome observed (g_got4/g_got6). *)
Definition conc_spec_ok (c : case) : bool :=
  forallb group_spec_ok (cgroups c) && (cpanics c =? 0) && (cdups c <=? 2).

(* the model on a hypothetical key assignment gives an answer of the same size
   as every observed outcome, and the model never panics *)
Definition conc_model_ok (c : case) : bool :=
  (cpanics c =? 0) &&
  forallb (fun g =>
    let r := find_answer rk_lt rk_pos (cqtype c) (g_max g) [hyp_rows g] in
    Nat.eqb (length (fst (fst r))) (length (g_got4 g) + length (g_got6 g))) (cgroups c).

(* ---- dispatch ---- *)
Definition model_ok (c : case) : bool :=
  match ckind c with
  | KUnit => unit_model_ok c
  | KE2E => e2e_model_ok c
  | KChi => true
  | KConc => conc_model_ok c
  end.

Definition spec_ok (c : case) : bool :=
  match ckind c with
  | KUnit => unit_spec_ok c
  | KE2E => e2e_spec_ok c
  | KChi => chi_ok (cchi_w c) (cchi_obs c)
  | KConc => conc_spec_ok c
  end.

(* what the model computes for a case (replay files) *)
Definition model_out (c : case) : option (list (N * N) * N * list (N * N) * N) * list N * list N :=
  match ckind c with
  | KUnit =>
      let w := fold_left (fun w ic => match add rk_lt w (cq (snd ic)) (crank (snd ic), fst ic) with Ok w' => w' | Err _ => w end)
                         (index_from 0 (ccands c)) (wrs_new (cmax c)) in
      (Some (v4 w, v4count w, v6 w, v6count w), recs w TypeA, recs w TypeAAAA)
  | _ => (None, [], [])
  end.
