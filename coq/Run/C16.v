(* Run/C16: evaluation of model and property on harness cases. *)
From DnsV Require Import Base.Bytes Spec.Cdb Model.Cdb.
Open Scope N_scope.

Inductive kind := KSmall | KBig | KMake.

(* one looked-up key: values of successive FindNext calls, whether the sequence ended
   with a (sticky) EOF, and what Find returned *)
Record qobs := mkQ { q_key : bytes; q_vals : list bytes; q_eof : bool; q_find : option bytes }.

Record case := mk {
  ckind : kind;
  ckvs : list kv;               (* KSmall: the pairs written, in order *)
  ctext : bytes;                (* KMake: input of Make *)
  chash : list (N * bytes);     (* observed WRITER-side hash values (streaming spooky hasher): (hash, key) *)
  chash_agree : bool;           (* the hash stored in the file with every record is that hash of its key *)
  cwrite_ok : bool;
  cqueries : list qobs;
  cwrappers_ok : bool;          (* Data, Reader.First, Reader.Exists agree with FindNext *)
  cfile : bytes;                (* file bytes (KSmall, KMake) *)
  cdump_ok : bool; cdump : bytes;
  cmake_ok : bool; csame : bool;
  clookups_ok : bool            (* KBig: every lookup equals the Go-side oracle *)
}.

(* compact notation used by the glue (lib/props/c16.py) for long byte runs and for the
   2048-byte header of a file: [rp n c] = n copies of byte c; [hdr l] = the header whose
   (position, slots) pairs are given run-length encoded as (count, (position, slots)) *)
Definition rp (n c : N) : bytes := repeat c (N.to_nat n).
Definition hdr (l : list (N * (N * N))) : bytes :=
  flat_map (fun x => concat (repeat (u32le (fst (snd x)) ++ u32le (snd (snd x))) (N.to_nat (fst x)))) l.

Definition hash_of (tbl : list (N * bytes)) (k : bytes) : N :=
  match List.find (fun e => bytes_eqb k (snd e)) tbl with Some e => fst e | None => 0 end.

Fixpoint lbytes_eqb (a b : list bytes) : bool :=
  match a, b with
  | [], [] => true
  | x :: a', y :: b' => bytes_eqb x y && lbytes_eqb a' b'
  | _, _ => false
  end.

Definition res_is (r : result (list bytes)) (v : list bytes) : bool :=
  match r with Ok x => lbytes_eqb x v | Err _ => false end.
Definition resb_is (r : result bytes) (v : bytes) : bool :=
  match r with Ok x => bytes_eqb x v | Err _ => false end.

Definition slot_eqb (a b : slot) : bool := (fst a =? fst b) && (snd a =? snd b).
Fixpoint list_eqb {A} (eq : A -> A -> bool) (a b : list A) : bool :=
  match a, b with
  | [], [] => true
  | x :: a', y :: b' => eq x y && list_eqb eq a' b'
  | _, _ => false
  end.
Definition kv_eqb (a b : kv) : bool := bytes_eqb (fst a) (fst b) && bytes_eqb (snd a) (snd b).
Definition image_eqb (a b : image) : bool :=
  list_eqb (fun x y : N * kv => (fst x =? fst y) && kv_eqb (snd x) (snd y)) (irecs a) (irecs b)
  && list_eqb (fun x y : N * list slot => (fst x =? fst y) && list_eqb slot_eqb (snd x) (snd y)) (itabs a) (itabs b).

(* correspondence (deciding comparisons only): what the model computes for the lookups,
   for Dump's output and for the Dump -> Make round trip is what the implementation did.
   The reader model is run twice: structured reader on the model's image, and byte-level
   reader on the implementation's own file. *)
Definition model_ok (c : case) : bool :=
  let H := hash_of (chash c) in
  match ckind c with
  | KSmall =>
      chash_agree c &&
      match write H (ckvs c) with
      | Err _ => negb (cwrite_ok c)
      | Ok img =>
          cwrite_ok c
          && forallb (fun q => q_eof q && res_is (find_all H img (q_key q)) (q_vals q)
                               && res_is (bfind_all H (cfile c) (q_key q)) (q_vals q)) (cqueries c)
          && cdump_ok c && bytes_eqb (dump img) (cdump c) && resb_is (bdump (cfile c)) (cdump c)
          && cmake_ok c
          && Bool.eqb (csame c) (match make H (cdump c) with Ok img' => image_eqb img' img | Err _ => false end)
      end
  | KBig => true
  | KMake =>
      match make H (ctext c) with
      | Err _ => negb (cmake_ok c)
      | Ok img => cmake_ok c && cdump_ok c && bytes_eqb (dump img) (cdump c) && resb_is (bdump (cfile c)) (cdump c)
      end
  end.

(* the property itself, evaluated on the implementation's observations *)
(* [spec_vals] (Spec/Cdb.v): values of the pairs with this key, in insertion order *)
Definition opt_is (o : option bytes) (l : list bytes) : bool :=
  match o, l with
  | None, [] => true
  | Some v, x :: _ => bytes_eqb v x
  | _, _ => false
  end.

Definition spec_ok (c : case) : bool :=
  match ckind c with
  | KSmall =>
      cwrite_ok c
      && forallb (fun q => let want := spec_vals (ckvs c) (q_key q) in
                           q_eof q && lbytes_eqb (q_vals q) want && opt_is (q_find q) want) (cqueries c)
      && cwrappers_ok c && cdump_ok c && cmake_ok c && csame c
  | KBig => cwrite_ok c && clookups_ok c && cwrappers_ok c && cdump_ok c && cmake_ok c && csame c
  | KMake => true
  end.

(* diagnostic, not deciding: the model's serialisation is the file byte for byte *)
Definition diag_ok (c : case) : bool :=
  let H := hash_of (chash c) in
  match ckind c with
  | KSmall => match write H (ckvs c) with Ok img => bytes_eqb (serialize img) (cfile c) | Err _ => negb (cwrite_ok c) end
  | KBig => true
  | KMake => match bmake H (ctext c) with Ok b => bytes_eqb b (cfile c) | Err _ => negb (cmake_ok c) end
  end.

(* for replay files: what the model computes *)
Definition model_out (c : case) :=
  let H := hash_of (chash c) in
  match ckind c with
  | KMake => (match make H (ctext c) with Ok img => Ok (dump img) | Err e => Err e end, [], diag_ok c)
  | _ =>
      match write H (ckvs c) with
      | Err e => (Err e, [], false)
      | Ok img => (Ok (dump img), map (fun q => (q_key q, find_all H img (q_key q))) (cqueries c), diag_ok c)
      end
  end.
