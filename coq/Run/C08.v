(* Run/C08: evaluation of the apply-diff model and of the property on harness cases.
   A case is a database (dump of the RocksDB compiled from file A) and a chain of
   steps; a step is a diff file (its lines), the implementation's codec on every
   distinct argument, the error class rdb.ApplyDiff returned, the full dump
   afterwards and, for a diff A -> B made by the harness, the dump of a fresh
   compilation of B.
   A huge-fail case (mkhuge) is a diff of more than rdb.DefaultBatchSize records that one
   line makes inapplicable; only that line is part of the case (see model_ok). *)
From DnsV Require Export Model.Diff Model.DiffLine.
Open Scope N_scope.

Definition dump := list (bytes * list bytes).
Record step := mkstep { slines : list bytes; stable : list (bytes * option (list kv));
                        serr : N; sexpect_ok : bool; safter : dump; sfresh : option dump }.
Inductive case :=
| mk (cdb0 : dump) (csteps : list step)
(* hbad: the offending line; htable: the codec on its argument; hpre: what the database held
   under the keys of its records; hreadable: the codec accepted every other line of the diff
   and hadded: another line adds one of its records (both established by the harness while it
   generated the diff); hrecords: records of the lines before it; hbatch: rdb.DefaultBatchSize;
   herr, hunchanged: what rdb.ApplyDiff returned and whether the full dump afterwards was the
   full dump before *)
| mkhuge (hbad : bytes) (htable : list (bytes * option (list kv))) (hpre : dump)
         (hreadable hadded : bool) (hrecords hbatch : N) (herr : N) (hunchanged : bool).

Fixpoint dlookup (d : dump) (k : bytes) : list bytes :=
  match d with [] => [] | (k', vs) :: r => if bytes_eqb k' k then vs else dlookup r k end.

(* the codec of a step: the observed table; an argument that is not in it is rejected *)
Fixpoint tconv (t : list (bytes * option (list kv))) (arg : bytes) : result (list kv) :=
  match t with
  | [] => Err E_CONV
  | (a, o) :: r => if bytes_eqb a arg then match o with Some x => Ok x | None => Err E_CONV end else tconv r arg
  end.

Definition of_dump (d : dump) : store :=
  fold_left (fun s p => match snd p with [] => s | vs => put s (fst p) (append_values [] vs) end) d empty_store.

Definition table_keys (t : list (bytes * option (list kv))) : list bytes :=
  flat_map (fun p => match snd p with Some l => map fst l | None => [] end) t.

Definition same_multi (keys : list bytes) (m : bytes -> list bytes) (d : dump) : bool :=
  forallb (fun k => perm_b (m k) (dlookup d k)) keys.
Definition same_exact (keys : list bytes) (m : bytes -> list bytes) (d : dump) : bool :=
  forallb (fun k => vlist_eqb (m k) (dlookup d k)) keys.

(* ---------------------------------------------------------------- model *)

Definition model_step_ok (pre : dump) (st : step) : bool :=
  let keys := map fst pre ++ map fst (safter st) ++ table_keys (stable st) in
  let '(db', e) := apply_diff_effect (tconv (stable st)) kv_isort (of_dump pre) (slines st) in
  (e =? serr st) &&
  (if e =? 0 then same_multi keys (vals db') (safter st) else same_exact keys (vals db') (safter st)).

Fixpoint model_steps_ok (pre : dump) (sts : list step) : bool :=
  match sts with
  | [] => true
  | st :: r => model_step_ok pre st && model_steps_ok (safter st) r
  end.

(* some record the line deletes is not among the values its key held *)
Definition deletes_absent (conv : bytes -> result (list kv)) (pre : dump) (l : bytes) : bool :=
  existsb (fun p => negb (existsb (bytes_eqb (snd p)) (dlookup pre (fst p)))) (line_dels conv l).

(* correspondence: the model computes what the implementation did.
   For mkhuge the model's outcome is NOT obtained by evaluating apply_diff on the 100000+
   lines but by theorem: C08_failing_line_anywhere_is_noop (a line with line_okb = false
   anywhere in a diff: error E_CONV or E_BADOP, store unchanged; with all other lines
   readable the error is the one collect gives for this line) and
   C08_absent_delete_anywhere_is_noop (all lines readable, a deleted value that the key does
   not hold and the diff does not add: E_NXVAL, store unchanged).  What is evaluated here are
   the hypotheses of these theorems that concern the offending line. *)
Definition model_ok (c : case) : bool :=
  match c with
  | mk db0 sts => model_steps_ok db0 sts
  | mkhuge bad table pre readable added _ _ err unchanged =>
      let conv := tconv table in
      readable &&
      (if negb (line_okb conv bad)
       then match collect conv [bad] [] [] with Err e => (err =? e) && unchanged | Ok _ => false end
       else negb added && deletes_absent conv pre bad && (err =? E_NXVAL) && unchanged)
  end.

Fixpoint model_trace (pre : dump) (sts : list step) : list (N * dump) :=
  match sts with
  | [] => []
  | st :: r =>
      let keys := map fst pre ++ table_keys (stable st) in
      let '(db', e) := apply_diff_effect (tconv (stable st)) kv_isort (of_dump pre) (slines st) in
      (e, map (fun k => (k, vals db' k)) keys) :: model_trace (safter st) r
  end.
Definition model_out (c : case) :=
  match c with
  | mk db0 sts => model_trace db0 sts
  | mkhuge bad table pre _ _ _ _ _ _ =>
      [(match collect (tconv table) [bad] [] [] with Err e => e | Ok _ => if deletes_absent (tconv table) pre bad then E_NXVAL else 0 end, pre)]
  end.

(* ---------------------------------------------------------------- property *)

(* the diff format, read independently of the model: records to add and to delete,
   None when a line is malformed or rejected *)
Fixpoint read_diff (t : list (bytes * option (list kv))) (lines : list bytes) : option (list kv * list kv) :=
  match lines with
  | [] => Some ([], [])
  | l :: r =>
      match read_diff t r with
      | None => None
      | Some (a, d) =>
          match l with
          | [] => Some (a, d)
          | c :: arg =>
              if c =? 35 then Some (a, d)
              else if c =? 43 then match tconv t arg with Ok x => Some (x ++ a, d) | Err _ => None end
              else if c =? 45 then match tconv t arg with Ok x => Some (a, x ++ d) | Err _ => None end
              else None
          end
      end
  end.

(* d is contained in l as a multiset *)
Fixpoint msub_b (d l : list bytes) : bool :=
  match d with
  | [] => true
  | v :: r => match remove_first v l with Some l' => msub_b r l' | None => false end
  end.

Definition dump_eqb (keys : list bytes) (a b : dump) : bool :=
  forallb (fun k => vlist_eqb (dlookup a k) (dlookup b k)) keys.
Definition dump_same_multi (keys : list bytes) (a b : dump) : bool :=
  forallb (fun k => perm_b (dlookup a k) (dlookup b k)) keys.

Definition spec_step_ok (pre : dump) (st : step) : bool :=
  let after := safter st in
  let keys := map fst pre ++ map fst after ++ table_keys (stable st) ++
              match sfresh st with Some f => map fst f | None => [] end in
  let unchanged := negb (serr st =? 0) && dump_eqb keys after pre in
  (if sexpect_ok st then serr st =? 0 else true) &&
  match read_diff (stable st) (slines st) with
  | None => unchanged
  | Some (adds, dels) =>
      if forallb (fun k => msub_b (vals_of k dels) (dlookup pre k ++ vals_of k adds)) keys
      then (serr st =? 0) &&
           (* M(after) + M(deleted) = M(before) + M(added), key by key *)
           forallb (fun k => perm_b (dlookup after k ++ vals_of k dels) (dlookup pre k ++ vals_of k adds)) keys &&
           match sfresh st with Some f => dump_same_multi keys after f | None => true end
      else unchanged
  end.

Fixpoint spec_steps_ok (pre : dump) (sts : list step) : bool :=
  match sts with
  | [] => true
  | st :: r => spec_step_ok pre st && spec_steps_ok (safter st) r
  end.

(* no key is stored with an empty list of values *)
Definition dump_wf (d : dump) : bool := forallb (fun p => match snd p with [] => false | _ => true end) d.

(* the property itself, on the implementation's observations *)
Definition spec_ok (c : case) : bool :=
  match c with
  | mk db0 sts => dump_wf db0 && forallb (fun st => dump_wf (safter st)) sts && spec_steps_ok db0 sts
  | mkhuge bad table pre readable added _ _ err unchanged =>
      (* a diff with a malformed or rejected line, or (all lines readable) with a deletion of a
         value that is neither held nor added, must fail; a diff that fails leaves the database
         exactly as it was, however many records precede the failure *)
      let must_fail :=
        match read_diff table [bad] with
        | None => true
        | Some (_, dels) => readable && negb added &&
                            existsb (fun p => negb (msub_b [snd p] (dlookup pre (fst p)))) dels
        end in
      if err =? 0 then negb must_fail else unchanged
  end.
