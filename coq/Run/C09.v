(* Run/C09: evaluation of the Text / Preproc models and of the property on harness cases. *)
From DnsV Require Import Model.Text Model.Preproc.
Open Scope N_scope.

(* one DecodeLn -> MarshalMap + MarshalText step as observed.
   serr: 0 ok, 1 DecodeLn error, 2 MarshalMap error, 3 MarshalText error, 4 panic, 5 not run *)
Record step := mkS { serr : N; stext : bytes; skv : list kv }.

(* library observations: ParseIP (text -> 16 bytes), IP.String (of 16-byte and, for B/H ipv4hint, 4-byte
   slices), ParseCIDR (text -> ip, ones, bits), IPNet.String ((ip16, ones) -> text), runes >= 0x80 ->
   IsPrint, base64 Decode (text -> bytes; no entry = error) and Encode (B/H echconfig) *)
Record tables := mkT {
  t_ipp : list (bytes * bytes);
  t_ips : list (bytes * bytes);
  t_cp : list (bytes * (bytes * N * N));
  t_np : list (bytes * N * bytes);
  t_runes : list (N * bool);
  t_b64d : list (bytes * bytes);
  t_b64e : list (bytes * bytes) }.

Inductive case :=
| CLine (t : N) (v2 : bool) (serial : N) (wf : bool) (line : bytes) (s1 s2 s3 : step) (tb : tables)
| CFile (lite : bool) (v2 : bool) (serial pserial : N) (wf : bool) (file : list bytes)
        (pre_err : bool) (pre : list bytes)
        (orig_err : bool) (orig : list (bytes * list bytes))
        (p_err : bool) (pdump : list (bytes * list bytes))
        (acc : list kv) (tb : tables).

Fixpoint lookup_b {A} (l : list (bytes * A)) (k : bytes) : option A :=
  match l with [] => None | (k', v) :: t => if bytes_eqb k' k then Some v else lookup_b t k end.
Fixpoint lookup_n {A} (l : list (N * A)) (k : N) : option A :=
  match l with [] => None | (k', v) :: t => if k' =? k then Some v else lookup_n t k end.
Fixpoint lookup_net (l : list (bytes * N * bytes)) (a : bytes) (ones : N) : bytes :=
  match l with
  | [] => []
  | (a', ones', v) :: t => if bytes_eqb a' a && (ones' =? ones) then v else lookup_net t a ones
  end.

Definition oracles_of (tb : tables) : toracles :=
  mkTO (fun r => match lookup_n (t_runes tb) r with Some p => p | None => false end)
       (fun s => lookup_b (t_ipp tb) s)
       (fun a => match lookup_b (t_ips tb) a with Some x => x | None => [] end)
       (fun s => lookup_b (t_cp tb) s)
       (fun a ones => lookup_net (t_np tb) a ones)
       (fun s => lookup_b (t_b64d tb) s)
       (fun x => match lookup_b (t_b64e tb) x with Some e => e | None => [] end).

Definition kv_eqb (a b : kv) : bool := bytes_eqb (fst a) (fst b) && bytes_eqb (snd a) (snd b).
Fixpoint list_eqb {A} (eq : A -> A -> bool) (a b : list A) : bool :=
  match a, b with
  | [], [] => true
  | x :: a', y :: b' => eq x y && list_eqb eq a' b'
  | _, _ => false
  end.

(* multiset equality by removing one occurrence at a time *)
Fixpoint remove1 {A} (eq : A -> A -> bool) (x : A) (l : list A) : option (list A) :=
  match l with
  | [] => None
  | y :: t => if eq x y then Some t
              else match remove1 eq x t with Some t' => Some (y :: t') | None => None end
  end.
Fixpoint perm_eqb {A} (eq : A -> A -> bool) (a b : list A) : bool :=
  match a with
  | [] => match b with [] => true | _ => false end
  | x :: a' => match remove1 eq x b with Some b' => perm_eqb eq a' b' | None => false end
  end.

(* all 17 record types (before the B/H extension: all but B and H) *)
Definition modelled (t : N) : bool := modelled_type t.

(* the model run on one line against one observed step *)
Definition step_matches (o : toracles) (v2 : bool) (serial : N) (l : bytes) (s : step) : bool :=
  match parse_line o serial l with
  | Err e =>
    if e =? E_PANIC then serr s =? 4
    else serr s =? 1
  | Ok r =>
    match marshal_r o r with
    | Ok text => (serr s =? 0) && bytes_eqb text (stext s) && list_eqb kv_eqb (convert v2 false r) (skv s)
    | Err _ => serr s =? 4              (* ParamList.ToText would panic *)
    end
  end.

Definition flatten_dump (d : list (bytes * list bytes)) : list kv :=
  flat_map (fun e => map (fun v => (fst e, v)) (snd e)) d.

Definition is_rp_line (l : bytes) : bool := nth 0 l 0 =? 33.

Fixpoint all_some {A} (l : list (option A)) : option (list A) :=
  match l with
  | [] => Some []
  | None :: _ => None
  | Some x :: t => match all_some t with Some r => Some (x :: r) | None => None end
  end.

(* the library premises of the theorems (Hip_rt, Hip_nil, Hip_nosep), re-checked on every value
   the harness observed *)
Definition lib_ok (tb : tables) : bool :=
  forallb (fun e => match lookup_b (t_ipp tb) (snd e) with Some a => bytes_eqb a (to16 (fst e)) | None => false end &&
                    negb (contains 44 (snd e)) &&
                    (* svcb_library: no ; | double quote; a ':' in a 16-byte address outside ::ffff:0:0/96 *)
                    negb (contains 59 (snd e)) && negb (contains 124 (snd e)) && negb (contains 34 (snd e)) &&
                    ((length (fst e) =? 4)%nat || is4 (fst e) || contains 58 (snd e))) (t_ips tb) &&
  match lookup_b (t_ipp tb) [] with None => true | Some _ => false end &&
  forallb (fun e => (length (snd e) =? 16)%nat && wf_bytesb (snd e)) (t_ipp tb) &&
  forallb (fun e => wf_bytesb (snd e)) (t_b64d tb) &&
  forallb (fun e => match lookup_b (t_b64d tb) (snd e) with Some x => bytes_eqb x (fst e) | None => false end &&
                    negb (contains 59 (snd e)) && negb (contains 34 (snd e))) (t_b64e tb).

(* correspondence: the model computes what the implementation did *)
Definition model_ok (c : case) : bool :=
  match c with
  | CLine t v2 serial wf line s1 s2 s3 tb =>
    let o := oracles_of tb in
    lib_ok tb &&
    step_matches o v2 serial line s1 &&
    (if serr s1 =? 0 then step_matches o v2 serial (stext s1) s2 else true) &&
    (* lines of the well-formed generator satisfy the guard of the theorems *)
    (if wf && modelled t then wf_lineb o serial line else true)
  | CFile lite v2 serial pserial wf file pre_err pre orig_err orig p_err pdump acc tb =>
    let o := oracles_of tb in
    (* lite cases (one map with more than 100 range points) carry only the dumps: no model run *)
    if lite then true else
    lib_ok tb &&
    match all_some (map rp_of_kv acc) with
    | None => false
    | Some rps =>
      (match preprocess o (fun _ => rps) pserial file with
       | Err _ => pre_err
       | Ok out =>
         negb pre_err &&
         let body := filter (fun l => negb (is_rp_line l)) out in
         let pts := filter is_rp_line out in
         (* the lines before the accumulator's lines in order, those as a multiset (one goroutine per map) *)
         list_eqb bytes_eqb (firstn (length pre - length pts) pre) (firstn (length out - length pts) out) &&
         perm_eqb bytes_eqb (skipn (length pre - length pts) pre) (skipn (length out - length pts) out) &&
         (length body <=? length out)%nat
       end) &&
      (match compile o (fun _ => rps) v2 serial file with
       | Err _ => orig_err
       | Ok kvs => negb orig_err && perm_eqb kv_eqb kvs (flatten_dump orig)
       end)
    end
  end.

(* ---------------------------------------------------------------- the property *)
Definition step_ok (s : step) : bool := serr s =? 0.
Definition no_panic (s : step) : bool := negb (serr s =? 4).

Definition roundtrip_observed (s1 s2 s3 : step) : bool :=
  step_ok s1 && step_ok s2 && step_ok s3 &&
  perm_eqb kv_eqb (skv s1) (skv s2) &&        (* the re-parsed record compiles to the same keys and values *)
  bytes_eqb (stext s2) (stext s1) &&          (* re-serialising again gives the same text *)
  bytes_eqb (stext s3) (stext s2).

Definition dump_eqb (a b : list (bytes * list bytes)) : bool :=
  list_eqb (fun x y => bytes_eqb (fst x) (fst y) && list_eqb bytes_eqb (snd x) (snd y)) a b.

(* guard of the file-level statement: every line is skipped by both tools or is a line of at least two
   bytes that does not start with a space, parses to a well-formed record and is accepted by the
   accumulator; the range points are well-formed records whose addresses the library prints and
   parses back *)
(* The file of a case, and the observed output of the preprocessor, are lists of lines as
   bufio.ScanLines delivers them (one CR in front of the newline does not belong to the line; a last line
   without newline is a line).  The model works on such lists.  Writing the preprocessor's lines and reading
   them again is the identity on lists of lines, because writeLine doubles a CR that ends a line
   (/repo 517b5b3; before, such a line came back one byte shorter): the harness reads the written text
   back with bufio.ScanLines and the comparison with the model's output checks exactly that on every file.
   Third disjunct: any other line the preprocessor writes through as it is (first byte neither % nor Z)
   and the compiler, after its TrimLeft of blanks, skips or accepts without feeding the accumulator:
   lines that begin with blanks, white-space lines, lines whose last field ends in white space or CR. *)
Definition wf_file_lineb (o : toracles) (serial : N) (l : bytes) : bool :=
  (is_ignored l ||
   ((2 <=? length l)%nat && negb (nth 0 l 0 =? 32) &&
    match parse_line o serial l with
    | Ok r => wf_recordb o r && match acc_update r with Ok _ => true | Err _ => false end
    | Err _ => false
    end) ||
   (negb (nth 0 l 0 =? 37) && negb (nth 0 l 0 =? 90) &&
    match compile_line o false serial l with Ok (_, []) => true | _ => false end)).

Definition rp_okb (o : toracles) (r : record) : bool :=
  wf_recordb o r &&
  match r with
  | RRangePoint _ ip _ _ _ =>
    match o_parse_ip o (o_print_ip o ip) with Some a => bytes_eqb a ip | None => false end &&
    negb (contains 44 (o_print_ip o ip))
  | _ => false
  end.

Definition spec_ok (c : case) : bool :=
  match c with
  | CLine t v2 serial wf line s1 s2 s3 tb =>
    let o := oracles_of tb in
    let guard := if modelled t then wf_lineb o serial line else wf in
    if guard then roundtrip_observed s1 s2 s3
    else (* outside the guard: no panic except on the empty line (decodeRtype) *)
      (match line with [] => true | _ => no_panic s1 end) && no_panic s2 && no_panic s3
  | CFile lite v2 serial pserial wf file pre_err pre orig_err orig p_err pdump acc tb =>
    let o := oracles_of tb in
    let guard := forallb (wf_file_lineb o serial) file &&
                 ((pserial =? serial) || (pserial =? 0)) &&
                 match all_some (map rp_of_kv acc) with Some rps => forallb (rp_okb o) rps | None => false end in
    if lite then
      (* guard = the generator's claim (distinct subnets with 2-byte locations, one Z line without F12) *)
      (if wf then negb pre_err && negb orig_err && negb p_err && dump_eqb orig pdump
       else if orig_err then pre_err || p_err else true)
    else
    if guard then negb pre_err && negb orig_err && negb p_err && dump_eqb orig pdump &&
                  (* SOA lines are written with the serial filled in when the preprocessor has one *)
                  ((pserial =? 0) ||
                   forallb (fun l => negb (nth 0 l 0 =? 90) || nonempty (fld (fields l) 3)) pre)
    else (* a file the compiler rejects must not come out of the preprocessor as a file that compiles *)
      if orig_err then pre_err || p_err else true
  end.

Definition model_out (c : case) :=
  match c with
  | CLine t v2 serial wf line s1 s2 s3 tb =>
    let o := oracles_of tb in
    (match parse_line o serial line with
     | Ok r => (0, marshal o r, convert v2 false r, wf_recordb o r, finding_class o serial r)
     | Err e => (e, [], [], false, false)
     end, [] : list bytes)
  | CFile lite v2 serial pserial wf file pre_err pre orig_err orig p_err pdump acc tb =>
    let o := oracles_of tb in
    match all_some (map rp_of_kv acc) with
    | None => ((99, [], [], false, false), [])
    | Some rps =>
      match preprocess o (fun _ => rps) pserial file with
      | Ok out => ((0, [], [], forallb (wf_file_lineb o serial) file, false), out)
      | Err e => ((e, [], [], false, false), [])
      end
    end
  end.
