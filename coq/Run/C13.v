(* Run/C13: arbitrary wire-valid queries.  model_ok = the serve model over the dumps computes
   what each server did (panic / no reply / the reply, section by section), and the v2 dump
   satisfies the decidable guard of C13_no_panic_v2 (Spec/KeysV2.wf_store_v2);
   spec_ok = no panic, and whatever was written is packable, has the query's ID and question
   and the QR bit, BADVERS (16) exactly for an EDNS version other than 0, and no option other
   than the client-subnet echo (unknown options are ignored); over UDP the packed reply is no longer
   than max(512, advertised size), no record is added, and TC is set whenever records were dropped.
   History cases (class ..+cache, ..+cache+badvers of the harness) have the same format: their
   queries were asked one after the other, behind a warm-up that is not part of the case, through
   handlers whose response cache is enabled.  The serve model has no cache, and both relations
   are evaluated per query exactly as for the other cases: a reply served from the cache must be
   the reply the cache-free model computes, and BADVERS is owed whatever the cache holds. *)
From DnsV Require Export Base.Bytes Model.Store Model.LookupV1 Model.LookupV2 Model.Serve Spec.Answer Spec.Rows Spec.KeysV2 Run.Core.
Open Scope N_scope.

(* what one backend wrote for a query received over UDP: the limit is max(512, advertised EDNS
   size); the length is that of the message packed as the server packs it; the record counts
   (without OPT) of this reply and of the reply to the same query over TCP, where nothing is dropped *)
Record udpobs := mkU { u_limit : N; u_len : N; u_written : bool; u_tc : bool; u_n : N; u_ntcp : N;
                       u_panic : bool; u_packerr : bool }.
Record case := mkC { c_file : fcase; c_udp : list (list udpobs) }.     (* per query, per backend *)
(* the dump of the v2 database the real compiler wrote satisfies the guard of C13_no_panic_v2 *)
Definition guard_ok (c : case) : bool :=
  if f_compiled (c_file c) then wf_store_v2 (f_v2 (c_file c)) else true.
Definition model_ok (c : case) : bool := serve_model_ok (c_file c) && guard_ok c.

(* within the size the client advertised, or else truncated with TC set *)
Definition udp_ok (u : udpobs) : bool :=
  negb (u_panic u) &&
  (if u_written u then
     negb (u_packerr u) && (u_len u <=? u_limit u) && (u_n u <=? u_ntcp u) && (u_tc u || (u_n u =? u_ntcp u))
   else true).

Definition wants_badvers (q : query) : bool :=
  match q_edns q with Some (Npos _) => true | _ => false end.

Definition obs_wellformed (q : query) (ob : obs) : bool :=
  negb (o_panic ob) &&
  match o_reply ob with
  | None => true
  | Some p =>
      (p_id p =? q_id q) && p_qr p && p_packok p && (p_writes p =? 1) &&
      question_eqb (Some (q_name q, q_type q, q_class q)) (p_question p) &&
      Bool.eqb (p_rcode p =? 16) (wants_badvers q) &&
      match q_edns q with None => negb (p_opt p) | Some _ => true end &&
      forallb (fun c => c =? 8) (p_optcodes p)
  end.
Definition spec_ok (c : case) : bool :=
  (if f_compiled (c_file c)
   then forallb (fun q => forallb (obs_wellformed (qc_q q)) (qc_obs q)) (f_qs (c_file c)) else true) &&
  forallb (forallb udp_ok) (c_udp c).

Definition model_out (c : case) :=
  (bad_idx (query_model_ok (c_file c)) (f_qs (c_file c)),
   bad_idx (fun q => forallb (obs_wellformed (qc_q q)) (qc_obs q)) (f_qs (c_file c)),
   bad_idx (forallb udp_ok) (c_udp c)).
