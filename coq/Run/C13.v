(* Run/C13: arbitrary wire-valid queries.  model_ok = the serve model over the dumps computes
   what each server did (panic / no reply / the reply, section by section), and the v2 dump
   satisfies the decidable guard of C13_no_panic_v2 (Spec/KeysV2.wf_store_v2);
   spec_ok = no panic, and whatever was written is packable, has the query's ID and question
   and the QR bit, BADVERS (16) exactly for an EDNS version other than 0, and no option other
   than the client-subnet echo (unknown options are ignored); over UDP the packed reply is no longer
   than max(512, advertised size), no record is added, and TC is set whenever records were dropped.
   History cases (class ..+cache, ..+cache+badvers of the harness) have the same format: their
   queries were asked one after the other, behind a warm-up that is not part of the case, through
   handlers whose response cache is enabled.  The serve model has no cache, and both relations
   are evaluated per query: BADVERS is owed whatever the cache holds, and a reply served from
   the cache must be the reply the cache-free model computes for the spelling of the name that
   POPULATED the entry (the cache key holds the lower-cased name, the cached sections keep the
   owner names as first asked), re-addressed to this request: its id and its question bytes
   exactly as asked.  That is the shape of C12_cached_is_case_variant_of_uncached
   (requestion (serve .. (recase r a) ..) (question of r)); the spelling [a] is part of the case
   ([c_first], per query and backend: present when the handler counted a cache hit). *)
From DnsV Require Export Base.Bytes Model.Store Model.LookupV1 Model.LookupV2 Model.Serve Spec.Answer Spec.Rows Spec.KeysV2 Run.Core.
From DnsV Require Import Model.Compose.
Open Scope N_scope.

(* what one backend wrote for a query received over UDP: the limit is max(512, advertised EDNS
   size); the length is that of the message packed as the server packs it; the record counts
   (without OPT) of this reply and of the reply to the same query over TCP, where nothing is dropped *)
Record udpobs := mkU { u_limit : N; u_len : N; u_written : bool; u_tc : bool; u_n : N; u_ntcp : N;
                       u_panic : bool; u_packerr : bool }.
(* c_first: per query, per backend - the name bytes of the query that populated the cache entry this
   query was served from (None, or a list that ends early: not served from the cache) *)
Record case := mkC { c_file : fcase; c_udp : list (list udpobs);       (* per query, per backend *)
                     c_first : list (list (option bytes)) }.
(* the dump of the v2 database the real compiler wrote satisfies the guard of C13_no_panic_v2 *)
Definition guard_ok (c : case) : bool :=
  if f_compiled (c_file c) then wf_store_v2 (f_v2 (c_file c)) else true.

(* what the model owes for a query served from an entry populated under the spelling [a]: the
   outcome for the request renamed to [a], with this request's question put back (Model/Compose:
   rename, requestion; a BADVERS reply has no question) *)
Definition serve_obs_first (c : fcase) (q : qcase) (a : option bytes) (b : backend) (ob : obs) : outcome :=
  match a with
  | None => serve_obs c q b ob
  | Some a =>
      requestion (serve b (store_for c b) (rename (qc_q q) a) (o_loc ob) (o_ecs ob) (qc_max q))
                 (match q_edns (qc_q q) with Some (Npos _) => None | _ => question_of (qc_q q) end)
  end.
Fixpoint backends_first_ok (c : fcase) (q : qcase) (bs : list backend) (os : list obs) (fs : list (option bytes)) : bool :=
  match bs, os with
  | [], [] => true
  | b :: bs', ob :: os' =>
      outcome_matches (serve_obs_first c q (hd None fs) b ob) ob && backends_first_ok c q bs' os' (tl fs)
  | _, _ => false
  end.
(* with no spelling given this is Run.Core.query_model_ok *)
Definition query_first_ok (c : fcase) (qf : qcase * list (option bytes)) : bool :=
  backends_first_ok c (fst qf) backends (qc_obs (fst qf)) (snd qf).
Fixpoint with_first (qs : list qcase) (fss : list (list (option bytes))) : list (qcase * list (option bytes)) :=
  match qs with
  | [] => []
  | q :: qs' => (q, hd [] fss) :: with_first qs' (tl fss)
  end.
Definition serve_first_ok (c : case) : bool :=
  if f_compiled (c_file c)
  then forallb (query_first_ok (c_file c)) (with_first (f_qs (c_file c)) (c_first c)) else true.
Definition model_ok (c : case) : bool := serve_first_ok c && guard_ok c.

(* within the size the client advertised, or else truncated with TC set *)
Definition udp_ok (u : udpobs) : bool :=
  negb (u_panic u) &&
  (if u_written u then
     negb (u_packerr u) && (u_len u <=? u_limit u) && (u_n u <=? u_ntcp u) && (u_tc u || (u_n u =? u_ntcp u))
   else true).

Definition wants_badvers (q : query) : bool :=
  match q_edns q with Some (Npos _) => true | _ => false end.

Definition obs_wellformed (q : query) (ob : obs) : bool :=
  negb (o_panic ob) &&
  match o_reply ob with
  | None => true
  | Some p =>
      (p_id p =? q_id q) && p_qr p && p_packok p && (p_writes p =? 1) &&
      question_eqb (Some (q_name q, q_type q, q_class q)) (p_question p) &&
      Bool.eqb (p_rcode p =? 16) (wants_badvers q) &&
      match q_edns q with None => negb (p_opt p) | Some _ => true end &&
      forallb (fun c => c =? 8) (p_optcodes p)
  end.
Definition spec_ok (c : case) : bool :=
  (if f_compiled (c_file c)
   then forallb (fun q => forallb (obs_wellformed (qc_q q)) (qc_obs q)) (f_qs (c_file c)) else true) &&
  forallb (forallb udp_ok) (c_udp c).

Definition model_out (c : case) :=
  (bad_idx (query_first_ok (c_file c)) (with_first (f_qs (c_file c)) (c_first c)),
   bad_idx (fun q => forallb (obs_wellformed (qc_q q)) (qc_obs q)) (f_qs (c_file c)),
   bad_idx (forallb udp_ok) (c_udp c)).
