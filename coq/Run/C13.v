(* Run/C13: arbitrary wire-valid queries.  model_ok = the serve model over the dumps computes
   what each server did (panic / no reply / the reply, section by section);
   spec_ok = no panic, and whatever was written is packable, has the query's ID and question
   and the QR bit, BADVERS (16) exactly for an EDNS version other than 0, and no option other
   than the client-subnet echo (unknown options are ignored). *)
From DnsV Require Export Base.Bytes Model.Store Model.LookupV1 Model.LookupV2 Model.Serve Spec.Answer Spec.Rows Run.Core.
Open Scope N_scope.

Definition case := fcase.
Definition model_ok (c : case) : bool := serve_model_ok c.

Definition wants_badvers (q : query) : bool :=
  match q_edns q with Some (Npos _) => true | _ => false end.

Definition obs_wellformed (q : query) (ob : obs) : bool :=
  negb (o_panic ob) &&
  match o_reply ob with
  | None => true
  | Some p =>
      (p_id p =? q_id q) && p_qr p && p_packok p && (p_writes p =? 1) &&
      question_eqb (Some (q_name q, q_type q, q_class q)) (p_question p) &&
      Bool.eqb (p_rcode p =? 16) (wants_badvers q) &&
      match q_edns q with None => negb (p_opt p) | Some _ => true end &&
      forallb (fun c => c =? 8) (p_optcodes p)
  end.
Definition spec_ok (c : case) : bool :=
  if f_compiled c then forallb (fun q => forallb (obs_wellformed (qc_q q)) (qc_obs q)) (f_qs c) else true.

Definition model_out (c : case) :=
  (bad_idx (query_model_ok c) (f_qs c),
   bad_idx (fun q => forallb (obs_wellformed (qc_q q)) (qc_obs q)) (f_qs c)).
