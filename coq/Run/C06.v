(* Run/C06: evaluation of the refcount model and of the C06 property on harness cases.
   A case is an operation history together with what the Go harness observed
   after every operation (event log of the instrumented backends, error class,
   served backend, refcounts, pinned backends, the fake backends' own
   use-after-close / double-close counters). *)
From DnsV Require Export Base.Bytes Spec.Handles Model.Refcount.
Open Scope N_scope.

Record obs := mkObs {
  o_full : bool;                    (* false: the next operation was already waiting on a lock when this one
                                       finished, so there was no quiescent moment to look at the state; only
                                       the events, the result and the two counters were observed *)
  o_events : list event;            (* events of this step, oldest first *)
  o_res : N;                        (* 0 ok, 1 open error, 2 validation key not found, 3 timeout *)
  o_served : nat;                   (* backend id behind FBDNSDB.dnsdb *)
  o_refs : list (nat * (N * bool)); (* (backend id, refCount, destroyable) of every wrapper the harness knows *)
  o_pins : list (nat * nat);        (* (reader slot, backend id) for every held reader *)
  o_uac : N;                        (* calls on a closed backend counted by the fake backends *)
  o_dc : N }.                       (* second Close calls counted by the fake backends *)

Record case := mk {
  c_guard : bool;                   (* does the history satisfy wf_hist *)
  c_init : list event;              (* events before the first operation, oldest first *)
  c_steps : list (op * obs) }.

(* monomorphic builders for the generated case files (numbers arrive as N) *)
Definition E (b o : N) : event := (N.to_nat b, o).
Definition Rf (b rc : N) (d : bool) : nat * (N * bool) := (N.to_nat b, (rc, d)).
Definition Pn (slot b : N) : nat * nat := (N.to_nat slot, N.to_nat b).
Definition Ob (full : bool) (ev : list event) (res served : N) (refs : list (nat * (N * bool)))
  (pins : list (nat * nat)) (uac dc : N) : obs := mkObs full ev res (N.to_nat served) refs pins uac dc.
Definition St (o : op) (ob : obs) : op * obs := (o, ob).
Definition OAcq (r : N) := Acquire (N.to_nat r).
Definition OUse (r : N) := Use (N.to_nat r).
Definition ORel (r : N) := Release (N.to_nat r).
Definition OLate (i : N) (c : cand) := LateComplete (N.to_nat i) c.

Definition ev_eqb (a b : event) : bool := Nat.eqb (fst a) (fst b) && (snd a =? snd b).
Fixpoint evs_eqb (a b : list event) : bool :=
  match a, b with
  | [], [] => true
  | x :: a', y :: b' => ev_eqb x y && evs_eqb a' b'
  | _, _ => false
  end.

(* events added by a step, oldest first *)
Definition delta (s s' : state) : list event :=
  rev (firstn (length (log s') - length (log s)) (log s')).

Definition find_wrapper (s : state) (b : nat) : option wrapper :=
  match filter (fun i => Nat.eqb (w_bk (ws s i)) b) (seq 0 (nw s)) with
  | i :: _ => Some (ws s i)
  | [] => None
  end.

Definition ref_ok (s : state) (x : nat * (N * bool)) : bool :=
  match find_wrapper s (fst x) with
  | Some w => (w_ref w =? fst (snd x)) && Bool.eqb (w_destroyable w) (snd (snd x))
  | None => false
  end.

Definition pin_ok (s : state) (x : nat * nat) : bool :=
  match lookup (fst x) (readers s) with
  | Some i => Nat.eqb (w_bk (ws s i)) (snd x)
  | None => false
  end.

Definition step_ok (o : op) (s s' : state) (ob : obs) : bool :=
  evs_eqb (delta s s') (o_events ob)
  && (op_result o =? o_res ob)
  && (negb (o_full ob) ||
      (Nat.eqb (w_bk (ws s' (served s'))) (o_served ob)
       && forallb (ref_ok s') (o_refs ob)
       && forallb (pin_ok s') (o_pins ob)
       && Nat.eqb (length (readers s')) (length (o_pins ob)))).

Fixpoint steps_ok (s : state) (l : list (op * obs)) : bool :=
  match l with
  | [] => true
  | (o, ob) :: t => let s' := step o s in step_ok o s s' ob && steps_ok s' t
  end.

(* correspondence: the model computes what the implementation did *)
Definition model_ok (c : case) : bool :=
  evs_eqb (rev (log init)) (c_init c)
  && Bool.eqb (wf_hist init (map fst (c_steps c))) (c_guard c)
  && steps_ok init (c_steps c).

(* the property itself, on the implementation's observations only: after every
   operation the backends that are served or pinned are open and all others are
   closed exactly once (Spec.handles_okb; no leak is its quiescent instance), every
   reference count equals the number of readers pinning that backend, the fake backends saw no call after Close and no second Close; over the whole log
   no use after close and no double close. *)
(* exactly one release per acquisition: the reference count of every wrapper the harness
   knows equals the number of held readers that pin its backend *)
Definition count_pins (b : nat) (pins : list (nat * nat)) : N :=
  N.of_nat (length (filter (fun p => Nat.eqb (snd p) b) pins)).
Definition refs_match (ob : obs) : bool :=
  forallb (fun x => fst (snd x) =? count_pins (fst x) (o_pins ob)) (o_refs ob).

Definition is_shutdown (o : op) : bool := match o with Shutdown => true | _ => false end.

Fixpoint spec_steps (lg : list event) (sh : bool) (l : list (op * obs)) : bool * list event :=
  match l with
  | [] => (true, lg)
  | (o, ob) :: t =>
      let lg' := rev (o_events ob) ++ lg in
      let sh' := sh || is_shutdown o in
      let sn := mkSnap lg' (if sh' then None else Some (o_served ob)) (map snd (o_pins ob)) in
      let here := (negb (o_full ob) || (handles_okb sn && refs_match ob)) && (o_uac ob =? 0) && (o_dc ob =? 0) in
      let '(rest, lgf) := spec_steps lg' sh' t in
      (here && rest, lgf)
  end.

Definition spec_ok (c : case) : bool :=
  let '(ok, lg) := spec_steps (rev (c_init c)) false (c_steps c) in
  ok && no_use_after_closeb lg && no_double_closeb lg.

(* what the model computes, for replay files *)
Fixpoint model_trace (s : state) (l : list op) : list (list event * (nat * list (nat * nat))) :=
  match l with
  | [] => []
  | o :: t => let s' := step o s in
              (delta s s', (w_bk (ws s' (served s')), readers s')) :: model_trace s' t
  end.
Definition model_out (c : case) := model_trace init (map fst (c_steps c)).
