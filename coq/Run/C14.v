(* Run/C14: evaluation of race / stress observations of the real code against the generated
   lockset table.  A case is one observation of the race stress harness (harness/cmd/c14):
     CRace      one data-race report of the Go race detector: for each of the two accesses the
                file (below dnsrocks/) and line of the innermost frame inside dnsrocks, and
                whether it was a write;
     CScenario  the summary of one stress scenario (N workers x reloader x stats reporter ...):
                number of panics / fatal errors, whether the watchdog fired.
   model_ok: a reported race is one the lockset table ALSO flags (both source positions carry
   accesses to the same field, at least one a write, and pair_ok is false): the table is not
   missing accesses that the detector sees.
   spec_ok: the property itself on the observation - no race, no panic, no watchdog timeout.
   (Known findings are matched by lib/props/c14.py against known_findings.json.) *)
From Coq Require Import List String NArith Bool.
From DnsV Require Import Base.Bytes Model.AccessTypes Gen.Access Model.Locks.
Import ListNotations.
Open Scope N_scope.

Inductive cclass := CRace | CScenario.
Record case := mk {
  cclass_of : cclass;
  cf1 : string; cl1 : N; cw1 : bool;
  cf2 : string; cl2 : N; cw2 : bool;
  cpanics : N; ctimeout : bool
}.
Definition race (f1 : string) (l1 : N) (w1 : bool) (f2 : string) (l2 : N) (w2 : bool) : case :=
  mk CRace f1 l1 w1 f2 l2 w2 0 false.
Definition scenario (panics : N) (timeout : bool) : case :=
  mk CScenario EmptyString 0 false EmptyString 0 false panics timeout.

Definition at_pos (f : string) (l : N) (a : access) : bool :=
  if N.eqb (a_line a) l then String.eqb (a_file a) f else false.

(* the accesses of the table at the two reported positions that the table itself flags *)
Definition flagged_at (c : case) : list (access * access) :=
  filter (fun p => if conflicting (fst p) (snd p) then negb (pair_ok (fst p) (snd p)) else false)
         (list_prod (filter (at_pos (cf1 c) (cl1 c)) accesses) (filter (at_pos (cf2 c) (cl2 c)) accesses)).

Definition model_ok (c : case) : bool :=
  match cclass_of c with
  | CRace => match flagged_at c with [] => false | _ => true end
  | CScenario => true
  end.

Definition spec_ok (c : case) : bool :=
  match cclass_of c with
  | CRace => false
  | CScenario => (cpanics c =? 0) && negb (ctimeout c)
  end.

(* what the table says about a reported race: owner, field and the two functions *)
Definition model_out (c : case) : list (string * string * string * string) :=
  map (fun p => (a_owner (fst p), a_field (fst p), a_func (fst p), a_func (snd p))) (flagged_at c).
