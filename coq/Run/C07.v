(* Run/C07: evaluation of the pipeline models and of the property on harness cases.
   CCompile: one data file (its BYTES) under one codec configuration.  The lines are
   obtained here by the model of the line reader (Model/LineReader.v read_file); the
   harness does not trim or skip anything for Coq: table holds the implementation's codec
   output (None = rejected) for every '\n'-separated chunk of the file as it is, without a
   trailing CR, and each of these without leading blanks, so that the form the model asks
   for is there; a form that is missing makes the case fail.  nlines: how many lines the
   harness's own reading of the file has (cross-check of the two readers).  acc, feat: the
   accumulator and feature records; runs: the real compilers under several settings (did it
   succeed, full dump key -> values).
   CBuckets: the builder's own sort + createBuckets on a key array.
   CVerdict: comparisons made by the harness in Go only (large files). *)
From DnsV Require Export Model.Compile Model.LineReader.
Open Scope N_scope.

Definition dump := list (bytes * list bytes).
Inductive mode := MBuilder | MBatches (bs : Z) | MCdb.
Record run := mkrun { rmode : mode; rok : bool; rdump : dump }.
Inductive case :=
| CCompile (file : bytes) (table : list (bytes * option (list kv))) (nlines : N) (acc feat : list kv) (ncpu : nat) (runs : list run)
| CBuckets (keys : list bytes) (minsz : N) (nb : nat) (panic : bool) (sorted : list bytes) (bks : list (N * N))
| CVerdict (vs : list bool)
(* a file with one very long line: pre ++ (count times the byte fill) ++ post, built here; per
   setting: did the compiler succeed, and (when it did) was its dump the codec's output (compared
   by the harness: the values are too large to be worth a literal) *)
| CLong (pre : bytes) (fill count : N) (post : bytes) (runs : list (bool * bool)).

Fixpoint dlookup (d : dump) (k : bytes) : list bytes :=
  match d with [] => [] | (k', vs) :: r => if bytes_eqb k' k then vs else dlookup r k end.

(* the codec of a case *)
Definition line := option (list kv).
Definition conv (l : line) : result (list kv) := match l with Some x => Ok x | None => Err E_CONV end.

(* the codec output for the lines read_file delivers; None: a line is not in the table *)
Fixpoint tlookup (t : list (bytes * option (list kv))) (l : bytes) : option line :=
  match t with
  | [] => None
  | (a, o) :: r => if bytes_eqb a l then Some o else tlookup r l
  end.
Fixpoint resolve (t : list (bytes * option (list kv))) (ls : list bytes) : option (list line) :=
  match ls with
  | [] => Some []
  | l :: r => match tlookup t l, resolve t r with
              | Some x, Some xs => Some (x :: xs)
              | _, _ => None
              end
  end.
Definition lines_of (file : bytes) (t : list (bytes * option (list kv))) : option (list line) :=
  resolve t (read_file file).

Definition min_bucket_size : N := 30000.      (* rdb_builder.go minBucketSize *)

(* ---------------------------------------------------------------- model *)

(* keys on which two maps are compared: those of the dump and those of the stream *)
Definition all_keys (d : dump) (s : list kv) : list bytes := map fst d ++ map fst s.

Definition same_as_dump (keys : list bytes) (m : bytes -> list bytes) (d : dump) : bool :=
  forallb (fun k => perm_b (m k) (dlookup d k)) keys.

Definition model_run_ok (f : list line) (acc feat : list kv) (ncpu : nat) (r : run) : bool :=
  let stream := records line conv (fun _ => acc) feat f in
  let keys := all_keys (rdump r) stream in
  match rmode r with
  | MBuilder =>
      match compile_builder line conv kv_isort min_bucket_size ncpu f stream with
      | Ok db => rok r && same_as_dump keys (vals db) (rdump r)
      | Err _ => negb (rok r)
      end
  | MBatches bs =>
      match compile_batches line conv kv_isort f (batches bs stream) with
      | Ok db => rok r && same_as_dump keys (vals db) (rdump r)
      | Err _ => negb (rok r)
      end
  | MCdb =>
      match compile_cdb line conv f stream with
      | Ok put_seq => rok r && same_as_dump keys (fun k => vals_of k put_seq) (rdump r)
      | Err _ => negb (rok r)
      end
  end.

Fixpoint sortedb (l : list bytes) : bool :=
  match l with
  | a :: ((b :: _) as r) => bleb a b && sortedb r
  | _ => true
  end.

Fixpoint bks_eqb (a b : list (N * N)) : bool :=
  match a, b with
  | [], [] => true
  | (s1, e1) :: a', (s2, e2) :: b' => (s1 =? s2) && (e1 =? e2) && bks_eqb a' b'
  | _, _ => false
  end.

Definition long_file (pre : bytes) (fill count : N) (post : bytes) : bytes :=
  pre ++ N.iter count (cons fill) [] ++ post.

(* correspondence: the model computes what the implementation did *)
Definition model_ok (c : case) : bool :=
  match c with
  | CLong pre fill count post runs =>
      (* the model: compile_file_* return Err E_READER iff reader_fails (Model/LineReader.v); when the
         reader does not fail the content is judged by the harness's comparison *)
      let fails := reader_fails (long_file pre fill count post) in
      forallb (fun r => if fails then negb (fst r) else fst r && snd r) runs
  | CCompile file table nlines acc feat ncpu runs =>
      if reader_fails file then forallb (fun r => negb (rok r)) runs
      else
      match lines_of file table with
      | None => false
      | Some lines => (nlen lines =? nlines) && forallb (model_run_ok lines acc feat ncpu) runs
      end
  | CBuckets keys minsz nb panic sorted bks =>
      sortedb sorted && perm_b sorted keys &&
      match create_buckets minsz nb sorted with
      | Ok m => negb panic && bks_eqb m bks
      | Err e => panic && (e =? E_PANIC)
      end
  | CVerdict _ => true
  end.

(* ---------------------------------------------------------------- property *)

Definition key_eq_at (keys : list bytes) (i j : N) : bool :=
  match key_at keys i, key_at keys j with
  | Some a, Some b => bytes_eqb a b
  | _, _ => false
  end.

(* consecutive non-empty ranges from start to len; no boundary between two equal keys *)
Fixpoint chain_ok (keys : list bytes) (len start : N) (bks : list (N * N)) : bool :=
  match bks with
  | [] => false
  | [(s, e)] => (s =? start) && (s <? e) && (e =? len)
  | (s, e) :: r => (s =? start) && (s <? e) && (e <? len) && negb (key_eq_at keys (e - 1) e) && chain_ok keys len e r
  end.

Definition spec_run_ok (ok : bool) (recs : list kv) (r : run) : bool :=
  if ok then rok r && same_as_dump (all_keys (rdump r) recs) (fun k => vals_of k recs) (rdump r)
  else negb (rok r).

(* the property itself, on the implementation's observations: every dump equals, as a
   map key -> multiset of values, what the line-by-line codec emitted; a rejected line
   fails every setting *)
(* the longest run of bytes between newlines, read independently of the model: (current, best) *)
Definition longest_line (data : bytes) : N :=
  let '(cur, best) := fold_left (fun st b => let '(cur, best) := st in
                                   if b =? 10 then (0, N.max best cur) else (cur + 1, best)) data (0, 0) in
  N.max best cur.

Definition spec_ok (c : case) : bool :=
  match c with
  | CLong pre fill count post runs =>
      (* bufio.Scanner gives up on a line of 64 KiB or more: the compilation must fail, nothing may
         be compiled from the lines before it; a shorter line must be compiled like any other *)
      let fails := 65536 <=? longest_line (long_file pre fill count post) in
      forallb (fun r => if fails then negb (fst r) else fst r && snd r) runs
  | CCompile file table _ acc feat _ runs =>
      match lines_of file table with
      | None => false
      | Some lines =>
          let ok := accepted line conv lines in
          let recs := records line conv (fun _ => acc) feat lines in
          forallb (spec_run_ok ok recs) runs
      end
  | CBuckets keys minsz nb panic sorted bks =>
      if (1 <=? minsz) && (1 <=? N.of_nat nb) && negb (nlen keys =? 0)
      then negb panic && chain_ok sorted (nlen sorted) 0 bks && (length bks <=? nb)%nat
      else true
  | CVerdict vs => forallb (fun b => b) vs
  end.

(* for replay files *)
Definition model_out (c : case) :=
  match c with
  | CCompile file table _ acc feat ncpu runs =>
      let lines := match lines_of file table with Some x => x | None => [] end in
      let stream := records line conv (fun _ => acc) feat lines in
      (map (fun r => match rmode r with
                     | MBuilder => match compile_builder line conv kv_isort min_bucket_size ncpu lines stream with
                                   | Ok db => Ok (map (fun k => (k, vals db k)) (map fst stream)) | Err e => Err e end
                     | MBatches bs => match compile_batches line conv kv_isort lines (batches bs stream) with
                                      | Ok db => Ok (map (fun k => (k, vals db k)) (map fst stream)) | Err e => Err e end
                     | MCdb => match compile_cdb line conv lines stream with
                               | Ok s => Ok (map (fun k => (k, vals_of k s)) (map fst stream)) | Err e => Err e end
                     end) runs, @Ok (list (N * N)) [])
  | CBuckets keys minsz nb panic sorted bks => ([], create_buckets minsz nb sorted)
  | CVerdict _ => ([], Ok [])
  | CLong pre fill count post _ =>
      ([], if reader_fails (long_file pre fill count post) then Err E_READER else Ok [])
  end.
