(* Run/C15: evaluation of model and property on harness cases.
   A case is an operation history on a fresh store together with what the
   implementation returned: per step the error class of the operation and, for
   every key of the case's alphabet, what ForEach and Find gave afterwards. *)
From DnsV Require Export Model.Batch Spec.MapOfLists.
Open Scope N_scope.

(* present: is the key itself in the store (Del of a never-stored value gives ErrNXVal, not ErrNXKey)?
   0 no, 1 yes, 2 not observed *)
Record obs := mkobs { fe_err : N; vals : list bytes; find_err : N; find_val : bytes; present : N }.
Record stp := mkstep { sop : op; serr : N; sobs : list obs }.   (* sobs: one per key, in order *)
Record case := mk { ckeys : list bytes; csteps : list stp }.

Definition obs_eqb (a b : obs) : bool :=
  (fe_err a =? fe_err b) && vlist_eqb (vals a) (vals b) &&
  (find_err a =? find_err b) && bytes_eqb (find_val a) (find_val b) &&
  ((present b =? 2) || (present a =? present b)).   (* a = model, b = observed *)

Fixpoint all2 {A B} (f : A -> B -> bool) (l1 : list A) (l2 : list B) : bool :=
  match l1, l2 with
  | [], [] => true
  | x :: a, y :: b => f x y && all2 f a b
  | _, _ => false
  end.

(* ---------------------------------------------------------------- model *)

(* what the model's Find / ForEach return for key k *)
Definition model_obs (s : store) (k : bytes) : obs :=
  let '(vs, e) := rdb_for_each s k in
  let p := match s k with Some _ => 1 | None => 0 end in
  match rdb_find s k with
  | Ok v => mkobs e vs 0 v p
  | Err fe => mkobs e vs fe [] p
  end.

(* the sort instance the model is evaluated with: a stable sort.  sort.Slice may
   return any sorted permutation, so after a successful batch the model's lists
   are compared with the observed ones up to the order of that batch's additions
   (same surviving old values in the same places, same multiset after them); the
   model then goes on from the order the implementation chose. *)
Definition msort := kv_isort.

Definition old_survivors (s : store) (dels : list kv) (k : bytes) : nat :=
  length (remove_avail (vals_of k dels) (fst (rdb_for_each s k))).

Definition resync (s : store) (k : bytes) (o : obs) : store :=
  if vlist_eqb (fst (rdb_for_each s k)) (vals o) then s
  else match vals o with
       | [] => delete s k
       | vs => put s k (append_values [] vs)
       end.

Fixpoint resync_all (s : store) (keys : list bytes) (os : list obs) : store :=
  match keys, os with
  | k :: kr, o :: orr => resync_all (resync s k o) kr orr
  | _, _ => s
  end.

(* the store the harness read after the step: the restored copy after a successful ORestore
   (whether or not the history goes on with it), else the current store *)
Definition view_after (o : op) (before after : store * option store) : store :=
  match o, snd before with
  | ORestore _, Some bs => bs
  | _, _ => fst after
  end.

Definition model_step_ok (keys : list bytes) (sb : store * option store) (st : stp) : bool * (store * option store) :=
  let s := fst sb in
  let '(sb1, e) := model_bstep msort sb (sop st) in
  let s1 := fst sb1 in
  let b1 := snd sb1 in
  let exact := (e =? serr st) && all2 (fun k o => obs_eqb (model_obs (view_after (sop st) sb sb1) k) o) keys (sobs st) in
  match sop st with
  | OBatch adds dels =>
      if e =? 0 then
        let near := all2 (fun k o => upto_new_b (old_survivors s dels k) (fst (rdb_for_each s1 k)) (vals o)) keys (sobs st) in
        let s2 := resync_all s1 keys (sobs st) in
        ((e =? serr st) && near && all2 (fun k o => obs_eqb (model_obs s2 k) o) keys (sobs st), (s2, b1))
      else (exact, sb1)
  | _ => (exact, sb1)
  end.

Fixpoint model_steps_ok (keys : list bytes) (s : store * option store) (sts : list stp) : bool :=
  match sts with
  | [] => true
  | st :: r => let '(ok, s1) := model_step_ok keys s st in ok && model_steps_ok keys s1 r
  end.

(* correspondence: the model computes what the implementation returned *)
Definition model_ok (c : case) : bool := model_steps_ok (ckeys c) (empty_store, None) (csteps c).

(* for replay files: error class and readings of the model after every step *)
Fixpoint model_trace (keys : list bytes) (s : store * option store) (sts : list stp) : list (N * list (list bytes)) :=
  match sts with
  | [] => []
  | st :: r => let '(sm, e) := model_bstep msort s (sop st) in    (* the model's own result, stable sort *)
               let '(_, s1) := model_step_ok keys s st in          (* goes on from the observed order *)
               (e, map (fun k => fst (rdb_for_each (view_after (sop st) s sm) k)) keys) :: model_trace keys s1 r
  end.
Definition model_out (c : case) := model_trace (ckeys c) (empty_store, None) (csteps c).

(* ---------------------------------------------------------------- property *)

(* the map the implementation showed: key i of the alphabet -> i-th ForEach reading *)
Fixpoint seen (keys : list bytes) (os : list obs) : smap :=
  match keys, os with
  | k :: kr, o :: orr => m_set (seen kr orr) k (vals o)
  | _, _ => m_empty
  end.

Definition same_on (keys : list bytes) (m1 m2 : smap) : bool :=
  forallb (fun k => vlist_eqb (m1 k) (m2 k)) keys.

(* reading: ForEach succeeds, Find gives the first value, or fails when there is none;
   the key is there iff it has a value (it goes with its last value) *)
Definition read_ok (o : obs) : bool :=
  (fe_err o =? 0) &&
  match vals o with
  | [] => negb (find_err o =? 0) && negb (present o =? 1)
  | v :: _ => (find_err o =? 0) && bytes_eqb (find_val o) v && negb (present o =? 0)
  end.

(* one step, judged on observations only: pre = map seen before, post = map seen after,
   snap = map seen when the latest backup into the backup directory was taken *)
Definition spec_step_ok (keys : list bytes) (pre : smap) (snap : option smap) (st : stp) : bool :=
  let post := seen keys (sobs st) in
  let failed := negb (serr st =? 0) in
  (length keys =? length (sobs st))%nat && forallb read_ok (sobs st) &&
  match sop st with
  | OAdd k v => negb failed && same_on keys post (m_add pre k v)
  | ODel k v =>
      match m_del pre k v with
      | Some m' => negb failed && same_on keys post m'
      | None => failed && same_on keys post pre
      end
  | OBatch adds dels =>
      match m_batch pre adds dels with
      | Some m' => negb failed &&
                   forallb (fun k => upto_new_b (length (remove_avail (vals_of k dels) (pre k))) (m' k) (post k)) keys
      | None => failed && same_on keys post pre
      end
  | OBackupRestore | OReopen | OBackup => negb failed && same_on keys post pre
  | ORestore _ =>                     (* post = the content of the restored copy *)
      match snap with
      | Some bm => negb failed && same_on keys post bm
      | None => failed && same_on keys post pre
      end
  end.

(* the maps the next step starts from: a restored copy is the current store only with cont *)
Definition spec_next (keys : list bytes) (pre : smap) (snap : option smap) (st : stp) : smap * option smap :=
  let post := seen keys (sobs st) in
  match sop st with
  | OBackup => (post, Some post)
  | ORestore cont => match snap with
                     | Some _ => (if cont then post else pre, snap)
                     | None => (post, snap)
                     end
  | _ => (post, snap)
  end.

Fixpoint spec_steps_ok (keys : list bytes) (pre : smap) (snap : option smap) (sts : list stp) : bool :=
  match sts with
  | [] => true
  | st :: r => spec_step_ok keys pre snap st &&
               let '(pre1, snap1) := spec_next keys pre snap st in spec_steps_ok keys pre1 snap1 r
  end.

(* every key an operation names must be in the alphabet, else "unchanged elsewhere" is not checked *)
Definition key_in (keys : list bytes) (k : bytes) : bool := existsb (bytes_eqb k) keys.
Definition op_keys_in (keys : list bytes) (o : op) : bool :=
  match o with
  | OAdd k _ | ODel k _ => key_in keys k
  | OBatch adds dels => forallb (fun p => key_in keys (fst p)) (adds ++ dels)
  | OBackupRestore | OReopen | OBackup | ORestore _ => true
  end.

(* the property itself, evaluated on the implementation's observations *)
Definition spec_ok (c : case) : bool :=
  forallb (fun st => op_keys_in (ckeys c) (sop st)) (csteps c) &&
  spec_steps_ok (ckeys c) m_empty None (csteps c).
