(* Run/C17: evaluation of model and property on harness cases. *)
From DnsV Require Import Model.Quote.
Open Scope N_scope.

Inductive kind := KRt | KUnq.
Record case := mk { ckind : kind; cin : bytes; cprint : list (N * bool);
                    cquoted : bytes; cunq_ok : bool; cunq : bytes }.

Fixpoint lookup (l : list (N * bool)) (r : N) : bool :=
  match l with [] => false | (k, v) :: t => if k =? r then v else lookup t r end.

Definition res_matches (r : result bytes) (ok : bool) (v : bytes) : bool :=
  match r with Ok x => ok && bytes_eqb x v | Err _ => negb ok end.

(* correspondence: the model computes what the implementation returned *)
Definition model_ok (c : case) : bool :=
  match ckind c with
  | KRt => let q := bquote (lookup (cprint c)) (cin c) in
           bytes_eqb q (cquoted c) && res_matches (bunquote q) (cunq_ok c) (cunq c)
  | KUnq => res_matches (bunquote (cin c)) (cunq_ok c) (cunq c)
  end.

(* the property itself, evaluated on the implementation's observations *)
Definition no_sep (s : bytes) : bool := negb (contains 44 s || contains 58 s || contains 10 s).
Definition spec_ok (c : case) : bool :=
  match ckind c with
  | KRt => cunq_ok c && bytes_eqb (cunq c) (cin c) && no_sep (cquoted c)
  | KUnq => true
  end.
